(* Run/Serde.v — case runner of the serde family (C06); cases come from harness/src/bin/serde.rs. *)
From FV Require Import Base.Bytes Base.U64 Base.Sha256 Serde.DataModel Serde.PoliciesModel Serde.DeriveModel
  Serde.RepoSchemas Serde.UpgradeModel.
Open Scope N_scope.

(* what UpgradeMetadata::compute returned, canonicalised *)
Inductive cres : Type :=
| UOk (calculated_checksum : bytes)
| UIndexBounds | UChecksumMismatch | UDeserialization | UOther.

Inductive scase : Type :=
(* Policies value (raw private state), the tree the real Serialize emitted, and whether the real
   Deserialize driven from that tree (positional / named transport) and the real byte formats
   gave the value back *)
| CPolSer (hr : bool) (p : policies) (tree : dval) (rt_seq rt_map rt_real : bool)
(* the real Deserialize impl on an arbitrary tree *)
| CPolDe (sd hr : bool) (tree : dval) (res : dres policies)
(* a value of a derived type in neutral form and the tree the derive output emitted *)
| CDerive (schema : N) (hr : bool) (v : sval) (tree : dval) (ok_seq ok_map : bool)
(* UpgradeMetadata::compute; [de_ok] is the answer of the postcard oracle on the indexed witness *)
| CCompute (ws : list bytes) (idx : N) (checksum : bytes) (de_ok : bool) (res : cres).

Definition pol_res_eqb (a b : dres policies) : bool :=
  match a, b with
  | DOk x, DOk y => policies_eqb x y
  | DErr x, DErr y => derr_eqb x y
  | _, _ => false
  end.
Definition is_ok_pol (r : dres policies) (p : policies) : bool :=
  match r with DOk q => policies_eqb q p | DErr _ => false end.

Definition check_scase (c : scase) : bool :=
  match c with
  | CPolSer hr p tree rt_seq rt_map rt_real =>
      dval_eqb (ser_policies hr p) tree &&
      Bool.eqb (is_ok_pol (de_policies false hr tree) p) rt_seq &&
      Bool.eqb (is_ok_pol (de_policies true hr tree) p) rt_map &&
      (* the round-trip characterisation proved in SerdeProofs.v, executed *)
      Bool.eqb (rt_ok p && (if hr then bits_text_ok (p_bits p) else true)) rt_seq &&
      Bool.eqb rt_seq rt_map && Bool.eqb rt_seq rt_real
  | CPolDe sd hr tree res => pol_res_eqb (de_policies sd hr tree) res
  | CDerive s hr v tree ok_seq ok_map =>
      let t := schema_of s in
      has_sty hr t v && wf_sty t &&
      dval_eqb (ser hr t v) tree &&
      Bool.eqb (match de false hr t tree with DOk v' => sval_eqb v' (erase t v) | DErr _ => false end) ok_seq &&
      Bool.eqb (match de true hr t tree with DOk v' => sval_eqb v' (erase t v) | DErr _ => false end) ok_map &&
      ok_seq && ok_map
  | CCompute ws idx checksum de_ok res =>
      let m := compute unit sha256 (fun _ => if de_ok then Some tt else None) (PConsensusParameters idx checksum) ws in
      match m, res with
      | UpgradeModel.UOk (MConsensusParameters _ c), UOk c' => bytes_eqb c c' && bytes_eqb c checksum
      | UErr UpgradeModel.UIndexBounds, UIndexBounds => true
      | UErr UpgradeModel.UChecksumMismatch, UChecksumMismatch => true
      | UErr UpgradeModel.UDeserialization, UDeserialization => true
      | _, _ => false
      end
  end.

Definition bad {A} (chk : A -> bool) (cs : list (N * A)) : list N :=
  map fst (filter (fun c => negb (chk (snd c))) cs).
Definition bad_scases := bad check_scase.
