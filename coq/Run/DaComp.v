(* Run/DaComp.v — executable compression context (the model of the HARNESS's context: rotating
   registry of DaComp/RegistryModel.v, sequential UTXO ids, fact tables) and the case runner of
   C07; cases come from harness/src/bin/dacomp.rs. *)
From FV Require Import Base.Bytes Base.U64 Base.Map DaComp.RegistryModel DaComp.CompressModel DaComp.TxSchema.
Open Scope N_scope.

Fixpoint vassoc {A} (k : val) (l : list (val * A)) : option A :=
  match l with [] => None | (k', x) :: r => if val_eqb k k' then Some x else vassoc k r end.
Fixpoint vindex (k : val) (l : list val) (i : N) : option N :=
  match l with [] => None | x :: r => if val_eqb k x then Some i else vindex k r (i + 1) end.

Record mctx : Type := mkCtx {
  m_reg : registry;
  m_utxos : list val;                               (* compressed id n <-> n-th utxo id *)
  m_coins : list (val * (val * val * val));         (* newest first *)
  m_msgs : list (val * (val * val * val * val));
  m_mint : option val;
}.
Definition ctx_new (start : N) : mctx := mkCtx (mkReg start []) [] [] [] None.

Definition m_reg_compress (c : mctx) (ks : N) (b : bytes) : option (mctx * N) :=
  match reg_compress (m_reg c) ks b with
  | Some (r', k, _) => Some (mkCtx r' (m_utxos c) (m_coins c) (m_msgs c) (m_mint c), k)
  | None => None
  end.
Definition compressed_utxo (i : N) : val := VR [VR [VN i; VN 0]; VN 0].
Definition m_utxo_compress (c : mctx) (u : val) : option (mctx * val) :=
  match vindex u (m_utxos c) 0 with
  | Some i => Some (c, compressed_utxo i)
  | None => Some (mkCtx (m_reg c) (m_utxos c ++ [u]) (m_coins c) (m_msgs c) (m_mint c), compressed_utxo (lenN (m_utxos c)))
  end.
Definition m_reg_get (c : mctx) (ks k : N) : option bytes := reg_lookup (m_reg c) ks k.
Definition m_utxo_get (c : mctx) (cu : val) : option val :=
  match cu with
  | VR [VR [VN i; VN 0]; VN 0] => nth_error (m_utxos c) (N.to_nat i)
  | _ => None
  end.
Definition m_coin_info (c : mctx) (u : val) := vassoc u (m_coins c).
Definition m_msg_info (c : mctx) (n : val) := vassoc n (m_msgs c).

Definition m_compress := compress mctx m_reg_compress m_utxo_compress.
Definition m_decompress := decompress mctx m_reg_get m_utxo_get m_coin_info m_msg_info m_mint.

(* store_tx_info: the facts about the coins / messages a transaction spends, and the mint position *)
Definition input_facts (c : mctx) (i : val) : mctx :=
  match i with
  | VE k [VR fs] =>
      match k, fs with
      | (0 | 1)%nat, u :: o :: a :: s :: _ =>
          mkCtx (m_reg c) (m_utxos c) ((u, (o, a, s)) :: m_coins c) (m_msgs c) (m_mint c)
      | (3 | 4)%nat, sn :: rc :: a :: n :: _ =>
          mkCtx (m_reg c) (m_utxos c) (m_coins c) ((n, (sn, rc, a, VB [])) :: m_msgs c) (m_mint c)
      | (5 | 6)%nat, sn :: rc :: a :: n :: _ :: _ :: dt :: _ =>
          mkCtx (m_reg c) (m_utxos c) (m_coins c) ((n, (sn, rc, a, dt)) :: m_msgs c) (m_mint c)
      | _, _ => c
      end
  | _ => c
  end.
Definition store_tx_info (c : mctx) (tx : val) : mctx :=
  match tx with
  | VE 2 [VR (p :: _)] => mkCtx (m_reg c) (m_utxos c) (m_coins c) (m_msgs c) (Some p)
  | VE _ [VR [_; _; VL ins; _; _]] => fold_left input_facts ins c
  | _ => c
  end.
Definition begin_tx (c : mctx) : mctx := mkCtx (reg_begin_tx (m_reg c)) (m_utxos c) (m_coins c) (m_msgs c) (m_mint c).

Inductive kop : Type := KBegin | KPut (ks : N) (v : bytes).

Inductive ccase : Type :=
| CNext (k : N) (r : option N) (not_key : bool)
| CKeys (start : N) (ops : list kop) (keys : list (N * bool))
| CSeq (start : N) (txs : list (val * val * val)).   (* original, compressed, decompressed *)

Fixpoint run_keys (r : registry) (ops : list kop) : option (list (N * bool)) :=
  match ops with
  | [] => Some []
  | KBegin :: rest => run_keys (reg_begin_tx r) rest
  | KPut ks v :: rest =>
      match reg_compress r ks v with
      | Some (r', k, a) => match run_keys r' rest with Some l => Some ((k, a) :: l) | None => None end
      | None => None
      end
  end.
Fixpoint keys_eqb (a b : list (N * bool)) : bool :=
  match a, b with
  | [], [] => true
  | (k, x) :: a', (j, y) :: b' => (k =? j) && Bool.eqb x y && keys_eqb a' b'
  | _, _ => false
  end.

Fixpoint run_seq (c : mctx) (txs : list (val * val * val)) : bool :=
  match txs with
  | [] => true
  | (tx, comp, dec) :: rest =>
      let c1 := store_tx_info (begin_tx c) tx in
      match m_compress T_Transaction c1 tx with
      | Some (c2, comp', _) =>
          val_eqb comp' comp &&
          match m_decompress T_Transaction c2 comp' with
          | COk dec' =>
              val_eqb dec' dec &&
              (* the statements of C07, executed: fields and id view *)
              val_eqb dec' (erase only_default T_Transaction tx) &&
              val_eqb (strip T_Transaction dec') (strip T_Transaction tx)
          | CErr _ => false
          end &&
          run_seq c2 rest
      | None => false
      end
  end.

Definition check_ccase (c : ccase) : bool :=
  match c with
  | CNext k r not_key =>
      if not_key then negb (is_key k)
      else is_key k && match next k, r with Some a, Some b => a =? b | None, None => true | _, _ => false end
  | CKeys start ops keys =>
      match run_keys (mkReg start []) ops with Some l => keys_eqb l keys | None => false end
  | CSeq start txs => run_seq (ctx_new start) txs
  end.

Definition bad {A} (chk : A -> bool) (cs : list (N * A)) : list N :=
  map fst (filter (fun c => negb (chk (snd c))) cs).
Definition bad_ccases := bad check_ccase.
