(* Run/NoCrash.v — case runner of the C29 correspondence check (cases are produced by
   harness/src/bin/nocrash.rs).

   A case is the gas trace of one real run (random byte program, garbage or grammar program):
   per executed instruction the opcode byte, by how much $ggas dropped, $cgas and $ggas afterwards
   and how the instruction ended.  The checker validates on it exactly the premises and the
   conclusion of the C29 termination theorem:
     - $ggas never increases, $cgas <= $ggas throughout (C26's invariant, which the unchecked
       subtraction of gas_charge relies on), the run starts with $cgas = $ggas = gas limit;
     - under the default schedule every instruction that completed dropped $ggas by at least the
       base cost Gen/GasTable.v records for its opcode (hence by >= 1), an instruction whose opcode
       has no cost entry (undefined, ECAL) ends the run without charging, a failed fetch charges
       nothing;
     - under the default schedule the run terminated and executed at most gas_limit + 1 instructions. *)
From Coq Require Import List NArith Bool.
From FV Require Import Base.Bytes Vm.FlowSpec Vm.GasTypes Vm.GasSpec Gen.GasTable Vm.GasModel.
Import ListNotations.
Open Scope N_scope.

Definition bad {A} (chk : A -> bool) (cs : list (N * A)) : list N :=
  map fst (filter (fun c => negb (chk (snd c))) cs).

(* how a step ended: 0 = the loop continued (Proceed / Return inside a call), 1 = the script ended
   normally (RET/RETD/RVRT at the top level), 2 = panic, 3 = the fetch failed (no instruction executed) *)
Record nstep := { ns_op : N; ns_drop : N; ns_cgas : N; ns_ggas : N; ns_kind : N }.
Definition mk (t : N * N * N * N * N) : nstep :=
  let '(op, drop, c, g, k) := t in {| ns_op := op; ns_drop := drop; ns_cgas := c; ns_ggas := g; ns_kind := k |}.
Record nocrash_case := {
  nc_default : bool;            (* default gas schedule *)
  nc_gas_limit : N;
  nc_raw : list (N * N * N * N * N);   (* (opcode, $ggas drop, $cgas after, $ggas after, kind) per step *)
  nc_terminated : bool;         (* the real run ended (no step budget hit) *)
}.
Definition nc_steps (c : nocrash_case) : list nstep := map mk (nc_raw c).

Definition check_step (default : bool) (ggas_before : N) (s : nstep) : bool :=
  (ns_drop s <=? ggas_before) && (ns_ggas s =? ggas_before - ns_drop s) && (ns_cgas s <=? ns_ggas s) &&
  (if default then
     match ns_kind s with
     | 0 | 1 => match base_cost_default (ns_op s) with Some b => (1 <=? b) && (b <=? ns_drop s) | None => false end
     | 2 => match base_cost_default (ns_op s) with Some _ => true | None => ns_drop s =? 0 end
     | _ => ns_drop s =? 0
     end
   else true).

Fixpoint check_steps (default : bool) (ggas : N) (l : list nstep) : bool :=
  match l with
  | [] => true
  | s :: rest =>
      check_step default ggas s &&
      (* only the last step may end the run *)
      (match ns_kind s, rest with 0, _ => true | _, [] => true | _, _ => false end) &&
      check_steps default (ns_ggas s) rest
  end.

Definition executed (l : list nstep) : N := lenN (filter (fun s => negb (ns_kind s =? 3)) l).

Definition check_nocrash (c : nocrash_case) : bool :=
  check_steps (nc_default c) (nc_gas_limit c) (nc_steps c) &&
  (if nc_default c then nc_terminated c && (executed (nc_steps c) <=? nc_gas_limit c + 1) else true).
Definition bad_nocrash := bad check_nocrash.

(* self-test: ADD, ADDI, an undefined opcode (0x0f) under the default schedule with 5 units of gas *)
Example nocrash_selftest :
  check_nocrash {| nc_default := true; nc_gas_limit := 5;
                   nc_raw := [ (16, 1, 4, 4, 0); (80, 1, 3, 3, 0); (15, 0, 3, 3, 2) ];
                   nc_terminated := true |} = true
  /\ (* an instruction that completes for free is rejected *)
  check_nocrash {| nc_default := true; nc_gas_limit := 5;
                   nc_raw := [ (16, 0, 5, 5, 0) ];
                   nc_terminated := true |} = false.
Proof. split; vm_compute; reflexivity. Qed.
