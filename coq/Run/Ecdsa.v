(* Run/Ecdsa.v — case runner for C16 / C17: the model of Crypto/EcdsaModel.v instantiated with the
   executable curves of Crypto/Secp256k1.v, evaluated on cases produced by harness/src/bin/ecdsa.rs
   (inputs + what the real back-ends returned). *)
From Coq Require Import ZArith List Bool.
From FV Require Import Base.Bytes Crypto.EcdsaModel Crypto.Secp256k1 Crypto.VmCryptoModel.
Import ListNotations.
Open Scope Z_scope.

Definition obytes_eqb (a b : option bytes) : bool :=
  match a, b with
  | Some x, Some y => bytes_eqb x y
  | None, None => true
  | _, _ => false
  end.
Definition obool_eqb (a b : option bool) : bool :=
  match a, b with
  | Some x, Some y => Bool.eqb x y
  | None, None => true
  | _, _ => false
  end.

Definition K1 := secp256k1.
Definition R1 := secp256r1.
Definition lib_rules (C : curve) := rules_libsecp (c_n C).
Definition k256_rules (C : curve) := rules_k256 (c_n C).
Definition p256_rules (C : curve) := rules_p256.

(* recover by both secp256k1 back-ends, sharing the candidate-key computation where they coincide:
   libsecp256k1 = recover under lib_rules; k256 = normalise (s -> n - s, parity flipped, when s is
   high), then recover under k256_rules. *)
Definition m_recover2 (C : curve) (sig msg : bytes) : option bytes * option bytes :=
  let '(sg, v) := decode_signature sig in
  let r := sig_r sg in
  let s := sig_s sg in
  let n := c_n C in
  let z := msg_z n msg in
  let core := recover_core apoint a_eqb (a_add C) None (a_smul C) (a_G C) n (a_lift C) r s v z in
  let out (o : option apoint) := match o with Some Q => pk_bytes Q | None => None end in
  let fin (R : rules) (s' : Z) (c : option apoint) :=
    recover_finish apoint a_eqb (a_add C) None (a_smul C) (a_G C) n a_x R r s' z c in
  (out (if in_range n s && is_high n s
        then fin (k256_rules C) (n - s)
               (recover_core apoint a_eqb (a_add C) None (a_smul C) (a_G C) n (a_lift C) r (n - s) (negb v) z)
        else fin (k256_rules C) s core),
   out (fin (lib_rules C) s core)).

Lemma m_recover2_is_recover C sig msg :
  m_recover2 C sig msg = (m_recover_k256 C sig msg, m_recover C (lib_rules C) sig msg).
Proof.
  unfold m_recover2, m_recover_k256, m_recover, recover_norm, recover, recover_rsv_normalising, recover_rsv.
  destruct (decode_signature sig) as [sg v].
  destruct (in_range (c_n C) (sig_s sg) && is_high (c_n C) (sig_s sg)); reflexivity.
Qed.

Inductive ecase :=
| ERec (sig msg : bytes) (k256 secp : option bytes)      (* k1 recover by both back-ends: Some pk / None *)
| EVer (sig pk msg : bytes) (k256 secp : bool)           (* k1 verify: accepted? *)
| EPub (d pk : bytes)                                     (* k1 public key of secret d *)
| ESign (d msg sig : bytes)                               (* k1: sig = sign(d, msg) by the library *)
| ER1 (sig msg : bytes) (rec : option bytes)              (* secp256r1::recover *)
| EFmt (sig stripped : bytes)                             (* Signature::remove_recovery_id *)
| EVm (ops : list vmop).                                  (* ECK1/ECR1/ED19 in one script: $err, output after each op *)

Definition check_ecase (c : ecase) : bool :=
  match c with
  | ERec sig msg k s =>
      let '(mk, ms) := m_recover2 K1 sig msg in
      obytes_eqb mk k && obytes_eqb ms s
  | EVer sig pk msg k s =>
      (* verify depends on the rules only through ver_s_ok, which is the same function for both *)
      let m := m_verify K1 (lib_rules K1) sig pk msg in
      Bool.eqb m k && Bool.eqb m s
  | EPub d pk => obytes_eqb (m_public_key K1 d) (Some pk)
  | ESign d msg sig =>
      (* produced signatures: normalised (low s), recover the signer's key *)
      let '(sg, _) := decode_signature sig in
      low_s (c_n K1) (sig_s sg) &&
      obytes_eqb (m_recover K1 (lib_rules K1) sig msg) (m_public_key K1 d)
  | ER1 sig msg r => obytes_eqb (m_recover R1 (p256_rules R1) sig msg) r
  | EFmt sig stripped => bytes_eqb (fst (decode_signature sig)) stripped
  | EVm ops => vm_seq_ok 0%N ops
  end.

Lemma verify_rules_shared C sig Q msg :
  verify apoint a_eqb (a_add C) None (a_smul C) (a_G C) (c_n C) a_x (k256_rules C) sig Q msg =
  verify apoint a_eqb (a_add C) None (a_smul C) (a_G C) (c_n C) a_x (lib_rules C) sig Q msg.
Proof. reflexivity. Qed.

Definition bad {A} (chk : A -> bool) (cs : list (N * A)) : list N :=
  map fst (filter (fun c => negb (chk (snd c))) cs).
Definition bad_ecases := bad check_ecase.
