(* Run/Smt.v — executable instance of the sparse-Merkle L1 model (SHA-256, 32-byte keys) and
   the case runner of the correspondence check (cases come from harness/src/bin/smt.rs).
   The L2 functional tree and the L3 spec root are executed on the same histories as a
   labelled TEST of the theorems' statements (not a proof). *)
From FV Require Import Base.Bytes Base.Sha256 Merkle.SparseSpec Merkle.SparseFun Merkle.SparseModel Merkle.SparseMsb.
Open Scope N_scope.

(* ---------------------------------------------------------------- the instance *)
Definition zero32 : bytes := zeros 32.
Definition h_leaf (k v : bytes) : bytes := sha256 (0 :: k ++ v).
Definition h_node (l r : bytes) : bytes := sha256 (1 :: l ++ r).

Definition stree := @tree bytes.
Definition snode := @node bytes.
Definition sproof := @proof bytes.

Definition s_new : stree := tree_new [].
Definition s_insert (t : stree) k v := tree_insert bytes_eqb zero32 h_leaf h_node sha256 get_bit_at_index_from_msb common_prefix_count t k v.
Definition s_delete (t : stree) k := tree_delete bytes_eqb zero32 h_leaf h_node get_bit_at_index_from_msb t k.
Definition s_load (st : @store bytes) r := tree_load bytes_eqb zero32 h_leaf h_node st r.
Definition s_prove (t : stree) k := generate_proof bytes_eqb zero32 h_leaf h_node get_bit_at_index_from_msb t k.
Definition s_from_set st kvs := from_set bytes_eqb zero32 h_leaf h_node sha256 get_bit_at_index_from_msb common_prefix_count bytes_compare st kvs.
Definition s_root_from_set kvs := root_from_set zero32 h_leaf h_node sha256 get_bit_at_index_from_msb common_prefix_count bytes_compare kvs.
Definition s_nodes_from_set kvs := nodes_from_set zero32 h_leaf h_node sha256 get_bit_at_index_from_msb common_prefix_count bytes_compare kvs.
Definition s_incl_verify ps root key value := inclusion_verify bytes_eqb h_leaf h_node sha256 get_bit_at_index_from_msb ps root key value.
Definition s_excl_verify ps leaf root key := exclusion_verify bytes_eqb zero32 h_leaf h_node get_bit_at_index_from_msb ps leaf root key.

(* ---------------------------------------------------------------- bits <-> bytes (for L2/L3): Merkle/SparseMsb.v *)
Definition spec_hleaf (k : key) (v : bytes) : bytes := h_leaf (bytes_of_bits k) v.
Definition spec_root (m : @smap bytes) : bytes := smt_root zero32 spec_hleaf h_node 256 m.

(* ---------------------------------------------------------------- cases *)
Definition kvs := list (bytes * bytes).

Inductive sop :=
| OUpd (k v : bytes)            (* MerkleTree::insert *)
| ODel (k : bytes)              (* MerkleTree::delete *)
| OLoad                         (* into_storage(); MerkleTree::load(storage, &root) *)
| OLoadAt (r : bytes)           (* into_storage(); MerkleTree::load(storage, &r); on Err: MerkleTree::new(storage) *)
| OProve (k : bytes)            (* generate_proof *)
| ORemove (d : bytes)           (* tamper: into_storage(); storage.remove(&d); load at the old root (on Err: new) *)
| OPut (d : bytes) (height pfx : N) (lo hi : bytes)   (* tamper: storage.insert(&d, &(height, pfx, lo, hi)); load *)
| OFromSet (s : kvs)            (* tree := MerkleTree::from_set(StorageMap::new(), s) *)
| OFromNodes (s : kvs).         (* nodes_from_set(s) inserted into a fresh StorageMap; load at the returned root *)

Inductive sres :=
| RRoot (r : bytes)                           (* Ok; root after the op *)
| RErr (code : N) (r : bytes)                 (* Err(kind); root after the op *)
| RIncl (ps : list bytes)
| RExcl (ps : list bytes) (leaf : option (bytes * bytes)).

Inductive vclaim :=
| VIncl (value : bytes) (ps : list bytes)
| VExcl (ps : list bytes) (leaf : option (bytes * bytes)).

Definition prim4 := (N * N * bytes * bytes)%type.

Inductive smt_case :=
| CHist (ops : list sop) (results : list sres) (store_len : N)
| CSet (s : kvs) (from_set_root root_from_set nodes_root : bytes) (from_set_store_len nodes_len : N)
       (nodes : option (list (bytes * prim4)))
| CVerify (root key : bytes) (claim : vclaim) (verdict : bool).

(* ---------------------------------------------------------------- running a history on L1 *)
Definition with_result (t : stree) (r : res unit) : stree * sres :=
  match r with
  | Ok _ => (t, RRoot (tree_root zero32 t))
  | Err e => (t, RErr (err_code e) (tree_root zero32 t))
  end.

Definition load_or_new (st : @store bytes) (r : bytes) : stree * sres :=
  match s_load st r with
  | Ok t' => (t', RRoot (tree_root zero32 t'))
  | Err e => (tree_new st, RErr (err_code e) zero32)
  end.

Definition run_op (t : stree) (o : sop) : stree * sres :=
  match o with
  | OUpd k v => let '(t', r) := s_insert t k v in with_result t' r
  | ODel k => let '(t', r) := s_delete t k in with_result t' r
  | OLoad => load_or_new (t_store t) (tree_root zero32 t)
  | OLoadAt r => load_or_new (t_store t) r
  | OProve k =>
      match s_prove t k with
      | Ok (Inclusion ps) => (t, RIncl ps)
      | Ok (Exclusion ps (ExLeaf k' v')) => (t, RExcl ps (Some (k', v')))
      | Ok (Exclusion ps ExPlaceholder) => (t, RExcl ps None)
      | Err e => (t, RErr (err_code e) (tree_root zero32 t))
      end
  | ORemove d => load_or_new (sdel bytes_eqb (t_store t) d) (tree_root zero32 t)
  | OPut d h p lo hi => load_or_new (sset bytes_eqb (t_store t) d (mkPrim h p lo hi)) (tree_root zero32 t)
  | OFromSet s =>
      match s_from_set [] s with
      | Ok t' => (t', RRoot (tree_root zero32 t'))
      | Err e => (s_new, RErr (err_code e) zero32)
      end
  | OFromNodes s =>
      match s_nodes_from_set s with
      | Ok (r, nodes) => load_or_new (fold_left (fun st e => sset bytes_eqb st (fst e) (snd e)) nodes []) r
      | Err e => (s_new, RErr (err_code e) zero32)
      end
  end.

Fixpoint run_ops (t : stree) (ops : list sop) : stree * list sres :=
  match ops with
  | [] => (t, [])
  | o :: r => let '(t1, x) := run_op t o in let '(t2, xs) := run_ops t1 r in (t2, x :: xs)
  end.

(* ---------------------------------------------------------------- equality of results *)
Fixpoint list_eqb {A B} (eqb : A -> B -> bool) (a : list A) (b : list B) : bool :=
  match a, b with
  | [], [] => true
  | x :: a', y :: b' => eqb x y && list_eqb eqb a' b'
  | _, _ => false
  end.
Definition opt_pair_eqb (a b : option (bytes * bytes)) : bool :=
  match a, b with
  | None, None => true
  | Some (k, v), Some (k', v') => bytes_eqb k k' && bytes_eqb v v'
  | _, _ => false
  end.
Definition sres_eqb (a b : sres) : bool :=
  match a, b with
  | RRoot r, RRoot r' => bytes_eqb r r'
  | RErr c r, RErr c' r' => (c =? c') && bytes_eqb r r'
  | RIncl ps, RIncl ps' => list_eqb bytes_eqb ps ps'
  | RExcl ps l, RExcl ps' l' => list_eqb bytes_eqb ps ps' && opt_pair_eqb l l'
  | _, _ => false
  end.

(* ---------------------------------------------------------------- L2 / L3 on the same history (labelled test) *)
Definition plain_op (o : sop) : bool :=
  match o with OUpd _ _ | ODel _ | OLoad | OProve _ => true | _ => false end.
Definition ok_res (r : sres) : bool := match r with RErr _ _ => false | _ => true end.

Definition mop_of (o : sop) : list (@mop bytes) :=
  match o with
  | OUpd k v => [MSet (bits_of_bytes k) (sha256 v)]
  | ODel k => [MDel (bits_of_bytes k)]
  | _ => []
  end.
Definition l3_root (ops : list sop) : bytes := spec_root (map_after (flat_map mop_of ops)).
Definition l2_root (ops : list sop) : bytes :=
  c_root zero32 spec_hleaf h_node [] (fold_left c_step (flat_map mop_of ops) CE).

Definition last_root (rs : list sres) : bytes :=
  fold_left (fun acc r => match r with RRoot x => x | RErr _ x => x | _ => acc end) rs zero32.

Definition check_hist (ops : list sop) (results : list sres) (store_len : N) : bool :=
  let '(t, rs) := run_ops s_new ops in
  list_eqb sres_eqb rs results && (lenN (t_store t) =? store_len) &&
  (if forallb plain_op ops && forallb ok_res results then
     bytes_eqb (l3_root ops) (last_root results) && bytes_eqb (l2_root ops) (last_root results)
   else true).

Definition prim_eqb (a : @primitive bytes) (b : prim4) : bool :=
  let '(h, p, lo, hi) := b in
  (p_height a =? h) && (p_prefix a =? p) && bytes_eqb (p_lo a) lo && bytes_eqb (p_hi a) hi.
Definition node_entry_eqb (a : bytes * @primitive bytes) (b : bytes * prim4) : bool :=
  bytes_eqb (fst a) (fst b) && prim_eqb (snd a) (snd b).

Definition check_set (s : kvs) (from_set_root root_fs nodes_root : bytes) (fs_len nodes_len : N)
           (nodes : option (list (bytes * prim4))) : bool :=
  (match s_from_set [] s with
   | Ok t => bytes_eqb (tree_root zero32 t) from_set_root && (lenN (t_store t) =? fs_len)
   | Err _ => false end) &&
  (match s_root_from_set s with Ok r => bytes_eqb r root_fs | Err _ => false end) &&
  (match s_nodes_from_set s with
   | Ok (r, ns) => bytes_eqb r nodes_root && (lenN ns =? nodes_len) &&
                   match nodes with Some l => list_eqb node_entry_eqb ns l | None => true end
   | Err _ => false end) &&
  (* L3: the spec root of the map the set denotes (later duplicates win) *)
  bytes_eqb (spec_root (map_of_list (map (fun e => (bits_of_bytes (fst e), sha256 (snd e))) s))) from_set_root.

Definition xleaf_of (l : option (bytes * bytes)) : @exclusion_leaf bytes :=
  match l with Some (k, v) => ExLeaf k v | None => ExPlaceholder end.

Definition check_verify (root key : bytes) (c : vclaim) (verdict : bool) : bool :=
  match c with
  | VIncl value ps => match s_incl_verify ps root key value with Some b => Bool.eqb b verdict | None => false end
  | VExcl ps l => match s_excl_verify ps (xleaf_of l) root key with Some b => Bool.eqb b verdict | None => false end
  end.

Definition check_smt (c : smt_case) : bool :=
  match c with
  | CHist ops results n => check_hist ops results n
  | CSet s r1 r2 r3 n1 n2 nodes => check_set s r1 r2 r3 n1 n2 nodes
  | CVerify root key claim verdict => check_verify root key claim verdict
  end.

Definition bad {A} (chk : A -> bool) (cs : list (N * A)) : list N :=
  map fst (filter (fun c => negb (chk (snd c))) cs).
Definition bad_smt := bad check_smt.
