(* Run/Own.v — trace validation for C24 (cases produced by harness/src/bin/own.rs).
   A case is one traced transaction: an environment (layout of the VM's own area) and, per
   executed instruction, the facts the ownership model needs: opcode, argument fields and values,
   layout registers before/after, prev_hp read from the frame in VM memory, the stack high-water
   mark, the outcome and the exact runs of bytes that changed.  [check_step] replays the model
   (Vm/OwnModel.v) on these facts and accepts the step only if every changed byte lies in the
   region the opcode's class permits and, for the instructions modelled exactly, the outcome
   (completed / panic reason) is the model's. *)
From FV Require Import Base.Bytes Base.U64 Gen.VmConsts Vm.OwnModel.
Open Scope N_scope.

Definition bad {A} (chk : A -> bool) (cs : list (N * A)) : list N :=
  map fst (filter (fun c => negb (chk (snd c))) cs).

Record oenv := {
  e_max_inputs : N;               (* entries of the balance table *)
  e_vm_hi : N;                    (* initial $ssp: end of tx id | base asset | balances | transaction *)
  e_outputs : list (N * N)        (* (address, size) of each transaction output in VM memory *)
}.

Record orec := {
  s_op : N;                       (* opcode byte *)
  s_fa : N; s_fb : N; s_fc : N; s_fd : N;     (* the four 6-bit fields of the instruction word *)
  s_imm : N;                      (* immediate according to the instruction's shape *)
  s_va : N; s_vb : N; s_vc : N; s_vd : N;     (* values (before) of the registers named by the fields *)
  s_ssp : N; s_sp : N; s_hp : N; s_fp : N;    (* before *)
  s_ssp' : N; s_sp' : N; s_hp' : N;           (* after *)
  s_prev_hp : option N;           (* saved $hp in the frame at $fp (None in the script context) *)
  s_stack_len : N;                (* stack high-water mark before the step *)
  s_out : N;                      (* 0 = completed; 1 + reason byte = panicked *)
  s_changed : list (N * N);       (* maximal runs (address, length) of bytes that changed *)
  s_last : bool                   (* last step: post-execution writes of the transaction included *)
}.

Inductive ostep :=
| OQuiet (ops : list N)           (* consecutive steps: no memory class, nothing changed *)
| OStep (r : orec).

(* ---- interval cover *)
Fixpoint covered (fuel : nat) (ivs : list (N * N)) (a e : N) : bool :=
  if e <=? a then true
  else match fuel with
       | O => false
       | S k =>
           match find (fun iv => (fst iv <=? a) && (a <? snd iv)) ivs with
           | None => false
           | Some iv => covered k ivs (snd iv) e
           end
       end.
Definition all_covered (ivs : list (N * N)) (changed : list (N * N)) : bool :=
  forallb (fun c => covered (S (length ivs)) ivs (fst c) (fst c + snd c)) changed.

Definition balance_ivs (max_inputs : N) : list (N * N) :=
  map (fun i => let lo := VM_MEMORY_BALANCES_OFFSET + N.of_nat i * BALANCE_ENTRY_SIZE + 32 in (lo, lo + 8))
      (seq 0 (N.to_nat max_inputs)).
Definition output_ivs (outs : list (N * N)) : list (N * N) := map (fun o => (fst o, fst o + snd o)) outs.

Definition res_code {A} (r : res A) : N := match r with Ok _ => 0 | Err e => 1 + e end.
Definition res_iv (r : res (N * N)) : list (N * N) := match r with Ok iv => [iv] | Err _ => [] end.

Definition lenval (l : lenspec) (r : orec) : N :=
  match l with
  | LConst n => n
  | LReg FA => s_va r | LReg FB => s_vb r | LReg FC => s_vc r | LReg FD => s_vd r
  | LImm => s_imm r
  end.

Definition out_of_gas (r : orec) : bool := s_out r =? 1 + PANIC_OutOfGas.
Definition is_ok (r : orec) : bool := s_out r =? 0.

(* exact agreement of the outcome with a model verdict (gas exhaustion happens before) *)
Definition outcome_matches {A} (r : orec) (model : res A) : bool :=
  out_of_gas r || (s_out r =? res_code model).

Definition owner_of (r : orec) : ownregs := own_new (s_ssp r) (s_sp r) (s_hp r) (s_prev_hp r).
Definition mem_of (r : orec) : amem := {| m_data := fun _ => 0; m_stack_len := s_stack_len r; m_hp := s_hp r |}.
Definition owned_ivs (o : ownregs) : list (N * N) := [(o_ssp o, o_sp o); (o_hp o, o_prev_hp o)].

Definition check_step (env : oenv) (r : orec) : bool :=
  let o := owner_of r in
  let m := mem_of r in
  let external := match s_prev_hp r with None => true | Some _ => false end in
  let bal := if external then balance_ivs (e_max_inputs env) else [] in
  let fin := if s_last r then output_ivs (e_outputs env) else [] in
  let nochange := all_covered fin (s_changed r) in
  let within ivs := all_covered (ivs ++ fin) (s_changed r) in
  (* the read side: loads and MEQ are modelled exactly *)
  (match op_rclass (s_op r) with
   | RNone => true
   | RLoad size => outcome_matches r (load_check m (s_fa r) size (s_vb r) (s_imm r))
   | RMeq => outcome_matches r (memeq_check m (s_fa r) (s_vb r) (s_vc r) (s_vd r))
   end) &&
  match op_class (s_op r) with
  | WNone | WGrow => nochange
  | WStore size =>
      let v := store_check m o size (s_va r) (s_imm r) in
      outcome_matches r v && (if is_ok r then within (res_iv v) else nochange)
  | WClear l =>
      let v := write_check m o (s_va r) (lenval l r) in
      outcome_matches r v && (if is_ok r then within (res_iv v) else nochange)
  | WCopy l =>
      let v := memcopy_check m o (s_va r) (s_vb r) (lenval l r) in
      outcome_matches r v && (if is_ok r then within (res_iv v) else nochange)
  | WUser l skip =>
      let v := write_check m o (s_va r) (lenval l r) in
      if is_ok r then
        match v with
        | Ok iv => within [iv]
        | Err _ => skip && nochange
        end
      else nochange &&
           (* a MemoryOwnership panic can only come from the single ownership check *)
           (negb (s_out r =? 1 + PANIC_MemoryOwnership) || (res_code v =? 1 + PANIC_MemoryOwnership))
  | WUserMulti => within (owned_ivs o)
  | WPush =>
      if is_ok r then (s_sp' r =? s_sp r + 8 * popcount (s_imm r)) && within [(s_sp r, s_sp' r)] else nochange
  | WAloc => if is_ok r then (s_hp' r <=? s_hp r) && within [(s_hp' r, s_hp r)] else nochange
  | WCall => if is_ok r then within ((s_sp r, s_sp' r) :: bal) else within bal
  | WLdc =>
      if is_ok r then
        (s_ssp r =? s_sp r) && (s_ssp' r =? s_sp' r) &&
        within ((s_ssp r, s_ssp' r) ::
                (if external then [] else [(s_fp r + CF_CODE_SIZE_OFFSET, s_fp r + CF_CODE_SIZE_OFFSET + 8)]))
      else within [(s_ssp r, s_hp r)]
  | WBal => within bal
  | WTro => within (bal ++ match nth_error (e_outputs env) (N.to_nat (s_vb r)) with
                           | Some out => [(fst out, fst out + snd out)] | None => [] end)
  | WEcal => within (owned_ivs o)
  end.

Definition check_ostep (env : oenv) (s : ostep) : bool :=
  match s with
  | OQuiet ops => forallb (fun op => match op_class op, op_rclass op with
                                      | WNone, RNone | WGrow, RNone => true
                                      | _, _ => false    (* a memory-class instruction must come with its facts *)
                                      end) ops
  | OStep r => check_step env r
  end.

Record ocase := { oc_env : oenv; oc_steps : list ostep }.
Definition check_ocase (c : ocase) : bool := forallb (check_ostep (oc_env c)) (oc_steps c).
Definition bad_ocases := bad check_ocase.

(* index of the first step the model cannot explain (for diagnosis) *)
Fixpoint first_bad (env : oenv) (i : N) (l : list ostep) : option N :=
  match l with [] => None | s :: t => if check_ostep env s then first_bad env (i + 1) t else Some i end.

(* positional constructor used by the generated case files *)
Definition mkr := Build_orec.
