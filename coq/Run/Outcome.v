(* Run/Outcome.v — trace validation for C28 (cases produced by harness/src/bin/outcome.rs).
   One case = one script execution on the real interpreter and through MemoryClient:
   the class of every executed step (by opcode; panicking steps carry their reason unless the
   reason is TooManyReceipts, which the model must predict itself), the final receipt list
   abstracted to kinds, the script result and program state, the facts about the outputs of a
   failed run, storage identities before / after the interpreter / after the client, and (for
   short lists) the encoded receipts with the committed receipts root.
   Programs and receipt lists are run-length compressed (the receipt-limit scenarios have
   > 130,000 steps). *)
From FV Require Import Base.Bytes Base.U64 Base.Sha256 Gen.AssetTable Merkle.RFC6962 Merkle.BinaryModel
     Vm.OutcomeModel Vm.OutcomeSpec Vm.OutcomeFast Vm.AssetModel Vm.AssetSpec.
Open Scope N_scope.

Definition bad {A} (chk : A -> bool) (cs : list (N * A)) : list N :=
  map fst (filter (fun c => negb (chk (snd c))) cs).

Definition leaf_sum (d : bytes) : bytes := sha256 (0 :: d).
Definition node_sum (l r : bytes) : bytes := sha256 (1 :: l ++ r).
Definition empty_sum : bytes := sha256 [].

Fixpoint repeat_app {A} (n : nat) (blk acc : list A) : list A :=
  match n with O => acc | S k => repeat_app k blk (blk ++ acc) end.
(* [(count, block)] -> blocks repeated, in order *)
Fixpoint expand {A} (runs : list (N * list A)) : list A :=
  match runs with
  | [] => []
  | (n, blk) :: t => repeat_app (N.to_nat n) blk (expand t)
  end.

Definition receipt_eqb (a b : receipt) : bool :=
  match a, b with
  | RcBody k, RcBody k' => k =? k'
  | RcReturn t k, RcReturn t' k' => Bool.eqb t t' && (k =? k')
  | RcRevert, RcRevert => true
  | RcPanic r, RcPanic r' => r =? r'
  | RcScriptResult r g, RcScriptResult r' g' => (r =? r') && (g =? g')
  | _, _ => false
  end.
Fixpoint list_eqb {A} (eqb : A -> A -> bool) (a b : list A) : bool :=
  match a, b with
  | [], [] => true
  | x :: a', y :: b' => eqb x y && list_eqb eqb a' b'
  | _, _ => false
  end.

(* the specification, executed: wellformed as a boolean on the reversed list *)
Definition wellformed_b (rs : list receipt) (result : N) : bool :=
  match rev_append rs [] with
  | RcScriptResult res _ :: before :: body =>
      (res =? result) && forallb interior body &&
      match before with
      | RcReturn true _ => result =? SER_Success
      | RcRevert => result =? SER_Revert
      | RcPanic _ => result =? SER_Panic
      | _ => false
      end
  | _ => false
  end.

Record ocase := {
  oc_prog : list (N * list instr);
  oc_gas : N;
  oc_receipts : list (N * list receipt);
  oc_result : N;
  oc_state : N;                      (* ProgramState returned: 0 Return, 1 ReturnData, 2 Revert *)
  (* outputs of a failed run *)
  oc_base : N; oc_refund : N; oc_initial : list (N * N); oc_outs_final : list output;
  (* storage identity: 0 = as before; 1 = what the interpreter left; 2 = something else *)
  oc_store_interp : N; oc_store_client : N;
  (* encoded receipts and committed root ([] = not included in this case) *)
  oc_enc : list bytes; oc_root : bytes;
}.

Definition check_ocase (c : ocase) : bool :=
  let prog := expand (oc_prog c) in
  let obs := expand (oc_receipts c) in
  match frun (oc_gas c) [] 0 0 prog with
  | Done rs result =>
      list_eqb receipt_eqb rs obs && (result =? oc_result c) &&
      wellformed_b obs (oc_result c) &&
      (N.of_nat (length obs) <=? MAX_RECEIPTS) &&
      (* returned program state *)
      (if oc_result c =? SER_Success then (oc_state c =? 0) || (oc_state c =? 1) else oc_state c =? 2) &&
      (* failed run: outputs *)
      (if oc_result c =? SER_Success then true
       else failed_outputs_ok (oc_base c) (oc_refund c) (oc_initial c) (oc_outs_final c)) &&
      (* in-memory client: commit / revert *)
      (ms_memory (client_transact {| ms_memory := 0; ms_transacted := 0 |} (fun _ => oc_store_interp c) true obs)
       =? oc_store_client c) &&
      (* receipts root: the streaming calculator (L1, C09) and the RFC 6962 tree hash (L3) of the encodings *)
      match oc_enc c with
      | [] => true
      | enc => (N.of_nat (length enc) =? N.of_nat (length obs)) &&
               match root_from_iterator leaf_sum node_sum empty_sum enc with
               | Some r => bytes_eqb r (oc_root c)
               | None => false
               end &&
               bytes_eqb (MTH leaf_sum node_sum empty_sum enc) (oc_root c)
      end
  | _ => false
  end.
Definition bad_ocases := bad check_ocase.

(* ------------------------------------------------------------------ histories on ONE MemoryClient
   storage states are identity numbers of the observable contents (0 = the fresh client);
   the model predicts where a failed script leaves the client: at its last COMMITTED state *)
Inductive hevent :=
| HDeploy (after : N)          (* MemoryClient::deploy succeeded or not; contents afterwards *)
| HScriptOk (after : N)        (* transact, no Revert / Panic receipt *)
| HScriptFailed (after : N)    (* transact, a Revert / Panic receipt *)
| HScriptError (after : N).    (* transact, the interpreter returned an error (no state transition) *)

Fixpoint replay_hist (s : @mstorage N) (evs : list hevent) : bool :=
  match evs with
  | [] => true
  | HDeploy a :: t => replay_hist (client_deploy s (fun _ => a)) t
  | HScriptOk a :: t =>
      let s' := client_transact s (fun _ => a) true [RcReturn true RK_Return; RcScriptResult SER_Success 0] in
      (ms_memory s' =? a) && replay_hist s' t
  | HScriptFailed a :: t =>
      (* whatever the interpreter wrote (here: a marker that never is a state id) is discarded *)
      let s' := client_transact s (fun _ => 1000000) true [RcRevert; RcScriptResult SER_Revert 0] in
      (ms_memory s' =? a) && replay_hist s' t
  | HScriptError a :: t =>
      let s' := client_transact s (fun _ => 1000000) false [] in
      (ms_memory s' =? a) && replay_hist s' t
  end.

Inductive xcase := XRun (c : ocase) | XHist (evs : list hevent).
Definition check_xcase (x : xcase) : bool :=
  match x with
  | XRun c => check_ocase c
  | XHist evs => replay_hist {| ms_memory := 0; ms_transacted := 0 |} evs
  end.
Definition bad_xcases := bad check_xcase.
