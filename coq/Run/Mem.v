(* Run/Mem.v — case runner for C23: a case is one history of operations on ONE MemoryInstance
   (produced by harness/src/bin/mem.rs) with, for every operation, what the real code returned.
   The L1 model replays the history from MemoryInstance::new() and every result is compared. *)
From FV Require Import Base.Bytes Base.U64 Mem.SVec Mem.MemSpec Mem.MemModel.
Open Scope N_scope.

(* expected result of one operation: unit, an error kind, or the bytes read given as
   (length, sorted list of (offset, non-zero byte)) *)
Inductive expect := EUnit | EErr (e : merr) | EBytes (len : N) (nz : list (N * N)).

Fixpoint pairs_eqb (a b : list (N * N)) : bool :=
  match a, b with
  | [], [] => true
  | (x1, y1) :: a', (x2, y2) :: b' => (x1 =? x2) && (y1 =? y2) && pairs_eqb a' b'
  | _, _ => false
  end.

Definition merr_eqb (a b : merr) : bool :=
  match a, b with
  | MemoryOverflow, MemoryOverflow | MemoryGrowthOverlap, MemoryGrowthOverlap
  | UninitalizedMemoryAccess, UninitalizedMemoryAccess | MemoryWriteOverlap, MemoryWriteOverlap
  | MemoryOwnership, MemoryOwnership | HostPanic, HostPanic => true
  | _, _ => false
  end.

Definition out_matches (o : out) (e : expect) : bool :=
  match o, e with
  | OUnit, EUnit => true
  | OErr a, EErr b => merr_eqb a b
  | OBytes v, EBytes len nz => (sv_len v =? len) && pairs_eqb (sv_nz v) nz
  | _, _ => false
  end.

Fixpoint replay (st : state) (h : list (sop * expect)) : bool :=
  match h with
  | [] => true
  | (op, e) :: r => let '(st', o) := step st op in out_matches o e && replay st' r
  end.

Record mem_case := { mc_history : list (sop * expect) }.
Definition check_mem (c : mem_case) : bool := replay state_init (mc_history c).

Definition bad {A} (chk : A -> bool) (cs : list (N * A)) : list N :=
  map fst (filter (fun c => negb (chk (snd c))) cs).
Definition bad_mem := bad check_mem.

(* shorthand used by the generated case files *)
Definition ow (sp ssp hp prev : N) : owner := {| o_sp := sp; o_ssp := ssp; o_hp := hp; o_prev_hp := prev |}.
