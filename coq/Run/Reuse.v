(* Run/Reuse.v — executable instance of Vm/ReuseModel.v and the case runner of the C31
   correspondence check (cases are produced by harness/src/bin/reuse.rs).

   A case holds what the real interpreter was given (transaction facts: id, serialisation, size,
   gas limit, script offset; parameter facts: base asset, max_inputs, tx_offset; the balances
   table; the block height) and the state of the instance BEFORE the transaction (garbage
   registers, a sample of the dirty stack and heap buffers, the old hp) — once for a brand-new
   instance and once for an instance used for other transactions before — together with the
   snapshot taken from the real VM right after initialisation (all 64 registers, the stack buffer,
   hp).  The model's init_script must produce exactly that snapshot from either pre-state. *)
From Coq Require Import List NArith Bool.
From FV Require Import Base.Bytes Base.U64 Vm.ReuseModel.
Import ListNotations.
Open Scope N_scope.

Definition bad {A} (chk : A -> bool) (cs : list (N * A)) : list N :=
  map fst (filter (fun c => negb (chk (snd c))) cs).

Record txf := { f_id : bytes; f_size : N; f_bytes : bytes; f_gas : option N; f_script_off : option N;
                f_contracts : list N; f_io : list (N * N);
                f_owner : option N }.   (* the owner pointer the specification's rule gives for this transaction *)
Record pf := { p_base : bytes; p_max_inputs : N; p_tx_offset : N }.
Definition balances_t := list (N * (bytes * N)).

Definition run_env : env txf pf (option N) unit balances_t balances_t N unit :=
  {| prepare_sign := fun t => t;
     input_contracts_of := f_contracts;
     owner_of := fun _ t => inl (f_owner t);
     io_index_of := f_io;
     tx_id := fun _ t => f_id t;
     base_asset_id := p_base;
     max_inputs := p_max_inputs;
     tx_offset := p_tx_offset;
     tx_size := f_size;
     tx_to_bytes := f_bytes;
     script_gas_limit := f_gas;
     script_offset := f_script_off;
     runtime_balances := fun ib => Some ib;
     rb_entries := fun rb => rb;
     block_height := fun s => s;
     clear_last_state := fun d => d;
     ib_default := []; tx_default := {| f_id := []; f_size := 0; f_bytes := []; f_gas := None; f_script_off := None; f_contracts := []; f_io := []; f_owner := None |};
     rb_default := []; debugger_default := tt; verifier_default := tt |}.

Definition rvm := vm bytes txf pf (option N) unit unit unit balances_t balances_t N unit unit unit.

(* the instance before the transaction *)
Record pre_state := { ps_regs : list N; ps_stack : bytes; ps_heap : bytes; ps_hp : N;
                      ps_frames : N; ps_receipts : N; ps_cache : N }.
Definition vm_of_pre (p : pre_state) (params : pf) (height : option N) : rvm :=
  {| registers := ps_regs p;
     mem := {| m_stack := ps_stack p; m_heap := ps_heap p; m_hp := ps_hp p |};
     frames := repeat tt (N.to_nat (ps_frames p)); receipts := repeat tt (N.to_nat (ps_receipts p));
     tx := tx_default run_env; initial_balances := [(0, ([1], 2))]; input_contracts := [7]; input_contracts_index_to_output_index := [(3,4)];
     storage := height; debugger := tt; ctx := CtxCall 99; balances := [(64, ([9], 9))];
     interpreter_params := params; pctx := PCNone; ecal_state := tt; verifier := tt; owner_ptr := Some 12345;
     storage_slot_cache := repeat tt (N.to_nat (ps_cache p)) |}.

Fixpoint patch (l : bytes) (runs : list (N * bytes)) : bytes :=
  match runs with
  | [] => l
  | (off, bs) :: rest =>
      patch (firstn (N.to_nat off) l ++ bs ++ skipn (N.to_nat off + length bs) l) rest
  end.
Definition dense (len : N) (runs : list (N * bytes)) : bytes := patch (zeros (N.to_nat len)) runs.

Record reuse_case := {
  rc_tx : txf; rc_params : pf; rc_height : N; rc_balances : balances_t;
  rc_pre : list pre_state;                    (* a brand-new instance and used ones *)
  rc_regs : list N;                           (* snapshot after initialisation *)
  rc_stack_len : N; rc_stack_runs : list (N * bytes);
  rc_hp : N;
  rc_owner : option N;                        (* owner_ptr of the real instance after initialisation *)
}.

Fixpoint listN_eqb (a b : list N) : bool :=
  match a, b with
  | [], [] => true
  | x :: a', y :: b' => (x =? y) && listN_eqb a' b'
  | _, _ => false
  end.

Definition check_pre (c : reuse_case) (p : pre_state) : bool :=
  match init_script run_env (vm_of_pre p (rc_params c) (Some (rc_height c))) (rc_tx c) (rc_balances c) with
  | IOk v =>
      listN_eqb (registers v) (rc_regs c) &&
      bytes_eqb (m_stack (mem v)) (dense (rc_stack_len c) (rc_stack_runs c)) &&
      (m_hp (mem v) =? rc_hp c) &&
      (lenN (frames v) =? 0) && (lenN (receipts v) =? 0) && (lenN (storage_slot_cache v) =? 0) &&
      match ctx v with CtxScript h => h =? rc_height c | _ => false end &&
      match owner_ptr v, rc_owner c with Some a, Some b => a =? b | None, None => true | _, _ => false end &&
      listN_eqb (input_contracts v) (f_contracts (rc_tx c))
  | _ => false
  end.
Definition check_reuse (c : reuse_case) : bool :=
  match rc_pre c with [] => false | _ => forallb (check_pre c) (rc_pre c) end.
Definition bad_reuse := bad check_reuse.

(* self-test: a 16-byte "transaction", one balance entry, max_inputs = 2, from a dirty instance *)
Example reuse_selftest :
  let t := {| f_id := repeat 1 32; f_size := 16; f_bytes := repeat 5 16; f_gas := Some 1000; f_script_off := Some 8;
              f_contracts := []; f_io := []; f_owner := None |} in
  let p := {| p_base := repeat 2 32; p_max_inputs := 2; p_tx_offset := 152 |} in
  check_reuse {| rc_tx := t; rc_params := p; rc_height := 7; rc_balances := [(64, (repeat 3 32, 258))];
     rc_pre := [ {| ps_regs := repeat 0 64; ps_stack := []; ps_heap := []; ps_hp := MEM_SIZE; ps_frames := 0; ps_receipts := 0; ps_cache := 0 |};
                 {| ps_regs := repeat 77 64; ps_stack := repeat 255 300; ps_heap := repeat 254 40; ps_hp := 67100000; ps_frames := 3; ps_receipts := 9; ps_cache := 2 |} ];
     rc_regs := [0;1;0;160;168;168;0;67108864;0;1000;1000;0;160] ++ repeat 0 51;
     rc_stack_len := 168;
     rc_stack_runs := [(0, repeat 1 32 ++ repeat 2 32 ++ repeat 3 32); (102, [1;2]); (151, [16] ++ repeat 5 16)];
     rc_hp := MEM_SIZE; rc_owner := None |} = true.
Proof. vm_compute. reflexivity. Qed.
