(* Run/Offsets.v — case runner of the field-offset correspondence (C04); cases are produced by
   harness/src/bin/offsets.rs.  For a transaction (neutral value) the harness lists every offset
   query it made and what fuel-tx answered, without and with cached metadata; the L1 model
   (Offsets/OffsetModel.v) must give the same answers, and the statement of C04 is executed on
   each answer: the L3 spec (Offsets/OffsetSpec.v, prefix sums of the encoder) locates the same
   offset and the slice of the model encoding at that offset is the field's canonical bytes. *)
From FV Require Import Base.Bytes Base.U64 Codec.Schema Codec.CodecModel Gen.Schemas
     TxId.IdSpec Offsets.OffsetSpec Offsets.OffsetModel Run.Codec.
Local Open Scope list_scope.
Open Scope N_scope.

Inductive ans : Type := ANone | AN (n : N) | AP (a b : N).
Inductive query : Type :=
| QT (f : tfn)                      (* tx.<f>() *)
| QAt (f : atfn) (idx : N)          (* tx.<f>(idx) *)
| QPred (idx : N)                   (* tx.inputs_predicate_offset_at(idx) *)
| QIn (f : infn) (i : nat)          (* tx.inputs()[i].<f>()  /  InputRepr::from(&tx.inputs()[i]).<f>() *)
| QOut (f : outfn) (i : nat).       (* OutputRepr::from(&tx.outputs()[i]).<f>() *)

Definition ans_eqb (a b : ans) : bool :=
  match a, b with
  | ANone, ANone => true
  | AN x, AN y => x =? y
  | AP x1 x2, AP y1 y2 => (x1 =? y1) && (x2 =? y2)
  | _, _ => false
  end.
Definition of_opt (o : option N) : ans := match o with Some n => AN n | None => ANone end.

Definition answer (tx : otx) (q : query) : ans :=
  match q with
  | QT f => of_opt (tx_offset tx f)
  | QAt f idx => of_opt (tx_offset_at tx f idx)
  | QPred idx => match tx_predicate_offset_at tx idx with Some (a, b) => AP a b | None => ANone end
  | QIn f i => match nth_error (tx_inputs tx) i with Some iv => of_opt (input_fn f iv) | None => ANone end
  | QOut f i => match nth_error (tx_outputs tx) i with Some ov => of_opt (output_fn f ov) | None => ANone end
  end.

(* ---- the statement of C04 executed on one answer *)
Definition variant_index (v : val) : nat := match v with VE i _ => i | _ => 99%nat end.
Definition small (idx : N) : option nat := if idx <? 4096 then Some (N.to_nat idx) else None.

(* the spec's (offset, bytes) for a query: None = the field is absent *)
Definition spec_span (tx : otx) (q : query) : option (N * bytes * bytes (* the encoding it is an offset into *)) :=
  let k := o_kind tx in
  let T := kind_ty k in
  let v := o_val tx in
  let whole (s : option sel) :=
    match s with
    | Some s' => match locate_in T v s' with Some (o, bs) => Some (o, bs, enc T v) | None => None end
    | None => None
    end in
  match q with
  | QT f => whole (tx_sel k f)
  | QAt f idx => match small idx with Some i => whole (at_sel k f i) | None => None end
  | QPred idx =>
      match small idx with
      | Some i => match nth_error (tx_inputs tx) i with
                  | Some iv => if chargeable k then whole (pred_sel i (variant_index iv)) else None
                  | None => None
                  end
      | None => None
      end
  | QIn f i =>
      match nth_error (tx_inputs tx) i with
      | Some iv =>
          match in_sel f (variant_index iv) with
          | Some s' => match locate_in S_Input iv s' with Some (o, bs) => Some (o, bs, enc S_Input iv) | None => None end
          | None => None
          end
      | None => None
      end
  | QOut f i =>
      match nth_error (tx_outputs tx) i with
      | Some ov =>
          match out_sel f (variant_index ov) with
          | Some s' => match locate_in S_Output ov s' with Some (o, bs) => Some (o, bs, enc S_Output ov) | None => None end
          | None => None
          end
      | None => None
      end
  end.
Definition is_len_query (q : query) : bool :=
  match q with QIn (PredicateLen | PredicateDataLen | InputDataLen) _ => true | _ => false end.

Definition statement_holds (tx : otx) (q : query) (a : ans) : bool :=
  if is_len_query q then true else
  match spec_span tx q, a with
  | None, ANone => true                                                    (* None <-> field absent *)
  | Some (o, bs, e), AN n => (o =? n) && bytes_eqb (slice e n (lenN bs)) bs
  | Some (o, bs, e), AP n len => (o =? n) && (len =? lenN bs) && bytes_eqb (slice e n len) bs
  | _, _ => false
  end.

(* kind index, neutral value, answers without metadata, whether precompute succeeded, answers
   of the precomputed transaction *)
Inductive off_case : Type :=
| oc (kind : nat) (v : val) (plain : list (query * ans)) (pre_ok : bool) (cached : list (query * ans)).

Definition check_off (c : off_case) : bool :=
  match c with
  | oc ki v plain pre_ok cached =>
      match kind_of_index ki with
      | None => false
      | Some k =>
          let tx0 := {| o_kind := k; o_val := v; o_meta := None |} in
          typed (kind_ty k) v &&
          forallb (fun qa => ans_eqb (answer tx0 (fst qa)) (snd qa) && statement_holds tx0 (fst qa) (snd qa)) plain &&
          match precompute_offsets pre_ok tx0 with
          | Some tx1 =>
              pre_ok &&
              forallb (fun qa => ans_eqb (answer tx1 (fst qa)) (snd qa)) cached &&
              (* offsets computed from cached metadata = offsets computed without *)
              forallb (fun qa => ans_eqb (answer tx1 (fst qa)) (answer tx0 (fst qa))) plain
          | None => negb pre_ok
          end
      end
  end.
Definition bad_off := bad check_off.
