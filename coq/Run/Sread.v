(* Run/Sread.v — case runners for C36 (cases produced by harness/src/bin/sread.rs):
   read_case : one (value, offset, buffer) triple through the real StorageRead impl of one of the
               three MemoryStorage tables, with what read_exact / read_zerofill / size_of_value /
               read_alloc returned and left in the buffer;
   vm_case   : one CCP / BLDD / LDC / CSIZ / BSIZ instruction executed on a real Interpreter, with
               the memory before (as construction steps), the registers, the stored values, and
               the outcome (panic reason, or registers + full accessible memory afterwards). *)
From FV Require Import Base.Bytes Base.U64 Mem.SVec Mem.MemSpec Mem.MemModel Mem.ReadSpec Mem.ReadModel Run.Mem.
Open Scope N_scope.

Definition rr_eqb (a b : read_result) : bool :=
  match a, b with
  | inl x, inl y => x =? y
  | inr KeyNotFound, inr KeyNotFound | inr OutOfBounds, inr OutOfBounds => true
  | _, _ => false
  end.
Definition br_eqb (a b : bytes * read_result) : bool := bytes_eqb (fst a) (fst b) && rr_eqb (snd a) (snd b).
Definition obytes_eqb (a b : option bytes) : bool :=
  match a, b with Some x, Some y => bytes_eqb x y | None, None => true | _, _ => false end.
Definition oN_eqb (a b : option N) : bool :=
  match a, b with Some x, Some y => x =? y | None, None => true | _, _ => false end.

Record read_case := {
  rc_table : N;                       (* 0 contract code, 1 contract state, 2 blob: same impl body *)
  rc_value : option bytes; rc_off : N; rc_buf : bytes;
  rc_exact : bytes * read_result; rc_zerofill : bytes * read_result;
  rc_size : option N; rc_alloc : option bytes
}.
Definition check_read (c : read_case) : bool :=
  br_eqb (m_read_exact (rc_value c) (rc_off c) (rc_buf c)) (rc_exact c) &&
  br_eqb (m_read_zerofill (rc_value c) (rc_off c) (rc_buf c)) (rc_zerofill c) &&
  oN_eqb (m_size_of_value (rc_value c)) (rc_size c) &&
  obytes_eqb (m_read_alloc (rc_value c)) (rc_alloc c) &&
  (* the L3 spec, executed, agrees too (a test of the statement, not a proof) *)
  br_eqb (spec_read_exact (rc_value c) (rc_off c) (rc_buf c)) (rc_exact c) &&
  br_eqb (spec_read_zerofill (rc_value c) (rc_off c) (rc_buf c)) (rc_zerofill c).
Definition bad_read := bad check_read.

(* ---------------------------------------------------------------- instructions *)
Inductive instr :=
| ICcp (dst idaddr off len : N) | IBldd (dst idaddr off len : N) | ILdc (a b c mode : N)
| ICsiz (idaddr : N) | IBsiz (idaddr : N).

Inductive vm_expect :=
| XErr (e : vmerr)
| XOk (ssp sp reg stack_len : N) (stack_nz heap_nz : list (N * N)).

Record vm_case := {
  vc_setup : list sop; vc_ssp : N; vc_sp : N; vc_hp : N; vc_fp : N; vc_max : N;
  vc_contracts : storage; vc_blobs : storage; vc_instr : instr; vc_expect : vm_expect
}.

Definition vmerr_eqb (a b : vmerr) : bool :=
  match a, b with
  | VMem x, VMem y => merr_eqb x y
  | ExpectedUnallocatedStack, ExpectedUnallocatedStack | ContractMaxSize, ContractMaxSize
  | ContractNotFound, ContractNotFound | BlobNotFound, BlobNotFound
  | InvalidImmediateValue, InvalidImmediateValue => true
  | _, _ => false
  end.

Definition dump_matches (s : vm) (reg : N) (e : vm_expect) : bool :=
  match e with
  | XErr _ => false
  | XOk ssp sp r stack_len snz hnz =>
      let m := v_mem s in
      (v_ssp s =? ssp) && (v_sp s =? sp) && (reg =? r) && (sv_len (stack m) =? stack_len) &&
      pairs_eqb (sv_nz (stack m)) snz &&
      pairs_eqb (sv_nz (sv_slice (heap m) (mhp m - heap_offset m) (MEM_SIZE - mhp m))) hnz
  end.

Definition check_vm (c : vm_case) : bool :=
  let m := fst (fst (run state_init (vc_setup c))) in
  let s := {| v_mem := m; v_ssp := vc_ssp c; v_sp := vc_sp c; v_hp := vc_hp c; v_fp := vc_fp c;
             v_internal := true (* Context::NotInitialized counts as internal *); v_max_size := vc_max c |} in
  let r : vres (vm * N) :=
    match vc_instr c with
    | ICcp d i o l => match ccp s (vc_contracts c) d i o l with inl s' => inl (s', 0) | inr e => inr e end
    | IBldd d i o l => match bldd s (vc_blobs c) d i o l with inl s' => inl (s', 0) | inr e => inr e end
    | ILdc a b cc mode => match ldc s (vc_contracts c) (vc_blobs c) a b cc mode with inl s' => inl (s', 0) | inr e => inr e end
    | ICsiz i => match csiz s (vc_contracts c) i with inl n => inl (s, n) | inr e => inr e end
    | IBsiz i => match bsiz s (vc_blobs c) i with inl n => inl (s, n) | inr e => inr e end
    end in
  match r, vc_expect c with
  | inr e, XErr e' => vmerr_eqb e e'
  | inl (s', reg), x => dump_matches s' reg x
  | _, _ => false
  end.
Definition bad_vm := bad check_vm.

(* one case type for the generated files *)
Inductive sread_case := CR (c : read_case) | CV (c : vm_case).
Definition check_sread (c : sread_case) : bool :=
  match c with CR c => check_read c | CV c => check_vm c end.
Definition bad_sread := bad check_sread.

(* shorthand used by the generated case files: n copies of byte b *)
Definition rep (b n : N) : bytes := repeat b (N.to_nat n).

(* compact form of a sparse dump: maximal runs of non-zero bytes as (start, bytes) *)
Fixpoint seg_pairs (a : N) (bs : bytes) : list (N * N) :=
  match bs with [] => [] | b :: r => (a, b) :: seg_pairs (a + 1) r end.
Definition segs (l : list (N * bytes)) : list (N * N) := flat_map (fun s => seg_pairs (fst s) (snd s)) l.
Definition Sg (a : N) (bs : bytes) : N * bytes := (a, bs).
