(* Run/Debug.v — executable instance of the debugger model (Vm/DebugModel.v) and the case runner of
   the C32 correspondence check (cases are produced by harness/src/bin/debug.rs).

   The interpreter is instantiated by a TAPE: the sequence of locations (contract index, $pc - $is)
   at which the real, single-stepped interpreter fetched and executed instructions.  The model's
   run_program / resume / drive — the very definitions the C32 theorems are about — are run over
   that tape with the debugger configured by the same API calls the harness issued on the real
   Interpreter; the events they report must be exactly the events the real `transact` + `resume`
   loop reported.  Contract ids are replaced by indices (0 = ContractId::default(), the script). *)
From Coq Require Import List NArith Bool.
From FV Require Import Vm.DebugModel.
Import ListNotations.
Open Scope N_scope.

Definition bad {A} (chk : A -> bool) (cs : list (N * A)) : list N :=
  map fst (filter (fun c => negb (chk (snd c))) cs).

Definition tape := list (N * N).
Definition t_fetch (s : tape) : bool := match s with [] => false | _ => true end.
Definition t_exec (s : tape) : tape + unit := match s with [] => inr tt | _ :: rest => inl rest end.
Definition t_fault (s : tape) : unit := tt.
Definition t_contract (s : tape) : option N :=
  match s with (c, _) :: _ => if c =? 0 then None else Some c | [] => None end.
Definition t_pc (s : tape) : N := match s with (_, pc) :: _ => pc | [] => 0 end.

Definition dbgr := debugger N unit.

(* the public debugger API of Interpreter, plus "an earlier transaction on the same instance was
   abandoned while suspended at this location" (what it leaves behind: Debugger::last_state) *)
Inductive dop :=
| DSingle (b : bool)
| DSet (bp : N * N)
| DRemove (bp : N * N)
| DClear
| DAbandoned (bp : N * N).

Definition apply_dop (d : dbgr) (o : dop) : dbgr :=
  match o with
  | DSingle b => set_single_stepping N unit d b
  | DSet bp => set_breakpoint N N.eqb unit d bp
  | DRemove bp => remove_breakpoint N N.eqb unit d bp
  | DClear => clear_breakpoints N unit d
  | DAbandoned bp => set_last_state N unit d (PRunProgram N unit (DBreakpoint N bp))   (* forgotten by the next transact *)
  end.

Definition m_drive (d : dbgr) (t : tape) : list (event N tape) * option unit :=
  let n := S (length t) in
  drive N N.eqb 0 tape unit t_fetch t_exec t_fault t_contract t_pc false (fun _ => tt) n n d t.

Definition pair_eqb (a b : N * N) : bool := (fst a =? fst b) && (snd a =? snd b).
Fixpoint list_eqb {A} (eqb : A -> A -> bool) (a b : list A) : bool :=
  match a, b with
  | [], [] => true
  | x :: a', y :: b' => eqb x y && list_eqb eqb a' b'
  | _, _ => false
  end.

(* one debugger configuration run on the tape: API calls, then the events the real VM reported *)
Record dbg_run := { dr_ops : list dop; dr_events : list (N * N) }.
Record debug_case := { dc_tape : tape; dc_runs : list dbg_run }.

Definition check_run (t : tape) (r : dbg_run) : bool :=
  let d := fold_left apply_dop (dr_ops r) debugger_default in
  match m_drive d t with
  | (evs, Some _) => list_eqb pair_eqb (map fst evs) (dr_events r)
  | (_, None) => false
  end.
Definition check_debug (c : debug_case) : bool := forallb (check_run (dc_tape c)) (dc_runs c).
Definition bad_debug := bad check_debug.

(* self-test of the runner: a two-instruction loop executed three times inside contract 1 *)
Example run_selftest :
  check_debug {| dc_tape := [(0,0); (1,0); (1,4); (1,0); (1,4); (1,0); (1,4); (0,4)];
                 dc_runs := [ {| dr_ops := [DSet (1,0)]; dr_events := [(1,0); (1,0); (1,0)] |};
                              {| dr_ops := [DSingle true]; dr_events := [(0,0); (1,0); (1,4); (1,0); (1,4); (1,0); (1,4); (0,4)] |};
                              {| dr_ops := [DSet (0,0); DSet (0,4); DRemove (0,0); DAbandoned (0,0)]; dr_events := [(0,4)] |};
                              {| dr_ops := [DAbandoned (0,0); DSet (0,0); DSet (1,4)]; dr_events := [(0,0); (1,4); (1,4); (1,4)] |};
                              {| dr_ops := [DSet (0,0); DAbandoned (0,0)]; dr_events := [(0,0)] |};
                              {| dr_ops := []; dr_events := [] |} ] |} = true.
Proof. vm_compute. reflexivity. Qed.
