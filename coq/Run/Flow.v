(* Run/Flow.v — case runner for C25 (cases produced by harness/src/bin/flow.rs).
   jcase : one jump instruction executed on the real interpreter from a full register file;
   tcase : one generated program, every executed step (compact: the four raw register fields'
           values, $pc/$is/$ssp/$sp/$hp, stack length, outcome, $pc after). *)
From FV Require Import Base.Bytes Base.U64 Vm.FlowSpec Gen.FlowTable Vm.FlowModel.
Open Scope N_scope.

Definition bad {A} (chk : A -> bool) (cs : list (N * A)) : list N :=
  map fst (filter (fun c => negb (chk (snd c))) cs).

(* register file from an association list (registers not listed read 0).  The handlers charge
   gas before they read their operands: the harness lists $ggas/$cgas with their values after
   the charge. *)
Fixpoint assoc (l : list (N * N)) (k : N) : N :=
  match l with [] => 0 | (k', v) :: t => if k =? k' then v else assoc t k end.
Definition regf (l : list (N * N)) : N -> N := assoc l.
Definition opt_eqb (a : option N) (b : option N) : bool :=
  match a, b with Some x, Some y => x =? y | None, None => true | _, _ => false end.
Definition reason_byte (r : freason) : N :=
  match r with RMemoryOverflow => PANIC_MemoryOverflow | RReservedRegister => PANIC_ReservedRegisterNotWritable end.
Definition fres_eqb (a b : fres) : bool :=
  match a, b with
  | FOk p w, FOk p' w' => (p =? p') && match w, w' with
                                       | Some (k, v), Some (k', v') => (k =? k') && (v =? v')
                                       | None, None => true | _, _ => false end
  | FPanic RMemoryOverflow, FPanic RMemoryOverflow => true
  | FPanic RReservedRegister, FPanic RReservedRegister => true
  | _, _ => false
  end.

Record jcase := {
  jc_raw : N; jc_regs : list (N * N);
  jc_panic : option N;        (* reason byte if the instruction panicked *)
  jc_pc_after : N;
  jc_link_after : N;          (* value after the step of the register named by field A *)
}.
Definition check_jcase (c : jcase) : bool :=
  let r := regf (jc_regs c) in
  let w := jc_raw c in
  match jump_entry (opcode_of w) with
  | None => false
  | Some e =>
      let m := model_exec e w r in
      (* the executed L3 spec agrees wherever the theorem applies *)
      (if r REG_PC + 4 <? U64 then fres_eqb m (spec_exec e w r) else true) &&
      match m with
      | FOk pc' wr =>
          opt_eqb (jc_panic c) None && (jc_pc_after c =? pc') &&
          match j_link e with
          | None => true
          | Some f => jc_link_after c =? match wr with Some (_, v) => v | None => r (field f w) end
          end
      | FPanic reason => opt_eqb (jc_panic c) (Some (reason_byte reason)) && (jc_pc_after c =? r REG_PC)
      end
  end.
Definition bad_jcases := bad check_jcase.

Record tstep := {
  ts_kind : N;                (* 0 executed, 1 fetch fault *)
  ts_raw : N; ts_decoded : bool;
  ts_pc : N; ts_is : N; ts_ssp : N; ts_sp : N; ts_hp : N; ts_stack_len : N;
  ts_va : N; ts_vb : N; ts_vc : N; ts_vd : N;
  ts_outcome : N;             (* 0 Proceed 1 Return 2 ReturnData 3 Revert 4 Panic 5 Error *)
  ts_reason : N;
  ts_pc_after : N;
  ts_link_after : N;
  ts_caller_pc : option N;    (* $pc saved in the innermost frame before the step *)
}.
Definition ts_regs (s : tstep) : N -> N :=
  let w := ts_raw s in
  fun k => if k =? REG_PC then ts_pc s else if k =? REG_IS then ts_is s
           else if k =? field FA w then ts_va s else if k =? field FB w then ts_vb s
           else if k =? field FC w then ts_vc s else if k =? field FD w then ts_vd s else 0.
Definition check_tstep (s : tstep) : bool :=
  let pc := ts_pc s in
  if ts_kind s =? 1 then
    opt_eqb (fetch_model (ts_is s) (ts_ssp s) (ts_stack_len s) (ts_hp s) pc) (Some (ts_reason s)) &&
    (ts_pc_after s =? pc)
  else
    (* executed => fetch allowed it: readable and inside [$is, $ssp) *)
    opt_eqb (fetch_model (ts_is s) (ts_ssp s) (ts_stack_len s) (ts_hp s) pc) None &&
    if negb (ts_decoded s) then
      (ts_outcome s =? 4) && (ts_reason s =? PANIC_InvalidInstruction) && (ts_pc_after s =? pc)
    else
      let w := ts_raw s in
      match class_of (opcode_of w) with
      | None => false
      | Some KJump =>
          match jump_entry (opcode_of w) with
          | None => false
          | Some e =>
              let r := ts_regs s in
              if (ts_outcome s =? 4) && (ts_reason s =? PANIC_OutOfGas) then ts_pc_after s =? pc
              else
                match model_exec e w r with
                | FOk pc' wr =>
                    (ts_outcome s =? 0) && (ts_pc_after s =? pc') &&
                    match j_link e with
                    | None => true
                    | Some f => ts_link_after s =? match wr with Some (_, v) => v | None => r (field f w) end
                    end
                | FPanic reason =>
                    (ts_outcome s =? 4) && (ts_reason s =? reason_byte reason) && (ts_pc_after s =? pc)
                end
          end
      | Some cls =>
          match step_pc cls (ts_outcome s) pc (ts_sp s) (ts_caller_pc s) with
          | Some p => ts_pc_after s =? p
          | None => false
          end
      end.
Definition check_tcase (t : list tstep) : bool := forallb check_tstep t.
Definition bad_tcases := bad check_tcase.

(* mixed stream: C25 shards contain both kinds *)
Inductive fcase := FJ (c : jcase) | FT (t : list tstep).
Definition check_fcase (c : fcase) : bool := match c with FJ j => check_jcase j | FT t => check_tcase t end.
Definition bad_fcases := bad check_fcase.
