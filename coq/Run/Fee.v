(* Run/Fee.v — case runner of the fee family (C18): the cases are produced by
   harness/src/bin/fee.rs; each holds the inputs and what the Rust code returned (a host
   panic is observed as [Panic]); the runner recomputes with the L1 model of Fee/FeeModel.v
   and lists the indices that differ. *)
From Coq Require Import ZArith Uint63.
From FV Require Import Base.Bytes Base.U64 Fee.FeeSpec Fee.FeeModel.
Open Scope N_scope.

(* compact numerals of the generated case files: primitive-int literals are parsed natively
   (a 20-digit N literal costs more than a millisecond to parse) *)
Definition i (x : int) : N := Z.to_N (Uint63.to_Z x).
Definition q (hi lo : int) : N := i hi * 4294967296 + i lo.            (* 32-bit limbs of a u64 *)
Definition qq (hi lo : N) : N := hi * 18446744073709551616 + lo.      (* 64-bit halves of a u128 *)
Arguments i x%uint63.
Arguments q (hi lo)%uint63.

Example numerals_ok :
  i 4611686018427387903 = 4611686018427387903 /\ q 4294967295 4294967295 = 18446744073709551615 /\
  qq (q 4294967295 4294967295) (q 4294967295 4294967294) = 340282366920938463463374607431768211454.
Proof. vm_compute. repeat split; reflexivity. Qed.

Definition out_eqb {A} (eqb : A -> A -> bool) (a b : outcome A) : bool :=
  match a, b with
  | Ret x, Ret y => eqb x y
  | Panic, Panic => true
  | _, _ => false
  end.
Definition opt_eqb {A} (eqb : A -> A -> bool) (a b : option A) : bool :=
  match a, b with
  | Some x, Some y => eqb x y
  | None, None => true
  | _, _ => false
  end.
Definition fee_eqb (a b : tx_fee) : bool :=
  (tf_min_fee a =? tf_min_fee b) && (tf_max_fee a =? tf_max_fee b) &&
  (tf_min_gas a =? tf_min_gas b) && (tf_max_gas a =? tf_max_gas b).
Definition ready_eqb (a b : ready_result) : bool :=
  match a, b with
  | ReadyOk, ReadyOk => true
  | ReadyErr BalanceOverflow, ReadyErr BalanceOverflow => true
  | ReadyErr TransactionExpiration, ReadyErr TransactionExpiration => true
  | ReadyErr (InsufficientMaxFee p g), ReadyErr (InsufficientMaxFee p' g') => (p =? p') && (g =? g')
  | _, _ => false
  end.

(* what the implementation returned for one (configuration, transaction, price) *)
Record tx_case : Type := mk_tx_case {
  c_gc : gas_costs;
  c_fp : fee_params;
  c_tx : tx_q;
  c_price : N;
  c_inputs_gas : outcome N;                       (* gas_used_by_inputs *)
  c_metadata_gas : outcome N;                     (* gas_used_by_metadata *)
  c_min_gas : outcome N;
  c_max_gas : outcome N;
  c_min_fee : outcome N;                          (* u128 *)
  c_max_fee : outcome N;
  c_refunds : list (N * outcome (option N));      (* used_gas, refund_fee *)
  c_fee : outcome (option tx_fee);                (* TransactionFee::checked_from_tx *)
  c_ready : list (option N * outcome ready_result)   (* block height, Checked::into_ready *)
}.

Inductive fee_case : Type :=
| CResolve (c : dep_cost) (units : N) (res : outcome N) (res_without_base : outcome N)
| CTx (c : tx_case).

(* executed L3 formula (a test of the theorems' statements, not a proof): whenever the model
   returns a fee and the factor is >= 1, it equals ceil(gas * price / factor) + tip *)
Definition formula_ok (gas fee : outcome N) (price factor tip : N) : bool :=
  match gas, fee with
  | Ret g, Ret f => (factor =? 0) ||
                    (Z.of_N f =? fee_spec (Z.of_N g) (Z.of_N price) (Z.of_N factor) (Z.of_N tip))%Z
  | _, _ => true
  end.

Definition check_tx_case (c : tx_case) : bool :=
  let gc := c_gc c in let fp := c_fp c in let tx := c_tx c in let p := c_price c in
  out_eqb N.eqb (gas_used_by_inputs gc tx) (c_inputs_gas c) &&
  out_eqb N.eqb (gas_used_by_metadata gc tx) (c_metadata_gas c) &&
  out_eqb N.eqb (min_gas gc fp tx) (c_min_gas c) &&
  out_eqb N.eqb (max_gas gc fp tx) (c_max_gas c) &&
  out_eqb N.eqb (min_fee gc fp tx p) (c_min_fee c) &&
  out_eqb N.eqb (max_fee gc fp tx p) (c_max_fee c) &&
  forallb (fun ur => out_eqb (opt_eqb N.eqb) (refund_fee gc fp tx (fst ur) p) (snd ur)) (c_refunds c) &&
  out_eqb (opt_eqb fee_eqb) (checked_from_tx gc fp tx p) (c_fee c) &&
  forallb (fun hr => out_eqb ready_eqb (into_ready gc fp tx p (fst hr)) (snd hr)) (c_ready c) &&
  formula_ok (c_min_gas c) (c_min_fee c) p (fp_factor fp) (tq_tip tx) &&
  formula_ok (c_max_gas c) (c_max_fee c) p (fp_factor fp) (tq_tip tx).

Definition check_fee_case (c : fee_case) : bool :=
  match c with
  | CResolve d u r rw => out_eqb N.eqb (resolve d u) r && out_eqb N.eqb (resolve_without_base d u) rw
  | CTx t => check_tx_case t
  end.

Definition bad {A} (chk : A -> bool) (cs : list (N * A)) : list N :=
  map fst (filter (fun c => negb (chk (snd c))) cs).
Definition bad_fee := bad check_fee_case.
