(* Run/Inputs.v — trace validation for C30 (cases produced by harness/src/bin/inputs.rs).
   ITx: one script transaction executed step by step on the real interpreter over a recording
        storage: the contract inputs, the contract-table accesses made before the first
        instruction, and every step that is a contract-related instruction or made a
        contract-table access: opcode, call stack before/after (ids read from VM memory), the
        contract id the instruction names (read from VM memory through its pointer register
        before it executes), outcome, and the accesses (table, contract id, read/write).
   IPred: one predicate run through check_predicates / estimate_predicates with a probe
        instruction.
   The checker classifies the instruction, asks Vm.InputsModel.step what it may touch and what
   its guard says, and reports every step it cannot explain. *)
From FV Require Import Base.Bytes Gen.KvTable Vm.InputsModel Run.KvLit.
Open Scope N_scope.

Definition bad {A} (chk : A -> bool) (cs : list (N * A)) : list N :=
  map fst (filter (fun c => negb (chk (snd c))) cs).

Record istep := {
  is_op : N;
  is_frames : list N;            (* call stack before, innermost first *)
  is_target : option N;          (* id named by the instruction; None: not applicable / unreadable *)
  is_mode : N;                   (* the imm06 of LDC *)
  is_outcome : N;                (* 0 proceed 1 return 2 return data 3 revert 4 panic 5 error *)
  is_reason : N;
  is_touches : list (N * N * N); (* table (0 code, 1 state, 2 balances), contract id, 0 read / 1 write *)
  is_frames' : list N;           (* call stack after *)
}.
Record itx := {
  it_inputs : list N;
  it_init : list (N * N * N);
  it_steps : list istep;
  it_other_steps : N;            (* steps of other instructions without any contract-table access (not listed) *)
}.
Record ipred := {
  ip_op : N; ip_mode : N;
  ip_entry : N;                  (* 0 check_predicates, 1 estimate_predicates *)
  ip_verdict : N;                (* 0 accepted, 1 PanicInstruction, 2 Panic, 3 Storage, 4 other *)
  ip_reason : N;
  ip_instr_op : N;               (* opcode byte of the instruction named by the panic *)
  ip_storage_calls : N;          (* calls seen by the recording predicate storage on contract tables *)
}.
Inductive icase := ITx (t : itx) | IPred (p : ipred).

Definition codeops : list (N * codeop) := [(OP_CCP, CCcp); (OP_CSIZ, CCsiz); (OP_CROO, CCroo)].
Definition sops : list (N * sop) :=
  [(OP_SCWQ, S_SCWQ); (OP_SRW, S_SRW); (OP_SRWQ, S_SRWQ); (OP_SWW, S_SWW); (OP_SWWQ, S_SWWQ); (OP_SCLR, S_SCLR); (OP_SRDD, S_SRDD);
   (OP_SRDI, S_SRDI); (OP_SWRD, S_SWRD); (OP_SWRI, S_SWRI); (OP_SUPD, S_SUPD); (OP_SUPI, S_SUPI); (OP_SPLD, S_SPLD)].
Fixpoint assoc {V} (l : list (N * V)) (k : N) : option V :=
  match l with [] => None | (k', v) :: r => if k' =? k then Some v else assoc r k end.

(* None: the instruction names a contract but the id could not be read *)
Definition classify (op : N) (target : option N) (mode : N) : option iop :=
  let need (f : N -> iop) := match target with Some t => Some (f t) | None => None end in
  if op =? OP_CALL then need OpCall
  else if op =? OP_LDC then (if mode =? 0 then need (fun t => OpLdc t 0) else Some (OpLdc 0 mode))
  else if op =? OP_BAL then need OpBal
  else if op =? OP_TR then need OpTr
  else if op =? OP_TRO then Some OpTro
  else if op =? OP_MINT then Some OpMint
  else if op =? OP_BURN then Some OpBurn
  else if op =? OP_SMO then Some OpSmo
  else if op =? OP_RET then Some OpRet
  else if op =? OP_RETD then Some OpRetd
  else match assoc codeops op with
       | Some k => need (OpCodeRead k)
       | None => match assoc sops op with Some k => Some (OpStorage k) | None => Some (OpOther op) end
       end.

Definition table_code (t : table) : N := match t with TCode => 0 | TState => 1 | TBalance => 2 end.
Definition acc_code (a : access) : N := match a with ARead => 0 | AWrite => 1 end.
Definition touch_in (x : N * N * N) (l : list touch) : bool :=
  let '(tb, c, a) := x in
  existsb (fun t => (table_code (t_table t) =? tb) && (t_cid t =? c) && (acc_code (t_acc t) =? a)) l.

(* panic reasons that can fire before the guard of each class is reached *)
Definition generic_pre : list N := [PR_OutOfGas; PR_MemoryOverflow; PR_UninitalizedMemoryAccess].
Definition pre_reasons (o : iop) : list N :=
  generic_pre ++
  match o with
  | OpCall _ => [PR_ContractNotFound; PR_NotEnoughBalance]
  | OpLdc _ _ => [PR_ExpectedUnallocatedStack; PR_ContractMaxSize]
  | OpCodeRead CCcp _ => [PR_MemoryOwnership]
  | OpCodeRead CCsiz _ | OpBal _ => [PR_ReservedRegisterNotWritable]
  | OpStorage _ => [PR_TooManySlots]
  | _ => []
  end.
Definition is_internal_only (o : iop) : bool := match o with OpMint | OpBurn | OpStorage _ => true | _ => false end.
Definition has_target (o : iop) : bool :=
  match o with OpCall _ | OpCodeRead _ _ | OpBal _ | OpTr _ => true | OpLdc _ m => m =? 0 | _ => false end.

Fixpoint listN_eqb (a b : list N) : bool :=
  match a, b with [], [] => true | x :: a', y :: b' => (x =? y) && listN_eqb a' b' | _, _ => false end.

Definition check_istep (inputs : list N) (s : istep) : bool :=
  let st := {| i_inputs := inputs; i_frames := is_frames s; i_pred := false |} in
  let panic := is_outcome s =? 4 in
  (* the active contract is an input, before and after *)
  forallb (fun c => mem_n c inputs) (is_frames s) && forallb (fun c => mem_n c inputs) (is_frames' s) &&
  match classify (is_op s) (is_target s) (is_mode s) with
  | None => panic && match is_touches s with [] => true | _ => false end && listN_eqb (is_frames' s) (is_frames s)
  | Some o =>
      let x := step st o in
      let allowed := match r_guard x with VPass => r_pre x ++ r_post x | _ => r_pre x end in
      forallb (fun t => touch_in t allowed) (is_touches s) &&
      match r_guard x with
      | VNotInInputs => panic && ((is_reason s =? PR_ContractNotInInputs) || mem_n (is_reason s) (pre_reasons o))
      | VExpectedInternal => panic && ((is_reason s =? PR_ExpectedInternalContext) || mem_n (is_reason s) (pre_reasons o))
      | VNotAllowedInPredicate => false
      | VPass =>
          negb (panic && has_target o && (is_reason s =? PR_ContractNotInInputs)) &&
          negb (panic && is_internal_only o && (is_reason s =? PR_ExpectedInternalContext))
      end &&
      (* call stack *)
      listN_eqb (is_frames' s)
        (match o with
         | OpCall t => if is_outcome s =? 0 then i_frames (r_next x) else is_frames s
         | OpRet | OpRetd => if (is_outcome s =? 1) || (is_outcome s =? 2) then i_frames (r_next x) else is_frames s
         | _ => is_frames s
         end)
  end.

Definition check_itx (t : itx) : bool :=
  forallb (fun x => touch_in x (map (fun c => mk TCode c ARead) (it_inputs t))) (it_init t) &&
  forallb (check_istep (it_inputs t)) (it_steps t).
(* positions of the unexplained steps (for diagnosis) *)
Definition itx_detail (t : itx) : list N :=
  map fst (filter (fun p => negb (check_istep (it_inputs t) (snd p))) (combine (map N.of_nat (seq 0 (length (it_steps t)))) (it_steps t))).

Definition check_ipred (p : ipred) : bool :=
  let st := {| i_inputs := []; i_frames := []; i_pred := true |} in
  (ip_storage_calls p =? 0) &&
  match classify (ip_op p) (Some 0) (ip_mode p) with
  | None => false
  | Some o =>
      match r_guard (step st o) with
      | VNotAllowedInPredicate =>
          (* estimate_predicates (entry 1) measures gas and does not report a failing predicate *)
          (ip_entry p =? 1) ||
          ((ip_verdict p =? 1) && (ip_reason p =? PR_ContractInstructionNotAllowed) && (ip_instr_op p =? ip_op p))
      | _ => negb (ip_reason p =? PR_ContractInstructionNotAllowed)
      end
  end.

Definition check_icase (c : icase) : bool := match c with ITx t => check_itx t | IPred p => check_ipred p end.
Definition bad_icases := bad check_icase.
