(* Run/Codec.v — case runner of the canonical-codec correspondence (cases are produced by
   harness/src/bin/codec.rs).  The L1 model (Codec/CodecModel.v) is instantiated with the
   VEC_DECODE_LIMIT read from canonical.rs (Gen/Schemas.v) and evaluated by vm_compute. *)
From Coq Require Import Uint63 ZArith.
From FV Require Import Base.Bytes Base.U64 Codec.Schema Codec.CodecModel Gen.Schemas.
Open Scope N_scope.

Definition L : N := vec_decode_limit.

(* compact byte-string literals for the generated case files: 7 bytes per primitive 63-bit
   integer, big-endian, the last word holding the remaining len mod 7 bytes.  (A Coq string
   literal costs ~20 term nodes per byte; this costs < 1.) *)
Definition i2n (x : int) : N := Z.to_N (Uint63.to_Z x).
Fixpoint pk (n : N) (ws : list int) : bytes :=
  match ws with
  | [] => []
  | w :: r => let k := N.min n 7 in be_encode (N.to_nat k) (i2n w) ++ pk (n - k) r
  end.
Example pk_ok : pk 9 [0x00010203040506; 0xfffe]%uint63 = [0; 1; 2; 3; 4; 5; 6; 255; 254].
Proof. vm_compute. reflexivity. Qed.

(* what the Rust decoder returned: value + consumed bytes | error kind | host panic *)
Inductive dres : Type :=
| DOk (v : val) (consumed : N)
| DErr (e : err)
| DPanic.

Definition dres_agrees (b : bytes) (m : result (val * bytes)) (r : dres) : bool :=
  match m, r with
  | Ok (v, rest), DOk v' n => val_eqb v v' && (lenN b - lenN rest =? n) && (lenN rest <=? lenN b)
  | Err e, DErr e' => err_eqb e e'
  | _, _ => false
  end.

(* ---- C01: a Rust value in neutral form, its to_bytes(), size(), size_static(),
        size_dynamic(), and what decoding those bytes returned *)
Record enc_case := {
  ec_ty : ty;
  ec_val : val;
  ec_bytes : bytes;
  ec_size : N;
  ec_size_static : N;
  ec_size_dynamic : N;
  ec_dec : dres;
}.

Definition check_enc (c : enc_case) : bool :=
  let t := ec_ty c in
  let v := ec_val c in
  typed t v &&
  (* the model encoder produces the same bytes and the same three sizes *)
  match encode L t v with Ok b => bytes_eqb b (ec_bytes c) | Err _ => false end &&
  (size t v =? ec_size c) && (size_static t v =? ec_size_static c) && (size_dynamic t v =? ec_size_dynamic c) &&
  (* the model decoder, run on the Rust bytes, returns what the Rust decoder returned *)
  dres_agrees (ec_bytes c) (dec L t (ec_bytes c)) (ec_dec c) &&
  (* and the statements of the C01 theorems, executed on this value (a test of the statement,
     not a proof): if wf then the decoded value is erase v and everything is consumed *)
  (if wf L t v then
     match ec_dec c with
     | DOk v' n => val_eqb v' (erase t v) && (n =? lenN (ec_bytes c)) && (ec_size c mod 8 =? 0)
     | _ => false
     end
   else true).
Definition bad {A} (chk : A -> bool) (cs : list (N * A)) : list N :=
  map fst (filter (fun c => negb (chk (snd c))) cs).
Definition bad_enc := bad check_enc.

(* ---- C02: arbitrary bytes and what the Rust decoder returned *)
Record dec_case := {
  dc_ty : ty;
  dc_bytes : bytes;
  dc_res : dres;
}.
Definition check_dec (c : dec_case) : bool :=
  let t := dc_ty c in
  let m := dec L t (dc_bytes c) in
  dres_agrees (dc_bytes c) m (dc_res c) &&
  (* C02_fixpoint executed on the model: the decoded value is typed, wf, re-encodes to exactly
     the consumed length and decodes back to itself *)
  match m with
  | Ok (v, rest) =>
      typed t v && wf L t v && val_eqb (erase t v) v &&
      (lenN (enc t v) + lenN rest =? lenN (dc_bytes c)) &&
      match dec L t (enc t v) with Ok (v2, []) => val_eqb v2 v | _ => false end
  | Err ModelStuck => false
  | Err _ => true
  end.
Definition bad_dec := bad check_dec.
