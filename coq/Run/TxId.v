(* Run/TxId.v — case runner of the transaction-id correspondence (C03); cases are produced by
   harness/src/bin/txid.rs.  The L1 model (TxId/IdModel.v: interpreter of Gen/PrepareSign.v +
   the canonical encoder of Codec/CodecModel.v) is instantiated with the executable SHA-256 of
   Base/Sha256.v and evaluated by vm_compute; the ids are compared byte for byte. *)
From FV Require Import Base.Bytes Base.U64 Base.Sha256 Codec.Schema Codec.CodecModel Gen.Schemas
     TxId.IdSpec TxId.IdModel Run.Codec.
Open Scope N_scope.

(* kind index, neutral value (metadata = VUnit), chain id, and what the implementation returned:
   tx.id(&chain) before precompute, whether precompute succeeded, cached_id() (empty = None) and
   id() after it *)
Inductive id_case : Type :=
| idc (kind : nat) (v : val) (chain : N) (id : bytes) (pre_ok : bool) (cached : bytes) (id_after : bytes).

Definition opt_bytes_eqb (a : option bytes) (b : bytes) : bool :=
  match a, b with
  | None, [] => true
  | Some x, _ :: _ => bytes_eqb x b
  | _, _ => false
  end.

Definition check_id (c : id_case) : bool :=
  match c with
  | idc ki v chain id pre_ok cached id_after =>
      match kind_of_index ki with
      | None => false
      | Some k =>
          let m := {| m_kind := k; m_val := v; m_cache := None |} in
          let m' := precompute sha256 chain pre_ok m in
          typed (kind_ty k) v && (chain <? U64) &&
          (* UniqueIdentifier::id on the uncached transaction *)
          bytes_eqb (id_model sha256 chain m) id &&
          (* Cacheable::precompute, then cached_id() and id() *)
          opt_bytes_eqb (cached_id m') cached &&
          bytes_eqb (id_model sha256 chain m') id_after &&
          (* the statements of the C03 theorems executed on this value (a test of the statements,
             not a proof): model strip = spec strip; model preimage = spec preimage; stripping
             keeps the value typed (and well-formed if it was) *)
          val_eqb (strip_model k v) (strip k v) &&
          bytes_eqb (preimage_model chain k v) (id_preimage chain k v) &&
          typed (kind_ty k) (strip k v) &&
          (negb (wf L (kind_ty k) v) || wf L (kind_ty k) (strip k v))
      end
  end.
Definition bad_id := bad check_id.
