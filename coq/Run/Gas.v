(* Run/Gas.v — case runner for C26 (cases produced by harness/src/bin/gas.rs).
   One case = one traced transaction: the gas schedule entries it uses, the gas limit, and
   for every step the instruction word, its four operand registers, ($cgas, $ggas) before and
   after, outcome, call depth and the context gas saved in the innermost frame.  The checker
   replays the model's state machine over the steps. *)
From FV Require Import Base.Bytes Base.U64 Vm.FlowSpec Gen.FlowTable Vm.FlowModel Vm.GasTypes Vm.GasSpec Gen.GasTable Vm.GasModel.
Open Scope N_scope.

Definition bad {A} (chk : A -> bool) (cs : list (N * A)) : list N :=
  map fst (filter (fun c => negb (chk (snd c))) cs).

Record gstep := {
  gs_kind : N;                 (* 0 executed, 1 fetch fault *)
  gs_raw : N; gs_decoded : bool;
  gs_va : N; gs_vb : N; gs_vc : N; gs_vd : N;
  gs_c0 : N; gs_g0 : N; gs_c1 : N; gs_g1 : N;
  gs_outcome : N;              (* 0 Proceed 1 Return 2 ReturnData 3 Revert 4 Panic 5 Error *)
  gs_reason : N;
  gs_depth1 : N;               (* call depth after the step *)
  gs_saved_top1 : N;           (* context gas saved in the innermost frame after the step (0 if none) *)
  (* quantities the instruction reads while executing, observed before the step: *)
  gs_code_size : option N;     (* size of the contract code named by the operand (None: absent / unreadable) *)
  gs_blob_size : option N;     (* size of the blob named by the operand *)
  gs_new_entry : bool;         (* the balance entry credited by CALL/TR/MINT does not exist yet *)
  gs_micro : list smicro;      (* storage micro-operations the instruction attempts, in order *)
}.
Record gcase := {
  gc_costs : list (string * cost_val);
  gc_default : bool;           (* the schedule is claimed to be the default one *)
  gc_limit : N;
  gc_gas_used : option N;      (* from the ScriptResult receipt *)
  gc_final_ggas : N;
  gc_steps : list gstep;
}.

Definition fv (s : gstep) : rfield -> N :=
  fun f => match f with FA => gs_va s | FB => gs_vb s | FC => gs_vc s | FD => gs_vd s end.

Definition cost_eqb (a b : cost_val) : bool :=
  match a, b with
  | CFixed x, CFixed y => x =? y
  | CLight x y, CLight x' y' => (x =? x') && (y =? y')
  | CHeavy x y, CHeavy x' y' => (x =? x') && (y =? y')
  | _, _ => false
  end.

(* model state after one observed step; None = the observation contradicts the model *)
Definition step_gas (costs : list (string * cost_val)) (st : gstate) (s : gstep) : option gstate :=
  if negb ((cgas st =? gs_c0 s) && (ggas st =? gs_g0 s)) then None
  else if (gs_kind s =? 1) || negb (gs_decoded s) then Some st
  else
    let w := gs_raw s in
    let op := opcode_of w in
    let o := fun q => match q with OCodeSize => gs_code_size s | OBlobSize => gs_blob_size s end in
    match step_charges costs op w (fv s) o (gs_new_entry s) (gs_micro s) with
    | None => None
    | Some (l, complete) =>
        if (gs_outcome s =? 4) && (gs_reason s =? PANIC_OutOfGas) then
          (* out of gas: some charge of the sequence must exceed what is left when it is made
             (if the sequence is only partly known, the unknown rest may be the one) *)
          if complete && negb (oog_justified (cgas st) l) then None
          else match gas_charge st (cgas st + 1) with GOutOfGas st' => Some st' | _ => None end
        else if ggas st <? gs_g1 s then None
        else
          let delta := ggas st - gs_g1 s in
          let exact_ok :=
            if gs_outcome s =? 4
            then existsb (N.eqb delta) (prefix_sums 0 l)      (* panicked after some of its charges *)
            else complete && (delta =? sum l) in              (* completed: the exact total *)
          if negb exact_ok then None
          else
            match gas_charge st delta with
            | GOk st1 =>
                match class_of op with
                | Some KCall => if gs_outcome s =? 0
                                then match call_forward st1 (gs_vd s) with GOk st2 => Some st2 | _ => None end
                                else Some st1
                | Some KRet => if (gs_outcome s =? 1) || (gs_outcome s =? 2)
                               then match ret_credit st1 with GOk st2 => Some st2 | _ => None end
                               else Some st1
                | _ => Some st1
                end
            | _ => None
            end
    end.

Definition inv_b (st : gstate) : bool := cgas st + sum (saved st) <=? ggas st.
Definition matches_after (st : gstate) (s : gstep) : bool :=
  (cgas st =? gs_c1 s) && (ggas st =? gs_g1 s) && (lenN (saved st) =? gs_depth1 s) &&
  match saved st with [] => true | k :: _ => k =? gs_saved_top1 s end &&
  inv_b st && (gs_g1 s <=? gs_g0 s) && (gs_c1 s <=? gs_g1 s).

Fixpoint replay (costs : list (string * cost_val)) (st : gstate) (steps : list gstep) : option gstate :=
  match steps with
  | [] => Some st
  | s :: t => match step_gas costs st s with
              | Some st' => if matches_after st' s then replay costs st' t else None
              | None => None
              end
  end.

Definition check_gcase (c : gcase) : bool :=
  (if gc_default c
   then forallb (fun kv => match slookup (fst kv) default_costs with Some d => cost_eqb d (snd kv) | None => false end) (gc_costs c)
   else true) &&
  match replay (gc_costs c) (init_state (gc_limit c)) (gc_steps c) with
  | None => false
  | Some st =>
      (ggas st =? gc_final_ggas c) &&
      match gc_gas_used c with
      | Some u => match gas_used (gc_limit c) st with Some u' => u =? u' | None => false end
      | None => true
      end
  end.
Definition bad_gcases := bad check_gcase.
