(* Run/Alu.v — case runner of the ALU correspondence (cases come from harness/src/bin/alu.rs).
   A case = one instruction executed on the real interpreter: the state before, and what was
   observed after (panic reason or not, every changed register, the inspected memory regions).
   The L1 model must reproduce all of it. *)
From FV Require Import Base.Bytes Base.U64 Base.Sha256 Alu.AluSyntax Gen.AluTable Alu.AluModel.
Open Scope N_scope.

Fixpoint lookup (l : list (N * N)) (k d : N) : N :=
  match l with [] => d | (k', v) :: r => if k' =? k then v else lookup r k d end.

(* program registers not mentioned in a case hold this filler (the harness writes the same) *)
Definition reg_filler (i : N) : N := 0x5A5A5A5A00000000 + 0x01010101 * i.

Fixpoint region_byte (rs : list (N * bytes)) (a : N) : N :=
  match rs with
  | [] => 0
  | (start, bs) :: r =>
    if (start <=? a) && (a <? start + lenN bs) then nth (N.to_nat (a - start)) bs 0 else region_byte r a
  end.

(* system registers not mentioned in a case (the harness prints only the ones that differ) *)
Definition sys_default (i : N) : N :=
  if i =? REG_ONE then 1 else if i =? REG_SSP then 512 else if i =? REG_SP then 1536
  else if i =? REG_HP then MEM_SIZE - 1024 else 0.

(* n-byte big-endian string given as a number (number literals elaborate faster than strings) *)
Definition nb (n v : N) : bytes := be_encode (N.to_nat n) v.

Record alu_case := {
  c_instr : instr; c_cost : N; c_guess : N;
  c_sys : list (N * N);         (* system registers before, where different from sys_default *)
  c_prog : list (N * N);        (* program registers set explicitly *)
  c_stack_len : N; c_mhp : N; c_prev_hp : N;
  c_mem : list (N * bytes);     (* memory contents before (elsewhere zero) *)
  c_panic : option N;           (* observed: PanicReason byte, None if the instruction succeeded *)
  c_diff : list (N * N);        (* observed: every register whose value changed, with its new value *)
  c_mem' : list (N * bytes);    (* observed: contents after, of the inspected regions *)
}.

Definition init_regs (c : alu_case) : N -> N :=
  fun i => if i <? 16 then lookup (c_sys c) i (sys_default i) else lookup (c_prog c) i (reg_filler i).
Definition init_state (c : alu_case) : state :=
  {| regs := init_regs c;
     memo := {| m_stack_len := c_stack_len c; m_hp := c_mhp c; m_byte := region_byte (c_mem c) |};
     prev_hp := c_prev_hp c |}.

Definition regs64 : list N := map N.of_nat (seq 0 64).

Definition state_matches (c : alu_case) (s : state) : bool :=
  forallb (fun i => regs s i =? lookup (c_diff c) i (init_regs c i)) regs64 &&
  forallb (fun r => bytes_eqb (bytes_at (m_byte (memo s)) (fst r) (length (snd r))) (snd r)) (c_mem' c) &&
  (m_stack_len (memo s) =? c_stack_len c) && (m_hp (memo s) =? c_mhp c).

Definition check_alu (c : alu_case) : bool :=
  match exec_alu (c_cost c) (c_guess c) (c_instr c) (init_state c) with
  | Done s => match c_panic c with None => state_matches c s | Some _ => false end
  | Panic r s => match c_panic c with Some code => (code =? reason_code r) && state_matches c s | None => false end
  | HostPanic => false
  end.

(* ---- exhaustive narrow-int sweep: all c in [0,256), b in [sw_b_lo, sw_b_hi), upper operand bits
   filled with sw_hi_b / sw_hi_c; per pair 18 bytes (status, dst, $of, $err); compared by SHA-256 *)
Record sweep := {
  sw_imm : N; sw_flag : N; sw_cost : N; sw_hi_b : N; sw_hi_c : N; sw_b_lo : N; sw_b_hi : N;
  sw_digest : bytes;
}.

Definition sweep_state (flag vb vc : N) : state :=
  {| regs := fun i => if i =? REG_ONE then 1 else if i =? REG_PC then 4096 else if i =? REG_GGAS then 1000000
                      else if i =? REG_CGAS then 1000000 else if i =? REG_FLAG then flag
                      else if i =? 17 then vb else if i =? 18 then vc
                      else if i <? 16 then 0 else reg_filler i;
     memo := {| m_stack_len := 0; m_hp := MEM_SIZE; m_byte := fun _ => 0 |};
     prev_hp := VM_MAX_RAM |}.

Definition sweep_one (sw : sweep) (b c : N) : bytes :=
  let i := {| i_op := O_NIOP; i_ra := 16; i_rb := 17; i_rc := 18; i_rd := 0; i_imm := sw_imm sw |} in
  match exec_alu (sw_cost sw) 0 i (sweep_state (sw_flag sw) (sw_hi_b sw * 256 + b) (sw_hi_c sw * 256 + c)) with
  | Done s => 0 :: be_encode 8 (regs s 16) ++ be_encode 8 (regs s REG_OF) ++ [regs s REG_ERR]
  | Panic r s => reason_code r :: be_encode 8 (regs s 16) ++ be_encode 8 (regs s REG_OF) ++ [regs s REG_ERR]
  | HostPanic => [255]
  end.

Definition nrange (lo hi : N) : list N := map (fun k => lo + N.of_nat k) (seq 0 (N.to_nat (hi - lo))).

Definition sweep_stream (sw : sweep) : bytes :=
  flat_map (fun b => flat_map (fun c => sweep_one sw b c) (nrange 0 256)) (nrange (sw_b_lo sw) (sw_b_hi sw)).

Definition check_sweep (sw : sweep) : bool := bytes_eqb (sha256 (sweep_stream sw)) (sw_digest sw).

Inductive acase := Single (c : alu_case) | Sweep (sw : sweep).
Definition check_acase (a : acase) : bool :=
  match a with Single c => check_alu c | Sweep sw => check_sweep sw end.

Definition bad {A} (chk : A -> bool) (cs : list (N * A)) : list N :=
  map fst (filter (fun c => negb (chk (snd c))) cs).
Definition bad_alu := bad check_acase.
