(* Run/Auth.v — executable instance of the C20 gating model and the case runner of the
   correspondence check (cases come from harness/src/bin/auth.rs).

   The oracles are instantiated from DATA in each case, as measured on the real code by the
   harness independently of the functions under test:
     recover_pk  : table  witness bytes -> address recovered over the transaction id
                   (fuel_crypto Signature::recover + sha2; hash_pk = identity on that address)
     pred_owner  : the executable C15 model (Ids/IdsModel.v, SHA-256)
     run         : per predicate input (G, outcome): the program needs G gas and then ends in
                   [outcome]; with less than G available it runs out of gas with nothing left
                   (hand-written, gas-oblivious predicate programs; G measured by a probe)
     max_gas     : base + sum of the declared predicate gas (base measured on the real tx) *)
From FV Require Import Base.Bytes Base.U64 Base.Sha256 Gen.IdsConsts Ids.IdsModel Auth.AuthModel.
Open Scope N_scope.

Definition x_pred_owner (p : bytes) : bytes :=
  match predicate_owner sha256 p with Some o => o | None => [] end.

(* ---------------------------------------------------------------- signatures *)
Fixpoint assoc_bytes {A} (t : list (bytes * A)) (k : bytes) : option A :=
  match t with
  | [] => None
  | (k', v) :: r => if bytes_eqb k' k then Some v else assoc_bytes r k
  end.

Record sig_case := mkSig {
  sg_inputs : list input;
  sg_witnesses : list bytes;
  sg_recovered : list (option bytes);     (* per witness: the address it recovers to over the tx id *)
  sg_verdict : option (N * N);            (* None = Ok; Some (kind, input index):
                                             1 InputWitnessIndexBounds, 2 InputInvalidSignature, 3 InputPredicateOwner *)
}.

Definition sig_err_code (e : sig_err) : N * N :=
  match e with
  | InputWitnessIndexBounds i => (1, i)
  | InputInvalidSignature i => (2, i)
  | InputPredicateOwner i => (3, i)
  end.

Definition table_recover (c : sig_case) (w txid : bytes) : option bytes :=
  match assoc_bytes (combine (sg_witnesses c) (sg_recovered c)) w with
  | Some r => r
  | None => None
  end.

Definition opt_pair_eqb (a b : option (N * N)) : bool :=
  match a, b with
  | None, None => true
  | Some (x, y), Some (x', y') => (x =? x') && (y =? y')
  | _, _ => false
  end.

Definition check_sig_case (c : sig_case) : bool :=
  let run_model (f : forall PK : Type, (bytes -> bytes -> option PK) -> (PK -> bytes) -> (bytes -> bytes) ->
                                        bytes -> list input -> list bytes -> option sig_err) :=
      option_map sig_err_code (f bytes (table_recover c) (fun a => a) x_pred_owner [] (sg_inputs c) (sg_witnesses c)) in
  opt_pair_eqb (run_model check_signatures) (sg_verdict c) &&
  opt_pair_eqb (run_model check_signatures_nocache) (sg_verdict c).

(* ---------------------------------------------------------------- predicates *)
Inductive verdict := VOk (gas : N) | VErr (code index reason : N).

Definition pv_err_code (e : pv_err) : verdict :=
  match e with
  | GasMismatch i => VErr 1 i 0
  | OutOfGas i => VErr 2 i 0
  | InvalidOwner i => VErr 3 i 0
  | PFalse i => VErr 4 i 0
  | TransactionExceedsTotalGasAllowance g => VErr 6 g 0
  | PBug => VErr 8 0 0
  | PanicInstruction i r => VErr 9 i r
  | PPanic i r => VErr 10 i r
  | PStorage i => VErr 11 i 0
  end.

Definition verdict_eqb (a b : verdict) : bool :=
  match a, b with
  | VOk g, VOk g' => g =? g'
  | VErr c i r, VErr c' i' r' => (c =? c') && (i =? i') && (r =? r')
  | _, _ => false
  end.

Record pred_case := mkPred {
  pd_inputs : list input;
  pd_progs : list (N * (N * run_state));   (* predicate input index -> (G, outcome with >= G gas) *)
  pd_base : N;                             (* max_gas(tx) - sum of declared predicate gas *)
  pd_mpt : N;                              (* max_gas_per_tx *)
  pd_mpp : N;                              (* max_gas_per_predicate *)
  pd_seq : verdict;                        (* predicates::check_predicates *)
  pd_order : list N;                       (* delivered[k] = tasks[order[k]] (shuffling ParallelExecutor) *)
  pd_par : verdict;                        (* predicates::check_predicates_async with that delivery *)
  pd_est : option (verdict * list N);      (* predicates::estimate_predicates on a copy: verdict and, if Ok,
                                              predicate_gas_used of every input afterwards (0 if none) *)
  pd_est_check : option verdict;           (* predicates::check_predicates on the estimated copy *)
}.

Fixpoint assoc_n {A} (t : list (N * A)) (k : N) : option A :=
  match t with
  | [] => None
  | (k', v) :: r => if k' =? k then Some v else assoc_n r k
  end.

Definition prog_run (c : pred_case) (tx : list input) (idx : N) (verifying : bool) (av : N) : run_state * N :=
  match assoc_n (pd_progs c) idx with
  | Some (G, outcome) => if av <? G then (RErrOutOfGas, 0) else (outcome, av - G)
  | None => (RErrBug, 0)
  end.

Fixpoint declared_total (ins : list input) : N :=
  match ins with
  | [] => 0
  | IPredicate _ _ d :: r => d + declared_total r
  | _ :: r => declared_total r
  end.
Definition case_max_gas (c : pred_case) (tx : list input) : N := pd_base c + declared_total tx.

Definition verdict_of (r : res pv_err (N * list input)) : verdict :=
  match r with inl e => pv_err_code e | inr (g, _) => VOk g end.

Definition gas_fields (tx : list input) : list N :=
  map (fun i => match i with IPredicate _ _ d => d | _ => 0 end) tx.

Fixpoint list_n_eqb (a b : list N) : bool :=
  match a, b with
  | [], [] => true
  | x :: a', y :: b' => (x =? y) && list_n_eqb a' b'
  | _, _ => false
  end.

(* delivered[k] = tasks[order[k]] *)
Definition deliver {A} (tasks : list A) (order : list N) : list A :=
  flat_map (fun k => match nth_error tasks (N.to_nat k) with Some t => [t] | None => [] end) order.

Definition check_pred_case (c : pred_case) : bool :=
  let po := x_pred_owner in
  let run := prog_run c in
  let mg := case_max_gas c in
  let tx := pd_inputs c in
  verdict_eqb (verdict_of (check_predicates po run mg (pd_mpt c) (pd_mpp c) tx)) (pd_seq c) &&
  verdict_eqb (verdict_of (check_predicates_async mg (pd_mpt c)
                 (deliver (parallel_checks po run (pd_mpt c) (pd_mpp c) tx true) (pd_order c)) tx)) (pd_par c) &&
  match pd_est c with
  | None => true
  | Some (v, fields) =>
      let r := estimate_predicates po run mg (pd_mpt c) (pd_mpp c) tx in
      verdict_eqb (verdict_of r) v &&
      match r with
      | inr (_, tx') =>
          list_n_eqb (gas_fields tx') fields &&
          match pd_est_check c with
          | Some v' => verdict_eqb (verdict_of (check_predicates po run mg (pd_mpt c) (pd_mpp c) tx')) v'
          | None => true
          end
      | inl _ => true
      end
  end.

Inductive auth_case := CSig (c : sig_case) | CPred (c : pred_case).
Definition check_auth (c : auth_case) : bool :=
  match c with CSig s => check_sig_case s | CPred p => check_pred_case p end.

Definition bad {A} (chk : A -> bool) (cs : list (N * A)) : list N :=
  map fst (filter (fun c => negb (chk (snd c))) cs).
Definition bad_auth := bad check_auth.
