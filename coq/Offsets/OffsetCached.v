(* Offsets/OffsetCached.v — C04: offsets read from cached metadata equal the offsets computed
   without it.  `precompute_offsets` drops whatever metadata the transaction carries and stores
   the offsets of the CURRENT value, so after any edit a second precompute makes every cached
   answer equal to the uncached answer of the edited transaction.  No typing hypothesis. *)
From Coq Require Import Arith PeanoNat.
From FV Require Import Codec.CodecProofs.
From FV Require Export Offsets.OffsetModel.
Local Open Scope string_scope.
Local Open Scope list_scope.
Open Scope N_scope.

Definition nsum (l : list N) : N := fold_right N.add 0 l.
Lemma fold_sat_cap l : forall a, fold_left sat l (cap a) = cap (a + nsum l).
Proof.
  induction l as [|x l IH]; intros a; unfold nsum in *; cbn [fold_left fold_right].
  - rewrite N.add_0_r. reflexivity.
  - rewrite sat_cap_l, IH. f_equal. lia.
Qed.
Lemma sum_sat_nsum l : sum_sat l = cap (nsum l).
Proof. unfold sum_sat. change 0 with (cap 0) at 1. rewrite fold_sat_cap. reflexivity. Qed.
Lemma sat_le_cap a x : a <= u64_max -> sat a (cap x) = cap (a + x).
Proof. intros H. rewrite <- (cap_small a H) at 1. apply sat_cap. Qed.
Lemma sat_bound a b : sat a b <= u64_max.
Proof. rewrite sat_is_cap. unfold cap. lia. Qed.
Lemma cadd_some a b c : cadd a b = Some c -> c = a + b /\ c <= u64_max.
Proof.
  unfold cadd, checked_add. destruct (a + b <? U64) eqn:E; [|discriminate]. intros H. injection H as <-.
  apply N.ltb_lt in E. split; [reflexivity|]. change u64_max with (U64 - 1). lia.
Qed.

(* the vector built by CommonMetadata::compute holds, at index i, what *_offset_at(i) computes *)
Lemma offsets_from_nth t : forall xs off l, offsets_from t off xs = Some l -> off <= u64_max ->
  length l = length xs /\
  forall i, (i < length xs)%nat -> nth_error l i = Some (sat off (sum_sat (map (size t) (firstn i xs)))).
Proof.
  induction xs as [|x r IH]; intros off l H Hoff.
  - injection H as <-. split; [reflexivity|]. intros i Hi. cbn in Hi. lia.
  - cbn [offsets_from] in H. unfold obind, omap in H.
    destruct (cadd off (size t x)) as [off'|] eqn:Ec; [|discriminate H].
    destruct (offsets_from t off' r) as [l'|] eqn:El; [|discriminate H]. injection H as <-.
    destruct (cadd_some _ _ _ Ec) as [-> Hb]. destruct (IH _ _ El Hb) as [Hlen Hnth].
    split; [cbn [length]; lia|]. intros [|j] Hi.
    + cbn [nth_error firstn map]. f_equal. rewrite sum_sat_nsum. unfold nsum. cbn [fold_right].
      rewrite sat_le_cap by exact Hoff. rewrite N.add_0_r. symmetry. apply cap_small, Hoff.
    + cbn [nth_error firstn map length] in *. rewrite (Hnth j ltac:(lia)). f_equal.
      rewrite !sum_sat_nsum. rewrite (sat_le_cap _ _ Hb), (sat_le_cap _ _ Hoff). f_equal. unfold nsum. cbn [fold_right]. lia.
Qed.

Lemma get_offsets_from t xs off l idx : offsets_from t off xs = Some l -> off <= u64_max ->
  get l idx = if idx <? lenN xs then Some (sat off (take_sizes t xs idx)) else None.
Proof.
  intros H Hoff. destruct (offsets_from_nth t xs off l H Hoff) as [Hlen Hnth]. unfold get, lenN. rewrite Hlen.
  destruct (idx <? N.of_nat (length xs)) eqn:E; [|reflexivity]. apply N.ltb_lt in E.
  rewrite (Hnth (N.to_nat idx) ltac:(lia)). unfold take_sizes, lenN. rewrite N.min_l by lia. reflexivity.
Qed.

Lemma get_map_indices {A} (f : N -> A) (xs : list val) idx :
  get (map f (indices xs)) idx = if idx <? lenN xs then Some (f idx) else None.
Proof.
  unfold get, indices, lenN. rewrite !map_length, seq_length.
  destruct (idx <? N.of_nat (length xs)) eqn:E; [|reflexivity]. apply N.ltb_lt in E.
  rewrite nth_error_map, nth_error_map. rewrite (nth_error_nth' _ 0%nat) by (rewrite seq_length; lia).
  rewrite seq_nth by lia. cbn [option_map]. f_equal. f_equal. lia.
Qed.

Definition ptx (k : kind) (v : val) (m : option (cmeta * option N)) : otx := {| o_kind := k; o_val := v; o_meta := m |}.

Theorem cached_equals_uncached k v m tx1 :
  precompute_offsets true (ptx k v m) = Some tx1 ->
  o_kind tx1 = k /\ o_val tx1 = v /\
  (forall f, tx_offset tx1 f = tx_offset (ptx k v None) f) /\
  (forall f idx, tx_offset_at tx1 f idx = tx_offset_at (ptx k v None) f idx) /\
  (forall idx, tx_predicate_offset_at tx1 idx = tx_predicate_offset_at (ptx k v None) idx).
Proof.
  unfold precompute_offsets, ptx. cbn [o_kind o_val].
  destruct (chargeable k) eqn:Hc; cbn [negb].
  2: { intros H. assert (E : tx1 = {| o_kind := k; o_val := v; o_meta := None |}) by congruence. subst tx1. repeat split; reflexivity. }
  unfold compute_meta. cbn [o_kind o_val].
  set (t0 := {| o_kind := k; o_val := v; o_meta := None |}). unfold obind.
  destruct (offsets_from S_Input (inputs_offset t0) (tx_inputs t0)) as [ia|] eqn:Ei; [|cbv beta iota; discriminate].
  destruct (offsets_from S_Output (outputs_offset t0) (tx_outputs t0)) as [oa|] eqn:Eo; [|cbv beta iota; discriminate].
  destruct (offsets_from S_Witness (witnesses_offset t0) (tx_witnesses t0)) as [wa|] eqn:Ew; [|cbv beta iota; discriminate].
  intros H. match type of H with Some ?X = _ => assert (E : tx1 = X) by congruence end. subst tx1. clear H. cbn [o_kind o_val].
  assert (Bi : inputs_offset t0 <= u64_max) by apply sat_bound.
  assert (Bo : outputs_offset t0 <= u64_max) by apply sat_bound.
  assert (Bw : witnesses_offset t0 <= u64_max) by apply sat_bound.
  split; [reflexivity|]. split; [reflexivity|]. split; [|split].
  - intros f. destruct k; try discriminate Hc; destruct f; reflexivity.
  - intros f idx. assert (Hc0 : chargeable (o_kind t0) = true) by exact Hc. unfold tx_offset_at. cbn [o_kind]. rewrite Hc, ?Hc0. destruct f.
    + change (get ia idx = inputs_offset_at t0 idx). rewrite (get_offsets_from _ _ _ _ idx Ei Bi). reflexivity.
    + change (get oa idx = outputs_offset_at t0 idx). rewrite (get_offsets_from _ _ _ _ idx Eo Bo). reflexivity.
    + change (get wa idx = witnesses_offset_at t0 idx). rewrite (get_offsets_from _ _ _ _ idx Ew Bw). reflexivity.
    + destruct k; reflexivity.
    + destruct k; reflexivity.
  - intros idx. assert (Hc0 : chargeable (o_kind t0) = true) by exact Hc. unfold tx_predicate_offset_at. cbn [o_kind]. rewrite Hc, ?Hc0.
    change (match get (map (inputs_predicate_offset_at t0) (indices (tx_inputs t0))) idx with Some r => r | None => None end =
            inputs_predicate_offset_at t0 idx).
    rewrite get_map_indices. destruct (idx <? lenN (tx_inputs t0)) eqn:E; [reflexivity|].
    unfold inputs_predicate_offset_at. cbn [o_meta t0]. unfold get. fold t0. rewrite E. reflexivity.
Qed.
