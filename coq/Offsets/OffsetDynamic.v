(* Offsets/OffsetDynamic.v — C04 for the value-dependent offsets of the five chargeable kinds:
   body end / policies, inputs, outputs, witnesses and their elements.  The model's saturating
   sums of `size`s are the specification's prefix sums of encoder lengths whenever the encoding
   is shorter than 2^64 bytes. *)
From Coq Require Import Arith PeanoNat.
From FV Require Import Codec.CodecInstances TxId.IdProofs.
From FV Require Export Offsets.OffsetProofs.
Local Open Scope string_scope.
Local Open Scope list_scope.
Open Scope N_scope.

(* ================================================================ sizes are capped lengths *)
Lemma size_cap t x : is_codec_type t -> typed t x = true -> size t x = cap (lenN (enc t x)).
Proof. intros Ht Hx. exact (proj1 (inst_size t x Ht Hx)). Qed.
Lemma size_dynamic_cap t x : is_codec_type t -> typed t x = true -> size_dynamic t x = cap (lenN (enc_dynamic t x)).
Proof. intros Ht Hx. exact (proj2 (proj2 (inst_size t x Ht Hx))). Qed.

Lemma sum_sizes_cap t xs : is_codec_type t -> forallb (typed t) xs = true ->
  sum_sat (map (size t) xs) = cap (lenN (enc_all t xs)).
Proof.
  intros Ht Hx. unfold sum_sat, enc_all. change 0 with (cap 0) at 1.
  rewrite (sum_sat_flat (size t) (fun x => enc_static t x ++ enc_dynamic t x) xs).
  - reflexivity.
  - intros x Hin. rewrite forallb_forall in Hx. apply (size_cap t x Ht (Hx x Hin)).
Qed.
Lemma all_sizes_cap t xs : is_codec_type t -> forallb (typed t) xs = true ->
  all_sizes t xs = cap (lenN (enc_all t xs)).
Proof. apply sum_sizes_cap. Qed.
Lemma forallb_firstn {A} (f : A -> bool) n l : forallb f l = true -> forallb f (firstn n l) = true.
Proof.
  revert n. induction l as [|a l IH]; intros [|n] H; try reflexivity.
  cbn [firstn forallb] in *. apply andb_true_iff in H as [H1 H2]. rewrite H1. cbn [andb]. apply IH, H2.
Qed.
Lemma take_sizes_cap t xs idx : is_codec_type t -> forallb (typed t) xs = true ->
  take_sizes t xs idx = cap (lenN (enc_all t (firstn (N.to_nat (N.min idx (lenN xs))) xs))).
Proof. intros Ht Hx. unfold take_sizes. apply sum_sizes_cap; [exact Ht | apply forallb_firstn, Hx]. Qed.

Lemma in_codec (n : string) t : In (n, t) codec_types -> is_codec_type t.
Proof. intros H. unfold is_codec_type. apply in_map_iff. exists (n, t). auto. Qed.
Lemma input_codec : is_codec_type S_Input. Proof. apply (in_codec "Input"). cbn. tauto. Qed.
Lemma output_codec : is_codec_type S_Output. Proof. apply (in_codec "Output"). cbn. tauto. Qed.
Lemma witness_codec : is_codec_type S_Witness. Proof. apply (in_codec "Witness"). cbn. tauto. Qed.
Lemma policies_codec : is_codec_type S_Policies. Proof. apply (in_codec "Policies"). cbn. tauto. Qed.
Lemma purpose_codec : is_codec_type S_UpgradePurpose. Proof. apply (in_codec "UpgradePurpose"). cbn. tauto. Qed.
Lemma slot_codec : is_codec_type S_StorageSlot. Proof. apply (in_codec "StorageSlot"). cbn. tauto. Qed.

(* ================================================================ vector elements *)
Lemma locate_here_full t v so : locate t v (SHere PFull) so (so + lenN (enc_static t v)) = Some (so, enc t v).
Proof.
  assert (E : locate t v (SHere PFull) so (so + lenN (enc_static t v)) =
              if so + lenN (enc_static t v) =? so + lenN (enc_static t v) then Some (so, enc t v) else None)
    by (destruct t; reflexivity).
  rewrite E, N.eqb_refl. reflexivity.
Qed.
Lemma locate_elem te xs i so dyo :
  locate (TVec te) (VL xs) (SElem i (SHere PFull)) so dyo =
  match nth_error xs i with
  | Some x => Some (dyo + lenN (enc_all te (firstn i xs)), enc te x)
  | None => None
  end.
Proof. cbn [locate]. destruct (nth_error xs i); [apply locate_here_full | reflexivity]. Qed.

(* ================================================================ the chargeable layout *)
Definition cval (body pol : val) (ins outs wits : list val) (meta : val) : val :=
  VS [body; pol; VL ins; VL outs; VL wits; meta].

Section Layout.
Variable k : kind.
Hypothesis Hk : k <> KMint.
Variables body pol meta : val.
Variables ins outs wits : list val.
Let v := cval body pol ins outs wits meta.
Let T := kind_ty k.
Let D := lenN (enc_static T v).
Let B := lenN (enc_dynamic (body_ty k) body).
Let P := lenN (enc_dynamic S_Policies pol).
Let I := lenN (enc_all S_Input ins).
Let O := lenN (enc_all S_Output outs).
Let W := lenN (enc_all S_Witness wits).

Lemma enc_len : lenN (enc T v) = D + (B + (P + (I + (O + W)))).
Proof.
  unfold enc. rewrite lenN_app. fold D. f_equal. subst T v B P I O W.
  destruct k; try congruence;
    (match goal with |- lenN (enc_dynamic (kind_ty ?K) _) = _ =>
       change (enc_dynamic (kind_ty K) (cval body pol ins outs wits meta))
         with (enc_dynamic (body_ty K) body ++ enc_dynamic S_Policies pol ++ enc_all S_Input ins ++
               enc_all S_Output outs ++ enc_all S_Witness wits ++ []) end;
     rewrite !lenN_app, lenN_nil; lia).
Qed.

(* where the specification puts the five sections *)
Lemma spec_policies : locate_in T v (fld "policies" PDynamic) = Some (D + B, enc_dynamic S_Policies pol).
Proof. subst T v D B. destruct k; try congruence; reflexivity. Qed.
Lemma spec_inputs : locate_in T v (fld "inputs" PDynamic) = Some (D + B + P, enc_dynamic (TVec S_Input) (VL ins)).
Proof. subst T v D B P. destruct k; try congruence; reflexivity. Qed.
Lemma spec_outputs : locate_in T v (fld "outputs" PDynamic) = Some (D + B + P + I, enc_dynamic (TVec S_Output) (VL outs)).
Proof. subst T v D B P I. destruct k; try congruence; reflexivity. Qed.
Lemma spec_witnesses : locate_in T v (fld "witnesses" PDynamic) = Some (D + B + P + I + O, enc_dynamic (TVec S_Witness) (VL wits)).
Proof. subst T v D B P I O. destruct k; try congruence; reflexivity. Qed.

Lemma spec_input_at i : locate_in T v (SField "inputs" (SElem i (SHere PFull))) =
  match nth_error ins i with
  | Some x => Some (D + B + P + lenN (enc_all S_Input (firstn i ins)), enc S_Input x)
  | None => None
  end.
Proof.
  rewrite <- (locate_elem S_Input ins i 0 (D + B + P)). subst T v D B P. destruct k; try congruence; reflexivity.
Qed.
Lemma spec_output_at i : locate_in T v (SField "outputs" (SElem i (SHere PFull))) =
  match nth_error outs i with
  | Some x => Some (D + B + P + I + lenN (enc_all S_Output (firstn i outs)), enc S_Output x)
  | None => None
  end.
Proof.
  rewrite <- (locate_elem S_Output outs i 0 (D + B + P + I)). subst T v D B P I. destruct k; try congruence; reflexivity.
Qed.
Lemma spec_witness_at i : locate_in T v (SField "witnesses" (SElem i (SHere PFull))) =
  match nth_error wits i with
  | Some x => Some (D + B + P + I + O + lenN (enc_all S_Witness (firstn i wits)), enc S_Witness x)
  | None => None
  end.
Proof.
  rewrite <- (locate_elem S_Witness wits i 0 (D + B + P + I + O)). subst T v D B P I O. destruct k; try congruence; reflexivity.
Qed.

(* the model's chain of saturating additions *)
Let tx := tx0 k v.
Lemma model_inputs_offset : inputs_offset tx = sat (body_offset_end tx) (size_dynamic S_Policies pol).
Proof. subst tx v. destruct k; try congruence; reflexivity. Qed.
Lemma model_outputs_offset : outputs_offset tx = sat (inputs_offset tx) (all_sizes S_Input ins).
Proof. subst tx v. destruct k; try congruence; reflexivity. Qed.
Lemma model_witnesses_offset : witnesses_offset tx = sat (outputs_offset tx) (all_sizes S_Output outs).
Proof. subst tx v. destruct k; try congruence; reflexivity. Qed.
Lemma model_inputs_offset_at idx : inputs_offset_at tx idx =
  if idx <? lenN ins then Some (sat (inputs_offset tx) (take_sizes S_Input ins idx)) else None.
Proof. subst tx v. destruct k; try congruence; reflexivity. Qed.
Lemma model_outputs_offset_at idx : outputs_offset_at tx idx =
  if idx <? lenN outs then Some (sat (outputs_offset tx) (take_sizes S_Output outs idx)) else None.
Proof. subst tx v. destruct k; try congruence; reflexivity. Qed.
Lemma model_witnesses_offset_at idx : witnesses_offset_at tx idx =
  if idx <? lenN wits then Some (sat (witnesses_offset tx) (take_sizes S_Witness wits idx)) else None.
Proof. subst tx v. destruct k; try congruence; reflexivity. Qed.

(* given the body end, everything after it *)
Hypothesis Hpol : typed S_Policies pol = true.
Hypothesis Hins : forallb (typed S_Input) ins = true.
Hypothesis Houts : forallb (typed S_Output) outs = true.
Hypothesis Hwits : forallb (typed S_Witness) wits = true.
Hypothesis Hbody : body_offset_end tx = cap (D + B).
Hypothesis Hsmall : lenN (enc T v) <= u64_max.

Lemma bounds : D + (B + (P + (I + (O + W)))) <= u64_max.
Proof. rewrite <- enc_len. exact Hsmall. Qed.

Lemma inputs_offset_val : inputs_offset tx = D + B + P.
Proof.
  rewrite model_inputs_offset, Hbody, (size_dynamic_cap _ _ policies_codec Hpol), sat_cap.
  fold P. apply cap_small. pose proof bounds. lia.
Qed.
Lemma outputs_offset_val : outputs_offset tx = D + B + P + I.
Proof.
  rewrite model_outputs_offset, inputs_offset_val, (all_sizes_cap _ _ input_codec Hins).
  fold I. rewrite <- (cap_small (D + B + P)) at 1 by (pose proof bounds; lia).
  rewrite sat_cap. apply cap_small. pose proof bounds. lia.
Qed.
Lemma witnesses_offset_val : witnesses_offset tx = D + B + P + I + O.
Proof.
  rewrite model_witnesses_offset, outputs_offset_val, (all_sizes_cap _ _ output_codec Houts).
  fold O. rewrite <- (cap_small (D + B + P + I)) at 1 by (pose proof bounds; lia).
  rewrite sat_cap. apply cap_small. pose proof bounds. lia.
Qed.
Lemma policies_offset_val : policies_offset tx = D + B.
Proof. unfold policies_offset. rewrite Hbody. apply cap_small. pose proof bounds. lia. Qed.

Lemma prefix_le t (xs : list val) i : lenN (enc_all t (firstn i xs)) <= lenN (enc_all t xs).
Proof.
  rewrite <- (firstn_skipn i xs) at 2. unfold enc_all. rewrite flat_map_app, lenN_app. lia.
Qed.
Lemma min_idx idx (xs : list val) : idx < lenN xs -> N.to_nat (N.min idx (lenN xs)) = N.to_nat idx.
Proof. intros H. rewrite N.min_l by lia. reflexivity. Qed.

Lemma inputs_offset_at_val idx : idx < lenN ins ->
  inputs_offset_at tx idx = Some (D + B + P + lenN (enc_all S_Input (firstn (N.to_nat idx) ins))).
Proof.
  intros Hi. rewrite model_inputs_offset_at. apply N.ltb_lt in Hi as Hb. rewrite Hb. f_equal.
  rewrite inputs_offset_val, (take_sizes_cap _ _ _ input_codec Hins), (min_idx idx ins Hi).
  pose proof (prefix_le S_Input ins (N.to_nat idx)). pose proof bounds. fold I in H.
  rewrite <- (cap_small (D + B + P)) at 1 by lia. rewrite sat_cap. apply cap_small. lia.
Qed.
Lemma outputs_offset_at_val idx : idx < lenN outs ->
  outputs_offset_at tx idx = Some (D + B + P + I + lenN (enc_all S_Output (firstn (N.to_nat idx) outs))).
Proof.
  intros Hi. rewrite model_outputs_offset_at. apply N.ltb_lt in Hi as Hb. rewrite Hb. f_equal.
  rewrite outputs_offset_val, (take_sizes_cap _ _ _ output_codec Houts), (min_idx idx outs Hi).
  pose proof (prefix_le S_Output outs (N.to_nat idx)). pose proof bounds. fold O in H.
  rewrite <- (cap_small (D + B + P + I)) at 1 by lia. rewrite sat_cap. apply cap_small. lia.
Qed.
Lemma witnesses_offset_at_val idx : idx < lenN wits ->
  witnesses_offset_at tx idx = Some (D + B + P + I + O + lenN (enc_all S_Witness (firstn (N.to_nat idx) wits))).
Proof.
  intros Hi. rewrite model_witnesses_offset_at. apply N.ltb_lt in Hi as Hb. rewrite Hb. f_equal.
  rewrite witnesses_offset_val, (take_sizes_cap _ _ _ witness_codec Hwits), (min_idx idx wits Hi).
  pose proof (prefix_le S_Witness wits (N.to_nat idx)). pose proof bounds. fold W in H.
  rewrite <- (cap_small (D + B + P + I + O)) at 1 by lia. rewrite sat_cap. apply cap_small. lia.
Qed.
(* beyond the end: None on both sides *)
Lemma inputs_offset_at_none idx : lenN ins <= idx -> inputs_offset_at tx idx = None.
Proof. intros H. rewrite model_inputs_offset_at. destruct (idx <? lenN ins) eqn:E; [apply N.ltb_lt in E; lia | reflexivity]. Qed.
Lemma outputs_offset_at_none idx : lenN outs <= idx -> outputs_offset_at tx idx = None.
Proof. intros H. rewrite model_outputs_offset_at. destruct (idx <? lenN outs) eqn:E; [apply N.ltb_lt in E; lia | reflexivity]. Qed.
Lemma witnesses_offset_at_none idx : lenN wits <= idx -> witnesses_offset_at tx idx = None.
Proof. intros H. rewrite model_witnesses_offset_at. destruct (idx <? lenN wits) eqn:E; [apply N.ltb_lt in E; lia | reflexivity]. Qed.
End Layout.

(* ================================================================ typed chargeable transactions *)
Lemma typed_chargeable k v : k <> KMint -> typed (kind_ty k) v = true ->
  exists body pol ins outs wits meta, v = cval body pol ins outs wits meta /\
    typed (body_ty k) body = true /\ typed S_Policies pol = true /\ forallb (typed S_Input) ins = true /\
    forallb (typed S_Output) outs = true /\ forallb (typed S_Witness) wits = true.
Proof.
  intros Hk H. pose proof (typed_shaped _ _ H) as Hs.
  destruct (shaped_chargeable k v Hk Hs) as (body & pol & ins & outs & wits & meta & -> & _).
  exists body, pol, ins, outs, wits, meta. split; [reflexivity|].
  destruct k; try congruence;
    (match type of H with typed (kind_ty ?K) _ = true =>
       change (true && (typed (body_ty K) body && (typed S_Policies pol && (typed (TVec S_Input) (VL ins) &&
               (typed (TVec S_Output) (VL outs) && (typed (TVec S_Witness) (VL wits) && true))))) = true) in H end;
     cbn [andb] in H;
     apply andb_true_iff in H as [Hb H]; apply andb_true_iff in H as [Hp H];
     apply andb_true_iff in H as [Hi H]; apply andb_true_iff in H as [Ho H];
     apply andb_true_iff in H as [Hw _]; auto 10).
Qed.


(* ================================================================ body ends, kind by kind *)
Lemma padded_cap (bs : bytes) : lenN bs <= u64_max ->
  padded_or_max (lenN bs) = cap (lenN (bs ++ zeros (pad8 (length bs)))).
Proof.
  intros Hn. rewrite lenN_app. unfold lenN at 3. rewrite zeros_length, <- padN_nat. fold (lenN bs).
  set (n := lenN bs) in *. unfold padded_or_max, padded_len_usize, cadd, checked_add, padN. change WORD_SIZE with 8.
  pose proof (N.mod_lt n 8 ltac:(lia)) as Hm. set (m := n mod 8) in *.
  destruct (m =? 0) eqn:E.
  - apply N.eqb_eq in E. rewrite E. change ((8 - 0) mod 8) with 0. rewrite N.add_0_r. symmetry. apply cap_small, Hn.
  - apply N.eqb_neq in E. rewrite (N.mod_small (8 - m) 8) by lia.
    destruct (n + (8 - m) <? U64) eqn:L.
    + apply N.ltb_lt in L. symmetry. apply cap_small. change u64_max with (U64 - 1). lia.
    + apply N.ltb_ge in L. unfold cap. rewrite N.min_r; [reflexivity|]. change u64_max with (U64 - 1). lia.
Qed.

Lemma bytevec_inv x : typed TByteVec x = true -> exists bs, x = VB bs.
Proof. destruct x; try discriminate. eauto. Qed.

Lemma static_len t v d : typed t v = true -> ssize t = Some d -> lenN (enc_static t v) = d.
Proof. intros H E. exact (proj1 ssize_ok_all _ _ _ H E). Qed.

Section BodyEnd.
Variables pol meta : val.
Variables ins outs wits : list val.

(* ---- script *)
Lemma script_body_end body :
  typed S_Script (cval body pol ins outs wits meta) = true -> typed S_ScriptBody body = true ->
  lenN (enc S_Script (cval body pol ins outs wits meta)) <= u64_max ->
  body_offset_end (tx0 KScript (cval body pol ins outs wits meta)) =
  cap (lenN (enc_static S_Script (cval body pol ins outs wits meta)) + lenN (enc_dynamic S_ScriptBody body)) /\
  script_data_offset (tx0 KScript (cval body pol ins outs wits meta)) =
  cap (lenN (enc_static S_Script (cval body pol ins outs wits meta)) +
       lenN (enc_dynamic S_ScriptCode (sfield "script" S_ScriptBody body))).
Proof.
  intros Hv Hb Hsmall. rewrite (static_len S_Script _ 96 Hv eq_refl).
  pose proof (typed_shaped _ _ Hb) as Hs. shape Hs.
  match type of Hb with
  | typed S_ScriptBody (VS [?g; ?r; VS [?x]; ?dd]) = true =>
      change ((0 <? U64) && (typed (TUInt 8) g && (typed S_Bytes32 r && ((true && (typed TByteVec x && true)) && (typed TByteVec dd && true)))) = true) in Hb;
      rename g into vg; rename r into vr; rename x into vx; rename dd into vd
  end.
  rewrite !andb_true_iff in Hb. destruct Hb as (_ & _ & _ & (_ & Hc & _) & Hd & _).
  destruct (bytevec_inv _ Hc) as [s ->]. destruct (bytevec_inv _ Hd) as [d ->].
  assert (Hlen : lenN (enc S_Script (cval (VS [vg; vr; VS [VB s]; VB d]) pol ins outs wits meta)) =
                 lenN (enc_static S_Script (cval (VS [vg; vr; VS [VB s]; VB d]) pol ins outs wits meta)) +
                 (lenN (s ++ zeros (pad8 (length s))) + (lenN (d ++ zeros (pad8 (length d))) +
                 (lenN (enc_dynamic S_Policies pol) + (lenN (enc_all S_Input ins) + (lenN (enc_all S_Output outs) + lenN (enc_all S_Witness wits))))))).
  { rewrite (enc_len KScript ltac:(discriminate)). cbn [body_ty]. f_equal.
    change (enc_dynamic S_ScriptBody (VS [vg; vr; VS [VB s]; VB d]))
      with ([] ++ [] ++ ((s ++ zeros (pad8 (length s))) ++ []) ++ (d ++ zeros (pad8 (length d))) ++ []).
    rewrite !lenN_app, !lenN_nil. lia. }
  rewrite (static_len S_Script _ 96 Hv eq_refl) in Hlen.
  assert (Hs1 : lenN s <= u64_max) by (rewrite lenN_app in Hlen; lia).
  assert (Hd1 : lenN d <= u64_max) by (rewrite (lenN_app d) in Hlen; lia).
  split.
  - change (body_offset_end (tx0 KScript (cval (VS [vg; vr; VS [VB s]; VB d]) pol ins outs wits meta)))
      with (sat (sat 96 (padded_or_max (lenN s))) (padded_or_max (lenN d))).
    change (enc_dynamic S_ScriptBody (VS [vg; vr; VS [VB s]; VB d]))
      with ([] ++ [] ++ ((s ++ zeros (pad8 (length s))) ++ []) ++ (d ++ zeros (pad8 (length d))) ++ []).
    rewrite (padded_cap s Hs1), (padded_cap d Hd1).
    change 96 with (cap 96) at 1. rewrite !sat_cap. f_equal. rewrite !lenN_app, !lenN_nil. lia.
  - change (script_data_offset (tx0 KScript (cval (VS [vg; vr; VS [VB s]; VB d]) pol ins outs wits meta)))
      with (sat 96 (padded_or_max (lenN s))).
    change (enc_dynamic S_ScriptCode (sfield "script" S_ScriptBody (VS [vg; vr; VS [VB s]; VB d])))
      with ((s ++ zeros (pad8 (length s))) ++ []).
    rewrite (padded_cap s Hs1). change 96 with (cap 96) at 1. rewrite sat_cap, app_nil_r. reflexivity.
Qed.

(* ---- fixed-size elements *)
Lemma enc_all_fixed t n (xs : list val) : (forall x, typed t x = true -> lenN (enc_static t x ++ enc_dynamic t x) = n) ->
  forallb (typed t) xs = true -> lenN (enc_all t xs) = n * lenN xs.
Proof.
  intros Hn. induction xs as [|x xs IH]; intros H; [unfold enc_all, lenN; cbn; lia|].
  cbn [forallb] in H. apply andb_true_iff in H as [H1 H2]. unfold enc_all in *. cbn [flat_map].
  rewrite lenN_app, (Hn x H1), (IH H2). unfold lenN. cbn [length]. lia.
Qed.
Lemma slot_len x : typed S_StorageSlot x = true -> lenN (enc_static S_StorageSlot x ++ enc_dynamic S_StorageSlot x) = 64.
Proof.
  intros H. rewrite lenN_app, (static_len S_StorageSlot x 64 H eq_refl).
  pose proof (typed_shaped _ _ H) as Hs. shape Hs. reflexivity.
Qed.
Lemma bytes32_len x : typed S_Bytes32 x = true -> lenN (enc_static S_Bytes32 x ++ enc_dynamic S_Bytes32 x) = 32.
Proof. intros H. rewrite lenN_app, (static_len S_Bytes32 x 32 H eq_refl). destruct x; reflexivity. Qed.
Lemma sat_const_cap a x : a <= u64_max -> sat a (cap x) = cap (a + x).
Proof. intros H. rewrite <- (cap_small a H) at 1. apply sat_cap. Qed.
Lemma smul_cap a b : smul a b = cap (a * b).
Proof. unfold smul, saturating_mul, cap. rewrite u64_pred. reflexivity. Qed.

(* ---- create *)
Lemma create_body_end body :
  typed S_Create (cval body pol ins outs wits meta) = true -> typed S_CreateBody body = true ->
  body_offset_end (tx0 KCreate (cval body pol ins outs wits meta)) =
  cap (lenN (enc_static S_Create (cval body pol ins outs wits meta)) + lenN (enc_dynamic S_CreateBody body)).
Proof.
  intros Hv Hb. rewrite (static_len S_Create _ 88 Hv eq_refl).
  pose proof (typed_shaped _ _ Hb) as Hs. shape Hs.
  match type of Hb with
  | typed S_CreateBody (VS [?a; ?b; VL ?l]) = true =>
      change ((1 <? U64) && (typed (TUInt 2) a && (typed S_Salt b && (forallb (typed S_StorageSlot) l && true))) = true) in Hb;
      rename l into slots; rename a into va; rename b into vb
  end.
  rewrite !andb_true_iff in Hb. destruct Hb as (_ & _ & _ & Hsl & _).
  change (body_offset_end (tx0 KCreate (cval (VS [va; vb; VL slots]) pol ins outs wits meta)))
    with (sat 88 (smul (lenN slots) 64)).
  change (enc_dynamic S_CreateBody (VS [va; vb; VL slots])) with ([] ++ [] ++ enc_all S_StorageSlot slots ++ []).
  rewrite !lenN_app, !lenN_nil, (enc_all_fixed S_StorageSlot 64 slots slot_len Hsl), smul_cap.
  change 88 with (cap 88) at 1. rewrite sat_cap. f_equal. lia.
Qed.

(* ---- upload *)
Lemma upload_body_end body :
  typed S_Upload (cval body pol ins outs wits meta) = true -> typed S_UploadBody body = true ->
  body_offset_end (tx0 KUpload (cval body pol ins outs wits meta)) =
  cap (lenN (enc_static S_Upload (cval body pol ins outs wits meta)) + lenN (enc_dynamic S_UploadBody body)).
Proof.
  intros Hv Hb. rewrite (static_len S_Upload _ 104 Hv eq_refl).
  pose proof (typed_shaped _ _ Hb) as Hs. shape Hs.
  match type of Hb with
  | typed S_UploadBody (VS [?a; ?b; ?c; ?d; VL ?l]) = true =>
      change ((4 <? U64) && (typed S_Bytes32 a && (typed (TUInt 2) b && (typed (TUInt 2) c && (typed (TUInt 2) d &&
              (forallb (typed S_Bytes32) l && true))))) = true) in Hb;
      rename l into proofs; rename a into va; rename b into vb; rename c into vc; rename d into vd
  end.
  rewrite !andb_true_iff in Hb. destruct Hb as (_ & _ & _ & _ & _ & Hpr & _).
  change (body_offset_end (tx0 KUpload (cval (VS [va; vb; vc; vd; VL proofs]) pol ins outs wits meta)))
    with (sat 104 (smul (lenN proofs) 32)).
  change (enc_dynamic S_UploadBody (VS [va; vb; vc; vd; VL proofs])) with ([] ++ [] ++ [] ++ [] ++ enc_all S_Bytes32 proofs ++ []).
  rewrite !lenN_app, !lenN_nil, (enc_all_fixed S_Bytes32 32 proofs bytes32_len Hpr), smul_cap.
  change 104 with (cap 104) at 1. rewrite sat_cap. f_equal. lia.
Qed.

(* ---- blob *)
Lemma blob_body_end body :
  typed S_Blob (cval body pol ins outs wits meta) = true -> typed S_BlobBody body = true ->
  body_offset_end (tx0 KBlob (cval body pol ins outs wits meta)) =
  cap (lenN (enc_static S_Blob (cval body pol ins outs wits meta)) + lenN (enc_dynamic S_BlobBody body)).
Proof.
  intros Hv Hb. rewrite (static_len S_Blob _ 80 Hv eq_refl).
  pose proof (typed_shaped _ _ Hb) as Hs. shape Hs. reflexivity.
Qed.

(* ---- upgrade *)
Lemma purpose_dynamic p : typed S_UpgradePurpose p = true -> enc_dynamic S_UpgradePurpose p = [].
Proof. intros H. pose proof (typed_shaped _ _ H) as Hs. shape Hs; reflexivity. Qed.
Lemma upgrade_body_end body :
  typed S_Upgrade (cval body pol ins outs wits meta) = true -> typed S_UpgradeBody body = true ->
  typed S_Policies pol = true ->
  body_offset_end (tx0 KUpgrade (cval body pol ins outs wits meta)) =
  cap (lenN (enc_static S_Upgrade (cval body pol ins outs wits meta)) + lenN (enc_dynamic S_UpgradeBody body)).
Proof.
  intros Hv Hb Hp.
  destruct body as [| | | |l| |]; try discriminate Hb. destruct l as [|p [|q l']]; try discriminate Hb.
  2: { exfalso. change (typed S_UpgradeBody (VS (p :: q :: l'))) with ((3 <? U64) && (typed S_UpgradePurpose p && false)) in Hb.
       rewrite !andb_false_r in Hb. discriminate Hb. }
  change (typed S_UpgradeBody (VS [p])) with ((3 <? U64) && (typed S_UpgradePurpose p && true)) in Hb.
  rewrite !andb_true_iff in Hb. destruct Hb as (_ & Hpp & _).
  change (body_offset_end (tx0 KUpgrade (cval (VS [p]) pol ins outs wits meta)))
    with (sat (sat 8 (size S_UpgradePurpose p)) 32).
  change (enc_static S_Upgrade (cval (VS [p]) pol ins outs wits meta))
    with ((be8 3 ++ (enc_static S_UpgradePurpose p ++ [])) ++ enc_static S_Policies pol ++ be8 (lenN ins) ++ be8 (lenN outs) ++ be8 (lenN wits) ++ []).
  change (enc_dynamic S_UpgradeBody (VS [p])) with (enc_dynamic S_UpgradePurpose p ++ []).
  rewrite (size_cap _ _ purpose_codec Hpp). unfold enc. rewrite (purpose_dynamic p Hpp).
  rewrite !lenN_app, !lenN_be8, !lenN_nil, (static_len S_Policies pol 8 Hp eq_refl).
  rewrite !N.add_0_r. rewrite (sat_const_cap 8) by (vm_compute; discriminate). rewrite sat_cap_l. f_equal; try lia.
Qed.
End BodyEnd.

(* ================================================================ the theorems *)
Lemma body_end_all k body pol ins outs wits meta : k <> KMint ->
  typed (kind_ty k) (cval body pol ins outs wits meta) = true -> typed (body_ty k) body = true ->
  typed S_Policies pol = true -> lenN (enc (kind_ty k) (cval body pol ins outs wits meta)) <= u64_max ->
  body_offset_end (tx0 k (cval body pol ins outs wits meta)) =
  cap (lenN (enc_static (kind_ty k) (cval body pol ins outs wits meta)) + lenN (enc_dynamic (body_ty k) body)).
Proof.
  intros Hk Hv Hb Hp Hs. destruct k; try congruence.
  - apply (proj1 (script_body_end pol meta ins outs wits body Hv Hb Hs)).
  - apply create_body_end; assumption.
  - apply upgrade_body_end; assumption.
  - apply upload_body_end; assumption.
  - apply blob_body_end; assumption.
Qed.

Definition section_fn (f : tfn) : bool :=
  match f with BodyOffsetEnd | PoliciesOffset | InputsOffset | OutputsOffset | WitnessesOffset => true | _ => false end.

(* policies (= body end), inputs, outputs, witnesses: the reported offset is the specification's
   position, and the encoding there is the section's canonical bytes *)
Lemma tx_sel_sections k : k <> KMint ->
  tx_sel k BodyOffsetEnd = Some (fld "policies" PDynamic) /\ tx_sel k PoliciesOffset = Some (fld "policies" PDynamic) /\
  tx_sel k InputsOffset = Some (fld "inputs" PDynamic) /\ tx_sel k OutputsOffset = Some (fld "outputs" PDynamic) /\
  tx_sel k WitnessesOffset = Some (fld "witnesses" PDynamic).
Proof. destruct k; try congruence; intros _; repeat split; reflexivity. Qed.
Lemma tx_offset_sections k v : k <> KMint ->
  tx_offset (tx0 k v) BodyOffsetEnd = Some (body_offset_end (tx0 k v)) /\
  tx_offset (tx0 k v) PoliciesOffset = Some (policies_offset (tx0 k v)) /\
  tx_offset (tx0 k v) InputsOffset = Some (inputs_offset (tx0 k v)) /\
  tx_offset (tx0 k v) OutputsOffset = Some (outputs_offset (tx0 k v)) /\
  tx_offset (tx0 k v) WitnessesOffset = Some (witnesses_offset (tx0 k v)).
Proof. destruct k; try congruence; intros _; repeat split; reflexivity. Qed.

Theorem sections_locate k v f s o :
  k <> KMint -> typed (kind_ty k) v = true -> lenN (enc (kind_ty k) v) <= u64_max ->
  section_fn f = true -> tx_sel k f = Some s -> tx_offset (tx0 k v) f = Some o ->
  exists bs, locate_in (kind_ty k) v s = Some (o, bs) /\ slice (enc (kind_ty k) v) o (lenN bs) = bs.
Proof.
  intros Hk Hv Hs Hf Hsel Ho.
  destruct (typed_chargeable k v Hk Hv) as (body & pol & ins & outs & wits & meta & -> & Hb & Hp & Hi & Hou & Hw).
  pose proof (body_end_all k body pol ins outs wits meta Hk Hv Hb Hp Hs) as HB.
  destruct (tx_sel_sections k Hk) as (S1 & S2 & S3 & S4 & S5).
  destruct (tx_offset_sections k (cval body pol ins outs wits meta) Hk) as (O1 & O2 & O3 & O4 & O5).
  assert (R : forall bs, locate_in (kind_ty k) (cval body pol ins outs wits meta) s = Some (o, bs) ->
              exists bs, locate_in (kind_ty k) (cval body pol ins outs wits meta) s = Some (o, bs) /\
                         slice (enc (kind_ty k) (cval body pol ins outs wits meta)) o (lenN bs) = bs)
    by (intros bs L; exists bs; split; [exact L | apply (locate_sound _ _ _ _ _ L)]).
  pose proof (policies_offset_val k Hk body pol meta ins outs wits HB Hs) as V1.
  pose proof (inputs_offset_val k Hk body pol meta ins outs wits Hp HB Hs) as V3.
  pose proof (outputs_offset_val k Hk body pol meta ins outs wits Hp Hi HB Hs) as V4.
  pose proof (witnesses_offset_val k Hk body pol meta ins outs wits Hp Hi Hou HB Hs) as V5.
  destruct f; try discriminate Hf.
  - rewrite S1 in Hsel. rewrite O1 in Ho. injection Hsel as <-. injection Ho as <-. eapply R.
    change (body_offset_end (tx0 k (cval body pol ins outs wits meta))) with (policies_offset (tx0 k (cval body pol ins outs wits meta))).
    rewrite V1. apply spec_policies, Hk.
  - rewrite S2 in Hsel. rewrite O2 in Ho. injection Hsel as <-. injection Ho as <-. eapply R. rewrite V1. apply spec_policies, Hk.
  - rewrite S3 in Hsel. rewrite O3 in Ho. injection Hsel as <-. injection Ho as <-. eapply R. rewrite V3. apply spec_inputs, Hk.
  - rewrite S4 in Hsel. rewrite O4 in Ho. injection Hsel as <-. injection Ho as <-. eapply R. rewrite V4. apply spec_outputs, Hk.
  - rewrite S5 in Hsel. rewrite O5 in Ho. injection Hsel as <-. injection Ho as <-. eapply R. rewrite V5. apply spec_witnesses, Hk.
Qed.

(* elements: inputs / outputs / witnesses.  Some o <-> the index is in range, and then o is the
   specification's position of the element, whose full canonical encoding sits there *)
Definition element_fn (f : atfn) : bool :=
  match f with InputsOffsetAt | OutputsOffsetAt | WitnessesOffsetAt => true | _ => false end.
Definition elements_of (f : atfn) (ins outs wits : list val) : list val :=
  match f with InputsOffsetAt => ins | OutputsOffsetAt => outs | _ => wits end.

Theorem elements_locate k v f idx :
  k <> KMint -> typed (kind_ty k) v = true -> lenN (enc (kind_ty k) v) <= u64_max -> element_fn f = true ->
  match tx_offset_at (tx0 k v) f idx with
  | Some o => exists i s bs, idx = N.of_nat i /\ at_sel k f i = Some s /\
                             locate_in (kind_ty k) v s = Some (o, bs) /\ slice (enc (kind_ty k) v) o (lenN bs) = bs
  | None => forall i s, idx = N.of_nat i -> at_sel k f i = Some s -> locate_in (kind_ty k) v s = None
  end.
Proof.
  intros Hk Hv Hs Hf.
  destruct (typed_chargeable k v Hk Hv) as (body & pol & ins & outs & wits & meta & -> & Hb & Hp & Hi & Hou & Hw).
  pose proof (body_end_all k body pol ins outs wits meta Hk Hv Hb Hp Hs) as HB.
  assert (Hc : chargeable k = true) by (destruct k; try congruence; reflexivity).
  assert (Nth : forall (l : list val) i, N.of_nat i < lenN l -> exists x, nth_error l i = Some x).
  { intros l i H. destruct (nth_error l i) eqn:E; [eauto|]. apply nth_error_None in E. unfold lenN in H. lia. }
  assert (NthN : forall (l : list val) i, lenN l <= N.of_nat i -> nth_error l i = None).
  { intros l i H. apply nth_error_None. unfold lenN in H. lia. }
  destruct f; try discriminate Hf; unfold tx_offset_at; cbn [o_kind tx0]; rewrite Hc; unfold at_sel; rewrite Hc.
  - destruct (N.lt_ge_cases idx (lenN ins)) as [Hlt | Hge].
    + rewrite (inputs_offset_at_val k Hk body pol meta ins outs wits Hp Hi HB Hs idx Hlt).
      destruct (Nth ins (N.to_nat idx) ltac:(rewrite Nnat.N2Nat.id; exact Hlt)) as [x Hx].
      pose proof (spec_input_at k Hk body pol meta ins outs wits (N.to_nat idx)) as L. rewrite Hx in L.
      exists (N.to_nat idx), (SField "inputs" (SElem (N.to_nat idx) (SHere PFull))), (enc S_Input x).
      repeat split; [symmetry; apply Nnat.N2Nat.id | exact L | apply (locate_sound _ _ _ _ _ L)].
    + rewrite (inputs_offset_at_none k Hk body pol meta ins outs wits HB Hs idx Hge).
      intros i s -> E. injection E as <-. rewrite (spec_input_at k Hk). rewrite (NthN ins i Hge). reflexivity.
  - destruct (N.lt_ge_cases idx (lenN outs)) as [Hlt | Hge].
    + rewrite (outputs_offset_at_val k Hk body pol meta ins outs wits Hp Hi Hou HB Hs idx Hlt).
      destruct (Nth outs (N.to_nat idx) ltac:(rewrite Nnat.N2Nat.id; exact Hlt)) as [x Hx].
      pose proof (spec_output_at k Hk body pol meta ins outs wits (N.to_nat idx)) as L. rewrite Hx in L.
      exists (N.to_nat idx), (SField "outputs" (SElem (N.to_nat idx) (SHere PFull))), (enc S_Output x).
      repeat split; [symmetry; apply Nnat.N2Nat.id | exact L | apply (locate_sound _ _ _ _ _ L)].
    + rewrite (outputs_offset_at_none k Hk body pol meta ins outs wits HB Hs idx Hge).
      intros i s -> E. injection E as <-. rewrite (spec_output_at k Hk). rewrite (NthN outs i Hge). reflexivity.
  - destruct (N.lt_ge_cases idx (lenN wits)) as [Hlt | Hge].
    + rewrite (witnesses_offset_at_val k Hk body pol meta ins outs wits Hp Hi Hou Hw HB Hs idx Hlt).
      destruct (Nth wits (N.to_nat idx) ltac:(rewrite Nnat.N2Nat.id; exact Hlt)) as [x Hx].
      pose proof (spec_witness_at k Hk body pol meta ins outs wits (N.to_nat idx)) as L. rewrite Hx in L.
      exists (N.to_nat idx), (SField "witnesses" (SElem (N.to_nat idx) (SHere PFull))), (enc S_Witness x).
      repeat split; [symmetry; apply Nnat.N2Nat.id | exact L | apply (locate_sound _ _ _ _ _ L)].
    + rewrite (witnesses_offset_at_none k Hk body pol meta ins outs wits HB Hs idx Hge).
      intros i s -> E. injection E as <-. rewrite (spec_witness_at k Hk). rewrite (NthN wits i Hge). reflexivity.
Qed.

(* ---- script and script data *)
Theorem script_offsets_locate v f s o :
  typed S_Script v = true -> lenN (enc S_Script v) <= u64_max ->
  (f = ScriptOffset \/ f = ScriptDataOffset) -> tx_sel KScript f = Some s -> tx_offset (tx0 KScript v) f = Some o ->
  exists bs, locate_in S_Script v s = Some (o, bs) /\ slice (enc S_Script v) o (lenN bs) = bs.
Proof.
  intros Hv Hs Hf Hsel Ho.
  destruct (typed_chargeable KScript v ltac:(discriminate) Hv) as (body & pol & ins & outs & wits & meta & -> & Hb & Hp & Hi & Hou & Hw).
  cbn [body_ty] in Hb.
  destruct (script_body_end pol meta ins outs wits body Hv Hb Hs) as [_ HD].
  pose proof (static_len S_Script _ 96 Hv eq_refl) as HS.
  pose proof (typed_shaped _ _ Hb) as Hsh. shape Hsh.
  match type of Hb with typed S_ScriptBody (VS [?a; ?b; VS [?c]; ?d]) = true =>
    rename a into ga; rename b into rb; rename c into sc; rename d into sd end.
  assert (R : forall bs, locate_in S_Script (cval (VS [ga; rb; VS [sc]; sd]) pol ins outs wits meta) s = Some (o, bs) ->
              exists bs, locate_in S_Script (cval (VS [ga; rb; VS [sc]; sd]) pol ins outs wits meta) s = Some (o, bs) /\
                         slice (enc S_Script (cval (VS [ga; rb; VS [sc]; sd]) pol ins outs wits meta)) o (lenN bs) = bs)
    by (intros bs L; exists bs; split; [exact L | apply (locate_sound _ _ _ _ _ L)]).
  destruct Hf as [-> | ->]; injection Hsel as <-.
  - change (tx_offset (tx0 KScript (cval (VS [ga; rb; VS [sc]; sd]) pol ins outs wits meta)) ScriptOffset) with (Some 96) in Ho.
    injection Ho as <-. eapply R.
    change (locate_in S_Script (cval (VS [ga; rb; VS [sc]; sd]) pol ins outs wits meta) (body_fld "script" PDynamic))
      with (Some (lenN (enc_static S_Script (cval (VS [ga; rb; VS [sc]; sd]) pol ins outs wits meta)) + 0 + 0,
                  enc_dynamic S_ScriptCode (VS [sc]))).
    rewrite HS. reflexivity.
  - change (tx_offset (tx0 KScript (cval (VS [ga; rb; VS [sc]; sd]) pol ins outs wits meta)) ScriptDataOffset)
      with (Some (script_data_offset (tx0 KScript (cval (VS [ga; rb; VS [sc]; sd]) pol ins outs wits meta)))) in Ho.
    injection Ho as <-. eapply R. rewrite HD.
    change (locate_in S_Script (cval (VS [ga; rb; VS [sc]; sd]) pol ins outs wits meta) (body_fld "script_data" PDynamic))
      with (Some (lenN (enc_static S_Script (cval (VS [ga; rb; VS [sc]; sd]) pol ins outs wits meta)) + 0 + 0 + lenN (enc_dynamic S_ScriptCode (VS [sc])),
                  enc_dynamic S_Bytes sd)).
    change (sfield "script" S_ScriptBody (VS [ga; rb; VS [sc]; sd])) with (VS [sc]).
    rewrite !N.add_0_r. rewrite cap_small; [reflexivity|].
    rewrite (enc_len KScript ltac:(discriminate)) in Hs. cbn [body_ty] in Hs.
    change (enc_dynamic S_ScriptBody (VS [ga; rb; VS [sc]; sd]))
      with ([] ++ [] ++ enc_dynamic S_ScriptCode (VS [sc]) ++ enc_dynamic S_Bytes sd ++ []) in Hs.
    rewrite !lenN_app, !lenN_nil in Hs. change (kind_ty KScript) with S_Script in Hs. lia.
Qed.

Lemma prefix_le' t (xs : list val) i : lenN (enc_all t (firstn i xs)) <= lenN (enc_all t xs).
Proof. rewrite <- (firstn_skipn i xs) at 2. unfold enc_all. rewrite flat_map_app, lenN_app. lia. Qed.

(* an element offset lies inside the encoding *)
Lemma Some_inj {A} (a b : A) : Some a = Some b -> a = b.
Proof. congruence. Qed.
Lemma elements_offset_le k v f idx o :
  k <> KMint -> typed (kind_ty k) v = true -> lenN (enc (kind_ty k) v) <= u64_max -> element_fn f = true ->
  tx_offset_at (tx0 k v) f idx = Some o -> o <= lenN (enc (kind_ty k) v).
Proof.
  intros Hk Hv Hs Hf.
  destruct (typed_chargeable k v Hk Hv) as (body & pol & ins & outs & wits & meta & -> & Hb & Hp & Hi & Hou & Hw).
  pose proof (body_end_all k body pol ins outs wits meta Hk Hv Hb Hp Hs) as HB.
  assert (Hc : chargeable k = true) by (destruct k; try congruence; reflexivity).
  pose proof (enc_len k Hk body pol meta ins outs wits) as EL.
  destruct f; try discriminate Hf; unfold tx_offset_at; cbn [o_kind tx0]; rewrite Hc.
  - destruct (N.lt_ge_cases idx (lenN ins)) as [Hlt | Hge].
    + rewrite (inputs_offset_at_val k Hk body pol meta ins outs wits Hp Hi HB Hs idx Hlt). intros E. apply Some_inj in E. rewrite <- E.
      pose proof (prefix_le' S_Input ins (N.to_nat idx)). lia.
    + rewrite (inputs_offset_at_none k Hk body pol meta ins outs wits HB Hs idx Hge). discriminate.
  - destruct (N.lt_ge_cases idx (lenN outs)) as [Hlt | Hge].
    + rewrite (outputs_offset_at_val k Hk body pol meta ins outs wits Hp Hi Hou HB Hs idx Hlt). intros E. apply Some_inj in E. rewrite <- E.
      pose proof (prefix_le' S_Output outs (N.to_nat idx)). lia.
    + rewrite (outputs_offset_at_none k Hk body pol meta ins outs wits HB Hs idx Hge). discriminate.
  - destruct (N.lt_ge_cases idx (lenN wits)) as [Hlt | Hge].
    + rewrite (witnesses_offset_at_val k Hk body pol meta ins outs wits Hp Hi Hou Hw HB Hs idx Hlt). intros E. apply Some_inj in E. rewrite <- E.
      pose proof (prefix_le' S_Witness wits (N.to_nat idx)). lia.
    + rewrite (witnesses_offset_at_none k Hk body pol meta ins outs wits HB Hs idx Hge). discriminate.
Qed.

(* ================================================================ storage slots and proof entries *)
Lemma firstn_len {A} (l : list A) i : (i <= length l)%nat -> length (firstn i l) = i.
Proof. intros H. rewrite firstn_length. lia. Qed.
Lemma cmul_cadd a b c : b + a * c <= u64_max -> obind (cmul a c) (cadd b) = Some (b + a * c).
Proof.
  intros H. unfold obind, cmul, cadd, checked_mul, checked_add. change u64_max with (U64 - 1) in H.
  assert (U64 > 0) by (vm_compute; reflexivity).
  destruct (a * c <? U64) eqn:E1; [|apply N.ltb_ge in E1; lia].
  destruct (b + a * c <? U64) eqn:E2; [reflexivity | apply N.ltb_ge in E2; lia].
Qed.

(* one statement for both vectors: f = StorageSlotsOffsetAt on a Create, ProofSetOffsetAt on an Upload *)
Definition body_vector (k : kind) (f : atfn) : option (string * ty * N * string) :=
  match k, f with
  | KCreate, StorageSlotsOffsetAt => Some ("storage_slots", S_StorageSlot, 64, "storage_slots_offset_static")
  | KUpload, ProofSetOffsetAt => Some ("proof_set", S_Bytes32, 32, "proof_set_offset_static")
  | _, _ => None
  end.

Theorem body_vectors_locate k v f idx name te w st :
  body_vector k f = Some (name, te, w, st) ->
  typed (kind_ty k) v = true -> lenN (enc (kind_ty k) v) <= u64_max ->
  match tx_offset_at (tx0 k v) f idx with
  | Some o => exists i s bs, idx = N.of_nat i /\ at_sel k f i = Some s /\
                             locate_in (kind_ty k) v s = Some (o, bs) /\ slice (enc (kind_ty k) v) o (lenN bs) = bs
  | None => forall i s, idx = N.of_nat i -> at_sel k f i = Some s -> locate_in (kind_ty k) v s = None
  end.
Proof.
  intros Hbv Hv Hs.
  assert (Hk : k <> KMint) by (destruct k; try discriminate Hbv; discriminate).
  destruct (typed_chargeable k v Hk Hv) as (body & pol & ins & outs & wits & meta & -> & Hb & Hp & Hi & Hou & Hw).
  pose proof (enc_len k Hk body pol meta ins outs wits) as EL.
  destruct k; try discriminate Hbv; destruct f; try discriminate Hbv; injection Hbv as <- <- <- <-; cbn [body_ty] in *.
  - (* Create: storage slots *)
    pose proof (static_len S_Create _ 88 Hv eq_refl) as HS.
    pose proof (typed_shaped _ _ Hb) as Hsh. shape Hsh.
    match type of Hb with
    | typed S_CreateBody (VS [?a; ?b; VL ?l]) = true =>
        change ((1 <? U64) && (typed (TUInt 2) a && (typed S_Salt b && (forallb (typed S_StorageSlot) l && true))) = true) in Hb;
        rename l into slots; rename a into va; rename b into vb
    end.
    rewrite !andb_true_iff in Hb. destruct Hb as (_ & _ & _ & Hsl & _).
    change (tx_offset_at (tx0 KCreate (cval (VS [va; vb; VL slots]) pol ins outs wits meta)) StorageSlotsOffsetAt idx)
      with (if idx <? lenN slots then obind (cmul idx 64) (cadd 88) else None).
    assert (Hsp : forall i, locate_in S_Create (cval (VS [va; vb; VL slots]) pol ins outs wits meta)
                              (SField "body" (SField "storage_slots" (SElem i (SHere PFull)))) =
                  match nth_error slots i with
                  | Some x => Some (88 + lenN (enc_all S_StorageSlot (firstn i slots)), enc S_StorageSlot x)
                  | None => None
                  end).
    { intros i.
      change (locate_in S_Create (cval (VS [va; vb; VL slots]) pol ins outs wits meta) (SField "body" (SField "storage_slots" (SElem i (SHere PFull)))))
        with (locate (TVec S_StorageSlot) (VL slots) (SElem i (SHere PFull)) (0 + 0 + 8 + 8 + lenN (enc_static S_Salt vb))
                (lenN (enc_static S_Create (cval (VS [va; vb; VL slots]) pol ins outs wits meta)) + 0 + 0)).
      rewrite locate_elem, HS, !N.add_0_r. reflexivity. }
    assert (Hdyn : lenN (enc_all S_StorageSlot slots) = 64 * lenN slots) by (apply (enc_all_fixed S_StorageSlot 64 slots slot_len Hsl)).
    change (enc_dynamic S_CreateBody (VS [va; vb; VL slots])) with ([] ++ [] ++ enc_all S_StorageSlot slots ++ []) in EL.
    rewrite !lenN_app, !lenN_nil, Hdyn in EL. change (kind_ty KCreate) with S_Create in *. rewrite HS in EL.
    destruct (idx <? lenN slots) eqn:E.
    + apply N.ltb_lt in E.
      assert (Hlt : (N.to_nat idx < length slots)%nat) by (unfold lenN in E; lia).
      destruct (nth_error slots (N.to_nat idx)) as [x|] eqn:Hx; [|apply nth_error_None in Hx; lia].
      rewrite cmul_cadd by lia.
      pose proof (Hsp (N.to_nat idx)) as L. rewrite Hx in L.
      assert (Hpre : lenN (enc_all S_StorageSlot (firstn (N.to_nat idx) slots)) = idx * 64).
      { rewrite (enc_all_fixed S_StorageSlot 64 _ slot_len (forallb_firstn _ _ _ Hsl)). unfold lenN. rewrite firstn_len by lia. lia. }
      rewrite Hpre in L.
      exists (N.to_nat idx), (SField "body" (SField "storage_slots" (SElem (N.to_nat idx) (SHere PFull)))), (enc S_StorageSlot x).
      repeat split; [symmetry; apply Nnat.N2Nat.id | exact L | apply (locate_sound _ _ _ _ _ L)].
    + apply N.ltb_ge in E. intros i s -> Es. injection Es as <-. rewrite Hsp.
      assert (Hn : nth_error slots i = None) by (apply nth_error_None; unfold lenN in E; lia). rewrite Hn. reflexivity.
  - (* Upload: proof set *)
    pose proof (static_len S_Upload _ 104 Hv eq_refl) as HS.
    pose proof (typed_shaped _ _ Hb) as Hsh. shape Hsh.
    match type of Hb with
    | typed S_UploadBody (VS [?a; ?b; ?c; ?d; VL ?l]) = true =>
        change ((4 <? U64) && (typed S_Bytes32 a && (typed (TUInt 2) b && (typed (TUInt 2) c && (typed (TUInt 2) d &&
                (forallb (typed S_Bytes32) l && true))))) = true) in Hb;
        rename l into proofs; rename a into va; rename b into vb; rename c into vc; rename d into vd
    end.
    rewrite !andb_true_iff in Hb. destruct Hb as (_ & Hva & _ & _ & _ & Hpr & _).
    change (tx_offset_at (tx0 KUpload (cval (VS [va; vb; vc; vd; VL proofs]) pol ins outs wits meta)) ProofSetOffsetAt idx)
      with (if idx <? lenN proofs then obind (cmul idx 32) (cadd 104) else None).
    assert (Hsp : forall i, locate_in S_Upload (cval (VS [va; vb; vc; vd; VL proofs]) pol ins outs wits meta)
                              (SField "body" (SField "proof_set" (SElem i (SHere PFull)))) =
                  match nth_error proofs i with
                  | Some x => Some (104 + lenN (enc_all S_Bytes32 (firstn i proofs)), enc S_Bytes32 x)
                  | None => None
                  end).
    { intros i.
      change (locate_in S_Upload (cval (VS [va; vb; vc; vd; VL proofs]) pol ins outs wits meta) (SField "body" (SField "proof_set" (SElem i (SHere PFull)))))
        with (locate (TVec S_Bytes32) (VL proofs) (SElem i (SHere PFull))
                (0 + 0 + 8 + lenN (enc_static S_Bytes32 va) + lenN (enc_static (TUInt 2) vb) + lenN (enc_static (TUInt 2) vc) + lenN (enc_static (TUInt 2) vd))
                (lenN (enc_static S_Upload (cval (VS [va; vb; vc; vd; VL proofs]) pol ins outs wits meta)) + 0 + 0 + 0 + 0 + 0)).
      rewrite locate_elem, HS, !N.add_0_r. reflexivity. }
    assert (Hdyn : lenN (enc_all S_Bytes32 proofs) = 32 * lenN proofs) by (apply (enc_all_fixed S_Bytes32 32 proofs bytes32_len Hpr)).
    change (enc_dynamic S_UploadBody (VS [va; vb; vc; vd; VL proofs])) with ([] ++ [] ++ [] ++ [] ++ enc_all S_Bytes32 proofs ++ []) in EL.
    rewrite !lenN_app, !lenN_nil, Hdyn in EL. change (kind_ty KUpload) with S_Upload in *. rewrite HS in EL.
    destruct (idx <? lenN proofs) eqn:E.
    + apply N.ltb_lt in E.
      assert (Hlt : (N.to_nat idx < length proofs)%nat) by (unfold lenN in E; lia).
      destruct (nth_error proofs (N.to_nat idx)) as [x|] eqn:Hx; [|apply nth_error_None in Hx; lia].
      rewrite cmul_cadd by lia.
      pose proof (Hsp (N.to_nat idx)) as L. rewrite Hx in L.
      assert (Hpre : lenN (enc_all S_Bytes32 (firstn (N.to_nat idx) proofs)) = idx * 32).
      { rewrite (enc_all_fixed S_Bytes32 32 _ bytes32_len (forallb_firstn _ _ _ Hpr)). unfold lenN. rewrite firstn_len by lia. lia. }
      rewrite Hpre in L.
      exists (N.to_nat idx), (SField "body" (SField "proof_set" (SElem (N.to_nat idx) (SHere PFull)))), (enc S_Bytes32 x).
      repeat split; [symmetry; apply Nnat.N2Nat.id | exact L | apply (locate_sound _ _ _ _ _ L)].
    + apply N.ltb_ge in E. intros i s -> Es. injection Es as <-. rewrite Hsp.
      assert (Hn : nth_error proofs i = None) by (apply nth_error_None; unfold lenN in E; lia). rewrite Hn. reflexivity.
Qed.

(* the starts of the two vectors (storage_slots_offset_static, proof_set_offset) *)
Theorem body_vector_starts_locate k v f s o :
  (k = KCreate /\ f = StorageSlotsOffsetStatic \/ k = KUpload /\ f = ProofSetOffset) ->
  typed (kind_ty k) v = true -> tx_sel k f = Some s -> tx_offset (tx0 k v) f = Some o ->
  exists bs, locate_in (kind_ty k) v s = Some (o, bs) /\ slice (enc (kind_ty k) v) o (lenN bs) = bs.
Proof.
  intros Hkf Hv Hsel Ho.
  assert (Hk : k <> KMint) by (destruct Hkf as [[-> _] | [-> _]]; discriminate).
  destruct (typed_chargeable k v Hk Hv) as (body & pol & ins & outs & wits & meta & -> & Hb & _).
  assert (R : forall bs, locate_in (kind_ty k) (cval body pol ins outs wits meta) s = Some (o, bs) ->
              exists bs, locate_in (kind_ty k) (cval body pol ins outs wits meta) s = Some (o, bs) /\
                         slice (enc (kind_ty k) (cval body pol ins outs wits meta)) o (lenN bs) = bs)
    by (intros bs L; exists bs; split; [exact L | apply (locate_sound _ _ _ _ _ L)]).
  destruct Hkf as [[-> ->] | [-> ->]]; cbn [body_ty] in Hb; injection Hsel as <-; injection Ho as <-;
    pose proof (typed_shaped _ _ Hb) as Hsh; shape Hsh; eapply R.
  - pose proof (static_len S_Create _ 88 Hv eq_refl) as HS.
    match goal with |- locate_in _ (cval (VS [?a; ?b; VL ?l]) _ _ _ _ _) _ = _ =>
      change (locate_in (kind_ty KCreate) (cval (VS [a; b; VL l]) pol ins outs wits meta) (body_fld "storage_slots" PDynamic))
        with (Some (lenN (enc_static S_Create (cval (VS [a; b; VL l]) pol ins outs wits meta)) + 0 + 0, enc_dynamic (TVec S_StorageSlot) (VL l)));
      rewrite HS end. reflexivity.
  - pose proof (static_len S_Upload _ 104 Hv eq_refl) as HS.
    match goal with |- locate_in _ (cval (VS [?a; ?b; ?c; ?d; VL ?l]) _ _ _ _ _) _ = _ =>
      change (locate_in (kind_ty KUpload) (cval (VS [a; b; c; d; VL l]) pol ins outs wits meta) (body_fld "proof_set" PDynamic))
        with (Some (lenN (enc_static S_Upload (cval (VS [a; b; c; d; VL l]) pol ins outs wits meta)) + 0 + 0 + 0 + 0 + 0, enc_dynamic (TVec S_Bytes32) (VL l)));
      rewrite HS end. reflexivity.
Qed.
