(* Offsets/OffsetModel.v — L1 executable model of every offset function fuel-tx exposes
   (property C04), function by function, on neutral transaction values:

     field::* offset methods of Script/Create/Upload/Blob/Upgrade/Mint      [tx_offset]
     Inputs/Outputs/Witnesses::*_offset, *_offset_at, inputs_predicate_offset_at,
       StorageSlots/ProofSet::*_offset_at (chargeable_transaction.rs, create.rs, upload.rs)   [tx_offset_at]
       — with and without cached CommonMetadata
     CommonMetadata::compute / Cacheable::precompute (offsets part)        [compute_meta, precompute_offsets]
     InputRepr::*_offset (table from Gen/TxConsts.v, through InputRepr::from_input),
       Input::predicate_offset / predicate_data_offset / *_len            [input_fn]
     OutputRepr::*_offset (table, through OutputRepr::from_output)        [output_fn]
     bytes::padded_len_usize                                              [padded_len_usize]

   usize = u64: saturating / checked arithmetic is written out.  The named constants and the
   static offset chains come from Gen/TxConsts.v (regenerated from the source on every check);
   the hand-modelled functions are pinned to the source text by the translator.  Definitions only. *)
From FV Require Export Codec.CodecModel Gen.Schemas Gen.TxConsts TxId.IdSyntax TxId.IdSpec Offsets.OffsetSpec.
Local Open Scope string_scope.
Local Open Scope list_scope.
Open Scope N_scope.

(* ---------------------------------------------------------------- usize helpers *)
Definition cadd (a b : N) : option N := checked_add U64 a b.
Definition cmul (a b : N) : option N := checked_mul U64 a b.
Definition smul (a b : N) : N := saturating_mul U64 a b.
(* bytes::padded_len_usize *)
Definition padded_len_usize (len : N) : option N :=
  let m := len mod WORD_SIZE in
  if m =? 0 then Some len else cadd len (WORD_SIZE - m).
(* `bytes::padded_len(x).unwrap_or(usize::MAX)` *)
Definition padded_or_max (len : N) : N := match padded_len_usize len with Some x => x | None => u64_max end.
Definition obind {A B} (o : option A) (f : A -> option B) : option B := match o with Some a => f a | None => None end.
Definition omap {A B} (f : A -> B) (o : option A) : option B := match o with Some a => Some (f a) | None => None end.
(* slice.get(idx) for a usize idx (never converts a huge idx to nat) *)
Definition get {A} (l : list A) (idx : N) : option A :=
  if idx <? lenN l then nth_error l (N.to_nat idx) else None.
(* iter().take(idx).map(size).reduce(usize::saturating_add).unwrap_or_default() *)
Definition take_sizes (t : ty) (xs : list val) (idx : N) : N :=
  sum_sat (map (size t) (firstn (N.to_nat (N.min idx (lenN xs))) xs)).
Definition all_sizes (t : ty) (xs : list val) : N := sum_sat (map (size t) xs).

(* ---------------------------------------------------------------- value accessors *)
Definition vlist (v : val) : list val := match v with VL xs => xs | _ => [] end.
Definition byte_len (v : val) : N := match leaf v with VB bs => lenN bs | _ => 0 end.
Definition sfield (name : string) (t : ty) (v : val) : val :=
  match struct_field name t v with Some x => x | None => VUnit end.

(* ---------------------------------------------------------------- inputs *)
Definition input_comp (i : nat) : ty :=
  input_sel i S_CoinSigned S_CoinPredicate S_input_Contract S_MessageCoinSigned S_MessageCoinPredicate
            S_MessageDataSigned S_MessageDataPredicate.
Definition input_variant (iv : val) : string := match iv with VE i _ => nth i input_names "" | _ => "" end.
Definition input_field_len (name : string) (iv : val) : N :=
  match iv with VE i [x] => byte_len (sfield name (input_comp i) x) | _ => 0 end.

Definition table_get (tbl : list (string * list (string * option N))) (fn repr : string) : option N :=
  match zlookup fn tbl with
  | Some row => match zlookup repr row with Some o => o | None => None end
  | None => None
  end.
(* InputRepr::from_input(input).<fn>() *)
Definition input_repr (iv : val) : string :=
  match zlookup (input_variant iv) input_repr_of with Some r => r | None => "" end.
Definition input_repr_fn (fn : string) (iv : val) : option N := table_get input_repr_table fn (input_repr iv).

Definition infn_table_name (f : infn) : string :=
  match f with
  | UtxoIdOffset => "utxo_id_offset" | OwnerOffset => "owner_offset" | AssetIdOffset => "asset_id_offset"
  | DataOffset => "data_offset" | CoinPredicateOffset => "coin_predicate_offset"
  | ContractBalanceRootOffset => "contract_balance_root_offset"
  | ContractStateRootOffset => "contract_state_root_offset" | ContractIdOffset => "contract_id_offset"
  | MessageSenderOffset => "message_sender_offset" | MessageRecipientOffset => "message_recipient_offset"
  | MessageNonceOffset => "message_nonce_offset" | TxPointerOffsetI => "tx_pointer_offset"
  | _ => ""
  end.

Definition input_index (iv : val) : nat := match iv with VE i _ => i | _ => 7%nat end.
(* 0 CoinSigned, 1 CoinPredicate, 2 Contract, 3 MessageCoinSigned, 4 MessageCoinPredicate,
   5 MessageDataSigned, 6 MessageDataPredicate *)
(* Input::predicate_offset *)
Definition predicate_offset (iv : val) : option N :=
  match input_index iv with
  | 1%nat => table_get input_repr_table "coin_predicate_offset" "Coin"
  | 4%nat => table_get input_repr_table "data_offset" "Message"
  | 6%nat =>
      omap (fun o => sat o (padded_or_max (input_field_len "data" iv)))
           (table_get input_repr_table "data_offset" "Message")
  | _ => None
  end.
(* Input::predicate_data_offset *)
Definition predicate_data_offset (iv : val) : option N :=
  match input_index iv with
  | 1%nat | 4%nat | 6%nat =>
      omap (fun o => sat o (padded_or_max (input_field_len "predicate" iv))) (predicate_offset iv)
  | _ => None
  end.
(* Input::predicate_len / predicate_data_len / input_data_len *)
Definition predicate_len (iv : val) : option N :=
  match input_index iv with
  | 1%nat | 4%nat | 6%nat => Some (input_field_len "predicate" iv)
  | 0%nat | 3%nat | 5%nat => Some 0
  | _ => None
  end.
Definition predicate_data_len (iv : val) : option N :=
  match input_index iv with
  | 1%nat | 4%nat | 6%nat => Some (input_field_len "predicate_data" iv)
  | 0%nat | 3%nat | 5%nat => Some 0
  | _ => None
  end.
Definition input_data_len (iv : val) : option N :=
  match input_index iv with
  | 5%nat | 6%nat => Some (input_field_len "data" iv)
  | 3%nat | 4%nat => Some 0
  | _ => None
  end.

Definition input_fn (f : infn) (iv : val) : option N :=
  match f with
  | PredicateOffset => predicate_offset iv
  | PredicateDataOffset => predicate_data_offset iv
  | PredicateLen => predicate_len iv
  | PredicateDataLen => predicate_data_len iv
  | InputDataLen => input_data_len iv
  | _ => input_repr_fn (infn_table_name f) iv
  end.

(* ---------------------------------------------------------------- outputs *)
Definition output_variant (ov : val) : string := match ov with VE i _ => nth i output_names "" | _ => "" end.
Definition outfn_table_name (f : outfn) : string :=
  match f with
  | ToOffset => "to_offset" | AssetIdOffsetO => "asset_id_offset"
  | ContractBalanceRootOffsetO => "contract_balance_root_offset"
  | ContractStateRootOffsetO => "contract_state_root_offset"
  | ContractCreatedStateRootOffset => "contract_created_state_root_offset"
  | ContractIdOffsetO => "contract_id_offset"
  end.
(* OutputRepr::from_output(output).<fn>() *)
Definition output_fn (f : outfn) (ov : val) : option N :=
  match zlookup (output_variant ov) output_repr_of with
  | Some r => table_get output_repr_table (outfn_table_name f) r
  | None => None
  end.

(* ---------------------------------------------------------------- transactions *)
(* CommonMetadata (offsets part) *)
Record cmeta : Type := {
  cm_inputs_offset : N;
  cm_inputs_offset_at : list N;
  cm_inputs_predicate_offset_at : list (option (N * N));
  cm_outputs_offset : N;
  cm_outputs_offset_at : list N;
  cm_witnesses_offset : N;
  cm_witnesses_offset_at : list N;
}.
(* a transaction: kind, neutral value, cached metadata (CommonMetadata, ScriptMetadata.script_data_offset) *)
Record otx : Type := { o_kind : kind; o_val : val; o_meta : option (cmeta * option N) }.

Definition static_of (k : kind) (fn : string) : N :=
  match zlookup (kind_name k) static_offsets with
  | Some row => match zlookup fn row with Some o => o | None => 0 end
  | None => 0
  end.

Section Tx.
Variable tx : otx.
Let k := o_kind tx.
Let T := kind_ty k.
Let v := o_val tx.
Definition tx_body : val := sfield "body" T v.
Definition body_schema : ty :=
  match k with
  | KScript => S_ScriptBody | KCreate => S_CreateBody | KUpgrade => S_UpgradeBody
  | KUpload => S_UploadBody | KBlob => S_BlobBody | KMint => TOpaque ""
  end.
Definition tx_policies : val := sfield "policies" T v.
Definition tx_inputs : list val := vlist (sfield "inputs" T v).
Definition tx_outputs : list val := vlist (sfield "outputs" T v).
Definition tx_witnesses : list val := vlist (sfield "witnesses" T v).
Definition body_field (name : string) : val := sfield name body_schema tx_body.

(* script.rs *)
Definition script_offset : N := static_of KScript "script_offset_static".
Definition script_data_offset : N :=
  match o_meta tx with
  | Some (_, Some o) => o
  | _ => sat script_offset (padded_or_max (byte_len (body_field "script")))
  end.
(* ChargeableBody::body_offset_end of the five bodies *)
Definition body_offset_end : N :=
  match k with
  | KScript => sat script_data_offset (padded_or_max (byte_len (body_field "script_data")))
  | KCreate => sat (static_of KCreate "storage_slots_offset_static")
                   (smul (lenN (vlist (body_field "storage_slots"))) StorageSlot_SLOT_SIZE)
  | KUpload => sat (static_of KUpload "proof_set_offset_static")
                   (smul (lenN (vlist (body_field "proof_set"))) Bytes32_LEN)
  | KBlob => sat (static_of KBlob "bytecode_witness_index_offset_static")
                 (WORD_SIZE + WORD_SIZE + WORD_SIZE + WORD_SIZE + WORD_SIZE)
  | KUpgrade => sat (sat (static_of KUpgrade "upgrade_purpose_offset_static")
                         (size S_UpgradePurpose (body_field "purpose")))
                    (WORD_SIZE + WORD_SIZE + WORD_SIZE + WORD_SIZE)
  | KMint => 0
  end.
(* chargeable_transaction.rs mod field *)
Definition policies_offset : N := body_offset_end.
Definition inputs_offset : N :=
  match o_meta tx with
  | Some (m, _) => cm_inputs_offset m
  | None => sat policies_offset (size_dynamic S_Policies tx_policies)
  end.
Definition inputs_offset_at (idx : N) : option N :=
  match o_meta tx with
  | Some (m, _) => get (cm_inputs_offset_at m) idx
  | None => if idx <? lenN tx_inputs then Some (sat inputs_offset (take_sizes S_Input tx_inputs idx)) else None
  end.
Definition inputs_predicate_offset_at (idx : N) : option (N * N) :=
  match o_meta tx with
  | Some (m, _) => match get (cm_inputs_predicate_offset_at m) idx with Some r => r | None => None end
  | None =>
      obind (get tx_inputs idx) (fun input =>
        match obind (predicate_offset input) (fun p => omap (fun o => sat o p) (inputs_offset_at idx)),
              obind (predicate_len input) padded_len_usize with
        | Some a, Some b => Some (a, b)             (* Option::zip *)
        | _, _ => None
        end)
  end.
Definition outputs_offset : N :=
  match o_meta tx with
  | Some (m, _) => cm_outputs_offset m
  | None => sat inputs_offset (all_sizes S_Input tx_inputs)
  end.
Definition outputs_offset_at (idx : N) : option N :=
  match o_meta tx with
  | Some (m, _) => get (cm_outputs_offset_at m) idx
  | None => if idx <? lenN tx_outputs then Some (sat outputs_offset (take_sizes S_Output tx_outputs idx)) else None
  end.
Definition witnesses_offset : N :=
  match o_meta tx with
  | Some (m, _) => cm_witnesses_offset m
  | None => sat outputs_offset (all_sizes S_Output tx_outputs)
  end.
Definition witnesses_offset_at (idx : N) : option N :=
  match o_meta tx with
  | Some (m, _) => get (cm_witnesses_offset_at m) idx
  | None => if idx <? lenN tx_witnesses then Some (sat witnesses_offset (take_sizes S_Witness tx_witnesses idx)) else None
  end.
(* create.rs / upload.rs *)
Definition storage_slots_offset_at (idx : N) : option N :=
  if idx <? lenN (vlist (body_field "storage_slots"))
  then obind (cmul idx StorageSlot_SLOT_SIZE) (cadd (static_of KCreate "storage_slots_offset_static")) else None.
Definition proof_set_offset_at (idx : N) : option N :=
  if idx <? lenN (vlist (body_field "proof_set"))
  then obind (cmul idx Bytes32_LEN) (cadd (static_of KUpload "proof_set_offset_static")) else None.
(* mint.rs *)
Definition mint_input_contract_offset : N := sat (static_of KMint "tx_pointer_static") TxPointer_LEN.
Definition mint_output_contract_offset : N :=
  sat mint_input_contract_offset (size S_input_Contract (sfield "input_contract" T v)).
Definition mint_amount_offset : N :=
  sat mint_output_contract_offset (size S_output_Contract (sfield "output_contract" T v)).
Definition mint_asset_id_offset : N := sat mint_amount_offset WORD_SIZE.
Definition mint_gas_price_offset : N := sat mint_asset_id_offset AssetId_LEN.
End Tx.

Definition tx_offset (tx : otx) (f : tfn) : option N :=
  let k := o_kind tx in
  let st (k' : kind) (name : string) :=
    if String.eqb (kind_name k) (kind_name k') then Some (static_of k' name) else None in
  match f with
  | ScriptGasLimitOffset => st KScript "script_gas_limit_offset_static"
  | ReceiptsRootOffset => st KScript "receipts_root_offset_static"
  | ScriptOffset => st KScript "script_offset_static"
  | ScriptDataOffset => match k with KScript => Some (script_data_offset tx) | _ => None end
  | BytecodeWitnessIndexOffset =>
      match k with
      | KCreate | KUpload | KBlob => Some (static_of k "bytecode_witness_index_offset_static")
      | _ => None
      end
  | SaltOffset => st KCreate "salt_offset_static"
  | StorageSlotsOffsetStatic => st KCreate "storage_slots_offset_static"
  | UpgradePurposeOffset => st KUpgrade "upgrade_purpose_offset_static"
  | BytecodeRootOffset => st KUpload "bytecode_root_offset_static"
  | SubsectionIndexOffset => st KUpload "subsection_index_offset_static"
  | SubsectionsNumberOffset => st KUpload "subsections_number_offset_static"
  | ProofSetOffset => st KUpload "proof_set_offset_static"
  | BlobIdOffset => st KBlob "blob_id_offset_static"
  | BodyOffsetEnd => if chargeable k then Some (body_offset_end tx) else None
  | PoliciesOffset => if chargeable k then Some (policies_offset tx) else None
  | InputsOffset => if chargeable k then Some (inputs_offset tx) else None
  | OutputsOffset => if chargeable k then Some (outputs_offset tx) else None
  | WitnessesOffset => if chargeable k then Some (witnesses_offset tx) else None
  | MintTxPointerOffset => st KMint "tx_pointer_static"
  | InputContractOffset => match k with KMint => Some mint_input_contract_offset | _ => None end
  | OutputContractOffset => match k with KMint => Some (mint_output_contract_offset tx) | _ => None end
  | MintAmountOffset => match k with KMint => Some (mint_amount_offset tx) | _ => None end
  | MintAssetIdOffset => match k with KMint => Some (mint_asset_id_offset tx) | _ => None end
  | GasPriceOffset => match k with KMint => Some (mint_gas_price_offset tx) | _ => None end
  end.

Definition tx_offset_at (tx : otx) (f : atfn) (idx : N) : option N :=
  let k := o_kind tx in
  match f with
  | InputsOffsetAt => if chargeable k then inputs_offset_at tx idx else None
  | OutputsOffsetAt => if chargeable k then outputs_offset_at tx idx else None
  | WitnessesOffsetAt => if chargeable k then witnesses_offset_at tx idx else None
  | StorageSlotsOffsetAt => match k with KCreate => storage_slots_offset_at tx idx | _ => None end
  | ProofSetOffsetAt => match k with KUpload => proof_set_offset_at tx idx | _ => None end
  end.
Definition tx_predicate_offset_at (tx : otx) (idx : N) : option (N * N) :=
  if chargeable (o_kind tx) then inputs_predicate_offset_at tx idx else None.

(* ---------------------------------------------------------------- CommonMetadata::compute *)
(* `offset = offset.checked_add(x.size()).ok_or(..)?; at.push(i)` *)
Fixpoint offsets_from (t : ty) (off : N) (xs : list val) : option (list N) :=
  match xs with
  | [] => Some []
  | x :: r =>
      obind (cadd off (size t x)) (fun off' => omap (cons off) (offsets_from t off' r))
  end.
Definition indices {A} (l : list A) : list N := map N.of_nat (seq 0 (length l)).

(* on a transaction whose metadata has just been dropped *)
Definition compute_meta (tx : otx) : option cmeta :=
  let tx0 := {| o_kind := o_kind tx; o_val := o_val tx; o_meta := None |} in
  let preds := map (inputs_predicate_offset_at tx0) (indices (tx_inputs tx0)) in
  obind (offsets_from S_Input (inputs_offset tx0) (tx_inputs tx0)) (fun ia =>
  obind (offsets_from S_Output (outputs_offset tx0) (tx_outputs tx0)) (fun oa =>
  obind (offsets_from S_Witness (witnesses_offset tx0) (tx_witnesses tx0)) (fun wa =>
    Some {| cm_inputs_offset := inputs_offset tx0; cm_inputs_offset_at := ia;
            cm_inputs_predicate_offset_at := preds;
            cm_outputs_offset := outputs_offset tx0; cm_outputs_offset_at := oa;
            cm_witnesses_offset := witnesses_offset tx0; cm_witnesses_offset_at := wa |}))).
(* Cacheable::precompute (offsets part): `self.metadata = None; self.metadata = Some(ChargeableMetadata {
   common: CommonMetadata::compute(self, chain_id)?, body: <Body>Metadata { .. } })`.
   None = the `?` returned an error (the body metadata of Create / Upgrade can fail for reasons
   outside this property: [body_ok] says whether it did) *)
Definition precompute_offsets (body_ok : bool) (tx : otx) : option otx :=
  let tx0 := {| o_kind := o_kind tx; o_val := o_val tx; o_meta := None |} in
  if negb (chargeable (o_kind tx)) then Some tx0      (* MintMetadata has no offsets *)
  else
    match compute_meta tx0 with
    | Some m =>
        if body_ok
        then Some {| o_kind := o_kind tx; o_val := o_val tx;
                     o_meta := Some (m, match o_kind tx with KScript => Some (script_data_offset tx0) | _ => None end) |}
        else None
    | None => None
    end.
