(* Offsets/OffsetProofs.v — proofs for property C04.

   1. [locate_sound]: the specification's positions (prefix sums of encoder output lengths) really
      hold the field's canonical bytes inside the encoding — generic, by induction over the schema
      universe, for every selector and every value;
   2. static positions are value-independent on typed values ([static_off], schema only), so the
      tables regenerated from the Rust source (static offset chains of the six kinds, the
      InputRepr / OutputRepr decision tables) are checked against the schemas by computation:
      a constant off by 8, a field reordered on one side, a wrong None/Some breaks
      [static_table_ok] / [input_repr_table_ok] / [output_repr_table_ok];
   3. offsets read from cached metadata equal the offsets computed without it. *)
From Coq Require Import Arith PeanoNat.
From FV Require Import Codec.CodecInstances TxId.IdProofs.
From FV Require Export Offsets.OffsetModel.
Local Open Scope string_scope.
Local Open Scope list_scope.
Open Scope N_scope.

(* ================================================================ 1. locate is sound *)
Lemma lenN_nat {A} (l : list A) : N.to_nat (lenN l) = length l.
Proof. unfold lenN. apply Nnat.Nat2N.id. Qed.

Lemma slice_mid (a b c : bytes) : slice (a ++ b ++ c) (lenN a) (lenN b) = b.
Proof.
  unfold slice. rewrite !lenN_nat, skipn_app, skipn_all, Nat.sub_diag. cbn [skipn app].
  rewrite firstn_app, firstn_all, Nat.sub_diag. cbn [firstn]. apply app_nil_r.
Qed.

(* the layout in which a value's two halves sit inside a larger encoding *)
Definition framed (B pre es mid ed post : bytes) : Prop := B = pre ++ es ++ mid ++ ed ++ post.

Definition Sound (t : ty) : Prop :=
  forall v s so dyo o bs, locate t v s so dyo = Some (o, bs) ->
  forall pre mid post, lenN pre = so -> lenN (pre ++ enc_static t v ++ mid) = dyo ->
    slice (pre ++ enc_static t v ++ mid ++ enc_dynamic t v ++ post) o (lenN bs) = bs.
Definition SoundF (fs : fields) : Prop :=
  forall vs n s' so dyo o bs, locate_fields fs vs n s' so dyo = Some (o, bs) ->
  forall pre mid post, lenN pre = so -> lenN (pre ++ enc_static_fields fs vs ++ mid) = dyo ->
    slice (pre ++ enc_static_fields fs vs ++ mid ++ enc_dynamic_fields fs vs ++ post) o (lenN bs) = bs.
Definition SoundV (vars : variants) : Prop :=
  forall i vs n s' so dyo o bs, locate_variants vars i vs n s' so dyo = Some (o, bs) ->
  forall pre mid post, lenN pre = so -> lenN (pre ++ enc_static_variants vars i vs ++ mid) = dyo ->
    slice (pre ++ enc_static_variants vars i vs ++ mid ++ enc_dynamic_variants vars i vs ++ post) o (lenN bs) = bs.
Definition SoundA (al : alts) : Prop :=
  forall i x n s' so dyo o bs, locate_alts al i x n s' so dyo = Some (o, bs) ->
  forall pre mid post, lenN pre = so -> lenN (pre ++ enc_static_alts al i x ++ mid) = dyo ->
    slice (pre ++ enc_static_alts al i x ++ mid ++ enc_dynamic_alts al i x ++ post) o (lenN bs) = bs.

(* the three [SHere] cases, for any type *)
Lemma sound_here t v p so dyo o bs : locate t v (SHere p) so dyo = Some (o, bs) ->
  forall pre mid post, lenN pre = so -> lenN (pre ++ enc_static t v ++ mid) = dyo ->
    slice (pre ++ enc_static t v ++ mid ++ enc_dynamic t v ++ post) o (lenN bs) = bs.
Proof.
  intros H pre mid post Hso Hdyo.
  assert (E : locate t v (SHere p) so dyo =
              match p with
              | PStatic => Some (so, enc_static t v)
              | PDynamic => Some (dyo, enc_dynamic t v)
              | PFull => if dyo =? so + lenN (enc_static t v) then Some (so, enc t v) else None
              end) by (destruct t; reflexivity).
  rewrite E in H. clear E. destruct p.
  - destruct (dyo =? so + lenN (enc_static t v)) eqn:Q; [|discriminate]. injection H as <- <-.
    apply N.eqb_eq in Q. rewrite <- Hdyo, <- Hso in Q. rewrite !lenN_app in Q.
    assert (Hm : mid = []) by (destruct mid; [reflexivity | unfold lenN in Q; cbn [length] in Q; lia]).
    subst mid. rewrite <- Hso. cbn [app]. unfold enc. rewrite (app_assoc (enc_static t v)). apply slice_mid.
  - injection H as <- <-. rewrite <- Hso. apply slice_mid.
  - injection H as <- <-. rewrite <- Hdyo.
    replace (pre ++ enc_static t v ++ mid ++ enc_dynamic t v ++ post)
      with ((pre ++ enc_static t v ++ mid) ++ enc_dynamic t v ++ post) by (rewrite <- !app_assoc; reflexivity).
    apply slice_mid.
Qed.

Lemma nth_error_split {A} (l : list A) i x : nth_error l i = Some x ->
  l = firstn i l ++ x :: skipn (S i) l.
Proof.
  revert i. induction l as [|a l IH]; intros [|i] H; try discriminate.
  - injection H as ->. reflexivity.
  - cbn [nth_error] in H. cbn [firstn skipn app]. f_equal. apply IH, H.
Qed.

Lemma locate_sound_all : (forall t, Sound t) /\ (forall fs, SoundF fs) /\ (forall vars, SoundV vars) /\ (forall al, SoundA al).
Proof.
  apply schema_mutind; unfold Sound, SoundF, SoundV, SoundA.
  - (* TUInt *) intros w v [p|n s'|n s'|i s'] so dyo o bs H; try (destruct v; discriminate H). eapply sound_here; eauto.
  - intros n v [p|m s'|m s'|i s'] so dyo o bs H; try (destruct v; discriminate H). eapply sound_here; eauto.
  - intros v [p|m s'|m s'|i s'] so dyo o bs H; try (destruct v; discriminate H). eapply sound_here; eauto.
  - (* TVec *) intros t IH v [p|m s'|m s'|i s'] so dyo o bs H; try (destruct v; discriminate H); [eapply sound_here; eauto|].
    destruct v as [| | |xs| | |]; try discriminate H. cbn [locate] in H.
    destruct (nth_error xs i) as [x|] eqn:Hx; [|discriminate H].
    intros pre mid post Hso Hdyo. cbn [enc_static enc_dynamic].
    pose proof (nth_error_split xs i x Hx) as Sx.
    set (A := firstn i xs) in *. set (Z := skipn (S i) xs) in *.
    assert (Ed : flat_map (fun y => enc_static t y ++ enc_dynamic t y) xs =
                 enc_all t A ++ (enc_static t x ++ enc_dynamic t x) ++ enc_all t Z).
    { rewrite Sx at 1. unfold enc_all. rewrite flat_map_app. cbn [flat_map]. rewrite <- app_assoc. reflexivity. }
    rewrite Ed.
    specialize (IH x s' _ _ o bs H (pre ++ be8 (lenN xs) ++ mid ++ enc_all t A) [] (enc_all t Z ++ post)).
    replace (pre ++ be8 (lenN xs) ++ mid ++ (enc_all t A ++ (enc_static t x ++ enc_dynamic t x) ++ enc_all t Z) ++ post)
      with ((pre ++ be8 (lenN xs) ++ mid ++ enc_all t A) ++ enc_static t x ++ [] ++ enc_dynamic t x ++ enc_all t Z ++ post)
      by (cbn [app]; rewrite <- !app_assoc; reflexivity).
    apply IH.
    + cbn [enc_static] in Hdyo. rewrite <- Hdyo. rewrite !lenN_app. lia.
    + cbn [enc_static] in Hdyo. rewrite <- Hdyo. rewrite app_nil_r, !lenN_app. lia.
  - (* TStruct *) intros p fs IH v [q|m s'|m s'|i s'] so dyo o bs H; try (destruct v; discriminate H); [eapply sound_here; eauto|].
    destruct v as [| | | |vs| |]; try discriminate H. cbn [locate] in H.
    intros pre mid post Hso Hdyo. cbn [enc_static enc_dynamic] in *.
    specialize (IH vs m s' _ _ o bs H (pre ++ match p with Some d => be8 d | None => [] end) mid post).
    rewrite <- !app_assoc in IH. rewrite <- ?app_assoc. apply IH.
    + rewrite lenN_app, Hso. destruct p; [rewrite lenN_be8|]; unfold lenN; cbn [length]; lia.
    + rewrite <- Hdyo. rewrite <- !app_assoc. reflexivity.
  - (* TEnum *) intros vars IH v [q|m s'|m s'|i s'] so dyo o bs H; try (destruct v; discriminate H); [eapply sound_here; eauto|].
    destruct v as [| | | | |i vs|]; try discriminate H. cbn [locate] in H. cbn [enc_static enc_dynamic].
    eapply IH; eauto.
  - (* TEmpty *) intros t IH v [p|m s'|m s'|i s'] so dyo o bs H; try (destruct v; discriminate H). eapply sound_here; eauto.
  - intros s v [p|m s'|m s'|i s'] so dyo o bs H; try (destruct v; discriminate H). eapply sound_here; eauto.
  - intros v [p|m s'|m s'|i s'] so dyo o bs H; try (destruct v; discriminate H). eapply sound_here; eauto.
  - (* TInput *) intros cf Hcf cs Hcs cp Hcp ct Hct mf Hmf mcs Hmcs mcp Hmcp mds Hmds mdp Hmdp v [q|m s'|m s'|k s'] so dyo o bs H;
      try (destruct v as [| | | | |? [|? [|]]|]; discriminate H); [eapply sound_here; eauto|].
    destruct v as [| | | | |i l|]; try discriminate H. destruct l as [|x [|]]; try discriminate H.
    cbn [locate] in H. destruct (String.eqb (nth i input_names "") m); [|discriminate H].
    intros pre mid post Hso Hdyo. cbn [enc_static enc_dynamic] in *.
    assert (IH : Sound (input_sel i cs cp ct mcs mcp mds mdp)) by (apply (input_sel_cases Sound); assumption).
    specialize (IH x s' _ _ o bs H (pre ++ be8 (input_disc i)) mid post).
    rewrite <- !app_assoc in IH. rewrite <- ?app_assoc. apply IH.
    + rewrite lenN_app, lenN_be8, Hso. reflexivity.
    + rewrite <- Hdyo. rewrite <- !app_assoc. reflexivity.
  - (* TPeek *) intros al IH v [q|m s'|m s'|i s'] so dyo o bs H;
      try (destruct v as [| | | | |? [|? [|]]|]; discriminate H); [eapply sound_here; eauto|].
    destruct v as [| | | | |i l|]; try discriminate H. destruct l as [|x [|]]; try discriminate H.
    cbn [locate] in H. cbn [enc_static enc_dynamic]. eapply IH; eauto.
  - (* FNil *) intros vs n s' so dyo o bs H. destruct vs; discriminate H.
  - (* FCons *) intros n' sk t It r Ir vs n s' so dyo o bs H. destruct vs as [|v vs']; [discriminate H|].
    cbn [locate_fields] in H. intros pre mid post Hso Hdyo. cbn [enc_static_fields enc_dynamic_fields] in *.
    destruct sk.
    + cbn [app] in *. eapply Ir; eauto.
    + destruct (String.eqb n' n).
      * specialize (It v s' so dyo o bs H pre (enc_static_fields r vs' ++ mid) (enc_dynamic_fields r vs' ++ post) Hso).
        rewrite <- !app_assoc in It. rewrite <- !app_assoc. apply It. rewrite <- Hdyo. rewrite <- !app_assoc. reflexivity.
      * specialize (Ir vs' n s' _ _ o bs H (pre ++ enc_static t v) (mid ++ enc_dynamic t v) post).
        replace (pre ++ (enc_static t v ++ enc_static_fields r vs') ++ mid ++ (enc_dynamic t v ++ enc_dynamic_fields r vs') ++ post)
          with ((pre ++ enc_static t v) ++ enc_static_fields r vs' ++ (mid ++ enc_dynamic t v) ++ enc_dynamic_fields r vs' ++ post)
          by (rewrite <- !app_assoc; reflexivity).
        apply Ir.
        -- rewrite lenN_app, Hso. reflexivity.
        -- rewrite <- Hdyo. rewrite !lenN_app. lia.
  - (* VNil *) intros i vs n s' so dyo o bs H. discriminate H.
  - (* VCons *) intros n' d fs If r Ir i vs n s' so dyo o bs H. cbn [locate_variants] in H.
    cbn [enc_static_variants enc_dynamic_variants]. destruct i as [|j]; [|eapply Ir; eauto].
    destruct (String.eqb n' n); [|discriminate H]. destruct s' as [q|m s''|m s''|k s'']; try discriminate H.
    intros pre mid post Hso Hdyo.
    specialize (If vs m s'' _ _ o bs H (pre ++ be8 d) mid post).
    rewrite <- !app_assoc in If. rewrite <- ?app_assoc. apply If.
    + rewrite lenN_app, lenN_be8, Hso. reflexivity.
    + rewrite <- Hdyo. rewrite <- !app_assoc. reflexivity.
  - intros i x n s' so dyo o bs H. discriminate H.
  - intros n' d t It r Ir i x n s' so dyo o bs H. cbn [locate_alts] in H.
    cbn [enc_static_alts enc_dynamic_alts]. destruct i as [|j]; [|eapply Ir; eauto].
    destruct (String.eqb n' n); [|discriminate H]. eapply It; eauto.
Qed.

(* a position reported by the specification holds exactly the field's canonical bytes *)
Theorem locate_sound t v s o bs : locate_in t v s = Some (o, bs) -> slice (enc t v) o (lenN bs) = bs.
Proof.
  intros H. pose proof (proj1 locate_sound_all t v s _ _ o bs H [] [] []) as S.
  cbn [app] in S. rewrite !app_nil_r in S. apply S; reflexivity.
Qed.

(* ================================================================ 2. static positions *)
(* value-independent length of the static half (None: depends on the variant) *)
Fixpoint ssize (t : ty) : option N :=
  match t with
  | TUInt w => Some (N.of_nat (pad8 w + w))
  | TBytesN n => Some (N.of_nat (n + pad8 n))
  | TByteVec | TVec _ => Some 8
  | TStruct p fs =>
      match ssize_fields fs with
      | Some a => Some ((match p with Some _ => 8 | None => 0 end) + a)
      | None => None
      end
  | TEmpty t' => if flat t' then ssize t' else None
  | TPolicies => Some 8
  | _ => None
  end
with ssize_fields (fs : fields) : option N :=
  match fs with
  | FNil => Some 0
  | FCons _ sk t r =>
      match (if sk then Some 0 else ssize t), ssize_fields r with
      | Some a, Some b => Some (a + b)
      | _, _ => None
      end
  end.

Lemma lenN_nil {A} : lenN (@nil A) = 0.
Proof. reflexivity. Qed.

Lemma ssize_ok_all :
  (forall t v n, typed t v = true -> ssize t = Some n -> lenN (enc_static t v) = n) /\
  (forall fs vs n, typed_fields fs vs = true -> ssize_fields fs = Some n -> lenN (enc_static_fields fs vs) = n).
Proof.
  apply schema_ind2.
  - intros w v n H E. destruct v; try discriminate H. cbn [ssize] in E. injection E as <-.
    cbn [enc_static]. unfold lenN. rewrite enc_uint_length. reflexivity.
  - intros m v n H E. destruct v; try discriminate H. cbn [ssize] in E. injection E as <-.
    cbn [typed] in H. apply andb_true_iff in H as [H _]. apply Nat.eqb_eq in H.
    cbn [enc_static]. unfold lenN. rewrite app_length, zeros_length, H. reflexivity.
  - intros v n H E. destruct v; try discriminate H. injection E as <-. cbn [enc_static]. apply lenN_be8.
  - intros t _ v n H E. destruct v; try discriminate H. injection E as <-. cbn [enc_static]. apply lenN_be8.
  - intros p fs IH v n H E. destruct v as [| | | |vs| |]; try discriminate H. cbn [ssize] in E.
    destruct (ssize_fields fs) as [a|] eqn:Ea; [|discriminate E]. injection E as <-.
    cbn [typed] in H. apply andb_true_iff in H as [_ H]. cbn [enc_static]. rewrite lenN_app, (IH vs a H eq_refl).
    destruct p; [rewrite lenN_be8 | rewrite lenN_nil]; reflexivity.
  - intros vs _ v n H E. discriminate E.
  - intros t IH v n H E. cbn [ssize] in E. destruct (flat t) eqn:F; [|discriminate E].
    assert (Ev : enc_static (TEmpty t) v = enc_static t (default_val t)) by (destruct v; reflexivity).
    rewrite Ev. apply IH; [apply (proj1 flat_default_typed), F | exact E].
  - intros s v n H E. discriminate E.
  - intros v n H E. injection E as <-. destruct v as [| | | |vs| |]; try discriminate H.
    destruct vs as [|b vs]; try discriminate H. destruct b; try discriminate H.
    cbn [enc_static]. unfold lenN. rewrite enc_uint_length. reflexivity.
  - intros cf cs cp ct mf mcs mcp mds mdp _ _ _ _ _ _ _ _ _ v n H E. discriminate E.
  - intros al _ v n H E. discriminate E.
  - intros vs n H E. destruct vs; [|discriminate H]. injection E as <-. reflexivity.
  - intros m sk t r It Ir vs n H E. destruct vs as [|v vs]; [discriminate H|].
    cbn [typed_fields] in H. apply andb_true_iff in H as [H1 H2]. cbn [ssize_fields] in E.
    cbn [enc_static_fields]. rewrite lenN_app.
    destruct sk.
    + destruct (ssize_fields r) as [b|] eqn:Eb; [|discriminate E]. injection E as <-.
      rewrite lenN_nil, (Ir vs b H2 eq_refl). reflexivity.
    + cbn [orb] in H1. destruct (ssize t) as [a|] eqn:Ea; [|discriminate E].
      destruct (ssize_fields r) as [b|] eqn:Eb; [|discriminate E]. injection E as <-.
      rewrite (It v a H1 eq_refl), (Ir vs b H2 eq_refl). reflexivity.
Qed.

(* schema only: where the static bytes of field [name] start inside the static bytes of the field list *)
Fixpoint soff (fs : fields) (name : string) : option (N * ty) :=
  match fs with
  | FNil => None
  | FCons n sk t r =>
      if sk then soff r name
      else if String.eqb n name then Some (0, t)
      else match ssize t, soff r name with
           | Some a, Some (b, ft) => Some (a + b, ft)
           | _, _ => None
           end
  end.

Lemma soff_ok fs : forall vs name d ft, typed_fields fs vs = true -> soff fs name = Some (d, ft) ->
  exists fv, typed ft fv = true /\
    forall s' so dyo, exists dyo', locate_fields fs vs name s' so dyo = locate ft fv s' (so + d) dyo'.
Proof.
  induction fs as [|n sk t r IH]; intros vs name d ft H E; [discriminate E|].
  destruct vs as [|v vs]; [discriminate H|]. cbn [typed_fields] in H. apply andb_true_iff in H as [H1 H2].
  cbn [soff] in E. destruct sk.
  - destruct (IH vs name d ft H2 E) as (fv & Hfv & L). exists fv. split; [exact Hfv|].
    intros s' so dyo. cbn [locate_fields]. apply L.
  - cbn [orb] in H1. destruct (String.eqb n name) eqn:En.
    + injection E as <- <-. exists v. split; [exact H1|]. intros s' so dyo. exists dyo.
      cbn [locate_fields]. rewrite En, N.add_0_r. reflexivity.
    + destruct (ssize t) as [a|] eqn:Ea; [|discriminate E].
      destruct (soff r name) as [[b ft']|] eqn:Eb; [|discriminate E]. injection E as <- <-.
      destruct (IH vs name b ft' H2 Eb) as (fv & Hfv & L). exists fv. split; [exact Hfv|].
      intros s' so dyo. cbn [locate_fields]. rewrite En.
      destruct (L s' (so + lenN (enc_static t v)) (dyo + lenN (enc_dynamic t v))) as [dyo' Ld].
      exists dyo'. rewrite Ld, (proj1 ssize_ok_all t v a H1 Ea). f_equal. lia.
Qed.

(* nested struct fields *)
Fixpoint spath_off (t : ty) (path : list string) : option (N * ty) :=
  match path with
  | [] => Some (0, t)
  | n :: rest =>
      match t with
      | TStruct p fs =>
          match soff fs n with
          | Some (d, ft) =>
              match spath_off ft rest with
              | Some (d', ft') => Some ((match p with Some _ => 8 | None => 0 end) + d + d', ft')
              | None => None
              end
          | None => None
          end
      | _ => None
      end
  end.
Fixpoint sel_path (path : list string) (s' : sel) : sel :=
  match path with [] => s' | n :: r => SField n (sel_path r s') end.

Lemma spath_ok path : forall t v d ft, typed t v = true -> spath_off t path = Some (d, ft) ->
  exists fv, typed ft fv = true /\
    forall s' so dyo, exists dyo', locate t v (sel_path path s') so dyo = locate ft fv s' (so + d) dyo'.
Proof.
  induction path as [|n rest IH]; intros t v d ft H E.
  - injection E as <- <-. exists v. split; [exact H|]. intros s' so dyo. exists dyo. rewrite N.add_0_r. reflexivity.
  - cbn [spath_off] in E. destruct t as [| | | |p fs| | | | | |]; try discriminate E.
    destruct (soff fs n) as [[d1 ft1]|] eqn:E1; [|discriminate E].
    destruct (spath_off ft1 rest) as [[d2 ft2]|] eqn:E2; [|discriminate E]. injection E as <- <-.
    destruct v as [| | | |vs| |]; try discriminate H. cbn [typed] in H. apply andb_true_iff in H as [_ H].
    destruct (soff_ok fs vs n d1 ft1 H E1) as (fv1 & Hfv1 & L1).
    destruct (IH ft1 fv1 d2 ft2 Hfv1 E2) as (fv & Hfv & L2). exists fv. split; [exact Hfv|].
    intros s' so dyo. cbn [sel_path locate].
    destruct (L1 (sel_path rest s') (so + match p with Some _ => 8 | None => 0 end) dyo) as [dyo1 Ld1].
    destruct (L2 s' (so + match p with Some _ => 8 | None => 0 end + d1) dyo1) as [dyo2 Ld2].
    exists dyo2. rewrite Ld1, Ld2. f_equal. lia.
Qed.

Lemma locate_here_static t v so dyo : locate t v (SHere PStatic) so dyo = Some (so, enc_static t v).
Proof. destruct t; reflexivity. Qed.

(* a static field of a typed value is where the schema says, whatever the value *)
Theorem static_path_locates t v path d ft : typed t v = true -> spath_off t path = Some (d, ft) ->
  exists fv, typed ft fv = true /\ locate_in t v (sel_path path (SHere PStatic)) = Some (d, enc_static ft fv).
Proof.
  intros H E. destruct (spath_ok path t v d ft H E) as (fv & Hfv & L). exists fv. split; [exact Hfv|].
  unfold locate_in. destruct (L (SHere PStatic) 0 (lenN (enc_static t v))) as [dyo' Ld].
  rewrite Ld, locate_here_static. reflexivity.
Qed.

(* ---------------------------------------------------------------- the tables against the schemas *)
Fixpoint static_path_of (s : sel) : option (list string) :=
  match s with
  | SHere PStatic => Some []
  | SField n s' => match static_path_of s' with Some p => Some (n :: p) | None => None end
  | _ => None
  end.
Lemma static_path_sel s : forall path, static_path_of s = Some path -> s = sel_path path (SHere PStatic).
Proof.
  induction s as [p|n s' IH|n s' IH|i s' IH]; intros path H; cbn [static_path_of] in H; try discriminate H.
  - destruct p; try discriminate H. injection H as <-. reflexivity.
  - destruct (static_path_of s') as [q|]; [|discriminate H]. injection H as <-. cbn [sel_path]. f_equal. apply IH. reflexivity.
Qed.

Definition tx0 (k : kind) (v : val) : otx := {| o_kind := k; o_val := v; o_meta := None |}.
(* a value on which the value-independent static offsets are evaluated *)
Definition wit (k : kind) : val := match k with KMint => default_val S_Mint | _ => VUnit end.
Definition all_tfn : list tfn :=
  [ScriptGasLimitOffset; ReceiptsRootOffset; ScriptOffset; ScriptDataOffset; BytecodeWitnessIndexOffset; SaltOffset;
   StorageSlotsOffsetStatic; UpgradePurposeOffset; BytecodeRootOffset; SubsectionIndexOffset; SubsectionsNumberOffset;
   ProofSetOffset; BlobIdOffset; BodyOffsetEnd; PoliciesOffset; InputsOffset; OutputsOffset; WitnessesOffset;
   MintTxPointerOffset; InputContractOffset; OutputContractOffset; MintAmountOffset; MintAssetIdOffset; GasPriceOffset].

(* offset reported for a static field = schema prefix sum; reported at all <-> the kind has the field *)
Definition static_fn_check (k : kind) (f : tfn) : bool :=
  match tx_sel k f with
  | Some s =>
      match static_path_of s with
      | Some path =>
          match spath_off (kind_ty k) path, tx_offset (tx0 k (wit k)) f with
          | Some (d, _), Some o => d =? o
          | _, _ => false
          end
      | None => match tx_offset (tx0 k (wit k)) f with Some _ => true | None => false end
      end
  | None => match tx_offset (tx0 k (wit k)) f with None => true | Some _ => false end
  end.
(* (kind, function) pairs that fail: must be empty *)
Definition static_table_failures : list (string * tfn) :=
  flat_map (fun k => map (fun f => (kind_name k, f)) (filter (fun f => negb (static_fn_check k f)) all_tfn)) all_kinds.
Lemma static_table_ok : static_table_failures = [].
Proof. vm_compute. reflexivity. Qed.

Lemma static_fn_check_all k f : static_fn_check k f = true.
Proof. destruct k, f; vm_compute; reflexivity. Qed.

(* the static offsets do not depend on the value *)
Definition is_static (k : kind) (f : tfn) : bool :=
  match tx_sel k f with
  | Some s => match static_path_of s with Some _ => true | None => false end
  | None => false
  end.
Lemma static_indep k f v : shaped (kind_ty k) v = true -> is_static k f = true ->
  tx_offset (tx0 k v) f = tx_offset (tx0 k (wit k)) f.
Proof.
  intros H Hs. destruct k, f; vm_compute in Hs; try discriminate Hs; try reflexivity; shape H; reflexivity.
Qed.

(* C04 for the static fields of a transaction: the reported offset is the schema's prefix sum,
   and the bytes there are the field's canonical (static) bytes *)
Theorem tx_static_locates k f v s o :
  typed (kind_ty k) v = true -> tx_sel k f = Some s -> is_static k f = true ->
  tx_offset (tx0 k v) f = Some o ->
  exists ft fv, typed ft fv = true /\ locate_in (kind_ty k) v s = Some (o, enc_static ft fv) /\
                slice (enc (kind_ty k) v) o (lenN (enc_static ft fv)) = enc_static ft fv.
Proof.
  intros Hv Hs Hst Ho. pose proof (static_fn_check_all k f) as C. unfold static_fn_check in C.
  unfold is_static in Hst. rewrite Hs in C, Hst.
  destruct (static_path_of s) as [path|] eqn:Ep; [|discriminate Hst].
  rewrite <- (static_indep k f v (typed_shaped _ _ Hv)) in C by (unfold is_static; rewrite Hs, Ep; reflexivity).
  rewrite Ho in C. destruct (spath_off (kind_ty k) path) as [[d ft]|] eqn:Ed; [|discriminate C].
  apply N.eqb_eq in C. subst d.
  destruct (static_path_locates _ v path o ft Hv Ed) as (fv & Hfv & L).
  rewrite <- (static_path_sel s path Ep) in L.
  exists ft, fv. repeat split; try assumption. apply (locate_sound _ _ _ _ _ L).
Qed.

(* a transaction-level offset function answers None exactly when the kind has no such field *)
Theorem tx_offset_none_iff k f v m :
  tx_offset {| o_kind := k; o_val := v; o_meta := m |} f = None <-> tx_sel k f = None.
Proof. destruct k, f; split; intros H; first [reflexivity | discriminate H]. Qed.

(* ---------------------------------------------------------------- InputRepr / OutputRepr tables *)
Definition all_infn : list infn :=
  [UtxoIdOffset; OwnerOffset; AssetIdOffset; DataOffset; CoinPredicateOffset; ContractBalanceRootOffset;
   ContractStateRootOffset; ContractIdOffset; MessageSenderOffset; MessageRecipientOffset; MessageNonceOffset;
   TxPointerOffsetI; PredicateOffset; PredicateDataOffset; PredicateLen; PredicateDataLen; InputDataLen].
Definition is_len_fn (f : infn) : bool :=
  match f with PredicateLen | PredicateDataLen | InputDataLen => true | _ => false end.

(* static field: table value = 8 (discriminant) + schema prefix sum; dynamic field: reported;
   no such field in this variant: None *)
Definition in_fn_check (f : infn) (j : nat) : bool :=
  let iv := VE j [VUnit] in
  match in_field_of f j with
  | Some (n, PStatic) =>
      match spath_off (input_comp j) [n], input_fn f iv with
      | Some (d, _), Some o => 8 + d =? o
      | _, _ => false
      end
  | Some (_, _) => match input_fn f iv with Some _ => true | None => false end
  | None => is_len_fn f || match input_fn f iv with None => true | Some _ => false end
  end.
Definition input_repr_failures : list (infn * nat) :=
  flat_map (fun f => map (fun j => (f, j)) (filter (fun j => negb (in_fn_check f j)) (seq 0 7))) all_infn.
Lemma input_repr_table_ok : input_repr_failures = [].
Proof. vm_compute. reflexivity. Qed.

Lemma lt7 j : (j < 7)%nat -> j = 0%nat \/ j = 1%nat \/ j = 2%nat \/ j = 3%nat \/ j = 4%nat \/ j = 5%nat \/ j = 6%nat.
Proof. lia. Qed.
Lemma in_fn_check_all f j : (j < 7)%nat -> in_fn_check f j = true.
Proof.
  intros H. destruct (lt7 j H) as [-> | [-> | [-> | [-> | [-> | [-> | ->]]]]]]; destruct f; vm_compute; reflexivity.
Qed.

Lemma locate_input j x s' : (j < 7)%nat ->
  locate_in S_Input (VE j [x]) (SVariant (nth j input_names "") s') =
  locate (input_comp j) x s' 8 (lenN (enc_static S_Input (VE j [x]))).
Proof.
  intros H. unfold locate_in, S_Input, input_comp. cbn [locate]. rewrite String.eqb_refl. reflexivity.
Qed.

(* C04 for the static fields of an input (offsets relative to the input's own encoding) *)
Theorem input_static_locates f j x n o :
  (j < 7)%nat -> typed (input_comp j) x = true -> in_field_of f j = Some (n, PStatic) ->
  input_fn f (VE j [x]) = Some o ->
  exists s ft fv, in_sel f j = Some s /\ typed ft fv = true /\
    locate_in S_Input (VE j [x]) s = Some (o, enc_static ft fv) /\
    slice (enc S_Input (VE j [x])) o (lenN (enc_static ft fv)) = enc_static ft fv.
Proof.
  intros Hj Hx Hf Ho. pose proof (in_fn_check_all f j Hj) as C. unfold in_fn_check in C. rewrite Hf in C.
  assert (Ei : input_fn f (VE j [x]) = input_fn f (VE j [VUnit])).
  { destruct f; try reflexivity;
      destruct (lt7 j Hj) as [-> | [-> | [-> | [-> | [-> | [-> | ->]]]]]]; vm_compute in Hf; discriminate Hf. }
  rewrite <- Ei, Ho in C. destruct (spath_off (input_comp j) [n]) as [[d ft]|] eqn:Ed; [|discriminate C].
  apply N.eqb_eq in C. subst o.
  destruct (spath_ok [n] (input_comp j) x d ft Hx Ed) as (fv & Hfv & L).
  exists (SVariant (nth j input_names "") (fld n PStatic)), ft, fv.
  assert (Es : in_sel f j = Some (SVariant (nth j input_names "") (fld n PStatic))) by (unfold in_sel; rewrite Hf; reflexivity).
  assert (Lc : locate_in S_Input (VE j [x]) (SVariant (nth j input_names "") (fld n PStatic)) = Some (8 + d, enc_static ft fv)).
  { rewrite (locate_input j x _ Hj). destruct (L (SHere PStatic) 8 (lenN (enc_static S_Input (VE j [x])))) as [dyo' Ld].
    change (fld n PStatic) with (sel_path [n] (SHere PStatic)). rewrite Ld, locate_here_static. reflexivity. }
  repeat split; try assumption. apply (locate_sound _ _ _ _ _ Lc).
Qed.

(* an InputRepr / Input offset function answers None exactly when the variant has no such field *)
Theorem input_fn_none_iff f j x : (j < 7)%nat -> is_len_fn f = false ->
  (input_fn f (VE j [x]) = None <-> in_sel f j = None).
Proof.
  intros Hj Hl.
  destruct (lt7 j Hj) as [-> | [-> | [-> | [-> | [-> | [-> | ->]]]]]]; destruct f; try discriminate Hl;
    split; intros H; first [reflexivity | discriminate H].
Qed.

(* ---- outputs *)
Definition all_outfn : list outfn :=
  [ToOffset; AssetIdOffsetO; ContractBalanceRootOffsetO; ContractStateRootOffsetO; ContractCreatedStateRootOffset; ContractIdOffsetO].
Definition output_variants : variants := match S_Output with TEnum vs => vs | _ => VNil end.
Definition out_path (f : outfn) (j : nat) : option (list string) :=
  match out_sel f j with
  | Some (SVariant _ s') => static_path_of s'
  | _ => None
  end.
Definition out_fn_check (f : outfn) (j : nat) : bool :=
  let ov := VE j [] in
  match out_sel f j, nth_variant_named output_variants j with
  | Some _, Some (_, fs) =>
      match out_path f j with
      | Some path =>
          match spath_off (TStruct None fs) path, output_fn f ov with
          | Some (d, _), Some o => 8 + d =? o
          | _, _ => false
          end
      | None => false
      end
  | None, _ => match output_fn f ov with None => true | Some _ => false end
  | _, _ => false
  end.
Definition output_repr_failures : list (outfn * nat) :=
  flat_map (fun f => map (fun j => (f, j)) (filter (fun j => negb (out_fn_check f j)) (seq 0 5))) all_outfn.
Lemma output_repr_table_ok : output_repr_failures = [].
Proof. vm_compute. reflexivity. Qed.

Lemma out_fn_check_all f j : (j < 5)%nat -> out_fn_check f j = true.
Proof.
  intros H. assert (C : j = 0%nat \/ j = 1%nat \/ j = 2%nat \/ j = 3%nat \/ j = 4%nat) by lia.
  destruct C as [-> | [-> | [-> | [-> | ->]]]]; destruct f; vm_compute; reflexivity.
Qed.

Lemma locate_enum vars : forall j vs n fs m s'' so dyo, nth_variant_named vars j = Some (n, fs) ->
  locate (TEnum vars) (VE j vs) (SVariant n (SField m s'')) so dyo = locate_fields fs vs m s'' (so + 8) dyo.
Proof.
  cbn [locate]. induction vars as [|n' d fs' r IH]; intros j vs n fs m s'' so dyo H; [destruct j; discriminate H|].
  destruct j as [|j]; cbn [nth_variant_named] in H; cbn [locate_variants].
  - injection H as <- <-. rewrite String.eqb_refl. reflexivity.
  - apply IH, H.
Qed.
Lemma typed_variant_fields vars : forall j vs n fs, nth_variant_named vars j = Some (n, fs) ->
  typed_variants vars j vs = true -> typed_fields fs vs = true.
Proof.
  induction vars as [|n' d fs' r IH]; intros j vs n fs H T; [destruct j; discriminate H|].
  destruct j as [|j]; cbn [nth_variant_named] in H; cbn [typed_variants] in T.
  - injection H as <- <-. apply andb_true_iff in T as [_ T]. exact T.
  - eapply IH; eauto.
Qed.

(* C04 for the fields of an output (offsets relative to the output's own encoding; all static) *)
Theorem output_static_locates f j vs s o :
  typed S_Output (VE j vs) = true -> out_sel f j = Some s -> output_fn f (VE j vs) = Some o ->
  exists ft fv, typed ft fv = true /\ locate_in S_Output (VE j vs) s = Some (o, enc_static ft fv) /\
                slice (enc S_Output (VE j vs)) o (lenN (enc_static ft fv)) = enc_static ft fv.
Proof.
  intros Hv Hs Ho.
  assert (Hj : (j < 5)%nat).
  { destruct (Nat.lt_ge_cases j 5) as [Hl | Hg]; [exact Hl|]. exfalso.
    do 5 (destruct j as [|j]; [lia|]). destruct f; vm_compute in Hs; discriminate Hs. }
  pose proof (out_fn_check_all f j Hj) as C. unfold out_fn_check in C. rewrite Hs in C.
  destruct (nth_variant_named output_variants j) as [[vn fs]|] eqn:Ev; [|discriminate C].
  unfold out_path in C. rewrite Hs in C.
  destruct s as [|?|name s'|?]; try discriminate C.
  destruct (static_path_of s') as [path|] eqn:Ep; [|discriminate C].
  destruct (spath_off (TStruct None fs) path) as [[d ft]|] eqn:Ed; [|discriminate C].
  change (output_fn f (VE j [])) with (output_fn f (VE j vs)) in C. rewrite Ho in C.
  apply N.eqb_eq in C. subst o.
  (* the selector names the j-th variant *)
  assert (En : name = vn).
  { assert (D : j = 0%nat \/ j = 1%nat \/ j = 2%nat \/ j = 3%nat \/ j = 4%nat) by lia.
    destruct D as [-> | [-> | [-> | [-> | ->]]]]; destruct f; vm_compute in Hs; try discriminate Hs;
      vm_compute in Ev; congruence. }
  subst name.
  assert (Tf : typed (TStruct None fs) (VS vs) = true).
  { cbn [typed]. apply (typed_variant_fields output_variants j vs vn fs Ev). exact Hv. }
  destruct (spath_ok path (TStruct None fs) (VS vs) d ft Tf Ed) as (fv & Hfv & L).
  exists ft, fv.
  assert (Lc : locate_in S_Output (VE j vs) (SVariant vn s') = Some (8 + d, enc_static ft fv)).
  { rewrite (static_path_sel s' path Ep). destruct path as [|m rest]; [vm_compute in Ed; injection Ed as <- <-|].
    - (* the selector always goes into a field *)
      exfalso. assert (D : j = 0%nat \/ j = 1%nat \/ j = 2%nat \/ j = 3%nat \/ j = 4%nat) by lia.
      destruct D as [-> | [-> | [-> | [-> | ->]]]]; destruct f; vm_compute in Hs; try discriminate Hs;
        injection Hs as E1 E2; subst s'; vm_compute in Ep; discriminate Ep.
    - unfold locate_in. change S_Output with (TEnum output_variants). cbn [sel_path].
      rewrite (locate_enum output_variants j vs vn fs m _ _ _ Ev).
      destruct (L (SHere PStatic) 8 (lenN (enc_static (TEnum output_variants) (VE j vs)))) as [dyo' Ld].
      cbn [sel_path locate] in Ld. rewrite N.add_0_r in Ld. rewrite N.add_0_l. rewrite Ld, locate_here_static. reflexivity. }
  repeat split; try assumption. apply (locate_sound _ _ _ _ _ Lc).
Qed.

Theorem output_fn_none_iff f j vs : (j < 5)%nat -> (output_fn f (VE j vs) = None <-> out_sel f j = None).
Proof.
  intros Hj. assert (D : j = 0%nat \/ j = 1%nat \/ j = 2%nat \/ j = 3%nat \/ j = 4%nat) by lia.
  destruct D as [-> | [-> | [-> | [-> | ->]]]]; destruct f; split; intros H; first [reflexivity | discriminate H].
Qed.
