(* Offsets/OffsetInput.v — C04 for the value-dependent offsets inside an input (data, predicate,
   predicate data; relative to the input's own encoding) and for inputs_predicate_offset_at with
   its 8-padded length. *)
From Coq Require Import Arith PeanoNat.
From FV Require Import Codec.CodecInstances TxId.IdProofs.
From FV Require Export Offsets.OffsetDynamic.
Local Open Scope string_scope.
Local Open Scope list_scope.
Open Scope N_scope.

(* dynamic bytes before field [name] (accumulated), its type and value *)
Fixpoint dyn_acc (fs : fields) (vs : list val) (name : string) (a : N) : option (N * ty * val) :=
  match fs, vs with
  | FCons n sk t r, v :: vs' =>
      if sk then dyn_acc r vs' name a
      else if String.eqb n name then Some (a, t, v)
      else dyn_acc r vs' name (a + lenN (enc_dynamic t v))
  | _, _ => None
  end.
Lemma locate_here_dynamic t v so dyo : locate t v (SHere PDynamic) so dyo = Some (dyo, enc_dynamic t v).
Proof. destruct t; reflexivity. Qed.
Lemma locate_fields_dynamic fs : forall vs name a d ft fv so dyo, dyn_acc fs vs name a = Some (d, ft, fv) ->
  locate_fields fs vs name (SHere PDynamic) so (dyo + a) = Some (dyo + d, enc_dynamic ft fv).
Proof.
  induction fs as [|n sk t r IH]; intros vs name a d ft fv so dyo H; [destruct vs; discriminate H|].
  destruct vs as [|v vs]; [discriminate H|]. cbn [dyn_acc locate_fields] in *. destruct sk; [apply IH, H|].
  destruct (String.eqb n name).
  - injection H as <- <- <-. apply locate_here_dynamic.
  - rewrite <- N.add_assoc. apply IH, H.
Qed.

(* typing of a named field *)
Lemma typed_get_field fs : forall vs name a d ft fv, typed_fields fs vs = true -> dyn_acc fs vs name a = Some (d, ft, fv) -> typed ft fv = true.
Proof.
  induction fs as [|n sk t r IH]; intros vs name a d ft fv T H; [destruct vs; discriminate H|].
  destruct vs as [|v vs]; [discriminate H|]. cbn [dyn_acc typed_fields] in *. apply andb_true_iff in T as [T1 T2].
  destruct sk; [eapply IH; eauto|]. destruct (String.eqb n name); [injection H as _ <- <-; exact T1 | eapply IH; eauto].
Qed.

(* position of a dynamic field of input variant j *)
Lemma locate_input_dynamic j p fs vs n d ft fv : (j < 7)%nat -> input_comp j = TStruct p fs ->
  dyn_acc fs vs n 0 = Some (d, ft, fv) ->
  locate_in S_Input (VE j [VS vs]) (SVariant (nth j input_names "") (fld n PDynamic)) =
  Some (lenN (enc_static S_Input (VE j [VS vs])) + d, enc_dynamic ft fv).
Proof.
  intros Hj Hc Hd. rewrite (locate_input j (VS vs) _ Hj), Hc. cbn [fld locate].
  rewrite <- (N.add_0_r (lenN (enc_static S_Input (VE j [VS vs])))) at 1.
  apply locate_fields_dynamic, Hd.
Qed.
Lemma input_static_len j x : (j < 7)%nat ->
  lenN (enc_static S_Input (VE j [x])) = 8 + lenN (enc_static (input_comp j) x).
Proof.
  intros Hj. unfold S_Input, input_comp. cbn [enc_static]. rewrite lenN_app, lenN_be8. reflexivity.
Qed.

Lemma bytes_dyn x : typed TByteVec x = true -> lenN (enc_dynamic TByteVec x) <= u64_max ->
  padded_or_max (byte_len x) = lenN (enc_dynamic TByteVec x).
Proof.
  intros H Hs. destruct (bytevec_inv x H) as [bs ->]. cbn [enc_dynamic] in *. change (byte_len (VB bs)) with (lenN bs).
  rewrite lenN_app in Hs. rewrite padded_cap by lia. apply cap_small. rewrite lenN_app. exact Hs.
Qed.
Lemma code_dyn x : typed S_PredicateCode x = true -> lenN (enc_dynamic S_PredicateCode x) <= u64_max ->
  padded_or_max (byte_len x) = lenN (enc_dynamic S_PredicateCode x).
Proof.
  intros H Hs. destruct x as [| | | |l| |]; try discriminate H. destruct l as [|y [|]]; try discriminate H.
  2: { exfalso. change (typed S_PredicateCode (VS (y :: v :: l))) with (true && (typed TByteVec y && false)) in H.
       rewrite andb_false_r in H. discriminate H. }
  change (typed S_PredicateCode (VS [y])) with (true && (typed TByteVec y && true)) in H.
  rewrite !andb_true_iff in H. destruct H as (_ & Hy & _).
  change (enc_dynamic S_PredicateCode (VS [y])) with (enc_dynamic TByteVec y ++ []) in *. rewrite app_nil_r in *.
  change (byte_len (VS [y])) with (byte_len y). apply bytes_dyn; assumption.
Qed.

Lemma dyn_acc_bound fs : forall vs name a d ft fv, dyn_acc fs vs name a = Some (d, ft, fv) ->
  d + lenN (enc_dynamic ft fv) <= a + lenN (enc_dynamic_fields fs vs).
Proof.
  induction fs as [|n sk t r IH]; intros vs name a d ft fv H; [destruct vs; discriminate H|].
  destruct vs as [|v vs]; [discriminate H|]. cbn [dyn_acc enc_dynamic_fields] in *. rewrite lenN_app.
  destruct sk; [rewrite lenN_nil; apply (IH _ _ _ _ _ _ H)|]. destruct (String.eqb n name).
  - injection H as <- <- <-. lia.
  - specialize (IH _ _ _ _ _ _ H). lia.
Qed.

Section InputDynamic.
Variable j : nat.
Hypothesis Hj : (j < 7)%nat.
Variable fs : fields.
Hypothesis Hc : input_comp j = TStruct None fs.
Variable vs : list val.
Hypothesis Hx : typed_fields fs vs = true.
Hypothesis Hs : lenN (enc S_Input (VE j [VS vs])) <= u64_max.
Variable sz : N.
Hypothesis Hsz : ssize (input_comp j) = Some sz.

Lemma comp_typed : typed (input_comp j) (VS vs) = true.
Proof. rewrite Hc. cbn [typed andb]. exact Hx. Qed.
Lemma input_len : lenN (enc S_Input (VE j [VS vs])) = 8 + sz + lenN (enc_dynamic_fields fs vs).
Proof.
  unfold enc. rewrite lenN_app, (input_static_len j _ Hj).
  rewrite (static_len (input_comp j) (VS vs) sz comp_typed Hsz).
  f_equal. unfold S_Input. cbn [enc_dynamic]. fold (input_comp j). rewrite Hc. reflexivity.
Qed.

(* a dynamic field whose offset the model reports as 8 + static size + d *)
Lemma input_dynamic_at n d ft fv o : dyn_acc fs vs n 0 = Some (d, ft, fv) -> o = 8 + sz + d ->
  exists bs, locate_in S_Input (VE j [VS vs]) (SVariant (nth j input_names "") (fld n PDynamic)) = Some (o, bs) /\
             slice (enc S_Input (VE j [VS vs])) o (lenN bs) = bs /\ bs = enc_dynamic ft fv.
Proof.
  intros Hd ->. pose proof (locate_input_dynamic j None fs vs n d ft fv Hj Hc Hd) as L.
  rewrite (input_static_len j _ Hj) in L.
  rewrite (static_len (input_comp j) (VS vs) sz comp_typed Hsz) in L.
  exists (enc_dynamic ft fv). split; [exact L|]. split; [apply (locate_sound _ _ _ _ _ L) | reflexivity].
Qed.
Lemma dyn_small n d ft fv : dyn_acc fs vs n 0 = Some (d, ft, fv) -> 8 + sz + d + lenN (enc_dynamic ft fv) <= u64_max.
Proof. intros Hd. pose proof (dyn_acc_bound fs vs n 0 d ft fv Hd). pose proof input_len. lia. Qed.
End InputDynamic.

Lemma typed_struct_fields p fs vs : typed (TStruct p fs) (VS vs) = true -> typed_fields fs vs = true.
Proof. cbn [typed]. intros H. apply andb_true_iff in H as [_ H]. exact H. Qed.
Lemma sat_small a b : a + b <= u64_max -> sat a b = a + b.
Proof. intros H. rewrite sat_is_cap. apply cap_small, H. Qed.

(* data, predicate, predicate data of an input: the reported offset (relative to the input) is the
   specification's position, and the input's encoding there is the padded bytes of the field *)
Ltac input_case J nm :=
  match goal with
  | Hj : (J < 7)%nat, Hfs : typed_fields _ ?vs = true, Hs : lenN (enc S_Input (VE J [VS ?vs])) <= u64_max |- _ =>
      destruct (input_dynamic_at J Hj _ eq_refl vs Hfs _ eq_refl nm _ _ _ _ eq_refl eq_refl) as (bs & L & Sl & _);
      exists (SVariant (nth J input_names "") (fld nm PDynamic)), bs; split; [reflexivity | split; [exact L | exact Sl]]
  end.

Theorem input_dynamic_const f j x n o :
  (j < 7)%nat -> typed (input_comp j) x = true ->
  in_field_of f j = Some (n, PDynamic) ->
  (f = DataOffset \/ f = CoinPredicateOffset \/ (f = PredicateOffset /\ j <> 6%nat)) ->
  input_fn f (VE j [x]) = Some o ->
  exists s bs, in_sel f j = Some s /\ locate_in S_Input (VE j [x]) s = Some (o, bs) /\
               slice (enc S_Input (VE j [x])) o (lenN bs) = bs.
Proof.
  intros Hj Hx Hf Hwhich Ho.
  pose proof (typed_shaped _ _ Hx) as Hsh.
  destruct (lt7 j Hj) as [-> | [-> | [-> | [-> | [-> | [-> | ->]]]]]];
    destruct Hwhich as [-> | [-> | [-> Hne]]]; try (exfalso; apply Hne; reflexivity);
    vm_compute in Hf; try discriminate Hf; clear Hf; shape Hsh;
    pose proof (typed_struct_fields _ _ _ Hx) as Hfs; apply Some_inj in Ho; rewrite <- Ho; clear Ho.
  all: match goal with |- exists s bs, in_sel ?F ?J = Some s /\ _ =>
         match goal with Hfs : typed_fields _ ?vs = true |- _ =>
           first [ destruct (input_dynamic_at J Hj _ eq_refl vs Hfs _ eq_refl "data" _ _ _ _ eq_refl eq_refl) as (bs & L & Sl & _);
                   exists (SVariant (nth J input_names "") (fld "data" PDynamic)), bs; split; [reflexivity | split; [exact L | exact Sl]]
                 | destruct (input_dynamic_at J Hj _ eq_refl vs Hfs _ eq_refl "predicate" _ _ _ _ eq_refl eq_refl) as (bs & L & Sl & _);
                   exists (SVariant (nth J input_names "") (fld "predicate" PDynamic)), bs; split; [reflexivity | split; [exact L | exact Sl]] ]
         end end.
Qed.

