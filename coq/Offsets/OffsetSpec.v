(* Offsets/OffsetSpec.v — L3 specification for property C04: where, inside the canonical encoding
   of a value, the bytes of one of its fields are.  Written from the definition of the canonical
   encoding (static part of every field, then dynamic part of every field; vector elements fully
   encoded one after the other in the dynamic part), independent of the offset code of fuel-tx:
   every position is a *prefix sum of encoder output lengths*.

   A field is named by a selector; [locate] returns the offset of its bytes and the bytes
   themselves (the field's own canonical encoding, or its static / dynamic half).  Definitions only. *)
From FV Require Export Codec.CodecModel Gen.Schemas TxId.IdSpec.
Local Open Scope string_scope.
Local Open Scope list_scope.
Open Scope N_scope.

Inductive part : Type :=
| PFull        (* enc t v: only when the static and dynamic halves are adjacent *)
| PStatic      (* enc_static t v : integers, byte arrays, structs of those, length words *)
| PDynamic.    (* enc_dynamic t v: the padded content of a byte vector, the elements of a vector *)

Inductive sel : Type :=
| SHere (p : part)
| SField (name : string) (s : sel)        (* field of a struct / of the current enum variant *)
| SVariant (name : string) (s : sel)      (* the value must be this variant of an enum / Input / Transaction *)
| SElem (i : nat) (s : sel).              (* i-th element of a vector *)

Definition enc_all (t : ty) (xs : list val) : bytes := flat_map (fun x => enc_static t x ++ enc_dynamic t x) xs.

(* [so] / [dyo]: offsets at which the static / dynamic half of [v] start *)
Fixpoint locate (t : ty) (v : val) (s : sel) (so dyo : N) {struct t} : option (N * bytes) :=
  match s with
  | SHere PStatic => Some (so, enc_static t v)
  | SHere PDynamic => Some (dyo, enc_dynamic t v)
  | SHere PFull => if (dyo =? so + lenN (enc_static t v))%N then Some (so, enc t v) else None
  | SField n s' =>
      match t, v with
      | TStruct p fs, VS vs => locate_fields fs vs n s' (so + match p with Some _ => 8 | None => 0 end) dyo
      | _, _ => None
      end
  | SVariant n s' =>
      match t, v with
      | TEnum vars, VE i vs => locate_variants vars i vs n s' so dyo
      | TInput cf cs cp ct mf mcs mcp mds mdp, VE i [x] =>
          if String.eqb (nth i input_names "") n
          then locate (input_sel i cs cp ct mcs mcp mds mdp) x s' (so + 8) dyo else None
      | TPeek al, VE i [x] => locate_alts al i x n s' so dyo
      | _, _ => None
      end
  | SElem i s' =>
      match t, v with
      | TVec te, VL xs =>
          match nth_error xs i with
          | Some x =>
              let o := dyo + lenN (enc_all te (firstn i xs)) in
              locate te x s' o (o + lenN (enc_static te x))
          | None => None
          end
      | _, _ => None
      end
  end
with locate_fields (fs : fields) (vs : list val) (n : string) (s' : sel) (so dyo : N) {struct fs}
    : option (N * bytes) :=
  match fs, vs with
  | FCons n' sk t r, v :: vs' =>
      if sk then locate_fields r vs' n s' so dyo
      else if String.eqb n' n then locate t v s' so dyo
      else locate_fields r vs' n s' (so + lenN (enc_static t v)) (dyo + lenN (enc_dynamic t v))
  | _, _ => None
  end
with locate_variants (vars : variants) (i : nat) (vs : list val) (n : string) (s' : sel) (so dyo : N)
    {struct vars} : option (N * bytes) :=
  match vars with
  | VNil => None
  | VCons n' _ fs r =>
      match i with
      | O => if String.eqb n' n
             then match s' with SField m s'' => locate_fields fs vs m s'' (so + 8) dyo | _ => None end
             else None
      | S j => locate_variants r j vs n s' so dyo
      end
  end
with locate_alts (al : alts) (i : nat) (x : val) (n : string) (s' : sel) (so dyo : N) {struct al}
    : option (N * bytes) :=
  match al with
  | ANil => None
  | ACons n' _ t r =>
      match i with
      | O => if String.eqb n' n then locate t x s' so dyo else None
      | S j => locate_alts r j x n s' so dyo
      end
  end.

(* position of a field of a stand-alone value (its encoding starts at 0) *)
Definition locate_in (t : ty) (v : val) (s : sel) : option (N * bytes) :=
  locate t v s 0 (lenN (enc_static t v)).

(* bytes [o, o+len) of b *)
Definition slice (b : bytes) (o len : N) : bytes := firstn (N.to_nat len) (skipn (N.to_nat o) b).

(* ---------------------------------------------------------------- the offset API and what each function locates *)
(* names of the offset functions fuel-tx exposes (the model gives each its code; here: its meaning) *)
(* transaction level, no index *)
Inductive tfn : Type :=
| ScriptGasLimitOffset | ReceiptsRootOffset | ScriptOffset | ScriptDataOffset
| BytecodeWitnessIndexOffset | SaltOffset | StorageSlotsOffsetStatic
| UpgradePurposeOffset
| BytecodeRootOffset | SubsectionIndexOffset | SubsectionsNumberOffset | ProofSetOffset
| BlobIdOffset
| BodyOffsetEnd | PoliciesOffset | InputsOffset | OutputsOffset | WitnessesOffset
| MintTxPointerOffset | InputContractOffset | OutputContractOffset | MintAmountOffset | MintAssetIdOffset | GasPriceOffset.


(* `*_offset_at(idx)` *)
Inductive atfn : Type :=
| InputsOffsetAt | OutputsOffsetAt | WitnessesOffsetAt | StorageSlotsOffsetAt | ProofSetOffsetAt.

(* per input: InputRepr::*_offset (through from_input) and Input::predicate*_offset / *_len *)
Inductive infn : Type :=
| UtxoIdOffset | OwnerOffset | AssetIdOffset | DataOffset | CoinPredicateOffset
| ContractBalanceRootOffset | ContractStateRootOffset | ContractIdOffset
| MessageSenderOffset | MessageRecipientOffset | MessageNonceOffset | TxPointerOffsetI
| PredicateOffset | PredicateDataOffset | PredicateLen | PredicateDataLen | InputDataLen.


(* per output: OutputRepr::*_offset (through from_output) *)
Inductive outfn : Type :=
| ToOffset | AssetIdOffsetO | ContractBalanceRootOffsetO | ContractStateRootOffsetO
| ContractCreatedStateRootOffset | ContractIdOffsetO.

Definition output_names : list string := ["Coin"; "Contract"; "Change"; "Variable"; "ContractCreated"].
Definition chargeable (k : kind) : bool := match k with KMint => false | _ => true end.

Definition fld (name : string) (p : part) : sel := SField name (SHere p).
Definition body_fld (name : string) (p : part) : sel := SField "body" (fld name p).
Definition mem_nat (j : nat) (l : list nat) : bool := existsb (Nat.eqb j) l.

(* "script, script data, salt, blob id, bytecode root, upgrade purpose, ..." *)
Definition tx_sel (k : kind) (f : tfn) : option sel :=
  match f, k with
  | ScriptGasLimitOffset, KScript => Some (body_fld "script_gas_limit" PStatic)
  | ReceiptsRootOffset, KScript => Some (body_fld "receipts_root" PStatic)
  | ScriptOffset, KScript => Some (body_fld "script" PDynamic)
  | ScriptDataOffset, KScript => Some (body_fld "script_data" PDynamic)
  | BytecodeWitnessIndexOffset, KCreate => Some (body_fld "bytecode_witness_index" PStatic)
  | BytecodeWitnessIndexOffset, (KUpload | KBlob) => Some (body_fld "witness_index" PStatic)
  | SaltOffset, KCreate => Some (body_fld "salt" PStatic)
  | StorageSlotsOffsetStatic, KCreate => Some (body_fld "storage_slots" PDynamic)
  | UpgradePurposeOffset, KUpgrade => Some (body_fld "purpose" PStatic)
  | BytecodeRootOffset, KUpload => Some (body_fld "root" PStatic)
  | SubsectionIndexOffset, KUpload => Some (body_fld "subsection_index" PStatic)
  | SubsectionsNumberOffset, KUpload => Some (body_fld "subsections_number" PStatic)
  | ProofSetOffset, KUpload => Some (body_fld "proof_set" PDynamic)
  | BlobIdOffset, KBlob => Some (body_fld "id" PStatic)
  | (BodyOffsetEnd | PoliciesOffset), _ => if chargeable k then Some (fld "policies" PDynamic) else None
  | InputsOffset, _ => if chargeable k then Some (fld "inputs" PDynamic) else None
  | OutputsOffset, _ => if chargeable k then Some (fld "outputs" PDynamic) else None
  | WitnessesOffset, _ => if chargeable k then Some (fld "witnesses" PDynamic) else None
  | MintTxPointerOffset, KMint => Some (fld "tx_pointer" PStatic)
  | InputContractOffset, KMint => Some (fld "input_contract" PStatic)
  | OutputContractOffset, KMint => Some (fld "output_contract" PStatic)
  | MintAmountOffset, KMint => Some (fld "mint_amount" PStatic)
  | MintAssetIdOffset, KMint => Some (fld "mint_asset_id" PStatic)
  | GasPriceOffset, KMint => Some (fld "gas_price" PStatic)
  | _, _ => None
  end.

(* "each input, output, witness, storage slot and proof entry" *)
Definition at_sel (k : kind) (f : atfn) (i : nat) : option sel :=
  match f, k with
  | InputsOffsetAt, _ => if chargeable k then Some (SField "inputs" (SElem i (SHere PFull))) else None
  | OutputsOffsetAt, _ => if chargeable k then Some (SField "outputs" (SElem i (SHere PFull))) else None
  | WitnessesOffsetAt, _ => if chargeable k then Some (SField "witnesses" (SElem i (SHere PFull))) else None
  | StorageSlotsOffsetAt, KCreate => Some (SField "body" (SField "storage_slots" (SElem i (SHere PFull))))
  | ProofSetOffsetAt, KUpload => Some (SField "body" (SField "proof_set" (SElem i (SHere PFull))))
  | _, _ => None
  end.

(* "each input's UTXO id, owner, asset id, tx pointer, contract id, sender, recipient, nonce, data,
   predicate and predicate data": the field of input variant j (index in `enum Input`) that
   function f locates, relative to the input's own encoding; None = that variant has no such field *)
Definition in_field_of (f : infn) (j : nat) : option (string * part) :=
  let on (l : list nat) (n : string) (p : part) := if mem_nat j l then Some (n, p) else None in
  match f with
  | UtxoIdOffset => on [0; 1; 2]%nat "utxo_id" PStatic
  | OwnerOffset => if mem_nat j [0; 1]%nat then Some ("owner", PStatic) else on [3; 4; 5; 6]%nat "recipient" PStatic
  | AssetIdOffset => on [0; 1]%nat "asset_id" PStatic
  | DataOffset => on [3; 4; 5; 6]%nat "data" PDynamic
  | CoinPredicateOffset => on [0; 1]%nat "predicate" PDynamic
  | ContractBalanceRootOffset => on [2]%nat "balance_root" PStatic
  | ContractStateRootOffset => on [2]%nat "state_root" PStatic
  | ContractIdOffset => on [2]%nat "contract_id" PStatic
  | MessageSenderOffset => on [3; 4; 5; 6]%nat "sender" PStatic
  | MessageRecipientOffset => on [3; 4; 5; 6]%nat "recipient" PStatic
  | MessageNonceOffset => on [3; 4; 5; 6]%nat "nonce" PStatic
  | TxPointerOffsetI => on [0; 1; 2]%nat "tx_pointer" PStatic
  | PredicateOffset => on [1; 4; 6]%nat "predicate" PDynamic
  | PredicateDataOffset => on [1; 4; 6]%nat "predicate_data" PDynamic
  | PredicateLen | PredicateDataLen | InputDataLen => None        (* lengths, not offsets *)
  end.
Definition in_sel (f : infn) (j : nat) : option sel :=
  match in_field_of f j with
  | Some (n, p) => Some (SVariant (nth j input_names "") (fld n p))
  | None => None
  end.
(* the predicate of input i of a transaction ("each predicate's offset and padded length") *)
Definition pred_sel (i j : nat) : option sel :=
  match in_sel PredicateOffset j with
  | Some s => Some (SField "inputs" (SElem i s))
  | None => None
  end.

Definition out_sel (f : outfn) (j : nat) : option sel :=
  let v := SVariant (nth j output_names "") in
  match f with
  | ToOffset => if mem_nat j [0; 2; 3]%nat then Some (v (fld "to" PStatic)) else None
  | AssetIdOffsetO => if mem_nat j [0; 2; 3]%nat then Some (v (fld "asset_id" PStatic)) else None
  | ContractBalanceRootOffsetO => if mem_nat j [1]%nat then Some (v (SField "0" (fld "balance_root" PStatic))) else None
  | ContractStateRootOffsetO => if mem_nat j [1]%nat then Some (v (SField "0" (fld "state_root" PStatic))) else None
  | ContractCreatedStateRootOffset => if mem_nat j [4]%nat then Some (v (fld "state_root" PStatic)) else None
  | ContractIdOffsetO => if mem_nat j [4]%nat then Some (v (fld "contract_id" PStatic)) else None
  end.
