(* Offsets/OffsetInputAfter.v — C04 for the two offsets inside an input that come after another
   byte vector: the predicate of a message-data predicate input (after the message data) and the
   predicate data of the three predicate variants (after the predicate).  Lemmas only; the
   definitions are those of Offsets/OffsetModel.v and Offsets/OffsetSpec.v. *)
From Coq Require Import Arith PeanoNat Lia.
From FV Require Import Codec.CodecInstances TxId.IdProofs.
From FV Require Export Offsets.OffsetInput.
Local Open Scope string_scope.
Local Open Scope list_scope.
Open Scope N_scope.

Section InputAfter.
Variable j : nat.
Hypothesis Hj : (j < 7)%nat.
Variable fs : fields.
Hypothesis Hc : input_comp j = TStruct None fs.
Variable vs : list val.
Hypothesis Hx : typed_fields fs vs = true.
Hypothesis Hs : lenN (enc S_Input (VE j [VS vs])) <= u64_max.
Variable sz : N.
Hypothesis Hsz : ssize (input_comp j) = Some sz.

(* one step: an offset o1 that is the position of byte vector [n1], advanced (saturating) by the
   8-padded length of that vector, is the position just after the vector's dynamic bytes *)
Lemma after_step n1 d1 t1 x1 o1 :
  dyn_acc fs vs n1 0 = Some (d1, t1, x1) -> (t1 = S_PredicateCode \/ t1 = S_Bytes) -> o1 = 8 + sz + d1 ->
  sat o1 (padded_or_max (byte_len x1)) = 8 + sz + (d1 + lenN (enc_dynamic t1 x1)).
Proof.
  intros Hd Ht ->.
  pose proof (typed_get_field fs vs n1 0 d1 t1 x1 Hx Hd) as Tx.
  pose proof (dyn_small j Hj fs Hc vs Hx Hs sz Hsz n1 d1 t1 x1 Hd) as Hsm.
  assert (Hl : lenN (enc_dynamic t1 x1) <= u64_max) by lia.
  assert (Hp : padded_or_max (byte_len x1) = lenN (enc_dynamic t1 x1)).
  { destruct Ht as [-> | ->]; [apply code_dyn | apply bytes_dyn]; assumption. }
  rewrite Hp, sat_small by lia. lia.
Qed.

(* the field [n2] whose dynamic bytes start right after those of [n1] *)
Lemma input_after_at n1 d1 t1 x1 o1 n2 t2 x2 o :
  dyn_acc fs vs n1 0 = Some (d1, t1, x1) -> (t1 = S_PredicateCode \/ t1 = S_Bytes) -> o1 = 8 + sz + d1 ->
  dyn_acc fs vs n2 0 = Some (d1 + lenN (enc_dynamic t1 x1), t2, x2) ->
  o = sat o1 (padded_or_max (byte_len x1)) ->
  exists bs, locate_in S_Input (VE j [VS vs]) (SVariant (nth j input_names "") (fld n2 PDynamic)) = Some (o, bs) /\
             slice (enc S_Input (VE j [VS vs])) o (lenN bs) = bs /\ bs = enc_dynamic t2 x2.
Proof.
  intros Hd1 Ht Ho1 Hd2 ->. rewrite (after_step n1 d1 t1 x1 o1 Hd1 Ht Ho1).
  exact (input_dynamic_at j Hj fs Hc vs Hx sz Hsz n2 _ t2 x2 _ Hd2 eq_refl).
Qed.
End InputAfter.

(* the reported offset is the specification's position, and the input's encoding there is the
   padded bytes of the field *)
Theorem input_dynamic_after_slice f j x n o :
  (j < 7)%nat -> typed (input_comp j) x = true -> lenN (enc S_Input (VE j [x])) <= u64_max ->
  in_field_of f j = Some (n, PDynamic) ->
  (f = PredicateDataOffset \/ (f = PredicateOffset /\ j = 6%nat)) ->
  input_fn f (VE j [x]) = Some o ->
  exists s bs, in_sel f j = Some s /\ locate_in S_Input (VE j [x]) s = Some (o, bs) /\
               slice (enc S_Input (VE j [x])) o (lenN bs) = bs.
Proof.
  intros Hj Hx Hs Hf Hwhich Ho.
  pose proof (typed_shaped _ _ Hx) as Hsh.
  destruct (lt7 j Hj) as [-> | [-> | [-> | [-> | [-> | [-> | ->]]]]]];
    destruct Hwhich as [-> | [-> Hne]]; try discriminate Hne;
    vm_compute in Hf; try discriminate Hf; clear Hf; shape Hsh;
    pose proof (typed_struct_fields _ _ _ Hx) as Hfs.
  all: cbv [input_fn predicate_data_offset predicate_offset input_index omap input_field_len] in Ho.
  all: repeat match type of Ho with context [table_get ?a ?b ?c] =>
         let r := eval vm_compute in (table_get a b c) in change (table_get a b c) with r in Ho end.
  all: repeat match type of Ho with context [sfield ?nm ?t ?y] =>
         let r := eval vm_compute in (sfield nm t y) in change (sfield nm t y) with r in Ho end.
  all: cbv beta iota in Ho; apply Some_inj in Ho; symmetry in Ho.
  (* 1 CoinPredicate, 4 MessageCoinPredicate: predicate data after the predicate *)
  1, 2: match goal with
        | Hj : (?J < 7)%nat, Hfs : typed_fields _ ?vs = true, Ho : _ = sat ?c _ |- _ =>
            destruct (input_after_at J Hj _ eq_refl vs Hfs Hs _ eq_refl "predicate" _ _ _ c "predicate_data" _ _ _
                        eq_refl (or_introl eq_refl) eq_refl eq_refl Ho) as (bs & L & Sl & _);
            exists (SVariant (nth J input_names "") (fld "predicate_data" PDynamic)), bs;
            split; [reflexivity | split; [exact L | exact Sl]]
        end.
  (* 6 MessageDataPredicate: predicate data after the predicate after the data *)
  - match goal with
    | Hj : (?J < 7)%nat, Hfs : typed_fields _ ?vs = true, Ho : _ = sat (sat ?c ?p) _ |- _ =>
        pose proof (after_step J Hj _ eq_refl vs Hfs Hs _ eq_refl "data" _ _ _ c eq_refl (or_intror eq_refl) eq_refl) as E1;
        destruct (input_after_at J Hj _ eq_refl vs Hfs Hs _ eq_refl "predicate" _ _ _ (sat c p) "predicate_data" _ _ _
                    eq_refl (or_introl eq_refl) E1 eq_refl Ho) as (bs & L & Sl & _);
        exists (SVariant (nth J input_names "") (fld "predicate_data" PDynamic)), bs;
        split; [reflexivity | split; [exact L | exact Sl]]
    end.
  (* 6 MessageDataPredicate: predicate after the data *)
  - match goal with
    | Hj : (?J < 7)%nat, Hfs : typed_fields _ ?vs = true, Ho : _ = sat ?c _ |- _ =>
        destruct (input_after_at J Hj _ eq_refl vs Hfs Hs _ eq_refl "data" _ _ _ c "predicate" _ _ _
                    eq_refl (or_intror eq_refl) eq_refl eq_refl Ho) as (bs & L & Sl & _);
        exists (SVariant (nth J input_names "") (fld "predicate" PDynamic)), bs;
        split; [reflexivity | split; [exact L | exact Sl]]
    end.
Qed.

Theorem input_dynamic_after f j x n o :
  (j < 7)%nat -> typed (input_comp j) x = true -> lenN (enc S_Input (VE j [x])) <= u64_max ->
  in_field_of f j = Some (n, PDynamic) ->
  (f = PredicateDataOffset \/ (f = PredicateOffset /\ j = 6%nat)) ->
  input_fn f (VE j [x]) = Some o ->
  exists s bs, in_sel f j = Some s /\ locate_in S_Input (VE j [x]) s = Some (o, bs).
Proof.
  intros Hj Hx Hs Hf Hw Ho.
  destruct (input_dynamic_after_slice f j x n o Hj Hx Hs Hf Hw Ho) as (s & bs & A & B & _).
  exists s, bs. split; assumption.
Qed.
