(* Codec/CodecRoundtrip.v — dec t (enc t v ++ rest) = Ok (erase t v, rest), proved once by
   induction over the schema universe, in the same two phases as the Rust code:

     static :  dec_static t (enc_static t v ++ rest) = Ok (pend t v, rest)
     dynamic:  dec_dynamic t (pend t v) (enc_dynamic t v ++ rest) = Ok (erase t v, rest)

   where [pend t v] is the partially decoded object between the phases (vectors allocated with
   their capacity but not yet filled). *)
From Coq Require Import Arith PeanoNat.
From FV Require Export Codec.CodecProofs.
Open Scope N_scope.

(* ---------------------------------------------------------------- the object between the two phases *)
Fixpoint pend (t : ty) (v : val) {struct t} : val :=
  match t, v with
  | TByteVec, VB bs => VPend (lenN bs)
  | TVec _, VL vs => VPend (lenN vs)
  | TStruct _ fs, VS vs => VS (pend_fields fs vs)
  | TEnum vars, VE i vs => VE i (pend_variants vars i vs)
  | TEmpty _, _ => VUnit
  | TPolicies, VS (VN bits :: _) => VS (VN bits :: zero_policy_values)
  | TInput cf cs cp ct mf mcs mcp mds mdp, VE i [x] => VE i [pend (input_sel i cs cp ct mcs mcp mds mdp) x]
  | TPeek al, VE i [x] => VE i [pend_alts al i x]
  | _, _ => v
  end
with pend_fields (fs : fields) (vs : list val) {struct fs} : list val :=
  match fs, vs with
  | FCons _ sk t r, v :: vs' => (if sk then VUnit else pend t v) :: pend_fields r vs'
  | _, _ => []
  end
with pend_variants (vars : variants) (i : nat) (vs : list val) {struct vars} : list val :=
  match vars with
  | VNil => vs
  | VCons _ _ fs r => match i with O => pend_fields fs vs | S j => pend_variants r j vs end
  end
with pend_alts (al : alts) (i : nat) (x : val) {struct al} : val :=
  match al with
  | ANil => x
  | ACons _ _ t r => match i with O => pend t x | S j => pend_alts r j x end
  end.

Lemma pend_fields_cons n sk t r v vs :
  pend_fields (FCons n sk t r) (v :: vs) = (if sk then VUnit else pend t v) :: pend_fields r vs.
Proof. reflexivity. Qed.
Lemma pend_variants_nth vars : forall i d fs vs, nth_variant vars i = Some (d, fs) ->
  pend_variants vars i vs = pend_fields fs vs.
Proof. intros i d fs vs; revert i; induction vars as [|n d' fs' r IH]; intros [|j] H; cbn in *; try discriminate;
  [injection H as -> ->; reflexivity | eauto]. Qed.
Lemma pend_alts_nth al : forall i d t x, nth_alt al i = Some (d, t) -> pend_alts al i x = pend t x.
Proof. intros i d t x; revert i; induction al as [|n d' t' r IH]; intros [|j] H; cbn in *; try discriminate;
  [injection H as -> ->; reflexivity | eauto]. Qed.

(* ---------------------------------------------------------------- Vec<T> loop *)
Lemma dec_many_zero d fuel b : dec_many d fuel 0 b = Ok ([], b).
Proof. destruct fuel; reflexivity. Qed.
Lemma dec_many_succ d f n b : n <> 0 ->
  dec_many d (S f) n b =
  (let* (v, b1) := d b in let* (vs, b2) := dec_many d f (n - 1) b1 in Ok (v :: vs, b2)).
Proof. intros H. cbn [dec_many]. destruct (N.eqb_spec n 0); [contradiction | reflexivity]. Qed.

Lemma flat_map_len_ge {A} (e : A -> bytes) vs :
  (forall x, In x vs -> (1 <= length (e x))%nat) -> (length vs <= length (flat_map e vs))%nat.
Proof.
  induction vs as [|x vs IH]; intros H; [cbn; lia|]. cbn [flat_map length]. rewrite app_length.
  pose proof (H x (or_introl eq_refl)). pose proof (IH (fun y Hy => H y (or_intror Hy))). lia.
Qed.

Lemma dec_many_ok d (e : val -> bytes) (er : val -> val) vs :
  (forall x, In x vs -> (forall rest, d (e x ++ rest) = Ok (er x, rest)) /\ (1 <= length (e x))%nat) ->
  forall fuel rest, (length vs <= fuel)%nat ->
  dec_many d fuel (lenN vs) (flat_map e vs ++ rest) = Ok (map er vs, rest).
Proof.
  induction vs as [|x vs IH]; intros H fuel rest Hf.
  - apply dec_many_zero.
  - destruct fuel as [|f]; [cbn in Hf; lia|].
    rewrite dec_many_succ by (unfold lenN; cbn [length]; lia).
    cbn [flat_map]. rewrite <- app_assoc.
    rewrite (proj1 (H x (or_introl eq_refl))). cbn [bind].
    replace (lenN (x :: vs) - 1) with (lenN vs) by (unfold lenN; cbn [length]; lia).
    rewrite IH; [reflexivity | intros y Hy; apply H; right; exact Hy | cbn in Hf; lia].
Qed.

(* ---------------------------------------------------------------- the static part is not empty *)
Lemma tpos_alts_nth al : forall i d t, nth_alt al i = Some (d, t) -> tpos_alts al = true -> tpos t = true.
Proof.
  intros i d t; revert i; induction al as [|n d' t' r IH]; intros [|j] H Hp; cbn in *; try discriminate.
  - injection H as -> ->. apply andb_true_iff in Hp as [Hp _]. exact Hp.
  - apply andb_true_iff in Hp as [_ Hp]. eauto.
Qed.

Lemma tpos_len_all :
  (forall t, schema_ok t = true -> tpos t = true -> forall v, typed t v = true ->
     (1 <= length (enc_static t v))%nat) /\
  (forall fs, schema_ok_fields fs = true -> tpos_fields fs = true -> forall vs, typed_fields fs vs = true ->
     (1 <= length (enc_static_fields fs vs))%nat).
Proof.
  apply schema_ind2.
  - intros w _ Hp [] H; try discriminate. change (enc_static (TUInt w) (VN n)) with (enc_uint w n).
    rewrite enc_uint_length. cbn [tpos] in Hp. apply Nat.ltb_lt in Hp. lia.
  - intros n _ Hp [] H; try discriminate.
    change (typed (TBytesN n) (VB bs)) with (Nat.eqb (length bs) n && wf_bytes bs) in H.
    apply andb_true_iff in H as [H _]. apply Nat.eqb_eq in H.
    change (enc_static (TBytesN n) (VB bs)) with (bs ++ zeros (pad8 n)). rewrite app_length.
    cbn [tpos] in Hp. apply Nat.ltb_lt in Hp. lia.
  - intros _ _ [] H; try discriminate. change (enc_static TByteVec (VB bs)) with (be8 (lenN bs)).
    rewrite be8_length. lia.
  - intros t _ _ _ [] H; try discriminate. change (enc_static (TVec t) (VL vs)) with (be8 (lenN vs)).
    rewrite be8_length. lia.
  - intros p fs IH Hok Hp [] H; try discriminate.
    change (schema_ok (TStruct p fs)) with ((match p with Some d => d <? U64 | None => true end) && schema_ok_fields fs) in Hok.
    apply andb_true_iff in Hok as [_ Hok].
    change (typed (TStruct p fs) (VS vs)) with ((match p with Some d => d <? U64 | None => true end) && typed_fields fs vs) in H.
    apply andb_true_iff in H as [_ H].
    change (enc_static (TStruct p fs) (VS vs)) with ((match p with Some d => be8 d | None => [] end) ++ enc_static_fields fs vs).
    rewrite app_length. destruct p.
    + rewrite be8_length. lia.
    + cbn [tpos] in Hp. pose proof (IH Hok Hp _ H). cbn [length]. lia.
  - intros vars IH Hok _ [] H; try discriminate.
    change (typed (TEnum vars) (VE tag vs)) with (typed_variants vars tag vs) in H.
    change (enc_static (TEnum vars) (VE tag vs)) with (enc_static_variants vars tag vs).
    destruct (nth_variant vars tag) as [[d fs]|] eqn:Hn.
    + rewrite (enc_static_variants_nth _ _ _ _ _ Hn), app_length, be8_length. lia.
    + rewrite typed_variants_none in H by exact Hn. discriminate.
  - intros t IH Hok Hp v H.
    change (schema_ok (TEmpty t)) with (schema_ok t && flat t) in Hok. apply andb_true_iff in Hok as [Hok Hfl].
    cbn [tpos] in Hp. pose proof (IH Hok Hp _ (proj1 flat_default_typed _ Hfl)) as Hl.
    destruct v; exact Hl.
  - intros s Hok. discriminate.
  - intros _ _ [] H; try discriminate. destruct vs as [|[] vs]; try discriminate.
    change (enc_static TPolicies (VS (VN n :: vs))) with (enc_uint 4 n). rewrite enc_uint_length. cbn. lia.
  - intros cf cs cp ct mf mcs mcp mds mdp _ _ _ _ _ _ _ _ _ _ _ [] H; try discriminate.
    destruct vs as [|x [|]]; try discriminate.
    change (enc_static (TInput cf cs cp ct mf mcs mcp mds mdp) (VE tag [x])) with
      (be8 (input_disc tag) ++ enc_static (input_sel tag cs cp ct mcs mcp mds mdp) x).
    rewrite app_length, be8_length. lia.
  - intros al IH Hok Hp [] H; try discriminate. destruct vs as [|x [|]]; try discriminate.
    change (schema_ok (TPeek al)) with (nodupN (alt_discs al) && schema_ok_alts al) in Hok.
    apply andb_true_iff in Hok as [_ Hok].
    change (typed (TPeek al) (VE tag [x])) with (typed_alts al tag x) in H.
    change (enc_static (TPeek al) (VE tag [x])) with (enc_static_alts al tag x).
    destruct (nth_alt al tag) as [[d t]|] eqn:Hn.
    + rewrite (typed_alts_nth _ _ _ _ _ Hn) in H. rewrite (enc_static_alts_nth _ _ _ _ _ Hn).
      destruct (schema_ok_alts_nth _ _ _ _ Hn Hok) as (_ & Ht & _).
      cbn [tpos] in Hp. exact (IH _ _ _ Hn Ht (tpos_alts_nth _ _ _ _ Hn Hp) _ H).
    + rewrite typed_alts_none in H by exact Hn. discriminate.
  - intros _ Hp. discriminate.
  - intros n sk t r It Ir Hok Hp [|v vs] H; try discriminate.
    rewrite schema_ok_fields_cons in Hok. rewrite typed_fields_cons in H.
    apply andb_true_iff in Hok as [Hok1 Hok2]. apply andb_true_iff in H as [H1 H2].
    rewrite enc_static_fields_cons, app_length.
    cbn [tpos_fields] in Hp. apply orb_true_iff in Hp as [Hp|Hp].
    + apply andb_true_iff in Hp as [Hs Hp]. destruct sk; [discriminate|]. cbn [orb] in *.
      pose proof (It Hok1 Hp _ H1). lia.
    + pose proof (Ir Hok2 Hp _ H2). lia.
Qed.

(* ---------------------------------------------------------------- Transaction: first word *)
Definition first_field_starts (d : N) (fs : fields) : bool :=
  match fs with FCons _ false t' _ => starts_with d t' | _ => false end.
Lemma starts_with_all :
  (forall t d x, starts_with d t = true -> typed t x = true -> exists tl, enc_static t x = be8 d ++ tl) /\
  (forall fs d vs, first_field_starts d fs = true -> typed_fields fs vs = true ->
     exists tl, enc_static_fields fs vs = be8 d ++ tl).
Proof.
  apply schema_ind2; try (intros; discriminate).
  - intros p fs IH d [] Hs H; try discriminate.
    change (typed (TStruct p fs) (VS vs)) with ((match p with Some d => d <? U64 | None => true end) && typed_fields fs vs) in H.
    apply andb_true_iff in H as [_ H].
    change (enc_static (TStruct p fs) (VS vs)) with ((match p with Some d => be8 d | None => [] end) ++ enc_static_fields fs vs).
    destruct p as [q|].
    + cbn [starts_with] in Hs. apply N.eqb_eq in Hs. subst q. eexists. reflexivity.
    + assert (Hf : first_field_starts d fs = true) by (destruct fs as [|? [] ? ?]; exact Hs).
      destruct (IH d vs Hf H) as [tl E]. exists tl. exact E.
  - intros n sk t r It _ d [|v vs] Hs H; try discriminate. destruct sk; [discriminate|].
    rewrite typed_fields_cons in H. apply andb_true_iff in H as [H1 _]. cbn [orb] in H1.
    cbn [first_field_starts] in Hs. destruct (It d v Hs H1) as [tl E].
    rewrite enc_static_fields_cons, E, <- app_assoc. eexists. reflexivity.
Qed.

(* ---------------------------------------------------------------- Input: full vs specialised *)
(* the CoinFull / FullMessage value that has the same encoding as a specialised value *)
Fixpoint fill_fields (ffs afs : fields) (vs : list val) : list val :=
  match ffs, afs, vs with
  | FCons _ _ tf r, FCons _ _ ta r', v :: vs' =>
      (match ta with TEmpty _ => default_val tf | _ => v end) :: fill_fields r r' vs'
  | _, _, _ => []
  end.

Lemma not_empty_match {A} (ta : ty) (a b : A) : not_empty_ty ta = true ->
  match ta with TEmpty _ => a | _ => b end = b.
Proof. destruct ta; try reflexivity. discriminate. Qed.

Section Roundtrip.
Variable limit : N.
Hypothesis limit_lt : limit < U64.

Lemma spec_fill ffs : forall afs vs,
  spec_of ffs afs = true -> typed_fields afs vs = true -> wf_fields limit afs vs = true ->
  typed_fields ffs (fill_fields ffs afs vs) = true /\
  wf_fields limit ffs (fill_fields ffs afs vs) = true /\
  enc_static_fields ffs (fill_fields ffs afs vs) = enc_static_fields afs vs /\
  into_fields afs (pend_fields ffs (fill_fields ffs afs vs)) = pend_fields afs vs.
Proof.
  induction ffs as [|n sk tf r IH]; intros [|n' sk' ta r'] vs Hs Ht Hw; cbn [spec_of] in Hs; try discriminate; try (destruct sk; discriminate).
  - destruct vs; [|discriminate]. repeat split.
  - destruct sk; [discriminate|]. destruct sk'; [discriminate|].
    apply andb_true_iff in Hs as [Hs Hr]. apply andb_true_iff in Hs as [_ Hs].
    destruct vs as [|v vs]; [discriminate|].
    rewrite typed_fields_cons in Ht. rewrite wf_fields_cons in Hw. cbn [orb] in Ht, Hw.
    apply andb_true_iff in Ht as [Ht1 Ht2]. apply andb_true_iff in Hw as [Hw1 Hw2].
    destruct (IH r' vs Hr Ht2 Hw2) as (I1 & I2 & I3 & I4).
    cbn [fill_fields]. rewrite typed_fields_cons, wf_fields_cons, !enc_static_fields_cons, !pend_fields_cons.
    cbn [orb]. apply orb_true_iff in Hs as [Hs|Hs].
    + (* same type, not Empty *)
      apply andb_true_iff in Hs as [He Hne]. apply ty_eqb_eq in He. subst ta.
      rewrite (not_empty_match tf _ v Hne). rewrite Ht1, Hw1, I1, I2, I3.
      repeat split. destruct tf; try discriminate Hne; cbn [into_fields]; rewrite I4; reflexivity.
    + (* Empty<tf> *)
      destruct ta as [| | | | | |te| | | |]; try discriminate Hs.
      apply andb_true_iff in Hs as [He Hfl]. apply ty_eqb_eq in He. subst te.
      destruct v; try discriminate Ht1.
      rewrite (proj1 flat_default_typed _ Hfl), (proj1 (flat_default_wf limit) _ Hfl), I1, I2, I3.
      repeat split. cbn [into_fields]. rewrite I4. reflexivity.
Qed.

(* the field called name after the static phase of the full type *)
Lemma spec_get_empty name ffs : forall afs vs te,
  spec_of ffs afs = true -> typed_fields afs vs = true -> field_ty name afs = Some (TEmpty te) ->
  exists tf, field_ty name ffs = Some tf /\
    get_field name ffs (pend_fields ffs (fill_fields ffs afs vs)) = Some (pend tf (default_val tf)).
Proof.
  induction ffs as [|n sk tf r IH]; intros [|n' sk' ta r'] vs te Hs Ht Hf; cbn [spec_of] in Hs; try discriminate; try (destruct sk; discriminate).
  destruct sk; [discriminate|]. destruct sk'; [discriminate|].
  apply andb_true_iff in Hs as [Hs Hr]. apply andb_true_iff in Hs as [Hn Hs]. apply String.eqb_eq in Hn. subst n'.
  destruct vs as [|v vs]; [discriminate|].
  rewrite typed_fields_cons in Ht. apply andb_true_iff in Ht as [Ht1 Ht2].
  cbn [field_ty] in Hf |- *. cbn [fill_fields]. rewrite pend_fields_cons. cbn [get_field].
  destruct (String.eqb n name) eqn:E.
  - injection Hf as ->. exists tf. split; [reflexivity|].
    apply orb_true_iff in Hs as [Hs|Hs].
    + apply andb_true_iff in Hs as [_ Hne]. discriminate.
    + reflexivity.
  - exact (IH r' vs te Hr Ht2 Hf).
Qed.
Lemma spec_get_kept name ffs : forall afs vs ta,
  spec_of ffs afs = true -> typed_fields afs vs = true -> field_ty name afs = Some ta -> not_empty_ty ta = true ->
  exists x, get_field name afs vs = Some x /\ typed ta x = true /\ field_ty name ffs = Some ta /\
    get_field name ffs (pend_fields ffs (fill_fields ffs afs vs)) = Some (pend ta x).
Proof.
  induction ffs as [|n sk tf r IH]; intros [|n' sk' ta' r'] vs ta Hs Ht Hf Hne; cbn [spec_of] in Hs; try discriminate; try (destruct sk; discriminate).
  destruct sk; [discriminate|]. destruct sk'; [discriminate|].
  apply andb_true_iff in Hs as [Hs Hr]. apply andb_true_iff in Hs as [Hn Hs]. apply String.eqb_eq in Hn. subst n'.
  destruct vs as [|v vs]; [discriminate|].
  rewrite typed_fields_cons in Ht. apply andb_true_iff in Ht as [Ht1 Ht2]. cbn [orb] in Ht1.
  cbn [field_ty] in Hf |- *. cbn [fill_fields]. rewrite pend_fields_cons. cbn [get_field].
  destruct (String.eqb n name) eqn:E.
  - injection Hf as ->. exists v. apply orb_true_iff in Hs as [Hs|Hs].
    + apply andb_true_iff in Hs as [He _]. apply ty_eqb_eq in He. subst tf.
      rewrite (not_empty_match ta _ v Hne). repeat split; auto.
    + destruct ta; try discriminate Hs. discriminate Hne.
  - exact (IH r' vs ta Hr Ht2 Hf Hne).
Qed.

Lemma bytes_like_inv t : bytes_like t = true ->
  t = TByteVec \/ exists n, t = TStruct None (FCons n false TByteVec FNil).
Proof.
  destruct t as [| | | |p fs| | | | | |]; try discriminate; [left; reflexivity|].
  destruct p; [discriminate|]. destruct fs as [|n sk t r]; [discriminate|].
  destruct sk; [discriminate|]. destruct t; try discriminate. destruct r; [|discriminate].
  intros _. right. exists n. reflexivity.
Qed.
Lemma bytes_like_default t : bytes_like t = true -> leaf (pend t (default_val t)) = VPend 0.
Proof. intros H. destruct (bytes_like_inv t H) as [->|[n ->]]; reflexivity. Qed.
Lemma bytes_like_pend t x : bytes_like t = true -> typed t x = true ->
  exists bs, leaf x = VB bs /\ leaf (pend t x) = VPend (lenN bs).
Proof.
  intros H Ht. destruct (bytes_like_inv t H) as [->|[n ->]].
  - destruct x; try discriminate. exists bs. split; reflexivity.
  - destruct x as [| | | |vs| |]; try discriminate.
    change (typed (TStruct None (FCons n false TByteVec FNil)) (VS vs)) with
      (true && typed_fields (FCons n false TByteVec FNil) vs) in Ht.
    destruct vs as [|v vs]; [discriminate|]. rewrite typed_fields_cons in Ht. cbn [andb orb] in Ht.
    apply andb_true_iff in Ht as [Hv Hr]. destruct vs; [|discriminate].
    destruct v; try discriminate. exists bs. split; reflexivity.
Qed.

(* what Input::decode_static sees after decoding the full struct from the bytes of a
   specialised value *)
Lemma input_full full alt x :
  spec_ty full alt = true ->
  (forall v, typed full v = true -> wf limit full v = true ->
     forall rest, dec_static limit full (enc_static full v ++ rest) = Ok (pend full v, rest)) ->
  typed alt x = true -> wf limit alt x = true ->
  exists p, (forall rest, dec_static limit full (enc_static alt x ++ rest) = Ok (p, rest)) /\
    into alt p = pend alt x /\
    (forall name, field_is name full bytes_like = true ->
       (field_is name alt is_empty_ty = true -> pend_zero name full p = true) /\
       (field_is name alt not_empty_ty = true -> pend_zero name full p = negb (nonempty_field name alt x))).
Proof.
  intros Hs IHf Ht Hw.
  destruct full as [| | | |pf ffs| | | | | |]; try discriminate Hs. destruct pf; [discriminate Hs|].
  destruct alt as [| | | |pa afs| | | | | |]; try discriminate Hs. destruct pa; [discriminate Hs|].
  cbn [spec_ty] in Hs. destruct x as [| | | |vs| |]; try discriminate Ht.
  change (typed (TStruct None afs) (VS vs)) with (true && typed_fields afs vs) in Ht. cbn [andb] in Ht.
  change (wf limit (TStruct None afs) (VS vs)) with (wf_fields limit afs vs) in Hw.
  destruct (spec_fill ffs afs vs Hs Ht Hw) as (F1 & F2 & F3 & F4).
  exists (pend (TStruct None ffs) (VS (fill_fields ffs afs vs))). split; [|split].
  - intros rest.
    change (enc_static (TStruct None afs) (VS vs)) with ([] ++ enc_static_fields afs vs).
    rewrite <- F3. apply (IHf (VS (fill_fields ffs afs vs))).
    + change (true && typed_fields ffs (fill_fields ffs afs vs) = true). rewrite F1. reflexivity.
    + exact F2.
  - change (VS (into_fields afs (pend_fields ffs (fill_fields ffs afs vs))) = VS (pend_fields afs vs)).
    rewrite F4. reflexivity.
  - intros name Hb. unfold field_is, sfield_ty in Hb |- *.
    destruct (field_ty name ffs) as [tf|] eqn:Hff; [|discriminate].
    unfold pend_zero, nonempty_field, struct_field.
    change (pend (TStruct None ffs) (VS (fill_fields ffs afs vs))) with (VS (pend_fields ffs (fill_fields ffs afs vs))).
    split; intros Ha; destruct (field_ty name afs) as [ta|] eqn:Hfa; try discriminate.
    + destruct ta; try discriminate Ha.
      destruct (spec_get_empty name ffs afs vs ta Hs Ht Hfa) as (tf' & E1 & E2).
      rewrite Hff in E1. injection E1 as <-. rewrite E2, (bytes_like_default tf Hb). reflexivity.
    + destruct (spec_get_kept name ffs afs vs ta Hs Ht Hfa Ha) as (y & E0 & Ety & E1 & E2).
      rewrite Hff in E1. injection E1 as ->. rewrite E2, E0.
      destruct (bytes_like_pend ta y Hb Ety) as (bs & L1 & L2). rewrite L1, L2.
      destruct bs; reflexivity.
Qed.

(* ---------------------------------------------------------------- Policies *)
Lemma dec_policy_values_enc bits rest : forall ks vs,
  length ks = length vs ->
  forallb (fun v => match v with VN n => n <? U64 | _ => false end) vs = true ->
  policy_unset_zero ks bits vs = true ->
  dec_policy_values ks bits (enc_policy_values ks bits vs ++ rest) = Ok (vs, rest).
Proof.
  induction ks as [|k ks IH]; intros [|v vs] Hl Ht Hz; try discriminate; [reflexivity|].
  cbn [forallb] in Ht. apply andb_true_iff in Ht as [Hv Ht]. destruct v; try discriminate.
  apply N.ltb_lt in Hv.
  cbn [policy_unset_zero val_N] in Hz. apply andb_true_iff in Hz as [Hz0 Hz].
  cbn [dec_policy_values enc_policy_values val_N].
  destruct (N.testbit bits k).
  - rewrite <- app_assoc, read_word_be8 by exact Hv. cbn [bind].
    rewrite IH by (try injection Hl; auto). reflexivity.
  - cbn [app bind]. rewrite IH by (try injection Hl; auto). cbn [orb] in Hz0. apply N.eqb_eq in Hz0. subst n. reflexivity.
Qed.

(* ---------------------------------------------------------------- the theorem *)
Arguments be8 : simpl never.
Arguments enc_uint : simpl never.
Arguments read_uint : simpl never.
Arguments read_word : simpl never.
Arguments take : simpl never.
Arguments skip : simpl never.
Arguments takeN : simpl never.
Arguments skipN : simpl never.
Arguments zeros : simpl never.
Arguments pad8 : simpl never.

Lemma pow256_8 : 256 ^ N.of_nat 8 = U64.
Proof. vm_compute. reflexivity. Qed.

Lemma vec_header_ok n rest : n <=? limit = true ->
  dec_vec_header limit (be8 n ++ rest) = Ok (VPend n, rest).
Proof.
  intros H. apply N.leb_le in H. unfold dec_vec_header.
  rewrite read_word_be8 by lia. cbn [bind].
  destruct (N.ltb_spec limit n); [lia | reflexivity].
Qed.

Definition RT (t : ty) : Prop :=
  schema_ok t = true -> forall v, typed t v = true -> wf limit t v = true ->
  (forall rest, dec_static limit t (enc_static t v ++ rest) = Ok (pend t v, rest)) /\
  (forall rest, dec_dynamic limit t (pend t v) (enc_dynamic t v ++ rest) = Ok (erase t v, rest)).
Definition RTf (fs : fields) : Prop :=
  schema_ok_fields fs = true -> forall vs, typed_fields fs vs = true -> wf_fields limit fs vs = true ->
  (forall rest, dec_static_fields limit fs (enc_static_fields fs vs ++ rest) = Ok (pend_fields fs vs, rest)) /\
  (forall rest, dec_dynamic_fields limit fs (pend_fields fs vs) (enc_dynamic_fields fs vs ++ rest) =
                Ok (erase_fields fs vs, rest)).

Lemma lt7_cases i : Nat.ltb i 7 = true ->
  i = 0%nat \/ i = 1%nat \/ i = 2%nat \/ i = 3%nat \/ i = 4%nat \/ i = 5%nat \/ i = 6%nat.
Proof. intros H. apply Nat.ltb_lt in H. lia. Qed.

Lemma RT_input cf cs cp ct mf mcs mcp mds mdp :
  RT cf -> RT cs -> RT cp -> RT ct -> RT mf -> RT mcs -> RT mcp -> RT mds -> RT mdp ->
  RT (TInput cf cs cp ct mf mcs mcp mds mdp).
Proof.
  intros I0 I1 I2 I3 I4 I5 I6 I7 I8 Hok v Ht Hw.
  cbn [schema_ok] in Hok. repeat (apply andb_true_iff in Hok as [Hok ?]).
  unfold input_shape in *.
  repeat match goal with H : _ && _ = true |- _ => apply andb_true_iff in H as [H ?] end.
  destruct v as [| | | | |i vs|]; try discriminate Ht. destruct vs as [|x [|]]; try discriminate Ht.
  change (typed (TInput cf cs cp ct mf mcs mcp mds mdp) (VE i [x])) with
    (Nat.ltb i 7 && typed (input_sel i cs cp ct mcs mcp mds mdp) x) in Ht.
  apply andb_true_iff in Ht as [Hi Ht].
  change (wf limit (TInput cf cs cp ct mf mcs mcp mds mdp) (VE i [x])) with
    (wf limit (input_sel i cs cp ct mcs mcp mds mdp) x &&
     input_variant_wf i (input_sel i cs cp ct mcs mcp mds mdp) x) in Hw.
  apply andb_true_iff in Hw as [Hw Hv].
  change (enc_static (TInput cf cs cp ct mf mcs mcp mds mdp) (VE i [x])) with
    (be8 (input_disc i) ++ enc_static (input_sel i cs cp ct mcs mcp mds mdp) x).
  change (enc_dynamic (TInput cf cs cp ct mf mcs mcp mds mdp) (VE i [x])) with
    (enc_dynamic (input_sel i cs cp ct mcs mcp mds mdp) x).
  change (pend (TInput cf cs cp ct mf mcs mcp mds mdp) (VE i [x])) with
    (VE i [pend (input_sel i cs cp ct mcs mcp mds mdp) x]).
  change (erase (TInput cf cs cp ct mf mcs mcp mds mdp) (VE i [x])) with
    (VE i [erase (input_sel i cs cp ct mcs mcp mds mdp) x]).
  assert (Hcf : forall v, typed cf v = true -> wf limit cf v = true ->
     forall rest, dec_static limit cf (enc_static cf v ++ rest) = Ok (pend cf v, rest))
    by (intros v0 T0 W0; exact (proj1 (I0 ltac:(assumption) v0 T0 W0))).
  assert (Hmf : forall v, typed mf v = true -> wf limit mf v = true ->
     forall rest, dec_static limit mf (enc_static mf v ++ rest) = Ok (pend mf v, rest))
    by (intros v0 T0 W0; exact (proj1 (I4 ltac:(assumption) v0 T0 W0))).
  assert (Hdyn : forall alt, RT alt -> schema_ok alt = true -> typed alt x = true -> wf limit alt x = true ->
     forall rest, dec_dynamic limit (TInput cf cs cp ct mf mcs mcp mds mdp) (VE i [pend alt x]) (enc_dynamic alt x ++ rest)
                  = (let* (v, r) := dec_dynamic limit (input_sel i cs cp ct mcs mcp mds mdp) (pend alt x) (enc_dynamic alt x ++ rest)
                     in Ok (VE i [v], r))) by reflexivity.
  destruct (lt7_cases i Hi) as [->|[->|[->|[->|[->|[->| ->]]]]]]; cbn [input_sel input_disc] in *; split; intros rest.
  (* 0: CoinSigned *)
  - destruct (input_full cf cs x ltac:(assumption) Hcf Ht Hw) as (p & D & E & Fl).
    cbn [dec_static]. rewrite <- app_assoc, read_word_be8 by (vm_compute; reflexivity).
    cbn [N.eqb bind]. rewrite D. cbn [bind].
    rewrite (proj1 (Fl "predicate"%string ltac:(assumption)) ltac:(assumption)). rewrite E. reflexivity.
  - rewrite (Hdyn cs I1) by assumption. cbn [input_sel].
    rewrite (proj2 (I1 ltac:(assumption) x Ht Hw)). reflexivity.
  (* 1: CoinPredicate *)
  - destruct (input_full cf cp x ltac:(assumption) Hcf Ht Hw) as (p & D & E & Fl).
    cbn [dec_static]. rewrite <- app_assoc, read_word_be8 by (vm_compute; reflexivity).
    cbn [N.eqb bind]. rewrite D. cbn [bind].
    rewrite (proj2 (Fl "predicate"%string ltac:(assumption)) ltac:(assumption)).
    cbn [input_variant_wf] in Hv. rewrite Hv. cbn [negb]. rewrite E. reflexivity.
  - rewrite (Hdyn cp I2) by assumption. cbn [input_sel].
    rewrite (proj2 (I2 ltac:(assumption) x Ht Hw)). reflexivity.
  (* 2: Contract *)
  - cbn [dec_static]. rewrite <- app_assoc, read_word_be8 by (vm_compute; reflexivity).
    cbn [N.eqb bind].
    change (1 =? 0) with false. change (1 =? 1) with true. cbv iota.
    rewrite (proj1 (I3 ltac:(assumption) x Ht Hw)). reflexivity.
  - rewrite (Hdyn ct I3) by assumption. cbn [input_sel].
    rewrite (proj2 (I3 ltac:(assumption) x Ht Hw)). reflexivity.
  (* 3: MessageCoinSigned *)
  - destruct (input_full mf mcs x ltac:(assumption) Hmf Ht Hw) as (p & D & E & Fl).
    cbn [dec_static]. rewrite <- app_assoc, read_word_be8 by (vm_compute; reflexivity).
    change (2 =? 0) with false. change (2 =? 1) with false. change (2 =? 2) with true. cbv iota. cbn [bind].
    rewrite D. cbn [bind].
    rewrite (proj1 (Fl "data"%string ltac:(assumption)) ltac:(assumption)).
    rewrite (proj1 (Fl "predicate"%string ltac:(assumption)) ltac:(assumption)). rewrite E. reflexivity.
  - rewrite (Hdyn mcs I5) by assumption. cbn [input_sel].
    rewrite (proj2 (I5 ltac:(assumption) x Ht Hw)). reflexivity.
  (* 4: MessageCoinPredicate *)
  - destruct (input_full mf mcp x ltac:(assumption) Hmf Ht Hw) as (p & D & E & Fl).
    cbn [dec_static]. rewrite <- app_assoc, read_word_be8 by (vm_compute; reflexivity).
    change (2 =? 0) with false. change (2 =? 1) with false. change (2 =? 2) with true. cbv iota. cbn [bind].
    rewrite D. cbn [bind].
    rewrite (proj1 (Fl "data"%string ltac:(assumption)) ltac:(assumption)).
    rewrite (proj2 (Fl "predicate"%string ltac:(assumption)) ltac:(assumption)).
    cbn [input_variant_wf] in Hv. rewrite Hv. cbn [negb]. rewrite E. reflexivity.
  - rewrite (Hdyn mcp I6) by assumption. cbn [input_sel].
    rewrite (proj2 (I6 ltac:(assumption) x Ht Hw)). reflexivity.
  (* 5: MessageDataSigned *)
  - destruct (input_full mf mds x ltac:(assumption) Hmf Ht Hw) as (p & D & E & Fl).
    cbn [dec_static]. rewrite <- app_assoc, read_word_be8 by (vm_compute; reflexivity).
    change (2 =? 0) with false. change (2 =? 1) with false. change (2 =? 2) with true. cbv iota. cbn [bind].
    rewrite D. cbn [bind].
    rewrite (proj2 (Fl "data"%string ltac:(assumption)) ltac:(assumption)).
    rewrite (proj1 (Fl "predicate"%string ltac:(assumption)) ltac:(assumption)).
    cbn [input_variant_wf] in Hv. rewrite Hv. cbn [negb]. rewrite E. reflexivity.
  - rewrite (Hdyn mds I7) by assumption. cbn [input_sel].
    rewrite (proj2 (I7 ltac:(assumption) x Ht Hw)). reflexivity.
  (* 6: MessageDataPredicate *)
  - destruct (input_full mf mdp x ltac:(assumption) Hmf Ht Hw) as (p & D & E & Fl).
    cbn [dec_static]. rewrite <- app_assoc, read_word_be8 by (vm_compute; reflexivity).
    change (2 =? 0) with false. change (2 =? 1) with false. change (2 =? 2) with true. cbv iota. cbn [bind].
    rewrite D. cbn [bind].
    rewrite (proj2 (Fl "data"%string ltac:(assumption)) ltac:(assumption)).
    rewrite (proj2 (Fl "predicate"%string ltac:(assumption)) ltac:(assumption)).
    cbn [input_variant_wf] in Hv. apply andb_true_iff in Hv as [Hv1 Hv2]. rewrite Hv1, Hv2. cbn [negb].
    rewrite E. reflexivity.
  - rewrite (Hdyn mdp I8) by assumption. cbn [input_sel].
    rewrite (proj2 (I8 ltac:(assumption) x Ht Hw)). reflexivity.
Qed.

Lemma roundtrip_all : (forall t, RT t) /\ (forall fs, RTf fs).
Proof.
  apply schema_ind2; unfold RT, RTf.
  - (* TUInt *)
    intros w _ [] Ht Hw; try discriminate.
    change (typed (TUInt w) (VN n)) with (n <? 256 ^ N.of_nat w) in Ht. apply N.ltb_lt in Ht.
    split; intros rest; [|reflexivity].
    change (dec_static limit (TUInt w) (enc_uint w n ++ rest) = Ok (VN n, rest)).
    cbn [dec_static]. rewrite read_uint_enc by exact Ht. reflexivity.
  - (* TBytesN *)
    intros n _ [] Ht Hw; try discriminate.
    change (typed (TBytesN n) (VB bs)) with (Nat.eqb (length bs) n && wf_bytes bs) in Ht.
    apply andb_true_iff in Ht as [Ht _]. apply Nat.eqb_eq in Ht.
    split; intros rest; [|reflexivity].
    change (dec_static limit (TBytesN n) ((bs ++ zeros (pad8 n)) ++ rest) = Ok (VB bs, rest)).
    cbn [dec_static]. rewrite <- app_assoc, take_app by exact Ht. cbn [bind].
    rewrite skip_app by apply zeros_length. reflexivity.
  - (* TByteVec *)
    intros _ [] Ht Hw; try discriminate.
    change (wf limit TByteVec (VB bs)) with (lenN bs <=? limit) in Hw.
    split; intros rest.
    + change (dec_vec_header limit (be8 (lenN bs) ++ rest) = Ok (VPend (lenN bs), rest)).
      apply vec_header_ok. exact Hw.
    + change (dec_dynamic limit TByteVec (VPend (lenN bs)) ((bs ++ zeros (pad8 (length bs))) ++ rest) = Ok (VB bs, rest)).
      cbn [dec_dynamic]. rewrite <- app_assoc, takeN_app by reflexivity. cbn [bind].
      rewrite skipN_app by (unfold lenN; rewrite zeros_length, padN_nat; reflexivity). reflexivity.
  - (* TVec *)
    intros t IH Hok [] Ht Hw; try discriminate.
    change (schema_ok (TVec t)) with (schema_ok t && tpos t) in Hok. apply andb_true_iff in Hok as [Hok Hpos].
    change (typed (TVec t) (VL vs)) with (forallb (typed t) vs) in Ht. rewrite forallb_forall in Ht.
    change (wf limit (TVec t) (VL vs)) with ((lenN vs <=? limit) && forallb (wf limit t) vs) in Hw.
    apply andb_true_iff in Hw as [Hl Hw]. rewrite forallb_forall in Hw.
    split; intros rest.
    + change (dec_vec_header limit (be8 (lenN vs) ++ rest) = Ok (VPend (lenN vs), rest)).
      apply vec_header_ok. exact Hl.
    + change (enc_dynamic (TVec t) (VL vs)) with (flat_map (fun x => enc_static t x ++ enc_dynamic t x) vs).
      change (pend (TVec t) (VL vs)) with (VPend (lenN vs)).
      change (erase (TVec t) (VL vs)) with (VL (map (erase t) vs)).
      cbn [dec_dynamic].
      rewrite (dec_many_ok _ (fun x => enc_static t x ++ enc_dynamic t x) (erase t)).
      * reflexivity.
      * intros x Hx. destruct (IH Hok x (Ht x Hx) (Hw x Hx)) as [S D]. split.
        -- intros r. rewrite <- app_assoc, S. cbn [bind]. apply D.
        -- rewrite app_length. pose proof (proj1 tpos_len_all t Hok Hpos x (Ht x Hx)). lia.
      * rewrite app_length.
        pose proof (flat_map_len_ge (fun x => enc_static t x ++ enc_dynamic t x) vs) as Hg.
        assert (length vs <= length (flat_map (fun x => enc_static t x ++ enc_dynamic t x) vs))%nat.
        { apply Hg. intros x Hx. rewrite app_length. pose proof (proj1 tpos_len_all t Hok Hpos x (Ht x Hx)). lia. }
        lia.
  - (* TStruct *)
    intros p fs IH Hok [] Ht Hw; try discriminate.
    change (schema_ok (TStruct p fs)) with ((match p with Some d => d <? U64 | None => true end) && schema_ok_fields fs) in Hok.
    apply andb_true_iff in Hok as [Hp Hok].
    change (typed (TStruct p fs) (VS vs)) with ((match p with Some d => d <? U64 | None => true end) && typed_fields fs vs) in Ht.
    apply andb_true_iff in Ht as [_ Ht].
    change (wf limit (TStruct p fs) (VS vs)) with (wf_fields limit fs vs) in Hw.
    destruct (IH Hok vs Ht Hw) as [S D].
    change (enc_static (TStruct p fs) (VS vs)) with ((match p with Some d => be8 d | None => [] end) ++ enc_static_fields fs vs).
    change (enc_dynamic (TStruct p fs) (VS vs)) with (enc_dynamic_fields fs vs).
    change (pend (TStruct p fs) (VS vs)) with (VS (pend_fields fs vs)).
    change (erase (TStruct p fs) (VS vs)) with (VS (erase_fields fs vs)).
    split; intros rest.
    + cbn [dec_static]. destruct p as [d|].
      * unfold check_prefix. rewrite <- app_assoc, read_word_be8 by (apply N.ltb_lt; exact Hp).
        rewrite N.eqb_refl. cbn [bind]. rewrite S. reflexivity.
      * cbn [app check_prefix bind]. rewrite S. reflexivity.
    + cbn [dec_dynamic]. rewrite D. reflexivity.
  - (* TEnum *)
    intros vars IH Hok [] Ht Hw; try discriminate.
    change (schema_ok (TEnum vars)) with (nodupN (variant_discs vars) && schema_ok_variants vars) in Hok.
    apply andb_true_iff in Hok as [Hnd Hok].
    change (typed (TEnum vars) (VE tag vs)) with (typed_variants vars tag vs) in Ht.
    change (wf limit (TEnum vars) (VE tag vs)) with (wf_variants limit vars tag vs) in Hw.
    destruct (nth_variant vars tag) as [[d fs]|] eqn:Hn;
      [|rewrite typed_variants_none in Ht by exact Hn; discriminate].
    rewrite (typed_variants_nth _ _ _ _ _ Hn) in Ht. apply andb_true_iff in Ht as [Hd Ht]. apply N.ltb_lt in Hd.
    rewrite (wf_variants_nth limit _ _ _ _ _ Hn) in Hw.
    destruct (schema_ok_variants_nth _ _ _ _ Hn Hok) as [_ Hf].
    destruct (IH _ _ _ Hn Hf vs Ht Hw) as [S D].
    change (enc_static (TEnum vars) (VE tag vs)) with (enc_static_variants vars tag vs).
    change (enc_dynamic (TEnum vars) (VE tag vs)) with (enc_dynamic_variants vars tag vs).
    change (pend (TEnum vars) (VE tag vs)) with (VE tag (pend_variants vars tag vs)).
    change (erase (TEnum vars) (VE tag vs)) with (VE tag (erase_variants vars tag vs)).
    rewrite (enc_static_variants_nth _ _ _ _ _ Hn), (enc_dynamic_variants_nth _ _ _ _ _ Hn).
    rewrite (pend_variants_nth _ _ _ _ _ Hn), (erase_variants_nth _ _ _ _ _ Hn).
    split; intros rest.
    + cbn [dec_static]. rewrite <- app_assoc, read_word_be8 by exact Hd. cbn [bind].
      rewrite (dec_static_variants_nth limit vars 0 tag d fs _ Hnd Hn). rewrite S. reflexivity.
    + cbn [dec_dynamic]. rewrite (dec_dynamic_variants_nth limit _ _ _ _ _ _ Hn), D. reflexivity.
  - (* TEmpty *)
    intros t IH Hok v Ht Hw.
    change (schema_ok (TEmpty t)) with (schema_ok t && flat t) in Hok. apply andb_true_iff in Hok as [Hok Hfl].
    destruct v; try discriminate Ht.
    destruct (IH Hok _ (proj1 flat_default_typed _ Hfl) (proj1 (flat_default_wf limit) _ Hfl)) as [S _].
    split; intros rest; [|reflexivity].
    change (enc_static (TEmpty t) VUnit) with (enc_static t (default_val t)).
    cbn [dec_static]. rewrite S. reflexivity.
  - (* TOpaque *)
    intros s Hok. discriminate.
  - (* TPolicies *)
    intros _ [] Ht Hw; try discriminate. destruct vs as [|[] vs]; try discriminate.
    change (typed TPolicies (VS (VN n :: vs))) with
      ((n <? 64) && Nat.eqb (length vs) 6 && forallb (fun v => match v with VN n => n <? U64 | _ => false end) vs) in Ht.
    apply andb_true_iff in Ht as [Ht Hall]. apply andb_true_iff in Ht as [Hb Hl].
    apply N.ltb_lt in Hb. apply Nat.eqb_eq in Hl.
    change (wf limit TPolicies (VS (VN n :: vs))) with (policies_wf n vs) in Hw.
    unfold policies_wf in Hw. apply andb_true_iff in Hw as [Hw H4]. apply andb_true_iff in Hw as [Hz H2].
    split; intros rest.
    + change (enc_static TPolicies (VS (VN n :: vs))) with (enc_uint 4 n).
      cbn [dec_static]. rewrite read_uint_enc by (change (256 ^ N.of_nat 4) with 4294967296; lia).
      cbn [bind]. destruct (N.leb_spec 64 n); [lia | reflexivity].
    + change (enc_dynamic TPolicies (VS (VN n :: vs))) with (enc_policy_values policy_idx n vs).
      change (pend TPolicies (VS (VN n :: vs))) with (VS (VN n :: zero_policy_values)).
      cbn [dec_dynamic].
      rewrite dec_policy_values_enc by (try exact Hall; try exact Hz; rewrite Hl; reflexivity).
      cbn [bind]. unfold policy_limit_ok in H2, H4.
      change (N.to_nat 2) with 2%nat in H2. change (N.to_nat 4) with 4%nat in H4.
      destruct (N.testbit n 2); cbn [negb orb andb] in *.
      * apply N.leb_le in H2. destruct (N.ltb_spec u32_max (val_N (nth 2 vs (VN 0)))); [lia|].
        destruct (N.testbit n 4); cbn [negb orb andb] in *; [|reflexivity].
        apply N.leb_le in H4. destruct (N.ltb_spec u32_max (val_N (nth 4 vs (VN 0)))); [lia | reflexivity].
      * destruct (N.testbit n 4); cbn [negb orb andb] in *; [|reflexivity].
        apply N.leb_le in H4. destruct (N.ltb_spec u32_max (val_N (nth 4 vs (VN 0)))); [lia | reflexivity].
  - (* TInput *)
    intros. apply RT_input; assumption.
  - (* TPeek *)
    intros al IH Hok [] Ht Hw; try discriminate. destruct vs as [|x [|]]; try discriminate.
    change (schema_ok (TPeek al)) with (nodupN (alt_discs al) && schema_ok_alts al) in Hok.
    apply andb_true_iff in Hok as [Hnd Hok].
    change (typed (TPeek al) (VE tag [x])) with (typed_alts al tag x) in Ht.
    change (wf limit (TPeek al) (VE tag [x])) with (wf_alts limit al tag x) in Hw.
    destruct (nth_alt al tag) as [[d t]|] eqn:Hn;
      [|rewrite typed_alts_none in Ht by exact Hn; discriminate].
    rewrite (typed_alts_nth _ _ _ _ _ Hn) in Ht. rewrite (wf_alts_nth limit _ _ _ _ _ Hn) in Hw.
    destruct (schema_ok_alts_nth _ _ _ _ Hn Hok) as (Hd & Hst & Hsw).
    destruct (IH _ _ _ Hn Hst x Ht Hw) as [S D].
    change (enc_static (TPeek al) (VE tag [x])) with (enc_static_alts al tag x).
    change (enc_dynamic (TPeek al) (VE tag [x])) with (enc_dynamic_alts al tag x).
    change (pend (TPeek al) (VE tag [x])) with (VE tag [pend_alts al tag x]).
    change (erase (TPeek al) (VE tag [x])) with (VE tag [erase_alts al tag x]).
    rewrite (enc_static_alts_nth _ _ _ _ _ Hn), (enc_dynamic_alts_nth _ _ _ _ _ Hn).
    rewrite (pend_alts_nth _ _ _ _ _ Hn), (erase_alts_nth _ _ _ _ _ Hn).
    split; intros rest.
    + destruct (proj1 starts_with_all t d x Hsw Ht) as [tl Etl].
      assert (Htake : take 8 (enc_static t x ++ rest) = Ok (be8 d, tl ++ rest))
        by (rewrite Etl, <- app_assoc; apply take_app; apply be8_length).
      cbn [dec_static]. rewrite Htake. cbn [bind].
      unfold be8 at 1. rewrite be_decode_encode by (rewrite pow256_8; exact Hd).
      rewrite (dec_static_alts_nth limit al 0 tag d t _ Hnd Hn). rewrite S. reflexivity.
    + cbn [dec_dynamic]. rewrite (dec_dynamic_alts_nth limit _ _ _ _ _ _ Hn), D. reflexivity.
  - (* FNil *)
    intros _ [] Ht Hw; try discriminate. split; intros rest; reflexivity.
  - (* FCons *)
    intros n sk t r It Ir Hok [|v vs] Ht Hw; try discriminate.
    rewrite schema_ok_fields_cons in Hok. rewrite typed_fields_cons in Ht. rewrite wf_fields_cons in Hw.
    apply andb_true_iff in Hok as [Hok1 Hok2]. apply andb_true_iff in Ht as [Ht1 Ht2].
    apply andb_true_iff in Hw as [Hw1 Hw2].
    destruct (Ir Hok2 vs Ht2 Hw2) as [Sr Dr].
    rewrite enc_static_fields_cons, enc_dynamic_fields_cons, pend_fields_cons, erase_fields_cons.
    split; intros rest.
    + rewrite dec_static_fields_cons. destruct sk; cbn [orb] in *.
      * cbn [app bind]. rewrite Sr. reflexivity.
      * destruct (It Hok1 v Ht1 Hw1) as [S _]. rewrite <- app_assoc, S. cbn [bind]. rewrite Sr. reflexivity.
    + rewrite dec_dynamic_fields_cons. destruct sk; cbn [orb] in *.
      * cbn [app bind]. rewrite Dr. reflexivity.
      * destruct (It Hok1 v Ht1 Hw1) as [_ D]. rewrite <- app_assoc, D. cbn [bind]. rewrite Dr. reflexivity.
Qed.

(* Deserialize::decode after Serialize::encode *)
Theorem dec_enc t v rest :
  schema_ok t = true -> typed t v = true -> wf limit t v = true ->
  dec limit t (enc t v ++ rest) = Ok (erase t v, rest).
Proof.
  intros Hok Ht Hw. destruct (proj1 roundtrip_all t Hok v Ht Hw) as [S D].
  unfold dec, enc. rewrite <- app_assoc, S. cbn [bind]. apply D.
Qed.

End Roundtrip.
