(* Codec/CodecTotal.v — the model decoder never returns its model-only error [ModelStuck]:
   every result is Ok or one of the Rust error values.  (ModelStuck marks the two places where
   the model is partial: an ill-shaped partially decoded object handed to decode_dynamic, and
   the Vec<T> loop running out of fuel; neither is reachable.) *)
From Coq Require Import Arith PeanoNat.
From FV Require Export Codec.CodecSound.
Open Scope N_scope.

Definition stuck {A} (r : result A) : Prop := r = Err ModelStuck.

Lemma bind_stuck {A B} (r : result A) (f : A -> result B) :
  stuck (bind r f) -> stuck r \/ exists a, r = Ok a /\ stuck (f a).
Proof. unfold stuck. intros H. destruct r; cbn in H; [right; eauto | left; injection H as ->; reflexivity]. Qed.

Lemma take_not_stuck n b : ~ stuck (take n b).
Proof. unfold stuck, take. destruct (Nat.leb n (length b)); discriminate. Qed.
Lemma skip_not_stuck n b : ~ stuck (skip n b).
Proof.
  unfold skip. intros H. apply bind_stuck in H as [H|[[x r] [_ H]]]; [exact (take_not_stuck _ _ H) | discriminate H].
Qed.
Lemma takeN_not_stuck n b : ~ stuck (takeN n b).
Proof. unfold stuck, takeN. destruct (n <=? lenN b); discriminate. Qed.
Lemma skipN_not_stuck n b : ~ stuck (skipN n b).
Proof.
  unfold skipN. intros H. apply bind_stuck in H as [H|[[x r] [_ H]]]; [exact (takeN_not_stuck _ _ H) | discriminate H].
Qed.
Lemma read_uint_not_stuck w b : ~ stuck (read_uint w b).
Proof.
  unfold read_uint. intros H. apply bind_stuck in H as [H|[r [_ H]]]; [exact (skip_not_stuck _ _ H)|].
  apply bind_stuck in H as [H|[[x r'] [_ H]]]; [exact (take_not_stuck _ _ H) | discriminate H].
Qed.

Section Total.
Variable limit : N.
Hypothesis limit_lt : limit < U64.

Lemma vec_header_not_stuck b : ~ stuck (dec_vec_header limit b).
Proof.
  unfold dec_vec_header. intros H. apply bind_stuck in H as [H|[[n r] [_ H]]]; [exact (read_uint_not_stuck _ _ H)|].
  destruct (limit <? n); discriminate H.
Qed.
Lemma dec_policy_values_not_stuck bits : forall ks b, ~ stuck (dec_policy_values ks bits b).
Proof.
  induction ks as [|k ks IH]; intros b H; cbn [dec_policy_values] in H; [discriminate H|].
  apply bind_stuck in H as [H|[[v r] [_ H]]].
  - destruct (N.testbit bits k); [exact (read_uint_not_stuck _ _ H) | discriminate H].
  - apply bind_stuck in H as [H|[[vs r'] [_ H]]]; [exact (IH _ H) | discriminate H].
Qed.

(* the Vec<T> loop: the element decoder is never stuck and consumes at least one byte *)
Lemma dec_many_not_stuck (d : bytes -> result (val * bytes)) :
  (forall b, wf_bytes b = true -> ~ stuck (d b)) ->
  (forall b v r, wf_bytes b = true -> d b = Ok (v, r) -> exists c, b = c ++ r /\ (1 <= length c)%nat) ->
  forall fuel n b, wf_bytes b = true -> (length b <= fuel)%nat -> ~ stuck (dec_many d fuel n b).
Proof.
  intros Hns Hc. induction fuel as [|f IH]; intros n b Hw Hl H; cbn [dec_many] in H.
  - destruct (n =? 0); [discriminate H|].
    destruct (d b) as [[v r]|e] eqn:E.
    + destruct (Hc b v r Hw E) as (c & Eb & Lc). rewrite Eb, app_length in Hl. lia.
    + apply (Hns b Hw). unfold stuck in *. rewrite E. injection H as ->. reflexivity.
  - destruct (n =? 0); [discriminate H|].
    apply bind_stuck in H as [H|[[v b1] [E H]]]; [exact (Hns b Hw H)|].
    destruct (Hc b v b1 Hw E) as (c & Eb & Lc).
    assert (Hw1 : wf_bytes b1 = true) by (rewrite Eb in Hw; exact (wf_bytes_app_r _ _ Hw)).
    apply bind_stuck in H as [H|[[vs b2] [_ H]]]; [|discriminate H].
    apply (IH (n - 1) b1 Hw1); [|exact H]. rewrite Eb, app_length in Hl. lia.
Qed.

Definition NS (t : ty) : Prop :=
  schema_ok t = true -> forall b, wf_bytes b = true -> ~ stuck (dec_static limit t b).
Definition ND (t : ty) : Prop :=
  schema_ok t = true -> forall p b, pok limit t p = true -> wf_bytes b = true -> ~ stuck (dec_dynamic limit t p b).
Definition NSf (fs : fields) : Prop :=
  schema_ok_fields fs = true -> forall b, wf_bytes b = true -> ~ stuck (dec_static_fields limit fs b).
Definition NDf (fs : fields) : Prop :=
  schema_ok_fields fs = true -> forall ps b, pok_fields limit fs ps = true -> wf_bytes b = true ->
  ~ stuck (dec_dynamic_fields limit fs ps b).

Lemma dec_static_variants_not_stuck vars :
  (forall i d fs, nth_variant vars i = Some (d, fs) -> NSf fs) -> schema_ok_variants vars = true ->
  forall d k b, wf_bytes b = true -> ~ stuck (dec_static_variants limit vars d k b).
Proof.
  induction vars as [|n d' fs' r IH]; intros Hf Hok d k b Hw H; cbn [dec_static_variants] in H; [discriminate H|].
  cbn [schema_ok_variants] in Hok. apply andb_true_iff in Hok as [Hok Hr]. apply andb_true_iff in Hok as [_ Hf'].
  destruct (d =? d').
  - apply bind_stuck in H as [H|[[vs b'] [_ H]]]; [|discriminate H].
    exact (Hf 0%nat d' fs' eq_refl Hf' b Hw H).
  - apply (IH (fun i d0 fs0 Hn => Hf (S i) d0 fs0 Hn) Hr d (S k) b Hw H).
Qed.
Lemma dec_static_alts_not_stuck al :
  (forall i d t, nth_alt al i = Some (d, t) -> NS t) -> schema_ok_alts al = true ->
  forall d k b, wf_bytes b = true -> ~ stuck (dec_static_alts limit al d k b).
Proof.
  induction al as [|n d' t' r IH]; intros Hf Hok d k b Hw H; cbn [dec_static_alts] in H; [discriminate H|].
  cbn [schema_ok_alts] in Hok. apply andb_true_iff in Hok as [Hok Hr]. apply andb_true_iff in Hok as [Hok _].
  apply andb_true_iff in Hok as [_ Ht'].
  destruct (d =? d').
  - apply bind_stuck in H as [H|[[q b'] [_ H]]]; [|discriminate H].
    exact (Hf 0%nat d' t' eq_refl Ht' b Hw H).
  - apply (IH (fun i d0 t0 Hn => Hf (S i) d0 t0 Hn) Hr d (S k) b Hw H).
Qed.

Lemma total_all : (forall t, NS t /\ ND t) /\ (forall fs, NSf fs /\ NDf fs).
Proof.
  apply schema_ind2.
  - (* TUInt *) intros w. split.
    + intros _ b _ H. cbn [dec_static] in H. apply bind_stuck in H as [H|[[n r] [_ H]]];
        [exact (read_uint_not_stuck _ _ H) | discriminate H].
    + intros _ p b _ _ H. discriminate H.
  - (* TBytesN *) intros n. split.
    + intros _ b _ H. cbn [dec_static] in H. apply bind_stuck in H as [H|[[x r] [_ H]]]; [exact (take_not_stuck _ _ H)|].
      apply bind_stuck in H as [H|[r' [_ H]]]; [exact (skip_not_stuck _ _ H) | discriminate H].
    + intros _ p b _ _ H. discriminate H.
  - (* TByteVec *) split.
    + intros _ b _ H. exact (vec_header_not_stuck b H).
    + intros _ p b Pp _ H. destruct p; try discriminate Pp. cbn [dec_dynamic] in H.
      apply bind_stuck in H as [H|[[x r] [_ H]]]; [exact (takeN_not_stuck _ _ H)|].
      apply bind_stuck in H as [H|[r' [_ H]]]; [exact (skipN_not_stuck _ _ H) | discriminate H].
  - (* TVec *) intros t [Nt Dt]. split.
    + intros _ b _ H. exact (vec_header_not_stuck b H).
    + intros Hok p b Pp Hw H. destruct p; try discriminate Pp.
      change (schema_ok (TVec t)) with (schema_ok t && tpos t) in Hok. apply andb_true_iff in Hok as [Hok Hpos].
      cbn [dec_dynamic] in H. apply bind_stuck in H as [H|[[vs r] [_ H]]]; [|discriminate H].
      destruct (proj1 (sound_all limit limit_lt) t) as [St Dst].
      revert H. apply dec_many_not_stuck; auto.
      * intros b' Hw' H. apply bind_stuck in H as [H|[[q r] [E H]]]; [exact (Nt Hok b' Hw' H)|].
        destruct (St Hok b' q r Hw' E) as (c & Eb & _ & Pq).
        assert (Hw1 : wf_bytes r = true) by (rewrite Eb in Hw'; exact (wf_bytes_app_r _ _ Hw')).
        exact (Dt Hok q r Pq Hw1 H).
      * intros b' v r Hw' H. apply bind_ok in H as [[q r1] [E1 E2]].
        destruct (St Hok b' q r1 Hw' E1) as (c1 & Eb1 & L1 & Pq).
        assert (Hw1 : wf_bytes r1 = true) by (rewrite Eb1 in Hw'; exact (wf_bytes_app_r _ _ Hw')).
        destruct (Dst Hok q r1 v r Pq Hw1 E2) as (c2 & Eb2 & L2 & T & _ & _ & Pe).
        exists (c1 ++ c2). split; [rewrite Eb1, Eb2, app_assoc; reflexivity|].
        rewrite app_length, L1, <- Pe, (proj1 slen_pend_all t v T).
        pose proof (proj1 tpos_len_all t Hok Hpos v T). lia.
  - (* TStruct *) intros pf fs [Nf Df]. split.
    + intros Hok b Hw H.
      change (schema_ok (TStruct pf fs)) with ((match pf with Some d => d <? U64 | None => true end) && schema_ok_fields fs) in Hok.
      apply andb_true_iff in Hok as [_ Hok].
      cbn [dec_static] in H. apply bind_stuck in H as [H|[r1 [E H]]].
      * destruct pf as [d|]; cbn [check_prefix] in H; [|discriminate H].
        destruct (read_word b) as [[x r]|]; [destruct (x =? d)|]; discriminate H.
      * assert (Hw1 : wf_bytes r1 = true).
        { destruct pf as [d|]; cbn [check_prefix] in E.
          - destruct (read_word b) as [[x r]|] eqn:Er; [|discriminate E]. destruct (x =? d); [|discriminate E].
            injection E as <-. apply read_word_inv in Er as (c & Eb & _). rewrite Eb in Hw. exact (wf_bytes_app_r _ _ Hw).
          - injection E as <-. exact Hw. }
        apply bind_stuck in H as [H|[[ps r2] [_ H]]]; [exact (Nf Hok r1 Hw1 H) | discriminate H].
    + intros Hok p b Pp Hw H.
      change (schema_ok (TStruct pf fs)) with ((match pf with Some d => d <? U64 | None => true end) && schema_ok_fields fs) in Hok.
      apply andb_true_iff in Hok as [_ Hok].
      destruct p as [| | | |ps| |]; try discriminate Pp.
      cbn [dec_dynamic] in H. apply bind_stuck in H as [H|[[vs r] [_ H]]]; [exact (Df Hok ps b Pp Hw H) | discriminate H].
  - (* TEnum *) intros vars IH. split.
    + intros Hok b Hw H.
      change (schema_ok (TEnum vars)) with (nodupN (variant_discs vars) && schema_ok_variants vars) in Hok.
      apply andb_true_iff in Hok as [_ Hok].
      cbn [dec_static] in H. apply bind_stuck in H as [H|[[d r1] [E H]]]; [exact (read_uint_not_stuck _ _ H)|].
      apply read_word_inv in E as (c & Eb & _).
      assert (Hw1 : wf_bytes r1 = true) by (rewrite Eb in Hw; exact (wf_bytes_app_r _ _ Hw)).
      revert H. apply dec_static_variants_not_stuck; auto. intros i d0 fs0 Hn. exact (proj1 (IH i d0 fs0 Hn)).
    + intros Hok p b Pp Hw H.
      change (schema_ok (TEnum vars)) with (nodupN (variant_discs vars) && schema_ok_variants vars) in Hok.
      apply andb_true_iff in Hok as [_ Hok].
      destruct p as [| | | | |i ps|]; try discriminate Pp.
      change (pok limit (TEnum vars) (VE i ps)) with (pok_variants limit vars i ps) in Pp.
      destruct (nth_variant vars i) as [[d fs]|] eqn:Hn; [|rewrite pok_variants_none in Pp by exact Hn; discriminate].
      rewrite (pok_variants_nth limit _ _ _ _ _ Hn) in Pp.
      destruct (schema_ok_variants_nth _ _ _ _ Hn Hok) as [_ Hf].
      cbn [dec_dynamic] in H. apply bind_stuck in H as [H|[[vs r] [_ H]]]; [|discriminate H].
      rewrite (dec_dynamic_variants_nth limit _ _ _ _ _ _ Hn) in H.
      exact (proj2 (IH _ _ _ Hn) Hf ps b Pp Hw H).
  - (* TEmpty *) intros t [Nt _]. split.
    + intros Hok b Hw H.
      change (schema_ok (TEmpty t)) with (schema_ok t && flat t) in Hok. apply andb_true_iff in Hok as [Hok _].
      cbn [dec_static] in H. apply bind_stuck in H as [H|[[q r] [_ H]]]; [exact (Nt Hok b Hw H) | discriminate H].
    + intros _ p b _ _ H. discriminate H.
  - (* TOpaque *) intros s. split; intros Hok; discriminate.
  - (* TPolicies *) split.
    + intros _ b _ H. cbn [dec_static] in H. apply bind_stuck in H as [H|[[bits r] [_ H]]]; [exact (read_uint_not_stuck _ _ H)|].
      destruct (64 <=? bits); discriminate H.
    + intros _ p b Pp _ H. destruct (pok_policies_inv limit p Pp) as (bits & -> & _).
      cbn [dec_dynamic] in H. apply bind_stuck in H as [H|[[vs r] [_ H]]]; [exact (dec_policy_values_not_stuck _ _ _ H)|].
      destruct (N.testbit bits 2 && (u32_max <? val_N (nth 2 vs (VN 0)))); [discriminate H|].
      destruct (N.testbit bits 4 && (u32_max <? val_N (nth 4 vs (VN 0)))); discriminate H.
  - (* TInput *)
    intros cf cs cp ct mf mcs mcp mds mdp [N0 _] [_ D1] [_ D2] [N3 D3] [N4 _] [_ D5] [_ D6] [_ D7] [_ D8]. split.
    + intros Hok b Hw H.
      cbn [schema_ok] in Hok. repeat (apply andb_true_iff in Hok as [Hok ?]).
      cbn [dec_static] in H. destruct (read_word b) as [[d r1]|] eqn:Er; [|discriminate H].
      apply read_word_inv in Er as (c & Eb & _).
      assert (Hw1 : wf_bytes r1 = true) by (rewrite Eb in Hw; exact (wf_bytes_app_r _ _ Hw)).
      destruct (d =? 0).
      * apply bind_stuck in H as [H|[[q r] [_ H]]]; [exact (N0 ltac:(assumption) r1 Hw1 H)|].
        destruct (pend_zero "predicate" cf q); discriminate H.
      * destruct (d =? 1).
        -- apply bind_stuck in H as [H|[[q r] [_ H]]]; [exact (N3 ltac:(assumption) r1 Hw1 H) | discriminate H].
        -- destruct (d =? 2); [|discriminate H].
           apply bind_stuck in H as [H|[[q r] [_ H]]]; [exact (N4 ltac:(assumption) r1 Hw1 H)|].
           destruct (pend_zero "data" mf q); destruct (pend_zero "predicate" mf q); discriminate H.
    + intros Hok p b Pp Hw H.
      cbn [schema_ok] in Hok. repeat (apply andb_true_iff in Hok as [Hok ?]).
      destruct p as [| | | | |i ps|]; try discriminate Pp. destruct ps as [|q [|]]; try discriminate Pp.
      change (pok limit (TInput cf cs cp ct mf mcs mcp mds mdp) (VE i [q])) with
        (Nat.ltb i 7 && pok limit (input_sel i cs cp ct mcs mcp mds mdp) q &&
         input_pend_wf i (input_sel i cs cp ct mcs mcp mds mdp) q) in Pp.
      apply andb_true_iff in Pp as [Pp _]. apply andb_true_iff in Pp as [Hi Pq].
      cbn [dec_dynamic] in H. apply bind_stuck in H as [H|[[x r] [_ H]]]; [|discriminate H].
      destruct (lt7_cases limit limit_lt i Hi) as [->|[->|[->|[->|[->|[->| ->]]]]]]; cbn [input_sel] in *.
      * exact (D1 ltac:(assumption) q b Pq Hw H).
      * exact (D2 ltac:(assumption) q b Pq Hw H).
      * exact (D3 ltac:(assumption) q b Pq Hw H).
      * exact (D5 ltac:(assumption) q b Pq Hw H).
      * exact (D6 ltac:(assumption) q b Pq Hw H).
      * exact (D7 ltac:(assumption) q b Pq Hw H).
      * exact (D8 ltac:(assumption) q b Pq Hw H).
  - (* TPeek *) intros al IH. split.
    + intros Hok b Hw H.
      change (schema_ok (TPeek al)) with (nodupN (alt_discs al) && schema_ok_alts al) in Hok.
      apply andb_true_iff in Hok as [_ Hok].
      cbn [dec_static] in H. apply bind_stuck in H as [H|[[x r] [_ H]]]; [exact (take_not_stuck _ _ H)|].
      revert H. apply dec_static_alts_not_stuck; auto. intros i d0 t0 Hn. exact (proj1 (IH i d0 t0 Hn)).
    + intros Hok p b Pp Hw H.
      change (schema_ok (TPeek al)) with (nodupN (alt_discs al) && schema_ok_alts al) in Hok.
      apply andb_true_iff in Hok as [_ Hok].
      destruct p as [| | | | |i ps|]; try discriminate Pp. destruct ps as [|q [|]]; try discriminate Pp.
      change (pok limit (TPeek al) (VE i [q])) with (pok_alts limit al i q) in Pp.
      destruct (nth_alt al i) as [[d t]|] eqn:Hn; [|rewrite pok_alts_none in Pp by exact Hn; discriminate].
      rewrite (pok_alts_nth limit _ _ _ _ _ Hn) in Pp.
      destruct (schema_ok_alts_nth _ _ _ _ Hn Hok) as (_ & Ht & _).
      cbn [dec_dynamic] in H. apply bind_stuck in H as [H|[[x r] [_ H]]]; [|discriminate H].
      rewrite (dec_dynamic_alts_nth limit _ _ _ _ _ _ Hn) in H.
      exact (proj2 (IH _ _ _ Hn) Ht q b Pp Hw H).
  - (* FNil *) split.
    + intros _ b _ H. discriminate H.
    + intros _ ps b Pp _ H. destruct ps; [discriminate H | discriminate Pp].
  - (* FCons *) intros n sk t rf [Nt Dt] [Nr Dr]. split.
    + intros Hok b Hw H. rewrite schema_ok_fields_cons in Hok. apply andb_true_iff in Hok as [Hok1 Hok2].
      rewrite dec_static_fields_cons in H. destruct sk; cbn [orb] in *.
      * cbn [bind] in H. apply bind_stuck in H as [H|[[ps b2] [_ H]]]; [exact (Nr Hok2 b Hw H) | discriminate H].
      * apply bind_stuck in H as [H|[[p b1] [E H]]]; [exact (Nt Hok1 b Hw H)|].
        destruct (proj1 (proj1 (sound_all limit limit_lt) t) Hok1 b p b1 Hw E) as (c & Eb & _).
        assert (Hw1 : wf_bytes b1 = true) by (rewrite Eb in Hw; exact (wf_bytes_app_r _ _ Hw)).
        apply bind_stuck in H as [H|[[ps b2] [_ H]]]; [exact (Nr Hok2 b1 Hw1 H) | discriminate H].
    + intros Hok ps b Pp Hw H. rewrite schema_ok_fields_cons in Hok. apply andb_true_iff in Hok as [Hok1 Hok2].
      destruct ps as [|p ps]; [discriminate Pp|]. rewrite pok_fields_cons in Pp. apply andb_true_iff in Pp as [Pp1 Pp2].
      rewrite dec_dynamic_fields_cons in H. destruct sk; cbn [orb] in *.
      * cbn [bind] in H. apply bind_stuck in H as [H|[[vs b2] [_ H]]]; [exact (Dr Hok2 ps b Pp2 Hw H) | discriminate H].
      * apply bind_stuck in H as [H|[[v b1] [E H]]]; [exact (Dt Hok1 p b Pp1 Hw H)|].
        destruct (proj2 (proj1 (sound_all limit limit_lt) t) Hok1 p b v b1 Pp1 Hw E) as (c & Eb & _).
        assert (Hw1 : wf_bytes b1 = true) by (rewrite Eb in Hw; exact (wf_bytes_app_r _ _ Hw)).
        apply bind_stuck in H as [H|[[vs b2] [_ H]]]; [exact (Dr Hok2 ps b1 Pp2 Hw1 H) | discriminate H].
Qed.

Theorem dec_total t b : schema_ok t = true -> wf_bytes b = true ->
  (exists v rest, dec limit t b = Ok (v, rest)) \/ (exists e, dec limit t b = Err e /\ e <> ModelStuck).
Proof.
  intros Hok Hw. destruct (dec limit t b) as [[v rest]|e] eqn:E; [left; eauto|].
  right. exists e. split; [reflexivity|]. intros ->.
  unfold dec in E. apply bind_stuck in E as [E|[[p r] [E1 E2]]].
  - exact (proj1 (proj1 total_all t) Hok b Hw E).
  - destruct (proj1 (proj1 (sound_all limit limit_lt) t) Hok b p r Hw E1) as (c & Eb & _ & Pp).
    assert (Hw1 : wf_bytes r = true) by (rewrite Eb in Hw; exact (wf_bytes_app_r _ _ Hw)).
    exact (proj2 (proj1 total_all t) Hok p r Pp Hw1 E2).
Qed.

End Total.
