(* Codec/CodecSoundInput.v — decode-side lemmas about Input's CoinFull/FullMessage dispatch and
   about the Vec<T> loop, used by CodecSound.v. *)
From Coq Require Import Arith PeanoNat.
From FV Require Export Codec.CodecSoundFacts.
Open Scope N_scope.

Lemma into_fields_keep n sk t r p ps : not_empty_ty t = true ->
  into_fields (FCons n sk t r) (p :: ps) = p :: into_fields r ps.
Proof. destruct t; try reflexivity. discriminate. Qed.
Lemma into_fields_empty n sk t r p ps :
  into_fields (FCons n sk (TEmpty t) r) (p :: ps) = VUnit :: into_fields r ps.
Proof. reflexivity. Qed.

Section SoundInput.
Variable limit : N.

(* one step of a lock-step induction over (full fields, specialised fields) *)
Lemma spec_of_cons n sk tf r n' sk' ta r' :
  spec_of (FCons n sk tf r) (FCons n' sk' ta r') = true ->
  sk = false /\ sk' = false /\ n = n' /\ spec_of r r' = true /\
  ((ta = tf /\ not_empty_ty ta = true) \/ (ta = TEmpty tf /\ flat tf = true)).
Proof.
  cbn [spec_of]. destruct sk; [discriminate|]. destruct sk'; [discriminate|]. intros H.
  apply andb_true_iff in H as [H Hr]. apply andb_true_iff in H as [Hn H]. apply String.eqb_eq in Hn.
  repeat split; auto. apply orb_true_iff in H as [H|H].
  - apply andb_true_iff in H as [He Hne]. apply ty_eqb_eq in He. left. auto.
  - destruct ta; try discriminate H. apply andb_true_iff in H as [He Hf]. apply ty_eqb_eq in He. subst. right. auto.
Qed.
Lemma spec_of_nil_l afs : spec_of FNil afs = true -> afs = FNil.
Proof. destruct afs; [reflexivity | discriminate]. Qed.
Lemma spec_of_cons_l n sk tf r afs : spec_of (FCons n sk tf r) afs = true ->
  exists n' sk' ta r', afs = FCons n' sk' ta r'.
Proof. destruct afs; [destruct sk; discriminate | eauto]. Qed.

Lemma into_ok ffs : forall afs ps, spec_of ffs afs = true -> pok_fields limit ffs ps = true ->
  pok_fields limit afs (into_fields afs ps) = true /\
  slen_fields afs (into_fields afs ps) = slen_fields ffs ps.
Proof.
  induction ffs as [|n sk tf r IH]; intros afs ps Hs Hp.
  - apply spec_of_nil_l in Hs. subst. destruct ps; [split; reflexivity | discriminate].
  - destruct (spec_of_cons_l _ _ _ _ _ Hs) as (n' & sk' & ta & r' & ->).
    destruct (spec_of_cons _ _ _ _ _ _ _ _ Hs) as (-> & -> & <- & Hr & Hc).
    destruct ps as [|p ps]; [discriminate|].
    rewrite pok_fields_cons in Hp. apply andb_true_iff in Hp as [Hp1 Hp2].
    destruct (IH r' ps Hr Hp2) as [I1 I2].
    destruct Hc as [[-> Hne]|[-> Hfl]].
    + rewrite (into_fields_keep n false tf r' p ps Hne), pok_fields_cons, !slen_fields_cons, Hp1, I1, I2.
      split; reflexivity.
    + rewrite into_fields_empty, pok_fields_cons, !slen_fields_cons, I1, I2. split; [reflexivity|].
      f_equal. change (slen (TEmpty tf) VUnit) with (length (enc_static tf (default_val tf))).
      rewrite (proj1 flat_default_len tf Hfl). symmetry. exact (proj1 (flat_slen_eq limit) tf Hfl p Hp1).
Qed.

Lemma into_get name ffs : forall afs ps ta, spec_of ffs afs = true ->
  field_ty name afs = Some ta -> not_empty_ty ta = true ->
  field_ty name ffs = Some ta /\ get_field name afs (into_fields afs ps) = get_field name ffs ps.
Proof.
  induction ffs as [|n sk tf r IH]; intros afs ps ta Hs Hf Hne.
  - apply spec_of_nil_l in Hs. subst. discriminate.
  - destruct (spec_of_cons_l _ _ _ _ _ Hs) as (n' & sk' & ta' & r' & ->).
    destruct (spec_of_cons _ _ _ _ _ _ _ _ Hs) as (-> & -> & <- & Hr & Hc).
    cbn [field_ty] in Hf |- *.
    destruct ps as [|p ps].
    + destruct (String.eqb n name) eqn:E.
      * injection Hf as ->. destruct Hc as [[-> _]|[-> _]]; [split; [reflexivity | destruct tf; reflexivity] | discriminate Hne].
      * destruct (IH r' [] ta Hr Hf Hne) as [I1 _]. split; [exact I1|].
        destruct ta'; reflexivity.
    + destruct (String.eqb n name) eqn:E.
      * injection Hf as ->. destruct Hc as [[-> _]|[-> _]]; [|discriminate Hne].
        rewrite (into_fields_keep n false tf r' p ps Hne). cbn [get_field]. rewrite E. split; reflexivity.
      * destruct (IH r' ps ta Hr Hf Hne) as [I1 I2]. split; [exact I1|].
        destruct Hc as [[-> Hne']|[-> _]].
        -- rewrite (into_fields_keep n false tf r' p ps Hne'). cbn [get_field]. rewrite E. exact I2.
        -- rewrite into_fields_empty. cbn [get_field]. rewrite E. exact I2.
Qed.

Lemma pok_get name ffs : forall afs ps tf, spec_of ffs afs = true -> pok_fields limit ffs ps = true ->
  field_ty name ffs = Some tf -> exists q, get_field name ffs ps = Some q /\ pok limit tf q = true.
Proof.
  induction ffs as [|n sk tf' r IH]; intros afs ps tf Hs Hp Hf; [discriminate|].
  destruct (spec_of_cons_l _ _ _ _ _ Hs) as (n' & sk' & ta' & r' & ->).
  destruct (spec_of_cons _ _ _ _ _ _ _ _ Hs) as (-> & -> & <- & Hr & _).
  destruct ps as [|p ps]; [discriminate|].
  rewrite pok_fields_cons in Hp. apply andb_true_iff in Hp as [Hp1 Hp2].
  cbn [field_ty get_field] in Hf |- *. destruct (String.eqb n name).
  - injection Hf as ->. eauto.
  - exact (IH r' ps tf Hr Hp2 Hf).
Qed.

Lemma pok_bytes_like t q : bytes_like t = true -> pok limit t q = true -> exists n, leaf q = VPend n.
Proof.
  intros H Hp. destruct (bytes_like_inv t H) as [->|[n ->]].
  - destruct q; try discriminate. eexists; reflexivity.
  - destruct q as [| | | |ps| |]; try discriminate.
    change (pok limit (TStruct None (FCons n false TByteVec FNil)) (VS ps)) with
      (pok_fields limit (FCons n false TByteVec FNil) ps) in Hp.
    destruct ps as [|p ps]; [discriminate|]. rewrite pok_fields_cons in Hp.
    apply andb_true_iff in Hp as [Hp1 Hp2]. destruct ps; [|discriminate].
    destruct p; try discriminate. eexists. reflexivity.
Qed.

(* the fields of a specialised value, after the static phase *)
Lemma get_field_pend name ffs : forall afs vs ta, spec_of ffs afs = true -> typed_fields afs vs = true ->
  field_ty name afs = Some ta ->
  exists x, get_field name afs vs = Some x /\ typed ta x = true /\
            get_field name afs (pend_fields afs vs) = Some (pend ta x).
Proof.
  induction ffs as [|n sk tf r IH]; intros afs vs ta Hs Ht Hf.
  - apply spec_of_nil_l in Hs. subst. discriminate.
  - destruct (spec_of_cons_l _ _ _ _ _ Hs) as (n' & sk' & ta' & r' & ->).
    destruct (spec_of_cons _ _ _ _ _ _ _ _ Hs) as (-> & -> & <- & Hr & _).
    destruct vs as [|v vs]; [discriminate|].
    rewrite typed_fields_cons in Ht. apply andb_true_iff in Ht as [Ht1 Ht2]. cbn [orb] in Ht1.
    rewrite pend_fields_cons. cbn [field_ty get_field] in Hf |- *. destruct (String.eqb n name).
    + injection Hf as ->. eauto.
    + exact (IH r' vs ta Hr Ht2 Hf).
Qed.

Lemma input_dispatch_sound full alt pf :
  spec_ty full alt = true -> pok limit full pf = true ->
  pok limit alt (into alt pf) = true /\ slen alt (into alt pf) = slen full pf /\
  forall name, field_is name full bytes_like = true -> field_is name alt not_empty_ty = true ->
    pend_zero name full pf = false -> pend_nonzero name alt (into alt pf) = true.
Proof.
  intros Hs Hp.
  destruct full as [| | | |pf0 ffs| | | | | |]; try discriminate Hs. destruct pf0; [discriminate Hs|].
  destruct alt as [| | | |pa afs| | | | | |]; try discriminate Hs. destruct pa; [discriminate Hs|].
  cbn [spec_ty] in Hs. destruct pf as [| | | |ps| |]; try discriminate Hp.
  change (pok limit (TStruct None ffs) (VS ps)) with (pok_fields limit ffs ps) in Hp.
  destruct (into_ok ffs afs ps Hs Hp) as [I1 I2].
  change (into (TStruct None afs) (VS ps)) with (VS (into_fields afs ps)).
  split; [exact I1|]. split.
  - change (0 + slen_fields afs (into_fields afs ps) = 0 + slen_fields ffs ps)%nat. rewrite I2. reflexivity.
  - intros name Hb Hk Hz. unfold field_is, sfield_ty in Hb, Hk.
    destruct (field_ty name afs) as [ta|] eqn:Hfa; [|discriminate].
    destruct (into_get name ffs afs ps ta Hs Hfa Hk) as [Hff G].
    rewrite Hff in Hb.
    destruct (pok_get name ffs afs ps ta Hs Hp Hff) as (q & Gq & Pq).
    destruct (pok_bytes_like ta q Hb Pq) as [n Ln].
    unfold pend_zero, pend_nonzero, struct_field in *. rewrite G, Gq. rewrite Gq, Ln in Hz. rewrite Ln, Hz. reflexivity.
Qed.

Lemma nonzero_nonempty full alt v name :
  spec_ty full alt = true -> field_is name full bytes_like = true -> field_is name alt not_empty_ty = true ->
  typed alt v = true -> pend_nonzero name alt (pend alt v) = true -> nonempty_field name alt v = true.
Proof.
  intros Hs Hb Hk Ht Hz.
  destruct full as [| | | |pf0 ffs| | | | | |]; try discriminate Hs. destruct pf0; [discriminate Hs|].
  destruct alt as [| | | |pa afs| | | | | |]; try discriminate Hs. destruct pa; [discriminate Hs|].
  cbn [spec_ty] in Hs. destruct v as [| | | |vs| |]; try discriminate Ht.
  change (typed (TStruct None afs) (VS vs)) with (true && typed_fields afs vs) in Ht. cbn [andb] in Ht.
  unfold field_is, sfield_ty in Hb, Hk.
  destruct (field_ty name afs) as [ta|] eqn:Hfa; [|discriminate].
  destruct (into_get name ffs afs [] ta Hs Hfa Hk) as [Hff _]. rewrite Hff in Hb.
  destruct (get_field_pend name ffs afs vs ta Hs Ht Hfa) as (x & G1 & Tx & G2).
  destruct (bytes_like_pend ta x Hb Tx) as (bs & L1 & L2).
  change (pend (TStruct None afs) (VS vs)) with (VS (pend_fields afs vs)) in Hz.
  unfold pend_nonzero, nonempty_field, struct_field in *.
  rewrite G2, L2 in Hz. rewrite G1, L1. destruct bs; [discriminate Hz | reflexivity].
Qed.

End SoundInput.

(* ---------------------------------------------------------------- Vec<T> loop, inverted *)
Lemma dec_many_inv (d : bytes -> result (val * bytes)) (e : val -> bytes) (Q : val -> Prop) :
  (forall b v r, wf_bytes b = true -> d b = Ok (v, r) -> Q v /\ exists c, b = c ++ r /\ length c = length (e v)) ->
  forall fuel n b vs r, wf_bytes b = true -> dec_many d fuel n b = Ok (vs, r) ->
    lenN vs = n /\ Forall Q vs /\ exists c, b = c ++ r /\ length c = length (flat_map e vs).
Proof.
  intros Hd. induction fuel as [|f IH]; intros n b vs r Hw H.
  - cbn [dec_many] in H. destruct (N.eqb_spec n 0) as [->|Hn].
    + injection H as <- <-. repeat split; [constructor|]. exists []. split; reflexivity.
    + destruct (d b) as [[? ?]|]; discriminate.
  - cbn [dec_many] in H. destruct (N.eqb_spec n 0) as [->|Hn].
    + injection H as <- <-. repeat split; [constructor|]. exists []. split; reflexivity.
    + apply bind_ok in H as [[v b1] [H1 H2]]. apply bind_ok in H2 as [[vs' b2] [H2 H3]].
      injection H3 as <- <-.
      destruct (Hd b v b1 Hw H1) as [Qv [c1 [E1 L1]]].
      assert (Hw1 : wf_bytes b1 = true) by (rewrite E1 in Hw; exact (wf_bytes_app_r _ _ Hw)).
      destruct (IH (n - 1) b1 vs' b2 Hw1 H2) as (Ln & Fq & c2 & E2 & L2).
      split; [unfold lenN in *; cbn [length]; lia|]. split; [constructor; assumption|].
      exists (c1 ++ c2). split; [rewrite E1, E2, app_assoc; reflexivity|].
      cbn [flat_map]. rewrite !app_length, L1, L2. reflexivity.
Qed.
