(* Codec/CodecFacts.v — schema well-formedness (boolean, checked by vm_compute on the generated
   schemas), a usable induction principle for the mutual universe, buffer lemmas and the
   "unfold by index" lemmas for variants / alternatives. *)
From Coq Require Import Arith PeanoNat.
From FV Require Export Codec.CodecModel.
Open Scope N_scope.

(* ---------------------------------------------------------------- induction principle *)
Section Ind.
  Variable P : ty -> Prop.
  Variable Pf : fields -> Prop.
  Hypothesis HUInt : forall w, P (TUInt w).
  Hypothesis HBytesN : forall n, P (TBytesN n).
  Hypothesis HByteVec : P TByteVec.
  Hypothesis HVec : forall t, P t -> P (TVec t).
  Hypothesis HStruct : forall p fs, Pf fs -> P (TStruct p fs).
  Hypothesis HEnum : forall vs, (forall i d fs, nth_variant vs i = Some (d, fs) -> Pf fs) -> P (TEnum vs).
  Hypothesis HEmpty : forall t, P t -> P (TEmpty t).
  Hypothesis HOpaque : forall s, P (TOpaque s).
  Hypothesis HPolicies : P TPolicies.
  Hypothesis HInput : forall cf cs cp ct mf mcs mcp mds mdp,
      P cf -> P cs -> P cp -> P ct -> P mf -> P mcs -> P mcp -> P mds -> P mdp ->
      P (TInput cf cs cp ct mf mcs mcp mds mdp).
  Hypothesis HPeek : forall al, (forall i d t, nth_alt al i = Some (d, t) -> P t) -> P (TPeek al).
  Hypothesis HFNil : Pf FNil.
  Hypothesis HFCons : forall n sk t r, P t -> Pf r -> Pf (FCons n sk t r).

  Lemma schema_ind2 : (forall t, P t) /\ (forall fs, Pf fs).
  Proof.
    pose (Pv := fun vs => forall i d fs, nth_variant vs i = Some (d, fs) -> Pf fs).
    pose (Pa := fun al => forall i d t, nth_alt al i = Some (d, t) -> P t).
    assert (H : (forall t, P t) /\ (forall fs, Pf fs) /\ (forall vs, Pv vs) /\ (forall al, Pa al)).
    { apply schema_mutind; subst Pv Pa; cbv beta.
      - exact HUInt.
      - exact HBytesN.
      - exact HByteVec.
      - exact HVec.
      - exact HStruct.
      - intros vs Hv. apply HEnum. exact Hv.
      - exact HEmpty.
      - exact HOpaque.
      - exact HPolicies.
      - intros. apply HInput; assumption.
      - intros al Ha. apply HPeek. exact Ha.
      - exact HFNil.
      - intros. apply HFCons; assumption.
      - intros i d fs H. destruct i; discriminate.
      - intros name d fs Hfs rest Hr i d' fs' H. destruct i as [|j]; cbn [nth_variant] in H.
        + injection H as <- <-. exact Hfs.
        + eapply Hr; eauto.
      - intros i d t H. destruct i; discriminate.
      - intros name d t Ht rest Hr i d' t' H. destruct i as [|j]; cbn [nth_alt] in H.
        + injection H as <- <-. exact Ht.
        + eapply Hr; eauto. }
    destruct H as (H1 & H2 & _). split; assumption.
  Qed.
End Ind.

(* ---------------------------------------------------------------- schema well-formedness *)
Fixpoint nodupN (l : list N) : bool :=
  match l with
  | [] => true
  | x :: r => negb (existsb (N.eqb x) r) && nodupN r
  end.

(* types whose Default is modelled by default_val and whose static length does not depend on
   the value: what Empty<_> may wrap *)
Fixpoint flat (t : ty) : bool :=
  match t with
  | TUInt _ | TBytesN _ | TByteVec | TVec _ => true
  | TStruct p fs => (match p with Some d => d <? U64 | None => true end) && flat_fields fs
  | _ => false
  end
with flat_fields (fs : fields) : bool :=
  match fs with
  | FNil => true
  | FCons _ sk t r => negb sk && flat t && flat_fields r
  end.

(* the static part is never empty (Vec<T> element types: the decode loop then consumes input) *)
Fixpoint tpos (t : ty) : bool :=
  match t with
  | TUInt w => Nat.ltb 0 w
  | TBytesN n => Nat.ltb 0 n
  | TByteVec | TVec _ | TEnum _ | TPolicies | TInput _ _ _ _ _ _ _ _ _ => true
  | TStruct (Some _) _ => true
  | TStruct None fs => tpos_fields fs
  | TEmpty t' => tpos t'
  | TOpaque _ => false
  | TPeek al => tpos_alts al
  end
with tpos_fields (fs : fields) : bool :=
  match fs with
  | FNil => false
  | FCons _ sk t r => (negb sk && tpos t) || tpos_fields r
  end
with tpos_alts (al : alts) : bool :=
  match al with
  | ANil => true
  | ACons _ _ t r => tpos t && tpos_alts r
  end.

(* the encoding of every value of t starts with the word d (Transaction's discriminant peek) *)
Fixpoint starts_with (d : N) (t : ty) : bool :=
  match t with
  | TStruct (Some p) _ => p =? d
  | TStruct None (FCons _ false t' _) => starts_with d t'
  | _ => false
  end.

(* byte-vector-like field types whose pending capacity Input::decode_static inspects *)
Definition bytes_like (t : ty) : bool :=
  match t with
  | TByteVec => true
  | TStruct None (FCons _ false TByteVec FNil) => true
  | _ => false
  end.

Fixpoint ty_eqb (a b : ty) {struct a} : bool :=
  match a, b with
  | TUInt x, TUInt y => Nat.eqb x y
  | TBytesN x, TBytesN y => Nat.eqb x y
  | TByteVec, TByteVec => true
  | TVec x, TVec y => ty_eqb x y
  | TStruct p fs, TStruct q gs =>
      (match p, q with Some x, Some y => x =? y | None, None => true | _, _ => false end) && fields_eqb fs gs
  | TEnum vs, TEnum ws => variants_eqb vs ws
  | TEmpty x, TEmpty y => ty_eqb x y
  | TOpaque x, TOpaque y => String.eqb x y
  | TPolicies, TPolicies => true
  | TInput a1 a2 a3 a4 a5 a6 a7 a8 a9, TInput b1 b2 b3 b4 b5 b6 b7 b8 b9 =>
      ty_eqb a1 b1 && ty_eqb a2 b2 && ty_eqb a3 b3 && ty_eqb a4 b4 && ty_eqb a5 b5 &&
      ty_eqb a6 b6 && ty_eqb a7 b7 && ty_eqb a8 b8 && ty_eqb a9 b9
  | TPeek x, TPeek y => alts_eqb x y
  | _, _ => false
  end
with fields_eqb (a b : fields) {struct a} : bool :=
  match a, b with
  | FNil, FNil => true
  | FCons n s t r, FCons n' s' t' r' => String.eqb n n' && Bool.eqb s s' && ty_eqb t t' && fields_eqb r r'
  | _, _ => false
  end
with variants_eqb (a b : variants) {struct a} : bool :=
  match a, b with
  | VNil, VNil => true
  | VCons n d fs r, VCons n' d' fs' r' => String.eqb n n' && (d =? d') && fields_eqb fs fs' && variants_eqb r r'
  | _, _ => false
  end
with alts_eqb (a b : alts) {struct a} : bool :=
  match a, b with
  | ANil, ANil => true
  | ACons n d t r, ACons n' d' t' r' => String.eqb n n' && (d =? d') && ty_eqb t t' && alts_eqb r r'
  | _, _ => false
  end.

Lemma ty_eqb_eq_all :
  (forall a b, ty_eqb a b = true -> a = b) /\ (forall a b, fields_eqb a b = true -> a = b) /\
  (forall a b, variants_eqb a b = true -> a = b) /\ (forall a b, alts_eqb a b = true -> a = b).
Proof.
  apply schema_mutind.
  - intros w [] H; try discriminate. cbn in H. apply Nat.eqb_eq in H. congruence.
  - intros n [] H; try discriminate. cbn in H. apply Nat.eqb_eq in H. congruence.
  - intros [] H; try discriminate. reflexivity.
  - intros t IH [] H; try discriminate. cbn in H. f_equal. auto.
  - intros p fs IH [] H; try discriminate. cbn in H. apply andb_true_iff in H as [H1 H2].
    apply IH in H2. subst. destruct p, prefix; try discriminate; [apply N.eqb_eq in H1; subst|]; reflexivity.
  - intros vs IH [] H; try discriminate. cbn in H. f_equal. auto.
  - intros t IH [] H; try discriminate. cbn in H. f_equal. auto.
  - intros s [] H; try discriminate. cbn in H. apply String.eqb_eq in H. congruence.
  - intros [] H; try discriminate. reflexivity.
  - intros a1 I1 a2 I2 a3 I3 a4 I4 a5 I5 a6 I6 a7 I7 a8 I8 a9 I9 [] H; try discriminate. cbn in H.
    repeat (apply andb_true_iff in H as [H ?]).
    f_equal; auto.
  - intros al IH [] H; try discriminate. cbn in H. f_equal. auto.
  - intros [] H; try discriminate. reflexivity.
  - intros n s t It r Ir [] H; try discriminate. cbn in H.
    repeat (apply andb_true_iff in H as [H ?]).
    apply String.eqb_eq in H. apply Bool.eqb_prop in H2. f_equal; auto.
  - intros [] H; try discriminate. reflexivity.
  - intros n d fs If r Ir [] H; try discriminate. cbn in H.
    repeat (apply andb_true_iff in H as [H ?]).
    apply String.eqb_eq in H. apply N.eqb_eq in H2. f_equal; auto.
  - intros [] H; try discriminate. reflexivity.
  - intros n d t It r Ir [] H; try discriminate. cbn in H.
    repeat (apply andb_true_iff in H as [H ?]).
    apply String.eqb_eq in H. apply N.eqb_eq in H2. f_equal; auto.
Qed.
Lemma ty_eqb_eq a b : ty_eqb a b = true -> a = b.
Proof. apply ty_eqb_eq_all. Qed.

Definition is_empty_ty (t : ty) : bool := match t with TEmpty _ => true | _ => false end.
Definition not_empty_ty (t : ty) : bool := negb (is_empty_ty t).

(* exact relation full/alt: same names, every alt field is the full field or Empty<full field> *)
Fixpoint spec_of (ffs afs : fields) : bool :=
  match ffs, afs with
  | FNil, FNil => true
  | FCons n false tf r, FCons n' false ta r' =>
      String.eqb n n' &&
      ((ty_eqb ta tf && not_empty_ty ta) ||
       (match ta with TEmpty tf' => ty_eqb tf' tf && flat tf | _ => false end)) &&
      spec_of r r'
  | _, _ => false
  end.
Definition spec_ty (full alt : ty) : bool :=
  match full, alt with
  | TStruct None ffs, TStruct None afs => spec_of ffs afs
  | _, _ => false
  end.

(* type of the field called name *)
Fixpoint field_ty (name : string) (fs : fields) : option ty :=
  match fs with
  | FNil => None
  | FCons n _ t r => if String.eqb n name then Some t else field_ty name r
  end.
Definition sfield_ty (name : string) (t : ty) : option ty :=
  match t with TStruct _ fs => field_ty name fs | _ => None end.
Definition field_is (name : string) (t : ty) (chk : ty -> bool) : bool :=
  match sfield_ty name t with Some x => chk x | None => false end.

(* the hand-written Input impl is only correct for component types of this shape; the
   generated schemas are checked against it (Example S_Input_ok in Properties) *)
Definition input_shape (cf cs cp ct mf mcs mcp mds mdp : ty) : bool :=
  spec_ty cf cs && spec_ty cf cp && spec_ty mf mcs && spec_ty mf mcp && spec_ty mf mds && spec_ty mf mdp &&
  field_is "predicate" cf bytes_like && field_is "predicate" mf bytes_like && field_is "data" mf bytes_like &&
  (* which fields each specification keeps *)
  field_is "predicate" cs is_empty_ty && field_is "predicate" cp not_empty_ty &&
  field_is "data" mcs is_empty_ty && field_is "predicate" mcs is_empty_ty &&
  field_is "data" mcp is_empty_ty && field_is "predicate" mcp not_empty_ty &&
  field_is "data" mds not_empty_ty && field_is "predicate" mds is_empty_ty &&
  field_is "data" mdp not_empty_ty && field_is "predicate" mdp not_empty_ty.

Fixpoint schema_ok (t : ty) : bool :=
  match t with
  | TUInt _ | TBytesN _ | TByteVec | TPolicies => true
  | TVec t' => schema_ok t' && tpos t'
  | TStruct p fs => (match p with Some d => d <? U64 | None => true end) && schema_ok_fields fs
  | TEnum vs => nodupN (variant_discs vs) && schema_ok_variants vs
  | TEmpty t' => schema_ok t' && flat t'
  | TOpaque _ => false
  | TInput cf cs cp ct mf mcs mcp mds mdp =>
      schema_ok cf && schema_ok cs && schema_ok cp && schema_ok ct && schema_ok mf &&
      schema_ok mcs && schema_ok mcp && schema_ok mds && schema_ok mdp &&
      input_shape cf cs cp ct mf mcs mcp mds mdp
  | TPeek al => nodupN (alt_discs al) && schema_ok_alts al
  end
with schema_ok_fields (fs : fields) : bool :=
  match fs with
  | FNil => true
  | FCons _ sk t r => (sk || schema_ok t) && schema_ok_fields r
  end
with schema_ok_variants (vs : variants) : bool :=
  match vs with
  | VNil => true
  | VCons _ d fs r => (d <? U64) && schema_ok_fields fs && schema_ok_variants r
  end
with schema_ok_alts (al : alts) : bool :=
  match al with
  | ANil => true
  | ACons _ d t r => (d <? U64) && schema_ok t && starts_with d t && schema_ok_alts r
  end.

(* ---------------------------------------------------------------- arithmetic of padding *)
Lemma pad8_spec n : ((n + pad8 n) mod 8 = 0)%nat.
Proof.
  unfold pad8. rewrite Nat.add_mod by lia. rewrite Nat.mod_mod by lia.
  pose proof (Nat.mod_upper_bound n 8 ltac:(lia)) as Hb.
  remember (Nat.modulo n 8) as m. clear Heqm.
  do 8 (destruct m as [|m]; [reflexivity|]). lia.
Qed.
Lemma pad8_lt n : (pad8 n < 8)%nat.
Proof. unfold pad8. apply Nat.mod_upper_bound. lia. Qed.
Lemma padN_nat n : padN (N.of_nat n) = N.of_nat (pad8 n).
Proof.
  unfold padN, pad8.
  rewrite !Nat2N.inj_mod, Nat2N.inj_sub, Nat2N.inj_mod. reflexivity.
Qed.
Lemma pad8_mult n : (n mod 8 = 0)%nat -> pad8 n = 0%nat.
Proof. intros H. unfold pad8. rewrite H. reflexivity. Qed.
Lemma mod8_add a b : (a mod 8 = 0)%nat -> (b mod 8 = 0)%nat -> ((a + b) mod 8 = 0)%nat.
Proof.
  intros Ha Hb. rewrite Nat.add_mod by lia. rewrite Ha, Hb. reflexivity.
Qed.

(* ---------------------------------------------------------------- buffers *)
Lemma zeros_length n : length (zeros n) = n.
Proof. apply repeat_length. Qed.
Lemma be8_length n : length (be8 n) = 8%nat.
Proof. apply be_encode_length. Qed.

Lemma take_app n a b : length a = n -> take n (a ++ b) = Ok (a, b).
Proof.
  intros <-. unfold take. rewrite app_length.
  replace (Nat.leb (length a) (length a + length b)) with true by (symmetry; apply Nat.leb_le; lia).
  rewrite firstn_app, Nat.sub_diag, firstn_all. cbn [firstn]. rewrite app_nil_r.
  rewrite skipn_app, Nat.sub_diag, skipn_all. reflexivity.
Qed.
Lemma skip_app n a b : length a = n -> skip n (a ++ b) = Ok b.
Proof. intros H. unfold skip. rewrite take_app by exact H. reflexivity. Qed.
Lemma takeN_app n a b : lenN a = n -> takeN n (a ++ b) = Ok (a, b).
Proof.
  intros <-. unfold takeN, lenN. rewrite app_length, Nat2N.id.
  replace (N.of_nat (length a) <=? N.of_nat (length a + length b)) with true by (symmetry; apply N.leb_le; lia).
  rewrite firstn_app, Nat.sub_diag, firstn_all. cbn [firstn]. rewrite app_nil_r.
  rewrite skipn_app, Nat.sub_diag, skipn_all. reflexivity.
Qed.
Lemma skipN_app n a b : lenN a = n -> skipN n (a ++ b) = Ok b.
Proof. intros H. unfold skipN. rewrite takeN_app by exact H. reflexivity. Qed.

Lemma enc_uint_length w n : length (enc_uint w n) = (pad8 w + w)%nat.
Proof. unfold enc_uint. rewrite app_length, zeros_length, be_encode_length. reflexivity. Qed.
Lemma read_uint_enc w n rest : n < 256 ^ N.of_nat w -> read_uint w (enc_uint w n ++ rest) = Ok (n, rest).
Proof.
  intros H. unfold read_uint, enc_uint. rewrite <- !app_assoc.
  rewrite skip_app by apply zeros_length. cbn [bind].
  rewrite take_app by apply be_encode_length. cbn [bind].
  rewrite be_decode_encode by exact H. reflexivity.
Qed.
Lemma read_word_be8 n rest : n < U64 -> read_word (be8 n ++ rest) = Ok (n, rest).
Proof.
  intros H. unfold read_word, be8.
  change (be_encode 8 n) with (zeros (pad8 8) ++ be_encode 8 n).
  apply (read_uint_enc 8 n rest). exact H.
Qed.

(* ---------------------------------------------------------------- lookup by index *)
Lemma nth_variant_disc_in vs i d fs : nth_variant vs i = Some (d, fs) -> In d (variant_discs vs).
Proof.
  revert i; induction vs as [|n d' fs' r IH]; intros [|j] H; cbn in *; try discriminate.
  - injection H as -> _. auto.
  - right. eauto.
Qed.
Lemma nth_alt_disc_in al i d t : nth_alt al i = Some (d, t) -> In d (alt_discs al).
Proof.
  revert i; induction al as [|n d' t' r IH]; intros [|j] H; cbn in *; try discriminate.
  - injection H as -> _. auto.
  - right. eauto.
Qed.
Lemma existsb_eqb_false x l : existsb (N.eqb x) l = false -> ~ In x l.
Proof.
  intros H Hin. assert (existsb (N.eqb x) l = true); [|congruence].
  apply existsb_exists. exists x. split; [exact Hin | apply N.eqb_refl].
Qed.
