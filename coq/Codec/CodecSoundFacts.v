(* Codec/CodecSoundFacts.v — definitions and inversion lemmas for the decode-side theorem
   (CodecSound.v): the static length of a partially decoded object, what a partially decoded
   object looks like, buffer inversions. *)
From Coq Require Import Arith PeanoNat.
From FV Require Export Codec.CodecExempt.
Open Scope N_scope.

(* ---------------------------------------------------------------- result inversion *)
Lemma bind_ok {A B} (r : result A) (f : A -> result B) y :
  bind r f = Ok y -> exists a, r = Ok a /\ f a = Ok y.
Proof. destruct r; cbn; [eauto | discriminate]. Qed.

(* ---------------------------------------------------------------- bytes *)
Lemma wf_bytes_app a b : wf_bytes (a ++ b) = wf_bytes a && wf_bytes b.
Proof. apply forallb_app. Qed.
Lemma wf_bytes_app_r a b : wf_bytes (a ++ b) = true -> wf_bytes b = true.
Proof. rewrite wf_bytes_app. intros H. apply andb_true_iff in H. tauto. Qed.
Lemma wf_bytes_app_l a b : wf_bytes (a ++ b) = true -> wf_bytes a = true.
Proof. rewrite wf_bytes_app. intros H. apply andb_true_iff in H. tauto. Qed.

Lemma be_decode_acc_lt bs : forall acc, wf_bytes bs = true ->
  be_decode_acc acc bs < (acc + 1) * 256 ^ N.of_nat (length bs).
Proof.
  induction bs as [|b bs IH]; intros acc H.
  - cbn [be_decode_acc length]. change (N.of_nat 0) with 0. rewrite N.pow_0_r. lia.
  - cbn [wf_bytes forallb] in H. apply andb_true_iff in H as [Hb H]. unfold is_byte in Hb. apply N.ltb_lt in Hb.
    cbn [be_decode_acc length]. rewrite Nat2N.inj_succ, N.pow_succ_r'.
    specialize (IH (acc * 256 + b) H).
    eapply N.lt_le_trans; [exact IH|].
    rewrite N.mul_assoc. apply N.mul_le_mono_r. lia.
Qed.
Lemma be_decode_lt bs : wf_bytes bs = true -> be_decode bs < 256 ^ N.of_nat (length bs).
Proof. intros H. unfold be_decode. pose proof (be_decode_acc_lt bs 0 H). lia. Qed.

(* ---------------------------------------------------------------- buffer inversions *)
Lemma take_inv n b x r : take n b = Ok (x, r) -> b = x ++ r /\ length x = n.
Proof.
  unfold take. destruct (Nat.leb n (length b)) eqn:E; [|discriminate].
  intros H. injection H as <- <-. apply Nat.leb_le in E. split.
  - symmetry. apply firstn_skipn.
  - apply firstn_length_le. exact E.
Qed.
Lemma skip_inv n b r : skip n b = Ok r -> exists x, b = x ++ r /\ length x = n.
Proof.
  unfold skip. intros H. apply bind_ok in H as [[x r'] [H1 H2]]. injection H2 as <-.
  exists x. apply take_inv. exact H1.
Qed.
Lemma takeN_inv n b x r : takeN n b = Ok (x, r) -> b = x ++ r /\ lenN x = n.
Proof.
  unfold takeN. destruct (n <=? lenN b) eqn:E; [|discriminate].
  intros H. injection H as <- <-. apply N.leb_le in E. split.
  - symmetry. apply firstn_skipn.
  - unfold lenN in *. rewrite firstn_length_le by lia. apply N2Nat.id.
Qed.
Lemma skipN_inv n b r : skipN n b = Ok r -> exists x, b = x ++ r /\ lenN x = n.
Proof.
  unfold skipN. intros H. apply bind_ok in H as [[x r'] [H1 H2]]. injection H2 as <-.
  exists x. apply takeN_inv. exact H1.
Qed.
Lemma read_uint_inv w b n r : read_uint w b = Ok (n, r) ->
  exists c, b = c ++ r /\ length c = (pad8 w + w)%nat /\ (wf_bytes b = true -> n < 256 ^ N.of_nat w).
Proof.
  unfold read_uint. intros H. apply bind_ok in H as [r1 [H1 H2]].
  apply bind_ok in H2 as [[x r2] [H2 H3]]. injection H3 as <- <-.
  apply skip_inv in H1 as [z [-> Hz]]. apply take_inv in H2 as [-> Hx].
  exists (z ++ x). rewrite <- app_assoc, app_length, Hz, Hx. repeat split.
  intros Hw. apply wf_bytes_app_r in Hw. apply wf_bytes_app_l in Hw.
  rewrite <- Hx. apply be_decode_lt. exact Hw.
Qed.
Lemma read_word_inv b n r : read_word b = Ok (n, r) ->
  exists c, b = c ++ r /\ length c = 8%nat /\ (wf_bytes b = true -> n < U64).
Proof.
  intros H. apply read_uint_inv in H as (c & E & Hl & Hb). exists c. repeat split; auto.
Qed.

(* ---------------------------------------------------------------- static length of a partial object *)
Fixpoint slen (t : ty) (p : val) {struct t} : nat :=
  match t, p with
  | TUInt w, _ => (pad8 w + w)%nat
  | TBytesN n, _ => (n + pad8 n)%nat
  | TByteVec, _ => 8%nat
  | TVec _, _ => 8%nat
  | TStruct pf fs, VS ps => ((match pf with Some _ => 8 | None => 0 end) + slen_fields fs ps)%nat
  | TEnum vars, VE i ps => (8 + slen_variants vars i ps)%nat
  | TEmpty t', _ => length (enc_static t' (default_val t'))
  | TPolicies, _ => 8%nat
  | TInput cf cs cp ct mf mcs mcp mds mdp, VE i [q] => (8 + slen (input_sel i cs cp ct mcs mcp mds mdp) q)%nat
  | TPeek al, VE i [q] => slen_alts al i q
  | _, _ => 0%nat
  end
with slen_fields (fs : fields) (ps : list val) {struct fs} : nat :=
  match fs, ps with
  | FCons _ sk t r, p :: ps' => ((if sk then 0 else slen t p) + slen_fields r ps')%nat
  | _, _ => 0%nat
  end
with slen_variants (vars : variants) (i : nat) (ps : list val) {struct vars} : nat :=
  match vars with
  | VNil => 0%nat
  | VCons _ _ fs r => match i with O => slen_fields fs ps | S j => slen_variants r j ps end
  end
with slen_alts (al : alts) (i : nat) (q : val) {struct al} : nat :=
  match al with
  | ANil => 0%nat
  | ACons _ _ t r => match i with O => slen t q | S j => slen_alts r j q end
  end.

Lemma slen_fields_cons n sk t r p ps :
  slen_fields (FCons n sk t r) (p :: ps) = ((if sk then 0 else slen t p) + slen_fields r ps)%nat.
Proof. reflexivity. Qed.
Lemma slen_variants_nth vars : forall i d fs ps, nth_variant vars i = Some (d, fs) ->
  slen_variants vars i ps = slen_fields fs ps.
Proof. intros i d fs ps; revert i; induction vars as [|n d' fs' r IH]; intros [|j] H; cbn in *; try discriminate;
  [injection H as -> ->; reflexivity | eauto]. Qed.
Lemma slen_alts_nth al : forall i d t q, nth_alt al i = Some (d, t) -> slen_alts al i q = slen t q.
Proof. intros i d t q; revert i; induction al as [|n d' t' r IH]; intros [|j] H; cbn in *; try discriminate;
  [injection H as -> ->; reflexivity | eauto]. Qed.

(* static length of flat types does not depend on the value *)
Fixpoint flat_slen (t : ty) : nat :=
  match t with
  | TUInt w => (pad8 w + w)%nat
  | TBytesN n => (n + pad8 n)%nat
  | TByteVec | TVec _ => 8%nat
  | TStruct pf fs => ((match pf with Some _ => 8 | None => 0 end) + flat_slen_fields fs)%nat
  | _ => 0%nat
  end
with flat_slen_fields (fs : fields) : nat :=
  match fs with
  | FNil => 0%nat
  | FCons _ _ t r => (flat_slen t + flat_slen_fields r)%nat
  end.

Lemma flat_default_len :
  (forall t, flat t = true -> length (enc_static t (default_val t)) = flat_slen t) /\
  (forall fs, flat_fields fs = true -> length (enc_static_fields fs (default_fields fs)) = flat_slen_fields fs).
Proof.
  apply schema_ind2; try (intros; discriminate).
  - intros w _. change (enc_static (TUInt w) (default_val (TUInt w))) with (enc_uint w 0). apply enc_uint_length.
  - intros n _. change (enc_static (TBytesN n) (default_val (TBytesN n))) with (zeros n ++ zeros (pad8 n)).
    rewrite app_length, !zeros_length. reflexivity.
  - intros _. reflexivity.
  - intros t _ _. reflexivity.
  - intros p fs IH H. change (flat (TStruct p fs)) with ((match p with Some d => d <? U64 | None => true end) && flat_fields fs) in H.
    apply andb_true_iff in H as [_ H].
    change (enc_static (TStruct p fs) (default_val (TStruct p fs))) with
      ((match p with Some d => be8 d | None => [] end) ++ enc_static_fields fs (default_fields fs)).
    rewrite app_length, IH by exact H. cbn [flat_slen]. destruct p; [rewrite be8_length|]; reflexivity.
  - intros _. reflexivity.
  - intros n sk t r It Ir H. rewrite flat_fields_cons in H.
    apply andb_true_iff in H as [H H3]. apply andb_true_iff in H as [H1 H2].
    destruct sk; [discriminate|]. rewrite default_fields_cons, enc_static_fields_cons, app_length.
    rewrite It, Ir by assumption. reflexivity.
Qed.

Section Pok.
Variable limit : N.

(* `x.capacity() != 0` *)
Definition pend_nonzero (name : string) (t : ty) (p : val) : bool :=
  match struct_field name t p with
  | Some v => match leaf v with VPend n => negb (n =? 0) | _ => false end
  | None => false
  end.
Definition input_pend_wf (i : nat) (alt : ty) (q : val) : bool :=
  match i with
  | 1%nat => pend_nonzero "predicate" alt q
  | 4%nat => pend_nonzero "predicate" alt q
  | 5%nat => pend_nonzero "data" alt q
  | 6%nat => pend_nonzero "data" alt q && pend_nonzero "predicate" alt q
  | _ => true
  end.

(* what decode_static can return *)
Fixpoint pok (t : ty) (p : val) {struct t} : bool :=
  match t, p with
  | TUInt w, VN n => n <? 256 ^ N.of_nat w
  | TBytesN n, VB bs => Nat.eqb (length bs) n && wf_bytes bs
  | TByteVec, VPend n => n <=? limit
  | TVec _, VPend n => n <=? limit
  | TStruct _ fs, VS ps => pok_fields fs ps
  | TEnum vars, VE i ps => pok_variants vars i ps
  | TEmpty _, VUnit => true
  | TPolicies, VS [VN bits; VN 0; VN 0; VN 0; VN 0; VN 0; VN 0] => bits <? 64
  | TInput cf cs cp ct mf mcs mcp mds mdp, VE i [q] =>
      Nat.ltb i 7 && pok (input_sel i cs cp ct mcs mcp mds mdp) q &&
      input_pend_wf i (input_sel i cs cp ct mcs mcp mds mdp) q
  | TPeek al, VE i [q] => pok_alts al i q
  | _, _ => false
  end
with pok_fields (fs : fields) (ps : list val) {struct fs} : bool :=
  match fs, ps with
  | FNil, [] => true
  | FCons _ sk t r, p :: ps' =>
      (if sk then match p with VUnit => true | _ => false end else pok t p) && pok_fields r ps'
  | _, _ => false
  end
with pok_variants (vars : variants) (i : nat) (ps : list val) {struct vars} : bool :=
  match vars with
  | VNil => false
  | VCons _ _ fs r => match i with O => pok_fields fs ps | S j => pok_variants r j ps end
  end
with pok_alts (al : alts) (i : nat) (q : val) {struct al} : bool :=
  match al with
  | ANil => false
  | ACons _ _ t r => match i with O => pok t q | S j => pok_alts r j q end
  end.

Lemma pok_fields_cons n sk t r p ps :
  pok_fields (FCons n sk t r) (p :: ps) =
  (if sk then match p with VUnit => true | _ => false end else pok t p) && pok_fields r ps.
Proof. reflexivity. Qed.
Lemma pok_variants_nth vars : forall i d fs ps, nth_variant vars i = Some (d, fs) ->
  pok_variants vars i ps = pok_fields fs ps.
Proof. intros i d fs ps; revert i; induction vars as [|n d' fs' r IH]; intros [|j] H; cbn in *; try discriminate;
  [injection H as -> ->; reflexivity | eauto]. Qed.
Lemma pok_variants_none vars : forall i ps, nth_variant vars i = None -> pok_variants vars i ps = false.
Proof. induction vars as [|n d' fs' r IH]; intros [|j] ps H; cbn in *; try discriminate; auto. Qed.
Lemma pok_alts_nth al : forall i d t q, nth_alt al i = Some (d, t) -> pok_alts al i q = pok t q.
Proof. intros i d t q; revert i; induction al as [|n d' t' r IH]; intros [|j] H; cbn in *; try discriminate;
  [injection H as -> ->; reflexivity | eauto]. Qed.
Lemma pok_alts_none al : forall i q, nth_alt al i = None -> pok_alts al i q = false.
Proof. induction al as [|n d' t' r IH]; intros [|j] q H; cbn in *; try discriminate; auto. Qed.

(* for flat types the static length of any partial object is the constant flat_slen *)
Lemma flat_slen_eq :
  (forall t, flat t = true -> forall p, pok t p = true -> slen t p = flat_slen t) /\
  (forall fs, flat_fields fs = true -> forall ps, pok_fields fs ps = true -> slen_fields fs ps = flat_slen_fields fs).
Proof.
  apply schema_ind2; try (intros; discriminate); try (intros; reflexivity).
  - intros p fs IH H [] Hp; try discriminate.
    change (flat (TStruct p fs)) with ((match p with Some d => d <? U64 | None => true end) && flat_fields fs) in H.
    apply andb_true_iff in H as [_ H].
    change (pok (TStruct p fs) (VS vs)) with (pok_fields fs vs) in Hp.
    change (slen (TStruct p fs) (VS vs)) with ((match p with Some _ => 8 | None => 0 end) + slen_fields fs vs)%nat.
    rewrite (IH H vs Hp). reflexivity.
  - intros n sk t r It Ir H [|p ps] Hp; [discriminate|]. rewrite flat_fields_cons in H.
    apply andb_true_iff in H as [H H3]. apply andb_true_iff in H as [H1 H2].
    destruct sk; [discriminate|]. rewrite pok_fields_cons in Hp. apply andb_true_iff in Hp as [Hp1 Hp2].
    rewrite slen_fields_cons. rewrite (It H2 p Hp1), (Ir H3 ps Hp2). reflexivity.
Qed.

End Pok.
