(* Codec/Schema.v — the first-order universe describing what `fuel-derive`'s canonical
   Serialize/Deserialize derive (and the three hand-written impls: Policies, Input,
   Transaction) do.  Definitions only.  Consumers: C01-C05, C07, C28.

   A Rust type is described by a [ty]; a Rust value by a [val] ("neutral form", printed by the
   harness).  The translator tools/gen_schemas.py produces one [ty] term per Rust type in
   Gen/Schemas.v.

     Rust                                   ty                         val
     ------------------------------------------------------------------------------------------
     u8/u16/u32/u64/usize/u128              TUInt 1/2/4/8/8/16         VN n
     [u8; N]                                TBytesN N                  VB bytes (length N)
     Vec<u8>                                TByteVec                   VB bytes
     Vec<T>  (T <> u8)                      TVec T                     VL [v1; ...]
     struct S { f1: T1, .. }                TStruct prefix fields      VS [v1; ...]  (one value per
                                                                       field, *including* skipped)
     enum E { A{..} = d, .. }               TEnum variants             VE i [v1; ...]  (i = index of
                                                                       the variant in declaration order)
     input::Empty<T>                        TEmpty T                   VUnit
     type of a #[canonical(skip)] field     anything / TOpaque         any val; VUnit = Default
     Policies (hand-written impl)           TPolicies                  VS [VN bits; VN v0; ..; VN v5]
     Input (hand-written impl)              TInput ...                 VE i [v], i = 0..6 in the
                                                                       order of `enum Input`
     Transaction (hand-written impl)        TPeek alts                 VE i [v]

   [VPend n] is not a Rust value: it is the state of a `Vec` between `decode_static` (which
   reads the length word and allocates `n` slots) and `decode_dynamic` (which fills them). *)
From FV Require Export Base.Bytes Base.U64.
Open Scope N_scope.

Inductive ty : Type :=
| TUInt (w : nat)
| TBytesN (n : nat)
| TByteVec
| TVec (t : ty)
| TStruct (prefix : option N) (fs : fields)
| TEnum (vs : variants)
| TEmpty (t : ty)
| TOpaque (rust : string)
| TPolicies
| TInput (coin_full coin_signed coin_pred contract
          msg_full msg_coin_signed msg_coin_pred msg_data_signed msg_data_pred : ty)
| TPeek (al : alts)
with fields : Type :=
| FNil
| FCons (name : string) (skip : bool) (t : ty) (rest : fields)
with variants : Type :=
| VNil
| VCons (name : string) (disc : N) (fs : fields) (rest : variants)
with alts : Type :=
| ANil
| ACons (name : string) (disc : N) (t : ty) (rest : alts).

Scheme ty_mind := Induction for ty Sort Prop
  with fields_mind := Induction for fields Sort Prop
  with variants_mind := Induction for variants Sort Prop
  with alts_mind := Induction for alts Sort Prop.
Combined Scheme schema_mutind from ty_mind, fields_mind, variants_mind, alts_mind.

(* list-style builders used by the generated file *)
Fixpoint mk_fields (l : list (string * bool * ty)) : fields :=
  match l with
  | [] => FNil
  | (n, s, t) :: r => FCons n s t (mk_fields r)
  end.
Fixpoint mk_variants (l : list (string * N * list (string * bool * ty))) : variants :=
  match l with
  | [] => VNil
  | (n, d, fs) :: r => VCons n d (mk_fields fs) (mk_variants r)
  end.
Fixpoint mk_alts (l : list (string * N * ty)) : alts :=
  match l with
  | [] => ANil
  | (n, d, t) :: r => ACons n d t (mk_alts r)
  end.
Definition struct_ (prefix : option N) (l : list (string * bool * ty)) : ty := TStruct prefix (mk_fields l).
Definition enum_ (l : list (string * N * list (string * bool * ty))) : ty := TEnum (mk_variants l).
Definition peek_ (l : list (string * N * ty)) : ty := TPeek (mk_alts l).
(* a field: F "name" ty; a skipped field: Fskip "name" ty *)
Definition F (n : string) (t : ty) : string * bool * ty := (n, false, t).
Definition Fskip (n : string) (t : ty) : string * bool * ty := (n, true, t).

(* ---------------------------------------------------------------- values *)
Inductive val : Type :=
| VUnit
| VN (n : N)
| VB (bs : bytes)
| VL (vs : list val)
| VS (vs : list val)
| VE (tag : nat) (vs : list val)
| VPend (n : N).

Fixpoint val_eqb (a b : val) : bool :=
  let fix list_eqb (xs ys : list val) : bool :=
    match xs, ys with
    | [], [] => true
    | x :: xs', y :: ys' => val_eqb x y && list_eqb xs' ys'
    | _, _ => false
    end in
  match a, b with
  | VUnit, VUnit => true
  | VN x, VN y => x =? y
  | VB x, VB y => bytes_eqb x y
  | VL x, VL y => list_eqb x y
  | VS x, VS y => list_eqb x y
  | VE i x, VE j y => Nat.eqb i j && list_eqb x y
  | VPend x, VPend y => x =? y
  | _, _ => false
  end.

(* ---------------------------------------------------------------- errors / results *)
(* canonical::Error, with Unknown(&'static str) mapped to the three messages policies.rs uses *)
Inductive err : Type :=
| BufferIsTooShort
| UnknownDiscriminant
| InvalidPrefix
| AllocationLimit
| InvalidPoliciesBits        (* Unknown("Invalid policies bits") *)
| MaturityTooLarge           (* Unknown("The maturity in more than `u32::MAX`") *)
| ExpirationTooLarge         (* Unknown("The expiration in more than `u32::MAX`") *)
| OtherUnknown               (* any other Unknown(..): never produced by the model *)
| ModelStuck.                (* not a Rust state: ill-typed partial value or fuel exhausted;
                                excluded by the theorems (dec_never_stuck) *)

Inductive result (A : Type) : Type :=
| Ok (a : A)
| Err (e : err).
Arguments Ok {A} a.
Arguments Err {A} e.

Definition bind {A B} (r : result A) (f : A -> result B) : result B :=
  match r with Ok a => f a | Err e => Err e end.
Notation "'let*' x := r 'in' k" := (bind r (fun x => k))
  (at level 200, x pattern, r at level 100, k at level 200, right associativity).

Definition err_eqb (a b : err) : bool :=
  match a, b with
  | BufferIsTooShort, BufferIsTooShort | UnknownDiscriminant, UnknownDiscriminant
  | InvalidPrefix, InvalidPrefix | AllocationLimit, AllocationLimit
  | InvalidPoliciesBits, InvalidPoliciesBits | MaturityTooLarge, MaturityTooLarge
  | ExpirationTooLarge, ExpirationTooLarge | OtherUnknown, OtherUnknown
  | ModelStuck, ModelStuck => true
  | _, _ => false
  end.

(* ---------------------------------------------------------------- small helpers *)
Fixpoint nth_alt (al : alts) (i : nat) : option (N * ty) :=
  match al, i with
  | ANil, _ => None
  | ACons _ d t _, O => Some (d, t)
  | ACons _ _ _ r, S j => nth_alt r j
  end.
Fixpoint nth_variant (vs : variants) (i : nat) : option (N * fields) :=
  match vs, i with
  | VNil, _ => None
  | VCons _ d fs _, O => Some (d, fs)
  | VCons _ _ _ r, S j => nth_variant r j
  end.
Fixpoint fields_len (fs : fields) : nat :=
  match fs with FNil => O | FCons _ _ _ r => S (fields_len r) end.
Fixpoint field_names (fs : fields) : list string :=
  match fs with FNil => [] | FCons n _ _ r => n :: field_names r end.
Fixpoint variant_discs (vs : variants) : list N :=
  match vs with VNil => [] | VCons _ d _ r => d :: variant_discs r end.
Fixpoint alt_discs (al : alts) : list N :=
  match al with ANil => [] | ACons _ d _ r => d :: alt_discs r end.

(* value of the field called [name] in a struct value *)
Fixpoint get_field (name : string) (fs : fields) (vs : list val) : option val :=
  match fs, vs with
  | FCons n _ _ r, v :: vs' => if String.eqb n name then Some v else get_field name r vs'
  | _, _ => None
  end.
Definition struct_field (name : string) (t : ty) (v : val) : option val :=
  match t, v with
  | TStruct _ fs, VS vs => get_field name fs vs
  | _, _ => None
  end.
