(* Codec/CodecExempt.v — which fields a canonical round trip erases, and that it erases nothing
   else; encode succeeds on wf values. *)
From Coq Require Import Arith PeanoNat.
From FV Require Export Codec.CodecRoundtrip.
Open Scope N_scope.

(* paths (type/variant/field names) of every #[canonical(skip)] field reachable in a schema *)
Fixpoint skips (t : ty) : list (list string) :=
  match t with
  | TVec t' => map (cons "[]"%string) (skips t')
  | TStruct _ fs => skips_fields fs
  | TEnum vs => skips_variants vs
  | TInput cf cs cp ct mf mcs mcp mds mdp =>
      map (cons "CoinSigned"%string) (skips cs) ++ map (cons "CoinPredicate"%string) (skips cp) ++
      map (cons "Contract"%string) (skips ct) ++ map (cons "MessageCoinSigned"%string) (skips mcs) ++
      map (cons "MessageCoinPredicate"%string) (skips mcp) ++ map (cons "MessageDataSigned"%string) (skips mds) ++
      map (cons "MessageDataPredicate"%string) (skips mdp)
  | TPeek al => skips_alts al
  | _ => []
  end
with skips_fields (fs : fields) : list (list string) :=
  match fs with
  | FNil => []
  | FCons n sk t r => (if sk then [[n]] else map (cons n) (skips t)) ++ skips_fields r
  end
with skips_variants (vs : variants) : list (list string) :=
  match vs with
  | VNil => []
  | VCons n _ fs r => map (cons n) (skips_fields fs) ++ skips_variants r
  end
with skips_alts (al : alts) : list (list string) :=
  match al with
  | ANil => []
  | ACons n _ t r => map (cons n) (skips t) ++ skips_alts r
  end.

Lemma map_nil_inv {A B} (f : A -> B) l : map f l = [] -> l = [].
Proof. destruct l; [reflexivity | discriminate]. Qed.

Lemma skips_variants_nth vars : forall i d fs, nth_variant vars i = Some (d, fs) ->
  skips_variants vars = [] -> skips_fields fs = [].
Proof.
  induction vars as [|n d' fs' r IH]; intros [|j] d fs H Hs; cbn in H; try discriminate;
    cbn [skips_variants] in Hs; apply app_eq_nil in Hs as [H1 H2].
  - injection H as -> ->. exact (map_nil_inv _ _ H1).
  - eauto.
Qed.
Lemma skips_alts_nth al : forall i d t, nth_alt al i = Some (d, t) -> skips_alts al = [] -> skips t = [].
Proof.
  induction al as [|n d' t' r IH]; intros [|j] d t H Hs; cbn in H; try discriminate;
    cbn [skips_alts] in Hs; apply app_eq_nil in Hs as [H1 H2].
  - injection H as -> ->. exact (map_nil_inv _ _ H1).
  - eauto.
Qed.
Lemma erase_variants_none vars : forall i vs, nth_variant vars i = None -> erase_variants vars i vs = vs.
Proof. induction vars as [|n d' fs' r IH]; intros [|j] vs H; cbn in *; try discriminate; auto. Qed.
Lemma erase_alts_none al : forall i x, nth_alt al i = None -> erase_alts al i x = x.
Proof. induction al as [|n d' t' r IH]; intros [|j] x H; cbn in *; try discriminate; auto. Qed.

(* no skipped field anywhere => the round trip returns exactly the original value *)
Lemma erase_id_all :
  (forall t, skips t = [] -> forall v, erase t v = v) /\
  (forall fs, skips_fields fs = [] -> forall vs, erase_fields fs vs = vs).
Proof.
  apply schema_ind2; try (intros; destruct v; reflexivity).
  - intros t IH Hs [] ; try reflexivity. cbn [skips] in Hs. apply map_nil_inv in Hs.
    change (erase (TVec t) (VL vs)) with (VL (map (erase t) vs)). f_equal.
    rewrite (map_ext _ (fun x => x)) by (intros; apply IH; exact Hs). apply map_id.
  - intros p fs IH Hs []; try reflexivity.
    change (erase (TStruct p fs) (VS vs)) with (VS (erase_fields fs vs)). rewrite IH by exact Hs. reflexivity.
  - intros vars IH Hs []; try reflexivity.
    change (erase (TEnum vars) (VE tag vs)) with (VE tag (erase_variants vars tag vs)). f_equal.
    destruct (nth_variant vars tag) as [[d fs]|] eqn:Hn.
    + rewrite (erase_variants_nth _ _ _ _ _ Hn). apply (IH _ _ _ Hn). exact (skips_variants_nth _ _ _ _ Hn Hs).
    + apply erase_variants_none. exact Hn.
  - intros cf cs cp ct mf mcs mcp mds mdp _ I1 I2 I3 _ I5 I6 I7 I8 Hs []; try reflexivity.
    destruct vs as [|x [|]]; try reflexivity.
    cbn [skips] in Hs. repeat (apply app_eq_nil in Hs as [?H Hs]).
    repeat match goal with H : map _ _ = [] |- _ => apply map_nil_inv in H end.
    change (erase (TInput cf cs cp ct mf mcs mcp mds mdp) (VE tag [x])) with
      (VE tag [erase (input_sel tag cs cp ct mcs mcp mds mdp) x]).
    f_equal. f_equal.
    apply (input_sel_cases (fun a => erase a x = x)); auto.
  - intros al IH Hs []; try reflexivity. destruct vs as [|x [|]]; try reflexivity.
    change (erase (TPeek al) (VE tag [x])) with (VE tag [erase_alts al tag x]). f_equal. f_equal.
    destruct (nth_alt al tag) as [[d t]|] eqn:Hn.
    + rewrite (erase_alts_nth _ _ _ _ _ Hn). apply (IH _ _ _ Hn). exact (skips_alts_nth _ _ _ _ Hn Hs).
    + apply erase_alts_none. exact Hn.
  - intros _ vs. destruct vs; reflexivity.
  - intros n sk t r It Ir Hs [|v vs]; [reflexivity|].
    cbn [skips_fields] in Hs. apply app_eq_nil in Hs as [H1 H2].
    rewrite erase_fields_cons. destruct sk; [discriminate|].
    rewrite It by exact (map_nil_inv _ _ H1). rewrite Ir by exact H2. reflexivity.
Qed.
Lemma erase_id t v : skips t = [] -> erase t v = v.
Proof. intros H. apply (proj1 erase_id_all); exact H. Qed.

(* ---------------------------------------------------------------- encode succeeds on wf values *)
Section Fits.
Variable limit : N.

Lemma enc_fits_variants_nth vars : forall i d fs vs, nth_variant vars i = Some (d, fs) ->
  enc_fits_variants limit vars i vs = enc_fits_fields limit fs vs.
Proof. intros i d fs vs; revert i; induction vars as [|n d' fs' r IH]; intros [|j] H; cbn in *; try discriminate;
  [injection H as -> ->; reflexivity | eauto]. Qed.
Lemma enc_fits_variants_none vars : forall i vs, nth_variant vars i = None -> enc_fits_variants limit vars i vs = true.
Proof. induction vars as [|n d' fs' r IH]; intros [|j] vs H; cbn in *; try discriminate; auto. Qed.
Lemma enc_fits_alts_nth al : forall i d t x, nth_alt al i = Some (d, t) -> enc_fits_alts limit al i x = enc_fits limit t x.
Proof. intros i d t x; revert i; induction al as [|n d' t' r IH]; intros [|j] H; cbn in *; try discriminate;
  [injection H as -> ->; reflexivity | eauto]. Qed.
Lemma enc_fits_alts_none al : forall i x, nth_alt al i = None -> enc_fits_alts limit al i x = true.
Proof. induction al as [|n d' t' r IH]; intros [|j] x H; cbn in *; try discriminate; auto. Qed.
Lemma enc_fits_fields_cons n sk t r v vs :
  enc_fits_fields limit (FCons n sk t r) (v :: vs) = (sk || enc_fits limit t v) && enc_fits_fields limit r vs.
Proof. reflexivity. Qed.

Lemma wf_fits_all :
  (forall t v, wf limit t v = true -> enc_fits limit t v = true) /\
  (forall fs vs, wf_fields limit fs vs = true -> enc_fits_fields limit fs vs = true).
Proof.
  apply schema_ind2; try (intros; destruct v; reflexivity).
  - intros []; try reflexivity. intros H; exact H.
  - intros t IH []; try reflexivity. intros H.
    change (wf limit (TVec t) (VL vs)) with ((lenN vs <=? limit) && forallb (wf limit t) vs) in H.
    change (enc_fits limit (TVec t) (VL vs)) with ((lenN vs <=? limit) && forallb (enc_fits limit t) vs).
    apply andb_true_iff in H as [H1 H2]. rewrite H1. cbn [andb].
    rewrite forallb_forall in *. intros x Hx. apply IH. apply H2. exact Hx.
  - intros p fs IH []; try reflexivity. intros H. exact (IH vs H).
  - intros vars IH []; try reflexivity. intros H.
    change (wf limit (TEnum vars) (VE tag vs)) with (wf_variants limit vars tag vs) in H.
    change (enc_fits limit (TEnum vars) (VE tag vs)) with (enc_fits_variants limit vars tag vs).
    destruct (nth_variant vars tag) as [[d fs]|] eqn:Hn.
    + rewrite (wf_variants_nth limit _ _ _ _ _ Hn) in H. rewrite (enc_fits_variants_nth _ _ _ _ _ Hn). exact (IH _ _ _ Hn vs H).
    + apply enc_fits_variants_none. exact Hn.
  - intros cf cs cp ct mf mcs mcp mds mdp _ I1 I2 I3 _ I5 I6 I7 I8 []; try reflexivity.
    destruct vs as [|x [|]]; try reflexivity. intros H.
    change (wf limit (TInput cf cs cp ct mf mcs mcp mds mdp) (VE tag [x])) with
      (wf limit (input_sel tag cs cp ct mcs mcp mds mdp) x &&
       input_variant_wf tag (input_sel tag cs cp ct mcs mcp mds mdp) x) in H.
    apply andb_true_iff in H as [H _].
    change (enc_fits limit (TInput cf cs cp ct mf mcs mcp mds mdp) (VE tag [x])) with
      (enc_fits limit (input_sel tag cs cp ct mcs mcp mds mdp) x).
    revert H. apply (input_sel_cases (fun a => wf limit a x = true -> enc_fits limit a x = true)); auto.
  - intros al IH []; try reflexivity. destruct vs as [|x [|]]; try reflexivity. intros H.
    change (wf limit (TPeek al) (VE tag [x])) with (wf_alts limit al tag x) in H.
    change (enc_fits limit (TPeek al) (VE tag [x])) with (enc_fits_alts limit al tag x).
    destruct (nth_alt al tag) as [[d t]|] eqn:Hn.
    + rewrite (wf_alts_nth limit _ _ _ _ _ Hn) in H. rewrite (enc_fits_alts_nth _ _ _ _ _ Hn). exact (IH _ _ _ Hn x H).
    + apply enc_fits_alts_none. exact Hn.
  - intros vs _. destruct vs; reflexivity.
  - intros n sk t r It Ir [|v vs] H; [reflexivity|].
    rewrite wf_fields_cons in H. rewrite enc_fits_fields_cons.
    apply andb_true_iff in H as [H1 H2]. rewrite (Ir _ H2), andb_true_r.
    destruct sk; [reflexivity|]. cbn [orb] in *. exact (It _ H1).
Qed.

Lemma encode_ok t v : wf limit t v = true -> encode limit t v = Ok (enc t v).
Proof. intros H. unfold encode. rewrite (proj1 wf_fits_all t v H). reflexivity. Qed.

(* a vector one element above the limit does not encode (Vec::encode_static returns
   AllocationLimit, to_bytes() panics) *)
Lemma above_limit_refuted :
  exists v, typed (TStruct None (FCons "data"%string false TByteVec FNil)) v = true /\
            encode limit (TStruct None (FCons "data"%string false TByteVec FNil)) v = Err AllocationLimit.
Proof.
  exists (VS [VB (zeros (S (N.to_nat limit)))]). split.
  - cbn [typed typed_fields orb andb]. rewrite wf_bytes_zeros. reflexivity.
  - unfold encode. cbn [enc_fits enc_fits_fields orb].
    replace (lenN (zeros (S (N.to_nat limit))) <=? limit) with false; [reflexivity|].
    symmetry. apply N.leb_gt. unfold lenN. rewrite zeros_length. lia.
Qed.
End Fits.
