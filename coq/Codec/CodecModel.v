(* Codec/CodecModel.v — L1 executable model of fuel-types/src/canonical.rs + the code that
   fuel-derive generates + the hand-written impls for Policies / Input / Transaction.
   Definitions only (proofs are in CodecProofs.v).

   Every Rust function has a counterpart with the same two-phase structure:

     Serialize::size_static / size_dynamic / size      size_static / size_dynamic / size
     Serialize::encode_static / encode_dynamic         enc_static / enc_dynamic   (total; see encode)
     Serialize::encode / to_bytes                      encode  (Err AllocationLimit iff a Vec is
                                                       longer than VEC_DECODE_LIMIT; to_bytes panics then)
     Deserialize::decode_static                        dec_static  : ty -> bytes -> result (val * bytes)
     Deserialize::decode_dynamic                       dec_dynamic : ty -> val -> bytes -> result (val * bytes)
     Deserialize::decode / from_bytes                  dec

   Modelled details: 8-byte alignment (integers left-padded, byte arrays/vectors right-padded),
   padding bytes skipped on decode WITHOUT being checked, usize saturation of every size sum
   (64-bit target assumed: usize = u64), VEC_DECODE_LIMIT checked on the length word before
   allocation, `Vec::capacity()` of the vector allocated by decode_static re-used by
   decode_dynamic as the element count and by Input::decode_static as the "is empty" test
   ([VPend n]; assumes capacity() = requested capacity, true for non-zero-sized element types
   with the global allocator), struct prefix mismatch/any prefix read error => InvalidPrefix,
   InputRepr read error => UnknownDiscriminant, Transaction discriminant peek. *)
From FV Require Export Codec.Schema.
Open Scope N_scope.

(* ---------------------------------------------------------------- buffers (impl Input for &[u8]) *)
Definition pad8 (n : nat) : nat := Nat.modulo (8 - Nat.modulo n 8) 8.       (* alignment_bytes *)
Definition padN (n : N) : N := (8 - n mod 8) mod 8.
Definition be8 (n : N) : bytes := be_encode 8 n.

Definition take (n : nat) (b : bytes) : result (bytes * bytes) :=
  if Nat.leb n (length b) then Ok (firstn n b, skipn n b) else Err BufferIsTooShort.
Definition skip (n : nat) (b : bytes) : result bytes :=
  let* (_, r) := take n b in Ok r.
(* N-indexed variants: the count is compared with the buffer length *before* it is turned into
   a nat, so a hostile 2^63 length word never becomes a unary number *)
Definition takeN (n : N) (b : bytes) : result (bytes * bytes) :=
  if n <=? lenN b then Ok (firstn (N.to_nat n) b, skipn (N.to_nat n) b) else Err BufferIsTooShort.
Definition skipN (n : N) (b : bytes) : result bytes :=
  let* (_, r) := takeN n b in Ok r.

(* impl_for_primitives!: skip the zero padding (unchecked), read w big-endian bytes *)
Definition read_uint (w : nat) (b : bytes) : result (N * bytes) :=
  let* r := skip (pad8 w) b in
  let* (x, r') := take w r in
  Ok (be_decode x, r').
Definition read_word : bytes -> result (N * bytes) := read_uint 8.
Definition enc_uint (w : nat) (n : N) : bytes := zeros (pad8 w) ++ be_encode w n.

(* ---------------------------------------------------------------- usize arithmetic *)
Definition sat (a b : N) : N := saturating_add U64 a b.
Definition aligned_size (n : N) : N := sat n (padN n).

(* u32::count_ones *)
Fixpoint pop_pos (p : positive) : N :=
  match p with xH => 1 | xO q => pop_pos q | xI q => 1 + pop_pos q end.
Definition count_ones (n : N) : N := match n with 0 => 0 | Npos p => pop_pos p end.

(* ---------------------------------------------------------------- Input variants *)
(* enum Input { CoinSigned, CoinPredicate, Contract, MessageCoinSigned, MessageCoinPredicate,
                MessageDataSigned, MessageDataPredicate }  -- index 0..6 *)
Definition input_sel {A} (i : nat) (a0 a1 a2 a3 a4 a5 a6 : A) : A :=
  match i with
  | 0%nat => a0 | 1%nat => a1 | 2%nat => a2 | 3%nat => a3 | 4%nat => a4 | 5%nat => a5 | _ => a6
  end.
(* InputRepr::from_input: Coin = 0, Contract = 1, Message = 2 *)
Definition input_disc (i : nat) : N :=
  match i with 0%nat | 1%nat => 0 | 2%nat => 1 | _ => 2 end.

(* strip single-field struct wrappers (PredicateCode { bytes }) *)
Fixpoint leaf (v : val) : val :=
  match v with
  | VS [x] => leaf x
  | _ => v
  end.
(* `x.capacity() == 0` on the Vec allocated by decode_static *)
Definition pend_zero (name : string) (t : ty) (p : val) : bool :=
  match struct_field name t p with
  | Some v => match leaf v with VPend n => n =? 0 | _ => false end
  | None => false
  end.
(* `!x.is_empty()` on a byte-vector field of a value *)
Definition nonempty_field (name : string) (t : ty) (v : val) : bool :=
  match struct_field name t v with
  | Some x => match leaf x with VB (_ :: _) => true | _ => false end
  | None => false
  end.
(* CoinFull::into_signed / into_predicate, FullMessage::into_*: keep the fields the target
   specification does not declare as Empty<_>, default (= Empty) the others *)
Fixpoint into_fields (fs : fields) (vs : list val) : list val :=
  match fs, vs with
  | FCons _ _ (TEmpty _) r, _ :: vs' => VUnit :: into_fields r vs'
  | FCons _ _ _ r, v :: vs' => v :: into_fields r vs'
  | _, _ => []
  end.
Definition into (alt : ty) (p : val) : val :=
  match alt, p with
  | TStruct _ fs, VS vs => VS (into_fields fs vs)
  | _, _ => p
  end.

(* ---------------------------------------------------------------- Policies *)
Definition policy_idx : list N := [0; 1; 2; 3; 4; 5].    (* PoliciesBits::all().iter() *)
Definition u32_max : N := 4294967295.
Definition zero_policy_values : list val := [VN 0; VN 0; VN 0; VN 0; VN 0; VN 0].
Definition val_N (v : val) : N := match v with VN n => n | _ => 0 end.

Fixpoint enc_policy_values (ks : list N) (bits : N) (vs : list val) : bytes :=
  match ks, vs with
  | k :: ks', v :: vs' => (if N.testbit bits k then be8 (val_N v) else []) ++ enc_policy_values ks' bits vs'
  | _, _ => []
  end.
Fixpoint dec_policy_values (ks : list N) (bits : N) (b : bytes) : result (list val * bytes) :=
  match ks with
  | [] => Ok ([], b)
  | k :: ks' =>
      let* (v, r) := (if N.testbit bits k then read_word b else Ok (0, b)) in
      let* (vs, r') := dec_policy_values ks' bits r in
      Ok (VN v :: vs, r')
  end.
(* values of unset bits are zero; maturity / expiration fit in u32 when set *)
Fixpoint policy_unset_zero (ks : list N) (bits : N) (vs : list val) : bool :=
  match ks, vs with
  | k :: ks', v :: vs' => (N.testbit bits k || (val_N v =? 0)) && policy_unset_zero ks' bits vs'
  | _, _ => true
  end.
Definition policy_limit_ok (k : N) (bits : N) (vs : list val) : bool :=
  negb (N.testbit bits k) || (val_N (nth (N.to_nat k) vs (VN 0)) <=? u32_max).
Definition policies_wf (bits : N) (vs : list val) : bool :=
  policy_unset_zero policy_idx bits vs && policy_limit_ok 2 bits vs && policy_limit_ok 4 bits vs.

Section Model.
(* canonical::VEC_DECODE_LIMIT (Gen/Schemas.v carries the value read from canonical.rs) *)
Variable limit : N.

(* ---------------------------------------------------------------- Default::default() *)
Fixpoint default_val (t : ty) : val :=
  match t with
  | TUInt _ => VN 0
  | TBytesN n => VB (zeros n)
  | TByteVec => VB []
  | TVec _ => VL []
  | TStruct _ fs => VS (default_fields fs)
  | TPolicies => VS (VN 0 :: zero_policy_values)
  | _ => VUnit      (* enums / Input / Transaction have hand-written Defaults; never under Empty<_> *)
  end
with default_fields (fs : fields) : list val :=
  match fs with
  | FNil => []
  | FCons _ sk t r => (if sk then VUnit else default_val t) :: default_fields r
  end.

(* ---------------------------------------------------------------- typing of neutral values *)
Fixpoint typed (t : ty) (v : val) {struct t} : bool :=
  match t, v with
  | TUInt w, VN n => n <? 256 ^ N.of_nat w
  | TBytesN n, VB bs => Nat.eqb (length bs) n && wf_bytes bs
  | TByteVec, VB bs => wf_bytes bs
  | TVec t', VL vs => forallb (typed t') vs
  | TStruct p fs, VS vs => (match p with Some d => d <? U64 | None => true end) && typed_fields fs vs
  | TEnum vars, VE i vs => typed_variants vars i vs
  | TEmpty _, VUnit => true
  | TOpaque _, _ => true
  | TPolicies, VS (VN bits :: vs) =>
      (bits <? 64) && Nat.eqb (length vs) 6 &&
      forallb (fun v => match v with VN n => n <? U64 | _ => false end) vs
  | TInput cf cs cp ct mf mcs mcp mds mdp, VE i [x] =>
      Nat.ltb i 7 && typed (input_sel i cs cp ct mcs mcp mds mdp) x
  | TPeek al, VE i [x] => typed_alts al i x
  | _, _ => false
  end
with typed_fields (fs : fields) (vs : list val) {struct fs} : bool :=
  match fs, vs with
  | FNil, [] => true
  | FCons _ sk t r, v :: vs' => (sk || typed t v) && typed_fields r vs'
  | _, _ => false
  end
with typed_variants (vars : variants) (i : nat) (vs : list val) {struct vars} : bool :=
  match vars with
  | VNil => false
  | VCons _ d fs r =>
      match i with
      | O => (d <? U64) && typed_fields fs vs
      | S j => typed_variants r j vs
      end
  end
with typed_alts (al : alts) (i : nat) (x : val) {struct al} : bool :=
  match al with
  | ANil => false
  | ACons _ _ t r => match i with O => typed t x | S j => typed_alts r j x end
  end.

(* ---------------------------------------------------------------- well-formedness forced by the proofs *)
(* Everything the round-trip theorem needs beyond typing.  Each conjunct has a `_refuted`
   witness in CodecProofs.v and is replayed on the Rust code by the harness. *)
Definition input_variant_wf (i : nat) (alt : ty) (v : val) : bool :=
  match i with
  | 1%nat => nonempty_field "predicate" alt v                       (* CoinPredicate *)
  | 4%nat => nonempty_field "predicate" alt v                       (* MessageCoinPredicate *)
  | 5%nat => nonempty_field "data" alt v                            (* MessageDataSigned *)
  | 6%nat => nonempty_field "data" alt v && nonempty_field "predicate" alt v  (* MessageDataPredicate *)
  | _ => true
  end.

Fixpoint wf (t : ty) (v : val) {struct t} : bool :=
  match t, v with
  | TByteVec, VB bs => lenN bs <=? limit
  | TVec t', VL vs => (lenN vs <=? limit) && forallb (wf t') vs
  | TStruct _ fs, VS vs => wf_fields fs vs
  | TEnum vars, VE i vs => wf_variants vars i vs
  | TPolicies, VS (VN bits :: vs) => policies_wf bits vs
  | TInput cf cs cp ct mf mcs mcp mds mdp, VE i [x] =>
      wf (input_sel i cs cp ct mcs mcp mds mdp) x &&
      input_variant_wf i (input_sel i cs cp ct mcs mcp mds mdp) x
  | TPeek al, VE i [x] => wf_alts al i x
  | _, _ => true
  end
with wf_fields (fs : fields) (vs : list val) {struct fs} : bool :=
  match fs, vs with
  | FCons _ sk t r, v :: vs' => (sk || wf t v) && wf_fields r vs'
  | _, _ => true
  end
with wf_variants (vars : variants) (i : nat) (vs : list val) {struct vars} : bool :=
  match vars with
  | VNil => true
  | VCons _ _ fs r => match i with O => wf_fields fs vs | S j => wf_variants r j vs end
  end
with wf_alts (al : alts) (i : nat) (x : val) {struct al} : bool :=
  match al with
  | ANil => true
  | ACons _ _ t r => match i with O => wf t x | S j => wf_alts r j x end
  end.

(* ---------------------------------------------------------------- what a round trip erases *)
(* #[canonical(skip)] fields come back as Default (VUnit); nothing else changes *)
Fixpoint erase (t : ty) (v : val) {struct t} : val :=
  match t, v with
  | TVec t', VL vs => VL (map (erase t') vs)
  | TStruct _ fs, VS vs => VS (erase_fields fs vs)
  | TEnum vars, VE i vs => VE i (erase_variants vars i vs)
  | TInput cf cs cp ct mf mcs mcp mds mdp, VE i [x] =>
      VE i [erase (input_sel i cs cp ct mcs mcp mds mdp) x]
  | TPeek al, VE i [x] => VE i [erase_alts al i x]
  | _, _ => v
  end
with erase_fields (fs : fields) (vs : list val) {struct fs} : list val :=
  match fs, vs with
  | FCons _ sk t r, v :: vs' => (if sk then VUnit else erase t v) :: erase_fields r vs'
  | _, _ => vs
  end
with erase_variants (vars : variants) (i : nat) (vs : list val) {struct vars} : list val :=
  match vars with
  | VNil => vs
  | VCons _ _ fs r => match i with O => erase_fields fs vs | S j => erase_variants r j vs end
  end
with erase_alts (al : alts) (i : nat) (x : val) {struct al} : val :=
  match al with
  | ANil => x
  | ACons _ _ t r => match i with O => erase t x | S j => erase_alts r j x end
  end.

(* ---------------------------------------------------------------- encode_static *)
Fixpoint enc_static (t : ty) (v : val) {struct t} : bytes :=
  match t, v with
  | TUInt w, VN n => enc_uint w n
  | TBytesN n, VB bs => bs ++ zeros (pad8 n)
  | TByteVec, VB bs => be8 (lenN bs)
  | TVec _, VL vs => be8 (lenN vs)
  | TStruct p fs, VS vs => (match p with Some d => be8 d | None => [] end) ++ enc_static_fields fs vs
  | TEnum vars, VE i vs => enc_static_variants vars i vs
  | TEmpty t', _ => enc_static t' (default_val t')
  | TPolicies, VS (VN bits :: _) => enc_uint 4 bits
  | TInput cf cs cp ct mf mcs mcp mds mdp, VE i [x] =>
      be8 (input_disc i) ++ enc_static (input_sel i cs cp ct mcs mcp mds mdp) x
  | TPeek al, VE i [x] => enc_static_alts al i x
  | _, _ => []
  end
with enc_static_fields (fs : fields) (vs : list val) {struct fs} : bytes :=
  match fs, vs with
  | FCons _ sk t r, v :: vs' => (if sk then [] else enc_static t v) ++ enc_static_fields r vs'
  | _, _ => []
  end
with enc_static_variants (vars : variants) (i : nat) (vs : list val) {struct vars} : bytes :=
  match vars with
  | VNil => []
  | VCons _ d fs r =>
      match i with O => be8 d ++ enc_static_fields fs vs | S j => enc_static_variants r j vs end
  end
with enc_static_alts (al : alts) (i : nat) (x : val) {struct al} : bytes :=
  match al with
  | ANil => []
  | ACons _ _ t r => match i with O => enc_static t x | S j => enc_static_alts r j x end
  end.

(* ---------------------------------------------------------------- encode_dynamic *)
Fixpoint enc_dynamic (t : ty) (v : val) {struct t} : bytes :=
  match t, v with
  | TByteVec, VB bs => bs ++ zeros (pad8 (length bs))
  | TVec t', VL vs => flat_map (fun x => enc_static t' x ++ enc_dynamic t' x) vs
  | TStruct _ fs, VS vs => enc_dynamic_fields fs vs
  | TEnum vars, VE i vs => enc_dynamic_variants vars i vs
  | TPolicies, VS (VN bits :: vs) => enc_policy_values policy_idx bits vs
  | TInput cf cs cp ct mf mcs mcp mds mdp, VE i [x] =>
      enc_dynamic (input_sel i cs cp ct mcs mcp mds mdp) x
  | TPeek al, VE i [x] => enc_dynamic_alts al i x
  | _, _ => []
  end
with enc_dynamic_fields (fs : fields) (vs : list val) {struct fs} : bytes :=
  match fs, vs with
  | FCons _ sk t r, v :: vs' => (if sk then [] else enc_dynamic t v) ++ enc_dynamic_fields r vs'
  | _, _ => []
  end
with enc_dynamic_variants (vars : variants) (i : nat) (vs : list val) {struct vars} : bytes :=
  match vars with
  | VNil => []
  | VCons _ _ fs r =>
      match i with O => enc_dynamic_fields fs vs | S j => enc_dynamic_variants r j vs end
  end
with enc_dynamic_alts (al : alts) (i : nat) (x : val) {struct al} : bytes :=
  match al with
  | ANil => []
  | ACons _ _ t r => match i with O => enc_dynamic t x | S j => enc_dynamic_alts r j x end
  end.

Definition enc (t : ty) (v : val) : bytes := enc_static t v ++ enc_dynamic t v.

(* Vec::encode_static fails with AllocationLimit when len > VEC_DECODE_LIMIT; that is the only
   way encode can fail, and `wf` contains exactly that check for every vector *)
Fixpoint enc_fits (t : ty) (v : val) {struct t} : bool :=
  match t, v with
  | TByteVec, VB bs => lenN bs <=? limit
  | TVec t', VL vs => (lenN vs <=? limit) && forallb (enc_fits t') vs
  | TStruct _ fs, VS vs => enc_fits_fields fs vs
  | TEnum vars, VE i vs => enc_fits_variants vars i vs
  | TInput cf cs cp ct mf mcs mcp mds mdp, VE i [x] => enc_fits (input_sel i cs cp ct mcs mcp mds mdp) x
  | TPeek al, VE i [x] => enc_fits_alts al i x
  | _, _ => true
  end
with enc_fits_fields (fs : fields) (vs : list val) {struct fs} : bool :=
  match fs, vs with
  | FCons _ sk t r, v :: vs' => (sk || enc_fits t v) && enc_fits_fields r vs'
  | _, _ => true
  end
with enc_fits_variants (vars : variants) (i : nat) (vs : list val) {struct vars} : bool :=
  match vars with
  | VNil => true
  | VCons _ _ fs r => match i with O => enc_fits_fields fs vs | S j => enc_fits_variants r j vs end
  end
with enc_fits_alts (al : alts) (i : nat) (x : val) {struct al} : bool :=
  match al with
  | ANil => true
  | ACons _ _ t r => match i with O => enc_fits t x | S j => enc_fits_alts r j x end
  end.
Definition encode (t : ty) (v : val) : result bytes :=
  if enc_fits t v then Ok (enc t v) else Err AllocationLimit.

(* ---------------------------------------------------------------- size_static / size_dynamic *)
Fixpoint size_static (t : ty) (v : val) {struct t} : N :=
  match t, v with
  | TUInt w, _ => aligned_size (N.of_nat w)
  | TBytesN n, _ => aligned_size (N.of_nat n)
  | TByteVec, _ => 8
  | TVec _, _ => 8
  | TStruct p fs, VS vs => size_static_fields fs vs (match p with Some _ => 8 | None => 0 end)
  | TEnum vars, VE i vs => size_static_variants vars i vs
  | TEmpty t', _ => size_static t' (default_val t')
  | TPolicies, _ => aligned_size 4
  | TInput cf cs cp ct mf mcs mcp mds mdp, VE i [x] =>
      sat (size_static (input_sel i cs cp ct mcs mcp mds mdp) x) 8
  | TPeek al, VE i [x] => size_static_alts al i x
  | _, _ => 0
  end
with size_static_fields (fs : fields) (vs : list val) (acc : N) {struct fs} : N :=
  match fs, vs with
  | FCons _ sk t r, v :: vs' => size_static_fields r vs' (if sk then acc else sat acc (size_static t v))
  | _, _ => acc
  end
with size_static_variants (vars : variants) (i : nat) (vs : list val) {struct vars} : N :=
  match vars with
  | VNil => 0
  | VCons _ _ fs r =>
      match i with O => size_static_fields fs vs 8 | S j => size_static_variants r j vs end
  end
with size_static_alts (al : alts) (i : nat) (x : val) {struct al} : N :=
  match al with
  | ANil => 0
  | ACons _ _ t r => match i with O => size_static t x | S j => size_static_alts r j x end
  end.

(* iter().map(|e| e.size()).reduce(usize::saturating_add).unwrap_or_default() *)
Definition sum_sat (l : list N) : N := fold_left sat l 0.

Fixpoint size_dynamic (t : ty) (v : val) {struct t} : N :=
  match t, v with
  | TByteVec, VB bs => aligned_size (lenN bs)
  | TVec t', VL vs => aligned_size (sum_sat (map (fun x => sat (size_static t' x) (size_dynamic t' x)) vs))
  | TStruct _ fs, VS vs => size_dynamic_fields fs vs 0
  | TEnum vars, VE i vs => size_dynamic_variants vars i vs
  | TPolicies, VS (VN bits :: _) => count_ones bits * 8
  | TInput cf cs cp ct mf mcs mcp mds mdp, VE i [x] =>
      size_dynamic (input_sel i cs cp ct mcs mcp mds mdp) x
  | TPeek al, VE i [x] => size_dynamic_alts al i x
  | _, _ => 0
  end
with size_dynamic_fields (fs : fields) (vs : list val) (acc : N) {struct fs} : N :=
  match fs, vs with
  | FCons _ sk t r, v :: vs' => size_dynamic_fields r vs' (if sk then acc else sat acc (size_dynamic t v))
  | _, _ => acc
  end
with size_dynamic_variants (vars : variants) (i : nat) (vs : list val) {struct vars} : N :=
  match vars with
  | VNil => 0
  | VCons _ _ fs r =>
      match i with O => size_dynamic_fields fs vs 0 | S j => size_dynamic_variants r j vs end
  end
with size_dynamic_alts (al : alts) (i : nat) (x : val) {struct al} : N :=
  match al with
  | ANil => 0
  | ACons _ _ t r => match i with O => size_dynamic t x | S j => size_dynamic_alts r j x end
  end.

Definition size (t : ty) (v : val) : N := sat (size_static t v) (size_dynamic t v).

(* ---------------------------------------------------------------- decode_static *)
(* #[canonical(prefix = P)]: `if prefix != Ok(P) { return Err(InvalidPrefix) }` *)
Definition check_prefix (p : option N) (b : bytes) : result bytes :=
  match p with
  | None => Ok b
  | Some d =>
      match read_word b with
      | Ok (x, r) => if x =? d then Ok r else Err InvalidPrefix
      | Err _ => Err InvalidPrefix
      end
  end.

(* Vec<T>::decode_static: length word, limit check, allocation *)
Definition dec_vec_header (b : bytes) : result (val * bytes) :=
  let* (n, r) := read_word b in
  if limit <? n then Err AllocationLimit else Ok (VPend n, r).

Fixpoint dec_static (t : ty) (b : bytes) {struct t} : result (val * bytes) :=
  match t with
  | TUInt w => let* (n, r) := read_uint w b in Ok (VN n, r)
  | TBytesN n =>
      let* (x, r) := take n b in
      let* r' := skip (pad8 n) r in
      Ok (VB x, r')
  | TByteVec => dec_vec_header b
  | TVec _ => dec_vec_header b
  | TStruct p fs =>
      let* r := check_prefix p b in
      let* (vs, r') := dec_static_fields fs r in
      Ok (VS vs, r')
  | TEnum vars =>
      let* (d, r) := read_word b in
      dec_static_variants vars d O r
  | TEmpty t' =>
      let* (_, r) := dec_static t' b in
      Ok (VUnit, r)
  | TOpaque _ => Ok (VUnit, b)
  | TPolicies =>
      let* (bits, r) := read_uint 4 b in
      if 64 <=? bits then Err InvalidPoliciesBits            (* PoliciesBits::from_bits *)
      else Ok (VS (VN bits :: zero_policy_values), r)
  | TInput cf cs cp ct mf mcs mcp mds mdp =>
      match read_word b with
      | Err _ => Err UnknownDiscriminant                      (* .map_err(|_| UnknownDiscriminant) *)
      | Ok (d, r) =>
          if d =? 0 then
            let* (p, r') := dec_static cf r in
            if pend_zero "predicate" cf p then Ok (VE 0 [into cs p], r')
            else Ok (VE 1 [into cp p], r')
          else if d =? 1 then
            let* (p, r') := dec_static ct r in
            Ok (VE 2 [p], r')
          else if d =? 2 then
            let* (p, r') := dec_static mf r in
            match pend_zero "data" mf p, pend_zero "predicate" mf p with
            | true, true => Ok (VE 3 [into mcs p], r')
            | true, false => Ok (VE 4 [into mcp p], r')
            | false, true => Ok (VE 5 [into mds p], r')
            | false, false => Ok (VE 6 [into mdp p], r')
            end
          else Err UnknownDiscriminant
      end
  | TPeek al =>
      let* (x, _) := take 8 b in                              (* buffer.peek(&mut [0u8; 8]) *)
      dec_static_alts al (be_decode x) O b
  end
with dec_static_fields (fs : fields) (b : bytes) {struct fs} : result (list val * bytes) :=
  match fs with
  | FNil => Ok ([], b)
  | FCons _ sk t r =>
      let* (v, b1) := (if sk then Ok (VUnit, b) else dec_static t b) in
      let* (vs, b2) := dec_static_fields r b1 in
      Ok (v :: vs, b2)
  end
with dec_static_variants (vars : variants) (d : N) (i : nat) (b : bytes) {struct vars}
    : result (val * bytes) :=
  match vars with
  | VNil => Err UnknownDiscriminant
  | VCons _ d' fs r =>
      if d =? d' then
        let* (vs, b') := dec_static_fields fs b in
        Ok (VE i vs, b')
      else dec_static_variants r d (S i) b
  end
with dec_static_alts (al : alts) (d : N) (i : nat) (b : bytes) {struct al} : result (val * bytes) :=
  match al with
  | ANil => Err UnknownDiscriminant
  | ACons _ d' t r =>
      if d =? d' then
        let* (p, b') := dec_static t b in
        Ok (VE i [p], b')
      else dec_static_alts r d (S i) b
  end.

(* ---------------------------------------------------------------- decode_dynamic *)
(* `for _ in 0..self.capacity() { self.push(T::decode(buffer)?) }`.  The count is an N (it can
   be 100 Mi); the recursion is on the buffer length, which bounds the number of elements that
   can possibly be decoded when every element consumes at least one byte.  If the fuel runs
   out the next element's error (necessarily BufferIsTooShort for such element types) is
   returned; ModelStuck is returned only for element types of size zero. *)
Fixpoint dec_many (d : bytes -> result (val * bytes)) (fuel : nat) (n : N) (b : bytes)
    : result (list val * bytes) :=
  if n =? 0 then Ok ([], b) else
  match fuel with
  | O => match d b with Err e => Err e | Ok _ => Err ModelStuck end
  | S f =>
      let* (v, b1) := d b in
      let* (vs, b2) := dec_many d f (n - 1) b1 in
      Ok (v :: vs, b2)
  end.

Fixpoint dec_dynamic (t : ty) (p : val) (b : bytes) {struct t} : result (val * bytes) :=
  match t, p with
  | TUInt _, _ => Ok (p, b)
  | TBytesN _, _ => Ok (p, b)
  | TEmpty _, _ => Ok (VUnit, b)
  | TOpaque _, _ => Ok (VUnit, b)
  | TByteVec, VPend n =>
      let* (x, r) := takeN n b in
      let* r' := skipN (padN n) r in
      Ok (VB x, r')
  | TVec t', VPend n =>
      let* (vs, r) := dec_many (fun b' => let* (q, r) := dec_static t' b' in dec_dynamic t' q r)
                                (length b) n b in
      Ok (VL vs, r)
  | TStruct _ fs, VS ps =>
      let* (vs, r) := dec_dynamic_fields fs ps b in
      Ok (VS vs, r)
  | TEnum vars, VE i ps =>
      let* (vs, r) := dec_dynamic_variants vars i ps b in
      Ok (VE i vs, r)
  | TPolicies, VS (VN bits :: _) =>
      let* (vs, r) := dec_policy_values policy_idx bits b in
      if N.testbit bits 2 && (u32_max <? val_N (nth 2 vs (VN 0))) then Err MaturityTooLarge
      else if N.testbit bits 4 && (u32_max <? val_N (nth 4 vs (VN 0))) then Err ExpirationTooLarge
      else Ok (VS (VN bits :: vs), r)
  | TInput cf cs cp ct mf mcs mcp mds mdp, VE i [q] =>
      let* (v, r) := dec_dynamic (input_sel i cs cp ct mcs mcp mds mdp) q b in
      Ok (VE i [v], r)
  | TPeek al, VE i [q] =>
      let* (v, r) := dec_dynamic_alts al i q b in
      Ok (VE i [v], r)
  | _, _ => Err ModelStuck
  end
with dec_dynamic_fields (fs : fields) (ps : list val) (b : bytes) {struct fs}
    : result (list val * bytes) :=
  match fs, ps with
  | FNil, [] => Ok ([], b)
  | FCons _ sk t r, p :: ps' =>
      let* (v, b1) := (if sk then Ok (VUnit, b) else dec_dynamic t p b) in
      let* (vs, b2) := dec_dynamic_fields r ps' b1 in
      Ok (v :: vs, b2)
  | _, _ => Err ModelStuck
  end
with dec_dynamic_variants (vars : variants) (i : nat) (ps : list val) (b : bytes) {struct vars}
    : result (list val * bytes) :=
  match vars with
  | VNil => Err ModelStuck
  | VCons _ _ fs r =>
      match i with O => dec_dynamic_fields fs ps b | S j => dec_dynamic_variants r j ps b end
  end
with dec_dynamic_alts (al : alts) (i : nat) (q : val) (b : bytes) {struct al} : result (val * bytes) :=
  match al with
  | ANil => Err ModelStuck
  | ACons _ _ t r => match i with O => dec_dynamic t q b | S j => dec_dynamic_alts r j q b end
  end.

(* Deserialize::decode *)
Definition dec (t : ty) (b : bytes) : result (val * bytes) :=
  let* (p, r) := dec_static t b in
  dec_dynamic t p r.

End Model.
