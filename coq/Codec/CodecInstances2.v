(* Codec/CodecInstances2.v — decode-side lemmas (CodecSound.v) at the generated schemas. *)
From Coq Require Import Arith PeanoNat.
From FV Require Export Codec.CodecSound Codec.CodecTotal Codec.CodecInstances.
Open Scope N_scope.

(* the types C02 names: what peers and DA consumers decode *)
Definition decode_types : list (string * ty) := [
  ("Transaction", S_Transaction); ("Input", S_Input); ("Output", S_Output); ("Receipt", S_Receipt)]%string.
Definition is_decode_type (t : ty) : Prop := In t (map snd decode_types).
Lemma decode_type_codec t : is_decode_type t -> is_codec_type t.
Proof.
  unfold is_decode_type, is_codec_type. cbn. intros [<-|[<-|[<-|[<-|[]]]]]; auto 20.
Qed.

(* decoding succeeded => the consumed prefix is as long as the re-encoding, the value is typed
   and wf, carries no erased field, and is a fixed point of encode-then-decode *)
Lemma inst_dec_sound t b v rest : is_codec_type t -> wf_bytes b = true -> dec L t b = Ok (v, rest) ->
  (exists c, b = c ++ rest /\ lenN c = lenN (enc t v)) /\
  lenN (enc t v) mod 8 = 0 /\
  typed t v = true /\ wf L t v = true /\ erase t v = v /\
  encode L t v = Ok (enc t v) /\
  dec L t (enc t v) = Ok (v, []).
Proof.
  intros Ht Hw H. pose proof (codec_type_ok t Ht) as Hok.
  destruct (dec_sound L L_lt t b v rest Hok Hw H) as (c & E & Lc & T & W & Er).
  split; [exists c; split; [exact E | unfold lenN; rewrite Lc; reflexivity]|].
  split; [exact (proj1 (inst_aligned t v Ht T))|].
  repeat split; auto.
  - apply encode_ok. exact W.
  - exact (dec_fixpoint L L_lt t b v rest Hok Hw H).
Qed.

(* non-vacuity: a byte string with dirty padding and a non-zero witness index under an Empty<u16>
   that decodes; its re-encoding differs from the input but is a fixed point *)
Definition ex_dirty_input : bytes :=
  enc S_Input (ex_coin_predicate [1; 2; 3] [9]).
Example ex_decodes :
  exists v rest, dec L S_Input (ex_dirty_input ++ [1; 2; 3]) = Ok (v, rest) /\ rest = [1; 2; 3].
Proof. eexists. eexists. vm_compute. split; reflexivity. Qed.

(* every outcome of the model decoder is Ok or a Rust error value (never the model-only
   ModelStuck): the model is total on byte strings *)
Lemma inst_dec_total t b : is_codec_type t -> wf_bytes b = true ->
  (exists v rest, dec L t b = Ok (v, rest)) \/ (exists e, dec L t b = Err e /\ e <> ModelStuck).
Proof. intros Ht Hw. apply (dec_total L L_lt); auto using codec_type_ok. Qed.
