(* Codec/CodecProofs.v — generic lemmas about the canonical codec model, proved ONCE by
   induction over the schema universe:

     enc_aligned   : the static and the dynamic part of every encoding are multiples of 8 bytes
     size_exact    : size_static/size_dynamic/size = byte length of what enc produces (capped at
                     usize::MAX exactly as the Rust saturating arithmetic does)
     dec_enc       : dec t (enc t v ++ rest) = Ok (erase t v, rest)   for typed, wf values
   (the decode-side lemmas are in CodecSound.v)                                            *)
From Coq Require Import Arith PeanoNat.
From FV Require Export Codec.CodecFacts.
Open Scope N_scope.

(* ---------------------------------------------------------------- by-index unfolding *)
Ltac by_index vars :=
  let i := fresh "i" in let H := fresh "H" in
  intros i; revert i; induction vars as [|? ? ? ? IHv]; intros [|?] H; cbn in *; try discriminate;
  [ injection H as -> ->; reflexivity | eauto ].

Lemma typed_variants_nth vars : forall i d fs vs, nth_variant vars i = Some (d, fs) ->
  typed_variants vars i vs = (d <? U64) && typed_fields fs vs.
Proof. intros i d fs vs; revert i; induction vars as [|n d' fs' r IH]; intros [|j] H; cbn in *; try discriminate;
  [injection H as -> ->; reflexivity | eauto]. Qed.
Lemma typed_variants_none vars : forall i vs, nth_variant vars i = None -> typed_variants vars i vs = false.
Proof. induction vars as [|n d' fs' r IH]; intros [|j] vs H; cbn in *; try discriminate; auto. Qed.
Lemma erase_variants_nth vars : forall i d fs vs, nth_variant vars i = Some (d, fs) ->
  erase_variants vars i vs = erase_fields fs vs.
Proof. intros i d fs vs; revert i; induction vars as [|n d' fs' r IH]; intros [|j] H; cbn in *; try discriminate;
  [injection H as -> ->; reflexivity | eauto]. Qed.
Lemma enc_static_variants_nth vars : forall i d fs vs, nth_variant vars i = Some (d, fs) ->
  enc_static_variants vars i vs = be8 d ++ enc_static_fields fs vs.
Proof. intros i d fs vs; revert i; induction vars as [|n d' fs' r IH]; intros [|j] H; cbn in *; try discriminate;
  [injection H as -> ->; reflexivity | eauto]. Qed.
Lemma enc_dynamic_variants_nth vars : forall i d fs vs, nth_variant vars i = Some (d, fs) ->
  enc_dynamic_variants vars i vs = enc_dynamic_fields fs vs.
Proof. intros i d fs vs; revert i; induction vars as [|n d' fs' r IH]; intros [|j] H; cbn in *; try discriminate;
  [injection H as -> ->; reflexivity | eauto]. Qed.
Lemma size_static_variants_nth vars : forall i d fs vs, nth_variant vars i = Some (d, fs) ->
  size_static_variants vars i vs = size_static_fields fs vs 8.
Proof. intros i d fs vs; revert i; induction vars as [|n d' fs' r IH]; intros [|j] H; cbn in *; try discriminate;
  [injection H as -> ->; reflexivity | eauto]. Qed.
Lemma size_dynamic_variants_nth vars : forall i d fs vs, nth_variant vars i = Some (d, fs) ->
  size_dynamic_variants vars i vs = size_dynamic_fields fs vs 0.
Proof. intros i d fs vs; revert i; induction vars as [|n d' fs' r IH]; intros [|j] H; cbn in *; try discriminate;
  [injection H as -> ->; reflexivity | eauto]. Qed.
Lemma schema_ok_variants_nth vars : forall i d fs, nth_variant vars i = Some (d, fs) ->
  schema_ok_variants vars = true -> d < U64 /\ schema_ok_fields fs = true.
Proof.
  intros i d fs; revert i; induction vars as [|n d' fs' r IH]; intros [|j] H Hok; cbn in *; try discriminate.
  - injection H as -> ->. apply andb_true_iff in Hok as [Hok _]. apply andb_true_iff in Hok as [H1 H2].
    split; [apply N.ltb_lt; exact H1 | exact H2].
  - apply andb_true_iff in Hok as [_ Hok]. eauto.
Qed.

Lemma typed_alts_nth al : forall i d t x, nth_alt al i = Some (d, t) -> typed_alts al i x = typed t x.
Proof. intros i d t x; revert i; induction al as [|n d' t' r IH]; intros [|j] H; cbn in *; try discriminate;
  [injection H as -> ->; reflexivity | eauto]. Qed.
Lemma typed_alts_none al : forall i x, nth_alt al i = None -> typed_alts al i x = false.
Proof. induction al as [|n d' t' r IH]; intros [|j] x H; cbn in *; try discriminate; auto. Qed.
Lemma erase_alts_nth al : forall i d t x, nth_alt al i = Some (d, t) -> erase_alts al i x = erase t x.
Proof. intros i d t x; revert i; induction al as [|n d' t' r IH]; intros [|j] H; cbn in *; try discriminate;
  [injection H as -> ->; reflexivity | eauto]. Qed.
Lemma enc_static_alts_nth al : forall i d t x, nth_alt al i = Some (d, t) -> enc_static_alts al i x = enc_static t x.
Proof. intros i d t x; revert i; induction al as [|n d' t' r IH]; intros [|j] H; cbn in *; try discriminate;
  [injection H as -> ->; reflexivity | eauto]. Qed.
Lemma enc_dynamic_alts_nth al : forall i d t x, nth_alt al i = Some (d, t) -> enc_dynamic_alts al i x = enc_dynamic t x.
Proof. intros i d t x; revert i; induction al as [|n d' t' r IH]; intros [|j] H; cbn in *; try discriminate;
  [injection H as -> ->; reflexivity | eauto]. Qed.
Lemma size_static_alts_nth al : forall i d t x, nth_alt al i = Some (d, t) -> size_static_alts al i x = size_static t x.
Proof. intros i d t x; revert i; induction al as [|n d' t' r IH]; intros [|j] H; cbn in *; try discriminate;
  [injection H as -> ->; reflexivity | eauto]. Qed.
Lemma size_dynamic_alts_nth al : forall i d t x, nth_alt al i = Some (d, t) -> size_dynamic_alts al i x = size_dynamic t x.
Proof. intros i d t x; revert i; induction al as [|n d' t' r IH]; intros [|j] H; cbn in *; try discriminate;
  [injection H as -> ->; reflexivity | eauto]. Qed.
Lemma schema_ok_alts_nth al : forall i d t, nth_alt al i = Some (d, t) ->
  schema_ok_alts al = true -> d < U64 /\ schema_ok t = true /\ starts_with d t = true.
Proof.
  intros i d t; revert i; induction al as [|n d' t' r IH]; intros [|j] H Hok; cbn in *; try discriminate.
  - injection H as -> ->. apply andb_true_iff in Hok as [Hok _]. apply andb_true_iff in Hok as [Hok H3].
    apply andb_true_iff in Hok as [H1 H2]. repeat split; auto. apply N.ltb_lt; exact H1.
  - apply andb_true_iff in Hok as [_ Hok]. eauto.
Qed.

(* ---------------------------------------------------------------- one-step equations *)
Lemma default_fields_cons n sk t r :
  default_fields (FCons n sk t r) = (if sk then VUnit else default_val t) :: default_fields r.
Proof. reflexivity. Qed.
Lemma typed_fields_cons n sk t r v vs :
  typed_fields (FCons n sk t r) (v :: vs) = (sk || typed t v) && typed_fields r vs.
Proof. reflexivity. Qed.
Lemma erase_fields_cons n sk t r v vs :
  erase_fields (FCons n sk t r) (v :: vs) = (if sk then VUnit else erase t v) :: erase_fields r vs.
Proof. reflexivity. Qed.
Lemma enc_static_fields_cons n sk t r v vs :
  enc_static_fields (FCons n sk t r) (v :: vs) = (if sk then [] else enc_static t v) ++ enc_static_fields r vs.
Proof. reflexivity. Qed.
Lemma enc_dynamic_fields_cons n sk t r v vs :
  enc_dynamic_fields (FCons n sk t r) (v :: vs) = (if sk then [] else enc_dynamic t v) ++ enc_dynamic_fields r vs.
Proof. reflexivity. Qed.
Lemma size_static_fields_cons n sk t r v vs acc :
  size_static_fields (FCons n sk t r) (v :: vs) acc =
  size_static_fields r vs (if sk then acc else sat acc (size_static t v)).
Proof. reflexivity. Qed.
Lemma size_dynamic_fields_cons n sk t r v vs acc :
  size_dynamic_fields (FCons n sk t r) (v :: vs) acc =
  size_dynamic_fields r vs (if sk then acc else sat acc (size_dynamic t v)).
Proof. reflexivity. Qed.
Lemma flat_fields_cons n sk t r : flat_fields (FCons n sk t r) = negb sk && flat t && flat_fields r.
Proof. reflexivity. Qed.
Lemma schema_ok_fields_cons n sk t r :
  schema_ok_fields (FCons n sk t r) = (sk || schema_ok t) && schema_ok_fields r.
Proof. reflexivity. Qed.

(* ---------------------------------------------------------------- defaults of flat types *)
Lemma wf_bytes_zeros n : wf_bytes (zeros n) = true.
Proof. induction n as [|n IH]; [reflexivity|]. cbn. exact IH. Qed.
Lemma pow256_pos w : 0 < 256 ^ N.of_nat w.
Proof. assert (256 ^ N.of_nat w <> 0) by (apply N.pow_nonzero; lia). lia. Qed.

Lemma flat_default_typed :
  (forall t, flat t = true -> typed t (default_val t) = true) /\
  (forall fs, flat_fields fs = true -> typed_fields fs (default_fields fs) = true).
Proof.
  apply schema_ind2; try (intros; cbn in *; discriminate).
  - intros w _. cbn. apply N.ltb_lt. apply pow256_pos.
  - intros n _. cbn. rewrite zeros_length, Nat.eqb_refl, wf_bytes_zeros. reflexivity.
  - intros _. reflexivity.
  - intros t _ _. reflexivity.
  - intros p fs IH H. cbn in H |- *. apply andb_true_iff in H as [H1 H2]. rewrite H1, IH by exact H2. reflexivity.
  - intros _. reflexivity.
  - intros n sk t r It Ir H. cbn in H |- *.
    apply andb_true_iff in H as [H H3]. apply andb_true_iff in H as [H1 H2].
    destruct sk; [discriminate|]. cbn. rewrite It, Ir by assumption. reflexivity.
Qed.

Section Proofs.
Variable limit : N.

Lemma wf_fields_cons n sk t r v vs :
  wf_fields limit (FCons n sk t r) (v :: vs) = (sk || wf limit t v) && wf_fields limit r vs.
Proof. reflexivity. Qed.
Lemma dec_static_fields_cons n sk t r b :
  dec_static_fields limit (FCons n sk t r) b =
  (let* (v, b1) := (if sk then Ok (VUnit, b) else dec_static limit t b) in
   let* (vs, b2) := dec_static_fields limit r b1 in Ok (v :: vs, b2)).
Proof. reflexivity. Qed.
Lemma dec_dynamic_fields_cons n sk t r p ps b :
  dec_dynamic_fields limit (FCons n sk t r) (p :: ps) b =
  (let* (v, b1) := (if sk then Ok (VUnit, b) else dec_dynamic limit t p b) in
   let* (vs, b2) := dec_dynamic_fields limit r ps b1 in Ok (v :: vs, b2)).
Proof. reflexivity. Qed.

Lemma wf_variants_nth vars : forall i d fs vs, nth_variant vars i = Some (d, fs) ->
  wf_variants limit vars i vs = wf_fields limit fs vs.
Proof. intros i d fs vs; revert i; induction vars as [|n d' fs' r IH]; intros [|j] H; cbn in *; try discriminate;
  [injection H as -> ->; reflexivity | eauto]. Qed.
Lemma wf_alts_nth al : forall i d t x, nth_alt al i = Some (d, t) -> wf_alts limit al i x = wf limit t x.
Proof. intros i d t x; revert i; induction al as [|n d' t' r IH]; intros [|j] H; cbn in *; try discriminate;
  [injection H as -> ->; reflexivity | eauto]. Qed.
Lemma dec_dynamic_variants_nth vars : forall i d fs ps b, nth_variant vars i = Some (d, fs) ->
  dec_dynamic_variants limit vars i ps b = dec_dynamic_fields limit fs ps b.
Proof. intros i d fs ps b; revert i; induction vars as [|n d' fs' r IH]; intros [|j] H; cbn in *; try discriminate;
  [injection H as -> ->; reflexivity | eauto]. Qed.
Lemma dec_dynamic_alts_nth al : forall i d t q b, nth_alt al i = Some (d, t) ->
  dec_dynamic_alts limit al i q b = dec_dynamic limit t q b.
Proof. intros i d t q b; revert i; induction al as [|n d' t' r IH]; intros [|j] H; cbn in *; try discriminate;
  [injection H as -> ->; reflexivity | eauto]. Qed.

(* discriminant lookup finds the variant with that discriminant when they are distinct *)
Lemma dec_static_variants_nth vars : forall k i d fs b,
  nodupN (variant_discs vars) = true -> nth_variant vars i = Some (d, fs) ->
  dec_static_variants limit vars d k b =
  (let* (vs, b') := dec_static_fields limit fs b in Ok (VE (k + i) vs, b')).
Proof.
  induction vars as [|n d' fs' r IH]; intros k [|j] d fs b Hnd H; cbn in H; try discriminate.
  - injection H as -> ->. cbn [dec_static_variants]. rewrite N.eqb_refl, Nat.add_0_r. reflexivity.
  - cbn [variant_discs nodupN] in Hnd. apply andb_true_iff in Hnd as [Hh Hnd].
    apply negb_true_iff in Hh. apply existsb_eqb_false in Hh.
    cbn [dec_static_variants].
    destruct (N.eqb_spec d d') as [->|Hne].
    + exfalso. apply Hh. eapply nth_variant_disc_in; eauto.
    + rewrite (IH (S k) j d fs b Hnd H). rewrite Nat.add_succ_r. reflexivity.
Qed.
Lemma dec_static_alts_nth al : forall k i d t b,
  nodupN (alt_discs al) = true -> nth_alt al i = Some (d, t) ->
  dec_static_alts limit al d k b =
  (let* (p, b') := dec_static limit t b in Ok (VE (k + i) [p], b')).
Proof.
  induction al as [|n d' t' r IH]; intros k [|j] d t b Hnd H; cbn in H; try discriminate.
  - injection H as -> ->. cbn [dec_static_alts]. rewrite N.eqb_refl, Nat.add_0_r. reflexivity.
  - cbn [alt_discs nodupN] in Hnd. apply andb_true_iff in Hnd as [Hh Hnd].
    apply negb_true_iff in Hh. apply existsb_eqb_false in Hh.
    cbn [dec_static_alts].
    destruct (N.eqb_spec d d') as [->|Hne].
    + exfalso. apply Hh. eapply nth_alt_disc_in; eauto.
    + rewrite (IH (S k) j d t b Hnd H). rewrite Nat.add_succ_r. reflexivity.
Qed.

Lemma flat_default_wf :
  (forall t, flat t = true -> wf limit t (default_val t) = true) /\
  (forall fs, flat_fields fs = true -> wf_fields limit fs (default_fields fs) = true).
Proof.
  apply schema_ind2; try (intros; cbn in *; first [discriminate | reflexivity]).
  - intros _. cbn. apply N.leb_le. unfold lenN; cbn. lia.
  - intros t _ _. cbn. rewrite andb_true_r. apply N.leb_le. unfold lenN; cbn. lia.
  - intros p fs IH H. cbn in H |- *. apply andb_true_iff in H as [_ H2]. auto.
  - intros n sk t r It Ir H. cbn [flat_fields] in H.
    apply andb_true_iff in H as [H H3]. apply andb_true_iff in H as [H1 H2].
    destruct sk; [discriminate|]. rewrite default_fields_cons, wf_fields_cons. cbn [orb]. rewrite It, Ir by assumption. reflexivity.
Qed.
Lemma flat_default_dynamic_nil :
  (forall t, flat t = true -> enc_dynamic t (default_val t) = []) /\
  (forall fs, flat_fields fs = true -> enc_dynamic_fields fs (default_fields fs) = []).
Proof.
  apply schema_ind2; try (intros; cbn in *; first [discriminate | reflexivity]).
  - intros p fs IH H. cbn in H |- *. apply andb_true_iff in H as [_ H2]. auto.
  - intros n sk t r It Ir H. cbn [flat_fields] in H.
    apply andb_true_iff in H as [H H3]. apply andb_true_iff in H as [H1 H2].
    destruct sk; [discriminate|]. rewrite default_fields_cons, enc_dynamic_fields_cons. rewrite It, Ir by assumption. reflexivity.
Qed.
Lemma flat_schema_ok :
  (forall t, flat t = true -> schema_ok t = true -> True) /\ (forall fs : fields, True).
Proof. split; auto. Qed.

End Proofs.

(* ---------------------------------------------------------------- alignment *)
Definition al8 (b : bytes) : Prop := Nat.modulo (length b) 8 = 0%nat.
Lemma al8_nil : al8 []. Proof. reflexivity. Qed.
Lemma al8_app a b : al8 a -> al8 b -> al8 (a ++ b).
Proof. unfold al8. intros. rewrite app_length. apply mod8_add; assumption. Qed.
Lemma al8_be8 n : al8 (be8 n). Proof. unfold al8. rewrite be8_length. reflexivity. Qed.
Lemma al8_enc_uint w n : al8 (enc_uint w n).
Proof. unfold al8. rewrite enc_uint_length, Nat.add_comm. apply pad8_spec. Qed.
Lemma al8_padded (bs : bytes) : al8 (bs ++ zeros (pad8 (length bs))).
Proof. unfold al8. rewrite app_length, zeros_length. apply pad8_spec. Qed.
Lemma al8_flat_map {A} (f : A -> bytes) l : (forall x, In x l -> al8 (f x)) -> al8 (flat_map f l).
Proof.
  induction l as [|x l IH]; intros H; [apply al8_nil|]. cbn [flat_map].
  apply al8_app; [apply H; left; reflexivity | apply IH; intros; apply H; right; assumption].
Qed.
Lemma al8_enc_policy_values ks bits : forall vs, al8 (enc_policy_values ks bits vs).
Proof.
  induction ks as [|k ks IH]; intros [|v vs]; cbn [enc_policy_values]; try apply al8_nil.
  apply al8_app; [|apply IH]. destruct (N.testbit bits k); [apply al8_be8 | apply al8_nil].
Qed.

Lemma input_sel_cases {A} (Q : A -> Prop) i (a0 a1 a2 a3 a4 a5 a6 : A) :
  Q a0 -> Q a1 -> Q a2 -> Q a3 -> Q a4 -> Q a5 -> Q a6 -> Q (input_sel i a0 a1 a2 a3 a4 a5 a6).
Proof. intros. do 7 (destruct i as [|i]; [assumption|]). assumption. Qed.

Lemma enc_aligned_all :
  (forall t, schema_ok t = true -> forall v, typed t v = true ->
     al8 (enc_static t v) /\ al8 (enc_dynamic t v)) /\
  (forall fs, schema_ok_fields fs = true -> forall vs, typed_fields fs vs = true ->
     al8 (enc_static_fields fs vs) /\ al8 (enc_dynamic_fields fs vs)).
Proof.
  apply schema_ind2.
  - intros w _ [] H; try discriminate. cbn. split; [apply al8_enc_uint | apply al8_nil].
  - intros n _ [] H; try discriminate. cbn in H |- *. apply andb_true_iff in H as [H _].
    apply Nat.eqb_eq in H. subst n. split; [apply al8_padded | apply al8_nil].
  - intros _ [] H; try discriminate. cbn. split; [apply al8_be8 | apply al8_padded].
  - intros t IH Hok [] H; try discriminate. cbn in Hok, H |- *. apply andb_true_iff in Hok as [Hok _].
    split; [apply al8_be8|]. apply al8_flat_map. intros x Hx.
    rewrite forallb_forall in H. destruct (IH Hok x (H x Hx)). apply al8_app; assumption.
  - intros p fs IH Hok [] H; try discriminate. cbn in Hok, H |- *.
    apply andb_true_iff in Hok as [_ Hok]. apply andb_true_iff in H as [_ H].
    destruct (IH Hok _ H). split; [|assumption].
    apply al8_app; [destruct p; [apply al8_be8 | apply al8_nil] | assumption].
  - intros vars IH Hok [] H; try discriminate. cbn in Hok, H |- *.
    apply andb_true_iff in Hok as [_ Hok].
    destruct (nth_variant vars tag) as [[d fs]|] eqn:Hn.
    + rewrite (typed_variants_nth _ _ _ _ _ Hn) in H. apply andb_true_iff in H as [_ H].
      rewrite (enc_static_variants_nth _ _ _ _ _ Hn), (enc_dynamic_variants_nth _ _ _ _ _ Hn).
      destruct (schema_ok_variants_nth _ _ _ _ Hn Hok) as [_ Hf].
      destruct (IH _ _ _ Hn Hf _ H). split; [apply al8_app; [apply al8_be8 | assumption] | assumption].
    + rewrite typed_variants_none in H by exact Hn. discriminate.
  - intros t IH Hok v H. cbn in Hok. apply andb_true_iff in Hok as [Hok Hfl].
    cbn [enc_static enc_dynamic]. split; [|destruct v; apply al8_nil].
    destruct (IH Hok _ (proj1 flat_default_typed _ Hfl)) as [Hs _].
    destruct v; exact Hs.
  - intros s Hok. discriminate.
  - intros _ [] H; try discriminate. destruct vs as [|[] vs]; try discriminate.
    split; [exact (al8_enc_uint 4 n) | exact (al8_enc_policy_values policy_idx n vs)].
  - intros cf cs cp ct mf mcs mcp mds mdp I0 I1 I2 I3 I4 I5 I6 I7 I8 Hok [] H; try discriminate.
    destruct vs as [|x [|]]; try discriminate. cbn in Hok, H |- *.
    repeat (apply andb_true_iff in Hok as [Hok ?]).
    apply andb_true_iff in H as [_ H].
    revert H. apply (input_sel_cases (fun a => typed a x = true ->
        al8 (be8 (input_disc tag) ++ enc_static a x) /\ al8 (enc_dynamic a x)));
      intros Ht;
      [ destruct (I1 ltac:(assumption) _ Ht) | destruct (I2 ltac:(assumption) _ Ht) | destruct (I3 ltac:(assumption) _ Ht)
      | destruct (I5 ltac:(assumption) _ Ht) | destruct (I6 ltac:(assumption) _ Ht) | destruct (I7 ltac:(assumption) _ Ht)
      | destruct (I8 ltac:(assumption) _ Ht) ];
      (split; [apply al8_app; [apply al8_be8 | assumption] | assumption]).
  - intros al IH Hok [] H; try discriminate. destruct vs as [|x [|]]; try discriminate. cbn in Hok, H |- *.
    apply andb_true_iff in Hok as [_ Hok].
    destruct (nth_alt al tag) as [[d t]|] eqn:Hn.
    + rewrite (typed_alts_nth _ _ _ _ _ Hn) in H.
      rewrite (enc_static_alts_nth _ _ _ _ _ Hn), (enc_dynamic_alts_nth _ _ _ _ _ Hn).
      destruct (schema_ok_alts_nth _ _ _ _ Hn Hok) as (_ & Ht & _). exact (IH _ _ _ Hn Ht _ H).
    + rewrite typed_alts_none in H by exact Hn. discriminate.
  - intros _ [] H; try discriminate. cbn. split; apply al8_nil.
  - intros n sk t r It Ir Hok [|v vs] H; try discriminate. cbn in Hok, H |- *.
    apply andb_true_iff in Hok as [Hok1 Hok2]. apply andb_true_iff in H as [H1 H2].
    destruct (Ir Hok2 _ H2). destruct sk; cbn in *.
    + split; assumption.
    + destruct (It Hok1 _ H1). split; apply al8_app; assumption.
Qed.


(* ---------------------------------------------------------------- sizes *)
Definition cap (x : N) : N := N.min x u64_max.
Ltac minlia :=
  repeat match goal with
         | |- context [N.min ?a ?b] =>
             let H := fresh in destruct (N.min_spec a b) as [[? H]|[? H]]; rewrite H in *
         end; lia.
Lemma u64_pred : U64 - 1 = u64_max.
Proof. vm_compute. reflexivity. Qed.
Lemma sat_is_cap a b : sat a b = cap (a + b).
Proof. unfold sat, saturating_add, cap. rewrite u64_pred. reflexivity. Qed.
Lemma sat_cap_l a b : sat (cap a) b = cap (a + b).
Proof. rewrite sat_is_cap. unfold cap. generalize u64_max as m. intros m. minlia. Qed.
Lemma sat_cap a b : sat (cap a) (cap b) = cap (a + b).
Proof. rewrite sat_is_cap. unfold cap. generalize u64_max as m. intros m. minlia. Qed.
Lemma cap_small x : x <= u64_max -> cap x = x.
Proof. unfold cap. generalize u64_max as m. intros m ?. minlia. Qed.
Lemma padN_mult x : x mod 8 = 0 -> padN x = 0.
Proof. intros H. unfold padN. rewrite H. reflexivity. Qed.
Lemma aligned_cap x : x mod 8 = 0 -> aligned_size (cap x) = cap x.
Proof.
  intros H. unfold aligned_size. destruct (N.le_gt_cases x u64_max) as [Hle|Hgt].
  - rewrite (cap_small x Hle), (padN_mult x H), sat_is_cap, N.add_0_r. apply cap_small. exact Hle.
  - assert (Hc : cap x = u64_max) by (unfold cap; revert Hgt; generalize u64_max as m; intros m ?; minlia).
    rewrite Hc. vm_compute. reflexivity.
Qed.
Lemma aligned_nat n : aligned_size (N.of_nat n) = cap (N.of_nat (n + pad8 n)).
Proof. unfold aligned_size. rewrite padN_nat, sat_is_cap. f_equal. lia. Qed.
Lemma al8_N b : al8 b -> lenN b mod 8 = 0.
Proof.
  unfold al8, lenN. intros H. change 8 with (N.of_nat 8). rewrite <- Nat2N.inj_mod, H. reflexivity.
Qed.
Lemma lenN_app {A} (a b : list A) : lenN (a ++ b) = lenN a + lenN b.
Proof. unfold lenN. rewrite app_length. lia. Qed.
Lemma lenN_be8 n : lenN (be8 n) = 8.
Proof. unfold lenN. rewrite be8_length. reflexivity. Qed.

Lemma sum_sat_flat (f : val -> N) (e : val -> bytes) vs :
  (forall x, In x vs -> f x = cap (lenN (e x))) ->
  forall a, fold_left sat (map f vs) (cap a) = cap (a + lenN (flat_map e vs)).
Proof.
  induction vs as [|x vs IH]; intros H a; cbn [map fold_left flat_map].
  - f_equal. unfold lenN; cbn. lia.
  - rewrite (H x (or_introl eq_refl)), sat_cap, IH by (intros; apply H; right; assumption).
    f_equal. rewrite lenN_app. lia.
Qed.

(* count_ones = number of set bits among 0..5 for the 64 admissible masks *)
Definition plen (bits : N) : N :=
  fold_right (fun k acc => (if N.testbit bits k then 8 else 0) + acc) 0 policy_idx.
Lemma plen_count bits : bits < 64 -> plen bits = count_ones bits * 8.
Proof.
  intros H.
  assert (Hall : forallb (fun b => plen b =? count_ones b * 8) (map N.of_nat (seq 0 64)) = true)
    by (vm_compute; reflexivity).
  rewrite forallb_forall in Hall. apply N.eqb_eq. apply Hall.
  apply in_map_iff. exists (N.to_nat bits). split; [apply N2Nat.id|]. apply in_seq. lia.
Qed.
Lemma enc_policy_values_len bits : forall ks vs, length ks = length vs ->
  lenN (enc_policy_values ks bits vs) =
  fold_right (fun k acc => (if N.testbit bits k then 8 else 0) + acc) 0 ks.
Proof.
  induction ks as [|k ks IH]; intros [|v vs] Hl; try discriminate; [reflexivity|].
  cbn [enc_policy_values fold_right]. rewrite lenN_app, IH by (injection Hl; auto).
  destruct (N.testbit bits k); [rewrite lenN_be8 | ]; reflexivity.
Qed.

Lemma size_exact_all :
  (forall t, schema_ok t = true -> forall v, typed t v = true ->
     size_static t v = cap (lenN (enc_static t v)) /\ size_dynamic t v = cap (lenN (enc_dynamic t v))) /\
  (forall fs, schema_ok_fields fs = true -> forall vs, typed_fields fs vs = true -> forall a,
     size_static_fields fs vs (cap a) = cap (a + lenN (enc_static_fields fs vs)) /\
     size_dynamic_fields fs vs (cap a) = cap (a + lenN (enc_dynamic_fields fs vs))).
Proof.
  apply schema_ind2.
  - intros w _ [] H; try discriminate. split; [|reflexivity].
    change (size_static (TUInt w) (VN n)) with (aligned_size (N.of_nat w)).
    change (enc_static (TUInt w) (VN n)) with (enc_uint w n).
    rewrite aligned_nat. unfold lenN. rewrite enc_uint_length. f_equal. lia.
  - intros n _ [] H; try discriminate. split; [|reflexivity].
    change (typed (TBytesN n) (VB bs)) with (Nat.eqb (length bs) n && wf_bytes bs) in H.
    apply andb_true_iff in H as [H _]. apply Nat.eqb_eq in H. subst n.
    change (size_static (TBytesN (length bs)) (VB bs)) with (aligned_size (N.of_nat (length bs))).
    change (enc_static (TBytesN (length bs)) (VB bs)) with (bs ++ zeros (pad8 (length bs))).
    rewrite aligned_nat. unfold lenN. rewrite app_length, zeros_length. reflexivity.
  - intros _ [] H; try discriminate. split.
    + change (enc_static TByteVec (VB bs)) with (be8 (lenN bs)). rewrite lenN_be8. reflexivity.
    + change (size_dynamic TByteVec (VB bs)) with (aligned_size (lenN bs)).
      change (enc_dynamic TByteVec (VB bs)) with (bs ++ zeros (pad8 (length bs))).
      unfold lenN at 1. rewrite aligned_nat. unfold lenN. rewrite app_length, zeros_length. reflexivity.
  - intros t IH Hok [] H; try discriminate.
    change (schema_ok (TVec t)) with (schema_ok t && tpos t) in Hok. apply andb_true_iff in Hok as [Hok _].
    change (typed (TVec t) (VL vs)) with (forallb (typed t) vs) in H. rewrite forallb_forall in H.
    split.
    + change (enc_static (TVec t) (VL vs)) with (be8 (lenN vs)). rewrite lenN_be8. reflexivity.
    + change (size_dynamic (TVec t) (VL vs)) with
        (aligned_size (sum_sat (map (fun x => sat (size_static t x) (size_dynamic t x)) vs))).
      change (enc_dynamic (TVec t) (VL vs)) with (flat_map (fun x => enc_static t x ++ enc_dynamic t x) vs).
      unfold sum_sat. change 0 with (cap 0) at 1.
      rewrite (sum_sat_flat _ (fun x => enc_static t x ++ enc_dynamic t x)).
      * rewrite N.add_0_l. apply aligned_cap. apply al8_N. apply al8_flat_map. intros x Hx.
        destruct (proj1 enc_aligned_all t Hok x (H x Hx)). apply al8_app; assumption.
      * intros x Hx. destruct (IH Hok x (H x Hx)) as [E1 E2]. rewrite E1, E2, sat_cap, lenN_app. reflexivity.
  - intros p fs IH Hok [] H; try discriminate.
    change (schema_ok (TStruct p fs)) with ((match p with Some d => d <? U64 | None => true end) && schema_ok_fields fs) in Hok.
    apply andb_true_iff in Hok as [_ Hok].
    change (typed (TStruct p fs) (VS vs)) with ((match p with Some d => d <? U64 | None => true end) && typed_fields fs vs) in H.
    apply andb_true_iff in H as [_ H].
    change (size_static (TStruct p fs) (VS vs)) with (size_static_fields fs vs (match p with Some _ => 8 | None => 0 end)).
    change (size_dynamic (TStruct p fs) (VS vs)) with (size_dynamic_fields fs vs 0).
    change (enc_static (TStruct p fs) (VS vs)) with ((match p with Some d => be8 d | None => [] end) ++ enc_static_fields fs vs).
    change (enc_dynamic (TStruct p fs) (VS vs)) with (enc_dynamic_fields fs vs).
    split.
    + destruct p.
      * change 8 with (cap 8). rewrite (proj1 (IH Hok vs H 8)), lenN_app, lenN_be8. reflexivity.
      * change 0 with (cap 0). rewrite (proj1 (IH Hok vs H 0)). reflexivity.
    + change 0 with (cap 0) at 1. rewrite (proj2 (IH Hok vs H 0)). rewrite N.add_0_l. reflexivity.
  - intros vars IH Hok [] H; try discriminate.
    change (schema_ok (TEnum vars)) with (nodupN (variant_discs vars) && schema_ok_variants vars) in Hok.
    apply andb_true_iff in Hok as [_ Hok].
    change (typed (TEnum vars) (VE tag vs)) with (typed_variants vars tag vs) in H.
    change (size_static (TEnum vars) (VE tag vs)) with (size_static_variants vars tag vs).
    change (size_dynamic (TEnum vars) (VE tag vs)) with (size_dynamic_variants vars tag vs).
    change (enc_static (TEnum vars) (VE tag vs)) with (enc_static_variants vars tag vs).
    change (enc_dynamic (TEnum vars) (VE tag vs)) with (enc_dynamic_variants vars tag vs).
    destruct (nth_variant vars tag) as [[d fs]|] eqn:Hn.
    + rewrite (typed_variants_nth _ _ _ _ _ Hn) in H. apply andb_true_iff in H as [_ H].
      rewrite (size_static_variants_nth _ _ _ _ _ Hn), (size_dynamic_variants_nth _ _ _ _ _ Hn).
      rewrite (enc_static_variants_nth _ _ _ _ _ Hn), (enc_dynamic_variants_nth _ _ _ _ _ Hn).
      destruct (schema_ok_variants_nth _ _ _ _ Hn Hok) as [_ Hf].
      split.
      * change 8 with (cap 8). rewrite (proj1 (IH _ _ _ Hn Hf vs H 8)), lenN_app, lenN_be8. reflexivity.
      * change 0 with (cap 0) at 1. rewrite (proj2 (IH _ _ _ Hn Hf vs H 0)), N.add_0_l. reflexivity.
    + rewrite typed_variants_none in H by exact Hn. discriminate.
  - intros t IH Hok v H.
    change (schema_ok (TEmpty t)) with (schema_ok t && flat t) in Hok. apply andb_true_iff in Hok as [Hok Hfl].
    destruct (IH Hok _ (proj1 flat_default_typed _ Hfl)) as [Hs _].
    split; [destruct v; exact Hs | destruct v; reflexivity].
  - intros s Hok. discriminate.
  - intros _ [] H; try discriminate. destruct vs as [|[] vs]; try discriminate.
    change (typed TPolicies (VS (VN n :: vs))) with
      ((n <? 64) && Nat.eqb (length vs) 6 && forallb (fun v => match v with VN n => n <? U64 | _ => false end) vs) in H.
    apply andb_true_iff in H as [H _]. apply andb_true_iff in H as [H1 H2].
    apply N.ltb_lt in H1. apply Nat.eqb_eq in H2.
    split; [reflexivity|].
    change (size_dynamic TPolicies (VS (VN n :: vs))) with (count_ones n * 8).
    change (enc_dynamic TPolicies (VS (VN n :: vs))) with (enc_policy_values policy_idx n vs).
    rewrite enc_policy_values_len by (rewrite H2; reflexivity).
    change (fold_right _ 0 policy_idx) with (plen n). rewrite plen_count by exact H1.
    symmetry. apply cap_small. assert (count_ones n <= 6).
    { assert (Hall : forallb (fun b => count_ones b <=? 6) (map N.of_nat (seq 0 64)) = true) by (vm_compute; reflexivity).
      rewrite forallb_forall in Hall. apply N.leb_le. apply Hall.
      apply in_map_iff. exists (N.to_nat n). split; [apply N2Nat.id|]. apply in_seq. lia. }
    assert (Hb : 6 * 8 <= u64_max) by (vm_compute; discriminate). revert Hb. generalize u64_max as m. intros m Hb. lia.
  - intros cf cs cp ct mf mcs mcp mds mdp I0 I1 I2 I3 I4 I5 I6 I7 I8 Hok [] H; try discriminate.
    destruct vs as [|x [|]]; try discriminate.
    change (typed (TInput cf cs cp ct mf mcs mcp mds mdp) (VE tag [x])) with
      (Nat.ltb tag 7 && typed (input_sel tag cs cp ct mcs mcp mds mdp) x) in H.
    apply andb_true_iff in H as [_ H].
    cbn [schema_ok] in Hok. repeat (apply andb_true_iff in Hok as [Hok ?]).
    change (size_static (TInput cf cs cp ct mf mcs mcp mds mdp) (VE tag [x])) with
      (sat (size_static (input_sel tag cs cp ct mcs mcp mds mdp) x) 8).
    change (size_dynamic (TInput cf cs cp ct mf mcs mcp mds mdp) (VE tag [x])) with
      (size_dynamic (input_sel tag cs cp ct mcs mcp mds mdp) x).
    change (enc_static (TInput cf cs cp ct mf mcs mcp mds mdp) (VE tag [x])) with
      (be8 (input_disc tag) ++ enc_static (input_sel tag cs cp ct mcs mcp mds mdp) x).
    change (enc_dynamic (TInput cf cs cp ct mf mcs mcp mds mdp) (VE tag [x])) with
      (enc_dynamic (input_sel tag cs cp ct mcs mcp mds mdp) x).
    revert H. generalize (input_disc tag) as dd.
    apply (input_sel_cases (fun a => forall dd, typed a x = true ->
        sat (size_static a x) 8 = cap (lenN (be8 dd ++ enc_static a x)) /\
        size_dynamic a x = cap (lenN (enc_dynamic a x))));
      intros dd Ht;
      [ destruct (I1 ltac:(assumption) _ Ht) as [E1 E2] | destruct (I2 ltac:(assumption) _ Ht) as [E1 E2]
      | destruct (I3 ltac:(assumption) _ Ht) as [E1 E2] | destruct (I5 ltac:(assumption) _ Ht) as [E1 E2]
      | destruct (I6 ltac:(assumption) _ Ht) as [E1 E2] | destruct (I7 ltac:(assumption) _ Ht) as [E1 E2]
      | destruct (I8 ltac:(assumption) _ Ht) as [E1 E2] ];
      (split; [rewrite E1, sat_cap_l, lenN_app, lenN_be8; f_equal; lia | exact E2]).
  - intros al IH Hok [] H; try discriminate. destruct vs as [|x [|]]; try discriminate.
    change (schema_ok (TPeek al)) with (nodupN (alt_discs al) && schema_ok_alts al) in Hok.
    apply andb_true_iff in Hok as [_ Hok].
    change (typed (TPeek al) (VE tag [x])) with (typed_alts al tag x) in H.
    change (size_static (TPeek al) (VE tag [x])) with (size_static_alts al tag x).
    change (size_dynamic (TPeek al) (VE tag [x])) with (size_dynamic_alts al tag x).
    change (enc_static (TPeek al) (VE tag [x])) with (enc_static_alts al tag x).
    change (enc_dynamic (TPeek al) (VE tag [x])) with (enc_dynamic_alts al tag x).
    destruct (nth_alt al tag) as [[d t]|] eqn:Hn.
    + rewrite (typed_alts_nth _ _ _ _ _ Hn) in H.
      rewrite (size_static_alts_nth _ _ _ _ _ Hn), (size_dynamic_alts_nth _ _ _ _ _ Hn).
      rewrite (enc_static_alts_nth _ _ _ _ _ Hn), (enc_dynamic_alts_nth _ _ _ _ _ Hn).
      destruct (schema_ok_alts_nth _ _ _ _ Hn Hok) as (_ & Ht & _). exact (IH _ _ _ Hn Ht _ H).
    + rewrite typed_alts_none in H by exact Hn. discriminate.
  - intros _ [] H; try discriminate. intros a. split; (change (cap a = cap (a + 0)); rewrite N.add_0_r; reflexivity).
  - intros n sk t r It Ir Hok [|v vs] H; try discriminate. intros a.
    rewrite schema_ok_fields_cons in Hok. rewrite typed_fields_cons in H.
    apply andb_true_iff in Hok as [Hok1 Hok2]. apply andb_true_iff in H as [H1 H2].
    rewrite size_static_fields_cons, size_dynamic_fields_cons, enc_static_fields_cons, enc_dynamic_fields_cons.
    destruct sk; cbn [orb] in *.
    + cbn [app]. exact (Ir Hok2 _ H2 a).
    + destruct (It Hok1 _ H1) as [E1 E2]. rewrite E1, E2, !sat_cap, !lenN_app.
      destruct (Ir Hok2 _ H2 (a + lenN (enc_static t v))) as [R1 _].
      destruct (Ir Hok2 _ H2 (a + lenN (enc_dynamic t v))) as [_ R2].
      rewrite R1, R2. split; f_equal; lia.
Qed.
