(* Codec/CodecInstances.v — the generic codec lemmas instantiated at the schemas generated from
   the Rust sources (Gen/Schemas.v), the exact list of erased fields, and the `_refuted`
   witnesses of every wf conjunct.  Properties/C01.v and C02.v only restate these. *)
From Coq Require Import Arith PeanoNat.
From FV Require Export Codec.CodecExempt Gen.Schemas.
Open Scope N_scope.

Definition L : N := vec_decode_limit.
Lemma L_lt : L < U64.
Proof. vm_compute. reflexivity. Qed.

(* the protocol types of C01 *)
Definition codec_types : list (string * ty) := [
  ("Transaction", S_Transaction); ("Script", S_Script); ("Create", S_Create); ("Mint", S_Mint);
  ("Upgrade", S_Upgrade); ("Upload", S_Upload); ("Blob", S_Blob);
  ("Input", S_Input); ("Output", S_Output); ("Witness", S_Witness); ("Policies", S_Policies);
  ("StorageSlot", S_StorageSlot); ("UtxoId", S_UtxoId); ("TxPointer", S_TxPointer);
  ("Receipt", S_Receipt); ("UpgradePurpose", S_UpgradePurpose)]%string.
Definition is_codec_type (t : ty) : Prop := In t (map snd codec_types).

(* proof obligation on the translator output: every generated schema is well-formed (distinct
   discriminants, Vec element types of positive size, Empty<_> only around flat types, the
   Input components have the shape the hand-written dispatch relies on, every Transaction
   alternative starts with its own discriminant) *)
Lemma all_schemas_ok : forallb (fun p => schema_ok (snd p)) all_schemas = true.
Proof. vm_compute. reflexivity. Qed.
Lemma codec_types_ok : forallb (fun p => schema_ok (snd p)) codec_types = true.
Proof. vm_compute. reflexivity. Qed.
Lemma codec_type_ok t : is_codec_type t -> schema_ok t = true.
Proof.
  intros H. unfold is_codec_type in H. apply in_map_iff in H as [[n t'] [<- Hin]].
  pose proof codec_types_ok as Hall. rewrite forallb_forall in Hall. exact (Hall _ Hin).
Qed.

Lemma zero_lt : 0 < U64. Proof. vm_compute. reflexivity. Qed.

Lemma inst_size t v : is_codec_type t -> typed t v = true ->
  size t v = N.min (lenN (enc t v)) u64_max /\
  size_static t v = N.min (lenN (enc_static t v)) u64_max /\
  size_dynamic t v = N.min (lenN (enc_dynamic t v)) u64_max.
Proof.
  intros Ht Hv. destruct (proj1 size_exact_all t (codec_type_ok t Ht) v Hv) as [E1 E2].
  repeat split; try assumption.
  unfold size, enc. rewrite E1, E2, sat_cap, lenN_app. reflexivity.
Qed.
Lemma inst_size_exact t v : is_codec_type t -> typed t v = true -> lenN (enc t v) <= u64_max ->
  size t v = lenN (enc t v).
Proof.
  intros Ht Hv Hle. rewrite (proj1 (inst_size t v Ht Hv)). apply N.min_l. exact Hle.
Qed.
Lemma inst_aligned t v : is_codec_type t -> typed t v = true ->
  lenN (enc t v) mod 8 = 0 /\ lenN (enc_static t v) mod 8 = 0 /\ lenN (enc_dynamic t v) mod 8 = 0.
Proof.
  intros Ht Hv. destruct (proj1 enc_aligned_all t (codec_type_ok t Ht) v Hv) as [A1 A2].
  repeat split; apply al8_N; try assumption. unfold enc. apply al8_app; assumption.
Qed.
Lemma inst_roundtrip t v rest : is_codec_type t -> typed t v = true -> wf L t v = true ->
  encode L t v = Ok (enc t v) /\ dec L t (enc t v ++ rest) = Ok (erase t v, rest).
Proof.
  intros Ht Hv Hw. split; [apply encode_ok; exact Hw|].
  apply dec_enc; auto using L_lt, codec_type_ok.
Qed.

(* exactly these fields are erased ... *)
Definition exempt_paths : list (string * list (list string)) := [
  ("Transaction", [["Script"; "metadata"]; ["Create"; "metadata"]; ["Mint"; "metadata"];
                   ["Upgrade"; "metadata"]; ["Upload"; "metadata"]; ["Blob"; "metadata"]]);
  ("Script", [["metadata"]]); ("Create", [["metadata"]]); ("Mint", [["metadata"]]);
  ("Upgrade", [["metadata"]]); ("Upload", [["metadata"]]); ("Blob", [["metadata"]]);
  ("Input", []); ("Output", []); ("Witness", []); ("Policies", []); ("StorageSlot", []);
  ("UtxoId", []); ("TxPointer", []);
  ("Receipt", [["ReturnData"; "data"]; ["Panic"; "reason"; "reason"]; ["Panic"; "contract_id"];
               ["LogData"; "data"]; ["MessageOut"; "data"]]);
  ("UpgradePurpose", [])]%string.
Lemma inst_exempt : map (fun p => (fst p, skips (snd p))) codec_types = exempt_paths.
Proof. vm_compute. reflexivity. Qed.
(* ... and a type without such a field round-trips to exactly the original value *)
Lemma inst_exact t v rest : is_codec_type t -> skips t = [] -> typed t v = true -> wf L t v = true ->
  dec L t (enc t v ++ rest) = Ok (v, rest).
Proof.
  intros Ht Hs Hv Hw. rewrite (proj2 (inst_roundtrip t v rest Ht Hv Hw)), (erase_id t v Hs). reflexivity.
Qed.

(* ---------------------------------------------------------------- non-vacuity *)
Definition zero32 : bytes := zeros 32.
Definition ex_utxo : val := VS [VB zero32; VN 0].
Definition ex_txptr : val := VS [VN 0; VN 0].
(* CoinPredicate with predicate [1;2;3] and predicate data [9] *)
Definition ex_coin_predicate (pred pdata : bytes) : val :=
  VE 1 [VS [ex_utxo; VB zero32; VN 7; VB zero32; ex_txptr; VUnit; VN 5; VS [VB pred]; VB pdata]].
Definition ex_message_data_signed (data : bytes) : val :=
  VE 5 [VS [VB zero32; VB zero32; VN 7; VB zero32; VN 1; VUnit; VB data; VUnit; VUnit]].
Definition ex_policies (bits : N) (vals : list N) : val := VS (VN bits :: map VN vals).
Definition ex_script_tx (inputs : list val) (pol : val) : val :=
  VE 0 [VS [VS [VN 1000; VB zero32; VS [VB [36; 4; 0; 0]]; VB [1; 2; 3]]; pol; VL inputs;
            VL [VE 4 [VB zero32; VB zero32]]; VL [VS [VB [7; 7; 7]]]; VN 1]].

Example ex_input_wf :
  typed S_Input (ex_coin_predicate [1; 2; 3] [9]) = true /\ wf L S_Input (ex_coin_predicate [1; 2; 3] [9]) = true.
Proof. vm_compute. split; reflexivity. Qed.
Example ex_tx_wf :
  let tx := ex_script_tx [ex_coin_predicate [1; 2; 3] [9]; ex_message_data_signed [5]] (ex_policies 21 [3; 0; 9; 0; 11; 0]) in
  is_codec_type S_Transaction /\ typed S_Transaction tx = true /\ wf L S_Transaction tx = true /\
  erase S_Transaction tx <> tx.
Proof. vm_compute. repeat split; try reflexivity; [left; reflexivity | discriminate]. Qed.

(* ---------------------------------------------------------------- refuted: each wf conjunct is needed *)
Definition roundtrips (t : ty) (v : val) : Prop := dec L t (enc t v) = Ok (erase t v, []).

(* F1: predicate-carrying input with an EMPTY predicate: decodes as the Signed variant and
   leaves the 8 bytes of predicate data unconsumed *)
Lemma refuted_empty_predicate :
  exists v, typed S_Input v = true /\ ~ roundtrips S_Input v /\
            dec L S_Input (enc S_Input v) =
            Ok (VE 0 [VS [ex_utxo; VB zero32; VN 7; VB zero32; ex_txptr; VN 0; VUnit; VUnit; VUnit]],
                [9; 0; 0; 0; 0; 0; 0; 0]).
Proof.
  exists (ex_coin_predicate [] [9]). split; [vm_compute; reflexivity|]. split.
  - unfold roundtrips. vm_compute. discriminate.
  - vm_compute. reflexivity.
Qed.
(* F2: data-carrying message input with EMPTY data: decodes as MessageCoinSigned *)
Lemma refuted_empty_data :
  exists v, typed S_Input v = true /\ ~ roundtrips S_Input v /\
            exists w, dec L S_Input (enc S_Input v) = Ok (VE 3 [w], []).
Proof.
  exists (ex_message_data_signed []). split; [vm_compute; reflexivity|]. split.
  - unfold roundtrips. vm_compute. discriminate.
  - eexists. vm_compute. reflexivity.
Qed.
(* F3: maturity / expiration above u32::MAX encode but do not decode *)
Lemma refuted_maturity :
  exists v, typed S_Policies v = true /\ dec L S_Policies (enc S_Policies v) = Err MaturityTooLarge.
Proof. exists (ex_policies 4 [0; 0; 4294967296; 0; 0; 0]). split; vm_compute; reflexivity. Qed.
Lemma refuted_expiration :
  exists v, typed S_Policies v = true /\ dec L S_Policies (enc S_Policies v) = Err ExpirationTooLarge.
Proof. exists (ex_policies 16 [0; 0; 0; 0; 4294967296; 0]). split; vm_compute; reflexivity. Qed.
(* a non-zero value under an unset bit is not encoded and comes back as zero *)
Lemma refuted_unset_nonzero :
  exists v, typed S_Policies v = true /\ ~ roundtrips S_Policies v /\
            dec L S_Policies (enc S_Policies v) = Ok (ex_policies 0 [0; 0; 0; 0; 0; 0], []).
Proof.
  exists (ex_policies 0 [7; 0; 0; 0; 0; 0]). split; [vm_compute; reflexivity|]. split.
  - unfold roundtrips. vm_compute. discriminate.
  - vm_compute. reflexivity.
Qed.
(* a vector longer than VEC_DECODE_LIMIT does not encode (to_bytes panics) *)
Lemma refuted_above_limit :
  exists v, typed S_Witness v = true /\ encode L S_Witness v = Err AllocationLimit.
Proof. exact (above_limit_refuted L). Qed.
(* an ill-formed input inside a transaction shifts everything after it: the whole decode fails *)
Lemma refuted_tx_with_empty_predicate :
  exists v, typed S_Transaction v = true /\ ~ roundtrips S_Transaction v.
Proof.
  exists (ex_script_tx [ex_coin_predicate [] [9]; ex_message_data_signed [5]] (ex_policies 0 [0; 0; 0; 0; 0; 0])).
  split; [vm_compute; reflexivity|]. unfold roundtrips. vm_compute. discriminate.
Qed.

(* `typed` requires policy bits < 64 (PoliciesBits::all()): a Policies carrying an unknown bit
   (reachable through bitflags' binary serde, which retains unknown bits) reports a size that
   counts the bit but encodes no value for it *)
Lemma refuted_unknown_policy_bits :
  exists v, typed S_Policies v = false /\ size S_Policies v = 16 /\ lenN (enc S_Policies v) = 8.
Proof. exists (ex_policies 64 [0; 0; 0; 0; 0; 0]). vm_compute. repeat split; reflexivity. Qed.
