(* Codec/CodecSound.v — decode side, proved once by induction over the schema universe:

     dec_sound    : dec t b = Ok (v, rest) -> b = c ++ rest with length c = length (enc t v),
                    and v is typed, wf and has no erased field left (erase t v = v)
     dec_fixpoint : dec t b = Ok (v, rest) -> dec t (enc t v) = Ok (v, [])

   i.e. the decoder only ever PRODUCES values on which the round-trip theorem applies. *)
From Coq Require Import Arith PeanoNat.
From FV Require Export Codec.CodecSoundInput.
Open Scope N_scope.

(* static length of the skeleton of a typed value = length of its static encoding *)
Lemma slen_pend_all :
  (forall t v, typed t v = true -> slen t (pend t v) = length (enc_static t v)) /\
  (forall fs vs, typed_fields fs vs = true -> slen_fields fs (pend_fields fs vs) = length (enc_static_fields fs vs)).
Proof.
  apply schema_ind2.
  - intros w [] H; try discriminate. symmetry. apply enc_uint_length.
  - intros n [] H; try discriminate.
    change (typed (TBytesN n) (VB bs)) with (Nat.eqb (length bs) n && wf_bytes bs) in H.
    apply andb_true_iff in H as [H _]. apply Nat.eqb_eq in H.
    change (enc_static (TBytesN n) (VB bs)) with (bs ++ zeros (pad8 n)).
    rewrite app_length, zeros_length, H. reflexivity.
  - intros [] H; try discriminate. symmetry. apply be8_length.
  - intros t _ [] H; try discriminate. symmetry. apply be8_length.
  - intros p fs IH [] H; try discriminate.
    change (typed (TStruct p fs) (VS vs)) with ((match p with Some d => d <? U64 | None => true end) && typed_fields fs vs) in H.
    apply andb_true_iff in H as [_ H].
    change (slen (TStruct p fs) (pend (TStruct p fs) (VS vs))) with
      ((match p with Some _ => 8 | None => 0 end) + slen_fields fs (pend_fields fs vs))%nat.
    change (enc_static (TStruct p fs) (VS vs)) with ((match p with Some d => be8 d | None => [] end) ++ enc_static_fields fs vs).
    rewrite app_length, (IH vs H). destruct p; [rewrite be8_length|]; reflexivity.
  - intros vars IH [] H; try discriminate.
    change (typed (TEnum vars) (VE tag vs)) with (typed_variants vars tag vs) in H.
    destruct (nth_variant vars tag) as [[d fs]|] eqn:Hn; [|rewrite typed_variants_none in H by exact Hn; discriminate].
    rewrite (typed_variants_nth _ _ _ _ _ Hn) in H. apply andb_true_iff in H as [_ H].
    change (slen (TEnum vars) (pend (TEnum vars) (VE tag vs))) with (8 + slen_variants vars tag (pend_variants vars tag vs))%nat.
    change (enc_static (TEnum vars) (VE tag vs)) with (enc_static_variants vars tag vs).
    rewrite (pend_variants_nth _ _ _ _ _ Hn), (slen_variants_nth _ _ _ _ _ Hn), (enc_static_variants_nth _ _ _ _ _ Hn).
    rewrite app_length, be8_length, (IH _ _ _ Hn vs H). reflexivity.
  - intros t _ v _. destruct v; reflexivity.
  - intros s v _. destruct v; reflexivity.
  - intros [] H; try discriminate. destruct vs as [|[] vs]; try discriminate. symmetry. apply (enc_uint_length 4 n).
  - intros cf cs cp ct mf mcs mcp mds mdp _ I1 I2 I3 _ I5 I6 I7 I8 [] H; try discriminate.
    destruct vs as [|x [|]]; try discriminate.
    change (typed (TInput cf cs cp ct mf mcs mcp mds mdp) (VE tag [x])) with
      (Nat.ltb tag 7 && typed (input_sel tag cs cp ct mcs mcp mds mdp) x) in H.
    apply andb_true_iff in H as [_ H].
    change (slen (TInput cf cs cp ct mf mcs mcp mds mdp) (pend (TInput cf cs cp ct mf mcs mcp mds mdp) (VE tag [x]))) with
      (8 + slen (input_sel tag cs cp ct mcs mcp mds mdp) (pend (input_sel tag cs cp ct mcs mcp mds mdp) x))%nat.
    change (enc_static (TInput cf cs cp ct mf mcs mcp mds mdp) (VE tag [x])) with
      (be8 (input_disc tag) ++ enc_static (input_sel tag cs cp ct mcs mcp mds mdp) x).
    rewrite app_length, be8_length. f_equal. revert H.
    apply (input_sel_cases (fun a => typed a x = true -> slen a (pend a x) = length (enc_static a x))); auto.
  - intros al IH [] H; try discriminate. destruct vs as [|x [|]]; try discriminate.
    change (typed (TPeek al) (VE tag [x])) with (typed_alts al tag x) in H.
    destruct (nth_alt al tag) as [[d t]|] eqn:Hn; [|rewrite typed_alts_none in H by exact Hn; discriminate].
    rewrite (typed_alts_nth _ _ _ _ _ Hn) in H.
    change (slen (TPeek al) (pend (TPeek al) (VE tag [x]))) with (slen_alts al tag (pend_alts al tag x)).
    change (enc_static (TPeek al) (VE tag [x])) with (enc_static_alts al tag x).
    rewrite (pend_alts_nth _ _ _ _ _ Hn), (slen_alts_nth _ _ _ _ _ Hn), (enc_static_alts_nth _ _ _ _ _ Hn).
    exact (IH _ _ _ Hn x H).
  - intros [] H; try discriminate. reflexivity.
  - intros n sk t r It Ir [|v vs] H; try discriminate.
    rewrite typed_fields_cons in H. apply andb_true_iff in H as [H1 H2].
    rewrite pend_fields_cons, slen_fields_cons, enc_static_fields_cons, app_length, (Ir vs H2).
    destruct sk; [reflexivity|]. cbn [orb] in H1. rewrite (It v H1). reflexivity.
Qed.

Section Sound.
Variable limit : N.
Hypothesis limit_lt : limit < U64.

(* ---------------------------------------------------------------- inversions of the lookups *)
Lemma dec_static_variants_inv vars : forall d k b p r,
  dec_static_variants limit vars d k b = Ok (p, r) ->
  exists i fs ps, nth_variant vars i = Some (d, fs) /\ dec_static_fields limit fs b = Ok (ps, r) /\ p = VE (k + i) ps.
Proof.
  induction vars as [|n d' fs' rest IH]; intros d k b p r H; cbn [dec_static_variants] in H; [discriminate|].
  destruct (N.eqb_spec d d') as [->|Hne].
  - apply bind_ok in H as [[ps b'] [H1 H2]]. injection H2 as <- <-.
    exists 0%nat, fs', ps. rewrite Nat.add_0_r. repeat split; auto.
  - destruct (IH d (S k) b p r H) as (i & fs & ps & Hn & Hd & ->).
    exists (S i), fs, ps. rewrite Nat.add_succ_r. repeat split; auto.
Qed.
Lemma dec_static_alts_inv al : forall d k b p r,
  dec_static_alts limit al d k b = Ok (p, r) ->
  exists i t q, nth_alt al i = Some (d, t) /\ dec_static limit t b = Ok (q, r) /\ p = VE (k + i) [q].
Proof.
  induction al as [|n d' t' rest IH]; intros d k b p r H; cbn [dec_static_alts] in H; [discriminate|].
  destruct (N.eqb_spec d d') as [->|Hne].
  - apply bind_ok in H as [[q b'] [H1 H2]]. injection H2 as <- <-.
    exists 0%nat, t', q. rewrite Nat.add_0_r. repeat split; auto.
  - destruct (IH d (S k) b p r H) as (i & t & q & Hn & Hd & ->).
    exists (S i), t, q. rewrite Nat.add_succ_r. repeat split; auto.
Qed.

Lemma vec_header_inv b p r : wf_bytes b = true -> dec_vec_header limit b = Ok (p, r) ->
  exists n c, p = VPend n /\ b = c ++ r /\ length c = 8%nat /\ (n <=? limit) = true.
Proof.
  intros Hw H. unfold dec_vec_header in H. apply bind_ok in H as [[n r1] [H1 H2]].
  destruct (N.ltb_spec limit n); [discriminate|]. injection H2 as <- <-.
  apply read_word_inv in H1 as (c & E & Hl & _). exists n, c. repeat split; auto. apply N.leb_le. assumption.
Qed.

(* ---------------------------------------------------------------- Policies *)
Definition vn_ok (v : val) : bool := match v with VN n => n <? U64 | _ => false end.
Lemma dec_policy_values_inv bits : forall ks b vs r, wf_bytes b = true ->
  dec_policy_values ks bits b = Ok (vs, r) ->
  exists c, b = c ++ r /\ length c = length (enc_policy_values ks bits vs) /\ length vs = length ks /\
            forallb vn_ok vs = true /\ policy_unset_zero ks bits vs = true.
Proof.
  induction ks as [|k ks IH]; intros b vs r Hw H; cbn [dec_policy_values] in H.
  - injection H as <- <-. exists []. repeat split.
  - apply bind_ok in H as [[v r1] [H1 H2]]. apply bind_ok in H2 as [[vs' r2] [H2 H3]]. injection H3 as <- <-.
    destruct (N.testbit bits k) eqn:Eb.
    + apply read_word_inv in H1 as (c1 & E1 & L1 & B1).
      assert (Hw1 : wf_bytes r1 = true) by (rewrite E1 in Hw; exact (wf_bytes_app_r _ _ Hw)).
      destruct (IH r1 vs' r2 Hw1 H2) as (c2 & E2 & L2 & Ln & Hv & Hz).
      exists (c1 ++ c2). cbn [enc_policy_values policy_unset_zero forallb vn_ok val_N length]. rewrite Eb.
      rewrite E1, E2, app_assoc, !app_length, L1, L2, be8_length, Ln, Hv, Hz.
      repeat split. cbn [orb andb]. rewrite andb_true_r. apply N.ltb_lt. apply B1. exact Hw.
    + injection H1 as <- <-.
      destruct (IH b vs' r2 Hw H2) as (c2 & E2 & L2 & Ln & Hv & Hz).
      exists c2. cbn [enc_policy_values policy_unset_zero forallb vn_ok val_N length app]. rewrite Eb.
      rewrite L2, Ln, Hv, Hz. repeat split; auto.
Qed.

Lemma pok_policies_inv p : pok limit TPolicies p = true ->
  exists bits, p = VS (VN bits :: zero_policy_values) /\ bits < 64.
Proof.
  intros H.
  destruct p as [| | | |l| |]; try discriminate H.
  destruct l as [|a l]; try discriminate H. destruct a as [|bits| | | | |]; try discriminate H.
  do 6 (destruct l as [|a l]; [discriminate H|]; destruct a as [|m| | | | |]; try discriminate H;
        destruct m; try discriminate H).
  destruct l; [|discriminate H].
  exists bits. split; [reflexivity|]. apply N.ltb_lt. exact H.
Qed.

(* ---------------------------------------------------------------- the two phases *)
Definition SSP (t : ty) : Prop :=
  schema_ok t = true -> forall b p r, wf_bytes b = true -> dec_static limit t b = Ok (p, r) ->
  exists c, b = c ++ r /\ length c = slen t p /\ pok limit t p = true.
Definition DSP (t : ty) : Prop :=
  schema_ok t = true -> forall p b v r, pok limit t p = true -> wf_bytes b = true ->
  dec_dynamic limit t p b = Ok (v, r) ->
  exists c, b = c ++ r /\ length c = length (enc_dynamic t v) /\ typed t v = true /\ wf limit t v = true /\
            erase t v = v /\ pend t v = p.
Definition SSPf (fs : fields) : Prop :=
  schema_ok_fields fs = true -> forall b ps r, wf_bytes b = true -> dec_static_fields limit fs b = Ok (ps, r) ->
  exists c, b = c ++ r /\ length c = slen_fields fs ps /\ pok_fields limit fs ps = true.
Definition DSPf (fs : fields) : Prop :=
  schema_ok_fields fs = true -> forall ps b vs r, pok_fields limit fs ps = true -> wf_bytes b = true ->
  dec_dynamic_fields limit fs ps b = Ok (vs, r) ->
  exists c, b = c ++ r /\ length c = length (enc_dynamic_fields fs vs) /\ typed_fields fs vs = true /\
            wf_fields limit fs vs = true /\ erase_fields fs vs = vs /\ pend_fields fs vs = ps.

Ltac nilc := exists (@nil N); split; [reflexivity|].

Lemma sound_leaf_dyn t : (forall p b, dec_dynamic limit t p b = Ok (p, b)) ->
  (forall p, pok limit t p = true -> enc_dynamic t p = [] /\ typed t p = true /\ wf limit t p = true /\
                                     erase t p = p /\ pend t p = p) -> DSP t.
Proof.
  intros Hd Hp _ p b v r Pp _ H. rewrite Hd in H. injection H as <- <-.
  destruct (Hp p Pp) as (E & T & W & Er & Pe). nilc. rewrite E. repeat split; auto.
Qed.

Lemma sound_input cf cs cp ct mf mcs mcp mds mdp :
  SSP cf /\ DSP cf -> SSP cs /\ DSP cs -> SSP cp /\ DSP cp -> SSP ct /\ DSP ct -> SSP mf /\ DSP mf ->
  SSP mcs /\ DSP mcs -> SSP mcp /\ DSP mcp -> SSP mds /\ DSP mds -> SSP mdp /\ DSP mdp ->
  SSP (TInput cf cs cp ct mf mcs mcp mds mdp) /\ DSP (TInput cf cs cp ct mf mcs mcp mds mdp).
Proof.
  intros [S0 _] [_ D1] [_ D2] [S3 D3] [S4 _] [_ D5] [_ D6] [_ D7] [_ D8].
  split.
  - (* static *)
    intros Hok b p r Hw H.
    cbn [schema_ok] in Hok. repeat (apply andb_true_iff in Hok as [Hok ?]).
    unfold input_shape in *.
    repeat match goal with H : _ && _ = true |- _ => apply andb_true_iff in H as [H ?] end.
    cbn [dec_static] in H.
    destruct (read_word b) as [[d r1]|] eqn:Hr; [|discriminate].
    apply read_word_inv in Hr as (c0 & E0 & L0 & _).
    assert (Hw1 : wf_bytes r1 = true) by (rewrite E0 in Hw; exact (wf_bytes_app_r _ _ Hw)).
    assert (Fin : forall full alt i q r', spec_ty full alt = true ->
              (exists c, r1 = c ++ r' /\ length c = slen full q /\ pok limit full q = true) ->
              input_sel i cs cp ct mcs mcp mds mdp = alt -> Nat.ltb i 7 = true ->
              input_pend_wf i alt (into alt q) = true ->
              exists c, b = c ++ r' /\ length c = slen (TInput cf cs cp ct mf mcs mcp mds mdp) (VE i [into alt q]) /\
                        pok limit (TInput cf cs cp ct mf mcs mcp mds mdp) (VE i [into alt q]) = true).
    { intros full alt i q r' Hsp (c & E & Lc & Pq) Hsel Hi Hpw.
      destruct (input_dispatch_sound limit full alt q Hsp Pq) as (P1 & P2 & _).
      exists (c0 ++ c). split; [rewrite E0, E, app_assoc; reflexivity|].
      change (slen (TInput cf cs cp ct mf mcs mcp mds mdp) (VE i [into alt q])) with
        (8 + slen (input_sel i cs cp ct mcs mcp mds mdp) (into alt q))%nat.
      change (pok limit (TInput cf cs cp ct mf mcs mcp mds mdp) (VE i [into alt q])) with
        (Nat.ltb i 7 && pok limit (input_sel i cs cp ct mcs mcp mds mdp) (into alt q) &&
         input_pend_wf i (input_sel i cs cp ct mcs mcp mds mdp) (into alt q)).
      rewrite Hsel, Hi, P1, P2, Hpw, app_length, L0, Lc. split; reflexivity. }
    destruct (N.eqb_spec d 0) as [->|Hd0].
    + apply bind_ok in H as [[q r'] [Hq1 Hq2]].
      pose proof (S0 ltac:(assumption) r1 q r' Hw1 Hq1) as Hq.
      destruct (pend_zero "predicate" cf q) eqn:Ez; injection Hq2 as <- <-.
      * apply (Fin cf cs 0%nat); auto.
      * apply (Fin cf cp 1%nat); auto. cbn [input_pend_wf].
        destruct Hq as (c & _ & _ & Pq).
        destruct (input_dispatch_sound limit cf cp q ltac:(assumption) Pq) as (_ & _ & Fl).
        apply Fl; assumption.
    + destruct (N.eqb_spec d 1) as [->|Hd1].
      * apply bind_ok in H as [[q r'] [Hq1 Hq2]]. injection Hq2 as <- <-.
        destruct (S3 ltac:(assumption) r1 q r' Hw1 Hq1) as (c & E & Lc & Pq).
        exists (c0 ++ c). split; [rewrite E0, E, app_assoc; reflexivity|].
        change (slen (TInput cf cs cp ct mf mcs mcp mds mdp) (VE 2 [q])) with (8 + slen ct q)%nat.
        change (pok limit (TInput cf cs cp ct mf mcs mcp mds mdp) (VE 2 [q])) with (true && pok limit ct q && true).
        rewrite Pq, app_length, L0, Lc. split; reflexivity.
      * destruct (N.eqb_spec d 2) as [->|Hd2]; [|discriminate].
        apply bind_ok in H as [[q r'] [Hq1 Hq2]].
        pose proof (S4 ltac:(assumption) r1 q r' Hw1 Hq1) as Hq.
        assert (Pq : pok limit mf q = true) by (destruct Hq as (c & _ & _ & Pq); exact Pq).
        destruct (pend_zero "data" mf q) eqn:Ed; destruct (pend_zero "predicate" mf q) eqn:Ep; injection Hq2 as <- <-.
        -- apply (Fin mf mcs 3%nat); auto.
        -- apply (Fin mf mcp 4%nat); auto. cbn [input_pend_wf].
           destruct (input_dispatch_sound limit mf mcp q ltac:(assumption) Pq) as (_ & _ & Fl). apply Fl; assumption.
        -- apply (Fin mf mds 5%nat); auto. cbn [input_pend_wf].
           destruct (input_dispatch_sound limit mf mds q ltac:(assumption) Pq) as (_ & _ & Fl). apply Fl; assumption.
        -- apply (Fin mf mdp 6%nat); auto. cbn [input_pend_wf].
           destruct (input_dispatch_sound limit mf mdp q ltac:(assumption) Pq) as (_ & _ & Fl).
           rewrite !Fl by assumption. reflexivity.
  - (* dynamic *)
    intros Hok p b v r Pp Hw H.
    cbn [schema_ok] in Hok. repeat (apply andb_true_iff in Hok as [Hok ?]).
    unfold input_shape in *.
    repeat match goal with H : _ && _ = true |- _ => apply andb_true_iff in H as [H ?] end.
    destruct p as [| | | | |i ps|]; try discriminate Pp. destruct ps as [|q [|]]; try discriminate Pp.
    change (pok limit (TInput cf cs cp ct mf mcs mcp mds mdp) (VE i [q])) with
      (Nat.ltb i 7 && pok limit (input_sel i cs cp ct mcs mcp mds mdp) q &&
       input_pend_wf i (input_sel i cs cp ct mcs mcp mds mdp) q) in Pp.
    apply andb_true_iff in Pp as [Pp Pw]. apply andb_true_iff in Pp as [Hi Pq].
    cbn [dec_dynamic] in H. apply bind_ok in H as [[x r'] [Hq1 Hq2]]. injection Hq2 as <- <-.
    change (enc_dynamic (TInput cf cs cp ct mf mcs mcp mds mdp) (VE i [x])) with
      (enc_dynamic (input_sel i cs cp ct mcs mcp mds mdp) x).
    change (typed (TInput cf cs cp ct mf mcs mcp mds mdp) (VE i [x])) with
      (Nat.ltb i 7 && typed (input_sel i cs cp ct mcs mcp mds mdp) x).
    change (wf limit (TInput cf cs cp ct mf mcs mcp mds mdp) (VE i [x])) with
      (wf limit (input_sel i cs cp ct mcs mcp mds mdp) x && input_variant_wf i (input_sel i cs cp ct mcs mcp mds mdp) x).
    change (erase (TInput cf cs cp ct mf mcs mcp mds mdp) (VE i [x])) with
      (VE i [erase (input_sel i cs cp ct mcs mcp mds mdp) x]).
    change (pend (TInput cf cs cp ct mf mcs mcp mds mdp) (VE i [x])) with
      (VE i [pend (input_sel i cs cp ct mcs mcp mds mdp) x]).
    rewrite Hi.
    assert (Fin : forall alt, DSP alt -> schema_ok alt = true -> input_sel i cs cp ct mcs mcp mds mdp = alt ->
              (typed alt x = true -> pend alt x = q -> input_variant_wf i alt x = true) ->
              exists c, b = c ++ r' /\ length c = length (enc_dynamic alt x) /\ true && typed alt x = true /\
                wf limit alt x && input_variant_wf i alt x = true /\ VE i [erase alt x] = VE i [x] /\
                VE i [pend alt x] = VE i [q]).
    { intros alt Da Hoa Hsel Hvw. rewrite Hsel in *.
      destruct (Da Hoa q b x r' Pq Hw Hq1) as (c & E & Lc & T & W & Er & Pe).
      exists c. rewrite T, W, Er, Pe, (Hvw T Pe). repeat split; auto. }
    destruct (lt7_cases limit limit_lt i Hi) as [->|[->|[->|[->|[->|[->| ->]]]]]]; cbn [input_sel input_variant_wf input_pend_wf] in *.
    + apply (Fin cs); auto.
    + apply (Fin cp); auto. intros T Pe. rewrite <- Pe in Pw. eapply nonzero_nonempty; eauto.
    + apply (Fin ct); auto.
    + apply (Fin mcs); auto.
    + apply (Fin mcp); auto. intros T Pe. rewrite <- Pe in Pw. eapply nonzero_nonempty; eauto.
    + apply (Fin mds); auto. intros T Pe. rewrite <- Pe in Pw. eapply (nonzero_nonempty mf); eauto.
    + apply (Fin mdp); auto. intros T Pe. rewrite <- Pe in Pw. apply andb_true_iff in Pw as [Pw1 Pw2].
      rewrite (nonzero_nonempty mf mdp x "data"%string) by assumption.
      rewrite (nonzero_nonempty mf mdp x "predicate"%string) by assumption. reflexivity.
Qed.


Lemma sound_all : (forall t, SSP t /\ DSP t) /\ (forall fs, SSPf fs /\ DSPf fs).
Proof.
  apply schema_ind2.
  - (* TUInt *)
    intros w. split.
    + intros _ b p r Hw H. cbn [dec_static] in H. apply bind_ok in H as [[n r1] [H1 H2]]. injection H2 as <- <-.
      apply read_uint_inv in H1 as (c & E & Lc & B). exists c. repeat split; auto.
      apply N.ltb_lt. apply B. exact Hw.
    + apply sound_leaf_dyn; [reflexivity|]. intros p Pp. destruct p; try discriminate Pp. repeat split; auto.
  - (* TBytesN *)
    intros n. split.
    + intros _ b p r Hw H. cbn [dec_static] in H. apply bind_ok in H as [[x r1] [H1 H2]].
      apply bind_ok in H2 as [r2 [H2 H3]]. injection H3 as <- <-.
      apply take_inv in H1 as [E1 L1]. apply skip_inv in H2 as [z [E2 L2]].
      exists (x ++ z). split; [rewrite E1, E2, app_assoc; reflexivity|]. split.
      * rewrite app_length, L1, L2. reflexivity.
      * change (Nat.eqb (length x) n && wf_bytes x = true). rewrite L1, Nat.eqb_refl.
        rewrite E1 in Hw. rewrite (wf_bytes_app_l _ _ Hw). reflexivity.
    + apply sound_leaf_dyn; [reflexivity|]. intros p Pp. destruct p; try discriminate Pp. repeat split; auto.
  - (* TByteVec *)
    split.
    + intros _ b p r Hw H. change (dec_vec_header limit b = Ok (p, r)) in H.
      destruct (vec_header_inv b p r Hw H) as (n & c & -> & E & Lc & Hn). exists c. repeat split; auto.
    + intros _ p b v r Pp Hw H. destruct p; try discriminate Pp.
      change (pok limit TByteVec (VPend n)) with (n <=? limit) in Pp.
      cbn [dec_dynamic] in H. apply bind_ok in H as [[x r1] [H1 H2]]. apply bind_ok in H2 as [r2 [H2 H3]].
      injection H3 as <- <-. apply takeN_inv in H1 as [E1 L1]. apply skipN_inv in H2 as [z [E2 L2]].
      exists (x ++ z). split; [rewrite E1, E2, app_assoc; reflexivity|].
      change (enc_dynamic TByteVec (VB x)) with (x ++ zeros (pad8 (length x))).
      assert (Lz : length z = pad8 (length x)).
      { rewrite <- L1 in L2. unfold lenN in L2 at 2. rewrite padN_nat in L2. unfold lenN in L2.
        apply Nat2N.inj. exact L2. }
      rewrite E1 in Hw. split; [rewrite !app_length, zeros_length, Lz; reflexivity|].
      split; [exact (wf_bytes_app_l _ _ Hw)|]. split; [change (lenN x <=? limit = true); rewrite L1; exact Pp|].
      split; [reflexivity|]. change (VPend (lenN x) = VPend n). rewrite L1. reflexivity.
  - (* TVec *)
    intros t [St Dt]. split.
    + intros _ b p r Hw H. change (dec_vec_header limit b = Ok (p, r)) in H.
      destruct (vec_header_inv b p r Hw H) as (n & c & -> & E & Lc & Hn). exists c. repeat split; auto.
    + intros Hok p b v r Pp Hw H. destruct p; try discriminate Pp.
      change (schema_ok (TVec t)) with (schema_ok t && tpos t) in Hok. apply andb_true_iff in Hok as [Hok _].
      change (pok limit (TVec t) (VPend n)) with (n <=? limit) in Pp.
      cbn [dec_dynamic] in H. apply bind_ok in H as [[vs r1] [H1 H2]]. injection H2 as <- <-.
      pose (Q := fun x => typed t x = true /\ wf limit t x = true /\ erase t x = x).
      assert (HdQ : forall b' x r', wf_bytes b' = true ->
                (let* (q, r2) := dec_static limit t b' in dec_dynamic limit t q r2) = Ok (x, r') ->
                Q x /\ exists c, b' = c ++ r' /\ length c = length (enc_static t x ++ enc_dynamic t x)).
      { intros b' x r' Hw' Hd. apply bind_ok in Hd as [[q r2] [Hs Hd]].
        destruct (St Hok b' q r2 Hw' Hs) as (c1 & E1 & L1 & Pq).
        assert (Hw2 : wf_bytes r2 = true) by (rewrite E1 in Hw'; exact (wf_bytes_app_r _ _ Hw')).
        destruct (Dt Hok q r2 x r' Pq Hw2 Hd) as (c2 & E2 & L2 & T & W & Er & Pe).
        split; [repeat split; assumption|].
        exists (c1 ++ c2). split; [rewrite E1, E2, app_assoc; reflexivity|].
        rewrite !app_length, L1, L2, <- Pe, (proj1 slen_pend_all t x T). reflexivity. }
      destruct (dec_many_inv _ (fun x => enc_static t x ++ enc_dynamic t x) Q HdQ _ _ _ _ _ Hw H1)
        as (Ln & Fq & c & E & Lc).
      exists c. split; [exact E|].
      change (enc_dynamic (TVec t) (VL vs)) with (flat_map (fun x => enc_static t x ++ enc_dynamic t x) vs).
      split; [exact Lc|].
      assert (HT : forallb (typed t) vs = true) by (apply forallb_forall; intros x Hx; rewrite Forall_forall in Fq; apply (Fq x Hx)).
      assert (HW : forallb (wf limit t) vs = true) by (apply forallb_forall; intros x Hx; rewrite Forall_forall in Fq; apply (Fq x Hx)).
      split; [exact HT|]. split; [change ((lenN vs <=? limit) && forallb (wf limit t) vs = true); rewrite Ln, Pp, HW; reflexivity|].
      split.
      * change (VL (map (erase t) vs) = VL vs). f_equal. rewrite <- (map_id vs) at 2. apply map_ext_in.
        intros x Hx. rewrite Forall_forall in Fq. apply (Fq x Hx).
      * change (VPend (lenN vs) = VPend n). rewrite Ln. reflexivity.
  - (* TStruct *)
    intros pf fs [Sf Df]. split.
    + intros Hok b p r Hw H.
      change (schema_ok (TStruct pf fs)) with ((match pf with Some d => d <? U64 | None => true end) && schema_ok_fields fs) in Hok.
      apply andb_true_iff in Hok as [_ Hok].
      cbn [dec_static] in H. apply bind_ok in H as [r1 [H1 H2]]. apply bind_ok in H2 as [[ps r2] [H2 H3]].
      injection H3 as <- <-.
      assert (exists c0, b = c0 ++ r1 /\ length c0 = match pf with Some _ => 8%nat | None => 0%nat end) as (c0 & E0 & L0).
      { destruct pf as [d|]; cbn [check_prefix] in H1.
        - destruct (read_word b) as [[x r']|] eqn:Er; [|discriminate].
          destruct (N.eqb_spec x d); [|discriminate]. injection H1 as <-.
          apply read_word_inv in Er as (c & E & Lc & _). exists c. auto.
        - injection H1 as <-. exists []. auto. }
      assert (Hw1 : wf_bytes r1 = true) by (rewrite E0 in Hw; exact (wf_bytes_app_r _ _ Hw)).
      destruct (Sf Hok r1 ps r2 Hw1 H2) as (c & E & Lc & Pp).
      exists (c0 ++ c). split; [rewrite E0, E, app_assoc; reflexivity|]. split; [|exact Pp].
      change (slen (TStruct pf fs) (VS ps)) with ((match pf with Some _ => 8 | None => 0 end) + slen_fields fs ps)%nat.
      rewrite app_length, L0, Lc. reflexivity.
    + intros Hok p b v r Pp Hw H.
      change (schema_ok (TStruct pf fs)) with ((match pf with Some d => d <? U64 | None => true end) && schema_ok_fields fs) in Hok.
      apply andb_true_iff in Hok as [Hpf Hok].
      destruct p as [| | | |ps| |]; try discriminate Pp.
      change (pok limit (TStruct pf fs) (VS ps)) with (pok_fields limit fs ps) in Pp.
      cbn [dec_dynamic] in H. apply bind_ok in H as [[vs r1] [H1 H2]]. injection H2 as <- <-.
      destruct (Df Hok ps b vs r1 Pp Hw H1) as (c & E & Lc & T & W & Er & Pe).
      exists c. split; [exact E|]. split; [exact Lc|].
      split; [change ((match pf with Some d => d <? U64 | None => true end) && typed_fields fs vs = true); rewrite Hpf, T; reflexivity|].
      split; [exact W|]. split.
      * change (VS (erase_fields fs vs) = VS vs). rewrite Er. reflexivity.
      * change (VS (pend_fields fs vs) = VS ps). rewrite Pe. reflexivity.
  - (* TEnum *)
    intros vars IH. split.
    + intros Hok b p r Hw H.
      change (schema_ok (TEnum vars)) with (nodupN (variant_discs vars) && schema_ok_variants vars) in Hok.
      apply andb_true_iff in Hok as [_ Hok].
      cbn [dec_static] in H. apply bind_ok in H as [[d r1] [H1 H2]].
      apply read_word_inv in H1 as (c0 & E0 & L0 & _).
      assert (Hw1 : wf_bytes r1 = true) by (rewrite E0 in Hw; exact (wf_bytes_app_r _ _ Hw)).
      destruct (dec_static_variants_inv vars d 0 r1 p r H2) as (i & fs & ps & Hn & Hd & ->).
      destruct (schema_ok_variants_nth _ _ _ _ Hn Hok) as [_ Hf].
      destruct (proj1 (IH _ _ _ Hn) Hf r1 ps r Hw1 Hd) as (c & E & Lc & Pp).
      exists (c0 ++ c). split; [rewrite E0, E, app_assoc; reflexivity|]. cbn [Nat.add].
      change (slen (TEnum vars) (VE i ps)) with (8 + slen_variants vars i ps)%nat.
      change (pok limit (TEnum vars) (VE i ps)) with (pok_variants limit vars i ps).
      rewrite (slen_variants_nth _ _ _ _ _ Hn), (pok_variants_nth limit _ _ _ _ _ Hn), app_length, L0, Lc.
      split; [reflexivity | exact Pp].
    + intros Hok p b v r Pp Hw H.
      change (schema_ok (TEnum vars)) with (nodupN (variant_discs vars) && schema_ok_variants vars) in Hok.
      apply andb_true_iff in Hok as [_ Hok].
      destruct p as [| | | | |i ps|]; try discriminate Pp.
      change (pok limit (TEnum vars) (VE i ps)) with (pok_variants limit vars i ps) in Pp.
      destruct (nth_variant vars i) as [[d fs]|] eqn:Hn; [|rewrite pok_variants_none in Pp by exact Hn; discriminate].
      rewrite (pok_variants_nth limit _ _ _ _ _ Hn) in Pp.
      destruct (schema_ok_variants_nth _ _ _ _ Hn Hok) as [Hd Hf].
      cbn [dec_dynamic] in H. apply bind_ok in H as [[vs r1] [H1 H2]]. injection H2 as <- <-.
      rewrite (dec_dynamic_variants_nth limit _ _ _ _ _ _ Hn) in H1.
      destruct (proj2 (IH _ _ _ Hn) Hf ps b vs r1 Pp Hw H1) as (c & E & Lc & T & W & Er & Pe).
      exists c. split; [exact E|].
      change (enc_dynamic (TEnum vars) (VE i vs)) with (enc_dynamic_variants vars i vs).
      change (typed (TEnum vars) (VE i vs)) with (typed_variants vars i vs).
      change (wf limit (TEnum vars) (VE i vs)) with (wf_variants limit vars i vs).
      change (erase (TEnum vars) (VE i vs)) with (VE i (erase_variants vars i vs)).
      change (pend (TEnum vars) (VE i vs)) with (VE i (pend_variants vars i vs)).
      rewrite (enc_dynamic_variants_nth _ _ _ _ _ Hn), (typed_variants_nth _ _ _ _ _ Hn), (wf_variants_nth limit _ _ _ _ _ Hn),
        (erase_variants_nth _ _ _ _ _ Hn), (pend_variants_nth _ _ _ _ _ Hn), T, Er, Pe.
      apply N.ltb_lt in Hd. rewrite Hd. repeat split; auto.
  - (* TEmpty *)
    intros t [St _]. split.
    + intros Hok b p r Hw H.
      change (schema_ok (TEmpty t)) with (schema_ok t && flat t) in Hok. apply andb_true_iff in Hok as [Hok Hfl].
      cbn [dec_static] in H. apply bind_ok in H as [[q r1] [H1 H2]]. injection H2 as <- <-.
      destruct (St Hok b q r1 Hw H1) as (c & E & Lc & Pq). exists c. split; [exact E|]. split; [|reflexivity].
      change (slen (TEmpty t) VUnit) with (length (enc_static t (default_val t))).
      rewrite Lc, (proj1 flat_default_len t Hfl). exact (proj1 (flat_slen_eq limit) t Hfl q Pq).
    + intros _ p b v r Pp Hw H. destruct p; try discriminate Pp.
      cbn [dec_dynamic] in H. injection H as <- <-. nilc. repeat split; auto.
  - (* TOpaque *)
    intros s. split; intros Hok; discriminate.
  - (* TPolicies *)
    split.
    + intros _ b p r Hw H. cbn [dec_static] in H. apply bind_ok in H as [[bits r1] [H1 H2]].
      destruct (N.leb_spec 64 bits); [discriminate|]. injection H2 as <- <-.
      apply read_uint_inv in H1 as (c & E & Lc & _). exists c. split; [exact E|]. split; [exact Lc|].
      change (bits <? 64 = true). apply N.ltb_lt. assumption.
    + intros _ p b v r Pp Hw H. destruct (pok_policies_inv p Pp) as (bits & -> & Hb).
      cbn [dec_dynamic] in H. apply bind_ok in H as [[vs r1] [H1 H2]].
      destruct (dec_policy_values_inv bits policy_idx b vs r1 Hw H1) as (c & E & Lc & Ln & Hv & Hz).
      destruct (N.testbit bits 2 && (u32_max <? val_N (nth 2 vs (VN 0)))) eqn:E2; [discriminate|].
      destruct (N.testbit bits 4 && (u32_max <? val_N (nth 4 vs (VN 0)))) eqn:E4; [discriminate|].
      injection H2 as <- <-. exists c. split; [exact E|]. split; [exact Lc|].
      split.
      * change ((bits <? 64) && Nat.eqb (length vs) 6 && forallb vn_ok vs = true).
        apply N.ltb_lt in Hb. rewrite Hb, Ln, Hv. reflexivity.
      * split; [|split; reflexivity].
        change (policies_wf bits vs = true). unfold policies_wf, policy_limit_ok. rewrite Hz.
        change (N.to_nat 2) with 2%nat. change (N.to_nat 4) with 4%nat.
        destruct (N.testbit bits 2); destruct (N.testbit bits 4); cbn [negb orb andb] in *;
          repeat match goal with
                 | H : (u32_max <? ?x) = false |- _ => apply N.ltb_ge in H
                 end;
          repeat match goal with
                 | |- context [?x <=? u32_max] => replace (x <=? u32_max) with true by (symmetry; apply N.leb_le; assumption)
                 end; reflexivity.
  - (* TInput *)
    intros. apply sound_input; assumption.
  - (* TPeek *)
    intros al IH. split.
    + intros Hok b p r Hw H.
      change (schema_ok (TPeek al)) with (nodupN (alt_discs al) && schema_ok_alts al) in Hok.
      apply andb_true_iff in Hok as [_ Hok].
      cbn [dec_static] in H. apply bind_ok in H as [[x r1] [H1 H2]].
      destruct (dec_static_alts_inv al (be_decode x) 0 b p r H2) as (i & t & q & Hn & Hd & ->).
      destruct (schema_ok_alts_nth _ _ _ _ Hn Hok) as (_ & Ht & _).
      destruct (proj1 (IH _ _ _ Hn) Ht b q r Hw Hd) as (c & E & Lc & Pq).
      exists c. split; [exact E|]. cbn [Nat.add].
      change (slen (TPeek al) (VE i [q])) with (slen_alts al i q).
      change (pok limit (TPeek al) (VE i [q])) with (pok_alts limit al i q).
      rewrite (slen_alts_nth _ _ _ _ _ Hn), (pok_alts_nth limit _ _ _ _ _ Hn). split; assumption.
    + intros Hok p b v r Pp Hw H.
      change (schema_ok (TPeek al)) with (nodupN (alt_discs al) && schema_ok_alts al) in Hok.
      apply andb_true_iff in Hok as [_ Hok].
      destruct p as [| | | | |i ps|]; try discriminate Pp. destruct ps as [|q [|]]; try discriminate Pp.
      change (pok limit (TPeek al) (VE i [q])) with (pok_alts limit al i q) in Pp.
      destruct (nth_alt al i) as [[d t]|] eqn:Hn; [|rewrite pok_alts_none in Pp by exact Hn; discriminate].
      rewrite (pok_alts_nth limit _ _ _ _ _ Hn) in Pp.
      destruct (schema_ok_alts_nth _ _ _ _ Hn Hok) as (_ & Ht & _).
      cbn [dec_dynamic] in H. apply bind_ok in H as [[x r1] [H1 H2]]. injection H2 as <- <-.
      rewrite (dec_dynamic_alts_nth limit _ _ _ _ _ _ Hn) in H1.
      destruct (proj2 (IH _ _ _ Hn) Ht q b x r1 Pp Hw H1) as (c & E & Lc & T & W & Er & Pe).
      exists c. split; [exact E|].
      change (enc_dynamic (TPeek al) (VE i [x])) with (enc_dynamic_alts al i x).
      change (typed (TPeek al) (VE i [x])) with (typed_alts al i x).
      change (wf limit (TPeek al) (VE i [x])) with (wf_alts limit al i x).
      change (erase (TPeek al) (VE i [x])) with (VE i [erase_alts al i x]).
      change (pend (TPeek al) (VE i [x])) with (VE i [pend_alts al i x]).
      rewrite (enc_dynamic_alts_nth _ _ _ _ _ Hn), (typed_alts_nth _ _ _ _ _ Hn), (wf_alts_nth limit _ _ _ _ _ Hn),
        (erase_alts_nth _ _ _ _ _ Hn), (pend_alts_nth _ _ _ _ _ Hn), Er, Pe. repeat split; auto.
  - (* FNil *)
    split.
    + intros _ b ps r Hw H. cbn [dec_static_fields] in H. injection H as <- <-. nilc. split; reflexivity.
    + intros _ ps b vs r Pp Hw H. destruct ps; [|discriminate Pp].
      cbn [dec_dynamic_fields] in H. injection H as <- <-. nilc. repeat split.
  - (* FCons *)
    intros n sk t rf [St Dt] [Sr Dr]. split.
    + intros Hok b ps r Hw H. rewrite schema_ok_fields_cons in Hok. apply andb_true_iff in Hok as [Hok1 Hok2].
      rewrite dec_static_fields_cons in H. apply bind_ok in H as [[p b1] [H1 H2]].
      apply bind_ok in H2 as [[ps' b2] [H2 H3]]. injection H3 as <- <-.
      rewrite slen_fields_cons, pok_fields_cons.
      destruct sk; cbn [orb] in *.
      * injection H1 as <- <-. destruct (Sr Hok2 b ps' b2 Hw H2) as (c & E & Lc & Pp).
        exists c. rewrite Pp. repeat split; auto.
      * destruct (St Hok1 b p b1 Hw H1) as (c1 & E1 & L1 & P1).
        assert (Hw1 : wf_bytes b1 = true) by (rewrite E1 in Hw; exact (wf_bytes_app_r _ _ Hw)).
        destruct (Sr Hok2 b1 ps' b2 Hw1 H2) as (c2 & E2 & L2 & P2).
        exists (c1 ++ c2). split; [rewrite E1, E2, app_assoc; reflexivity|].
        rewrite app_length, L1, L2, P1, P2. split; reflexivity.
    + intros Hok ps b vs r Pp Hw H. rewrite schema_ok_fields_cons in Hok. apply andb_true_iff in Hok as [Hok1 Hok2].
      destruct ps as [|p ps]; [discriminate Pp|]. rewrite pok_fields_cons in Pp. apply andb_true_iff in Pp as [Pp1 Pp2].
      rewrite dec_dynamic_fields_cons in H. apply bind_ok in H as [[v b1] [H1 H2]].
      apply bind_ok in H2 as [[vs' b2] [H2 H3]]. injection H3 as <- <-.
      rewrite enc_dynamic_fields_cons, typed_fields_cons, wf_fields_cons, erase_fields_cons, pend_fields_cons.
      destruct sk; cbn [orb] in *.
      * injection H1 as <- <-. destruct p; try discriminate Pp1.
        destruct (Dr Hok2 ps b vs' b2 Pp2 Hw H2) as (c & E & Lc & T & W & Er & Pe).
        exists c. rewrite T, W, Er, Pe. repeat split; auto.
      * destruct (Dt Hok1 p b v b1 Pp1 Hw H1) as (c1 & E1 & L1 & T1 & W1 & Er1 & Pe1).
        assert (Hw1 : wf_bytes b1 = true) by (rewrite E1 in Hw; exact (wf_bytes_app_r _ _ Hw)).
        destruct (Dr Hok2 ps b1 vs' b2 Pp2 Hw1 H2) as (c2 & E2 & L2 & T2 & W2 & Er2 & Pe2).
        exists (c1 ++ c2). split; [rewrite E1, E2, app_assoc; reflexivity|].
        rewrite !app_length, L1, L2, T1, T2, W1, W2, Er1, Er2, Pe1, Pe2. repeat split; auto.
Qed.

(* ---------------------------------------------------------------- the theorems *)
Theorem dec_sound t b v rest :
  schema_ok t = true -> wf_bytes b = true -> dec limit t b = Ok (v, rest) ->
  exists c, b = c ++ rest /\ length c = length (enc t v) /\
            typed t v = true /\ wf limit t v = true /\ erase t v = v.
Proof.
  intros Hok Hw H. unfold dec in H. apply bind_ok in H as [[p r1] [H1 H2]].
  destruct (proj1 sound_all t) as [St Dt].
  destruct (St Hok b p r1 Hw H1) as (c1 & E1 & L1 & Pp).
  assert (Hw1 : wf_bytes r1 = true) by (rewrite E1 in Hw; exact (wf_bytes_app_r _ _ Hw)).
  destruct (Dt Hok p r1 v rest Pp Hw1 H2) as (c2 & E2 & L2 & T & W & Er & Pe).
  exists (c1 ++ c2). split; [rewrite E1, E2, app_assoc; reflexivity|].
  unfold enc. rewrite !app_length, L1, L2, <- Pe, (proj1 slen_pend_all t v T). repeat split; auto.
Qed.

Theorem dec_fixpoint t b v rest :
  schema_ok t = true -> wf_bytes b = true -> dec limit t b = Ok (v, rest) ->
  dec limit t (enc t v) = Ok (v, []).
Proof.
  intros Hok Hw H. destruct (dec_sound t b v rest Hok Hw H) as (c & _ & _ & T & W & Er).
  pose proof (dec_enc limit limit_lt t v [] Hok T W) as R. rewrite app_nil_r, Er in R. exact R.
Qed.

(* every Ok/Err the model returns is a Rust value: the two "impossible" branches of the model
   (ill-shaped partial object) are never taken after a successful static phase *)
Theorem dec_consumed t b v rest :
  schema_ok t = true -> wf_bytes b = true -> dec limit t b = Ok (v, rest) ->
  (length rest <= length b)%nat /\ N.of_nat (length b - length rest) = lenN (enc t v).
Proof.
  intros Hok Hw H. destruct (dec_sound t b v rest Hok Hw H) as (c & E & L & _).
  subst b. rewrite app_length. split; [lia|]. unfold lenN. rewrite <- L. f_equal. lia.
Qed.

End Sound.
