(* Merkle/PositionFacts.v — arithmetic facts about in-order positions (common/position.rs):
   a position of height h has the binary shape  x·2^(h+1) + (2^h − 1). *)
From FV Require Import Base.Bytes Base.U64 Merkle.BinaryModel.
Open Scope N_scope.

Lemma trailing_ones_odd n : trailing_ones (2 * n + 1) = 1 + trailing_ones n.
Proof. destruct n as [|q]; reflexivity. Qed.
Lemma trailing_ones_even n : trailing_ones (2 * n) = 0.
Proof. destruct n as [|q]; reflexivity. Qed.

Definition shape (p h x : N) : Prop := p = x * 2 ^ (h + 1) + 2 ^ h - 1.

Lemma pow2_pos k : 0 < 2 ^ k.
Proof. apply N.neq_0_lt_0. apply N.pow_nonzero. lia. Qed.

Lemma shape_height : forall (hn : nat) p x, shape p (N.of_nat hn) x -> trailing_ones p = N.of_nat hn.
Proof.
  induction hn as [|hn IH]; intros p x Hs; unfold shape in Hs.
  - change (N.of_nat 0) with 0 in *. rewrite N.add_0_l, N.pow_1_r, N.pow_0_r in Hs.
    replace p with (2 * x) by lia. apply trailing_ones_even.
  - rewrite Nat2N.inj_succ in *. set (h := N.of_nat hn) in *.
    assert (E : p = 2 * (x * 2 ^ (h + 1) + 2 ^ h - 1) + 1).
    { rewrite Hs. rewrite <- !N.add_1_r. rewrite (N.pow_add_r 2 (h + 1) 1), (N.pow_add_r 2 h 1), N.pow_1_r.
      pose proof (pow2_pos h). pose proof (pow2_pos (h + 1)). lia. }
    rewrite E, trailing_ones_odd. rewrite (IH _ x); [lia | reflexivity].
Qed.

Lemma shape_height_N p h x : shape p h x -> trailing_ones p = h.
Proof. intros H. rewrite <- (N2Nat.id h) in *. eapply shape_height; eassumption. Qed.

Lemma height_shape p : exists x, shape p (pos_height p) x.
Proof.
  unfold pos_height, shape.
  destruct p as [|q]; [exists 0; reflexivity|].
  induction q as [q IH|q _|].
  - destruct IH as [x Hx]. exists x. cbn [trailing_ones trailing_ones_pos] in *.
    set (h := trailing_ones_pos q) in *.
    change (N.pos q~1) with (2 * N.pos q + 1). rewrite Hx.
    replace (1 + h + 1) with (h + 1 + 1) by lia. replace (1 + h) with (h + 1) by lia.
    rewrite (N.pow_add_r 2 (h + 1) 1), (N.pow_add_r 2 h 1), N.pow_1_r.
    pose proof (pow2_pos h). pose proof (pow2_pos (h + 1)). lia.
  - exists (N.pos q). cbn [trailing_ones trailing_ones_pos].
    change (N.pos q~0) with (2 * N.pos q). rewrite N.add_0_l, N.pow_1_r, N.pow_0_r. lia.
  - exists 0. cbn [trailing_ones trailing_ones_pos]. reflexivity.
Qed.

Lemma land_pow2 p k : N.land p (2 ^ k) = if N.testbit p k then 2 ^ k else 0.
Proof.
  apply N.bits_inj. intros m. rewrite N.land_spec, N.pow2_bits_eqb.
  destruct (N.eqb_spec k m) as [->|Hn].
  - destruct (N.testbit p m) eqn:E; [rewrite N.pow2_bits_true | rewrite N.bits_0]; reflexivity.
  - rewrite andb_false_r. destruct (N.testbit p k); [rewrite N.pow2_bits_false by exact Hn | rewrite N.bits_0]; reflexivity.
Qed.

Lemma shape_testbit p h x : shape p h x -> N.testbit p (h + 1) = N.odd x.
Proof.
  unfold shape. intros ->.
  rewrite <- N.bit0_odd. rewrite <- (N.div_pow2_bits _ (h + 1) 0) at 1.
  replace (0 + (h + 1)) with (h + 1) by lia.
  f_equal.
  pose proof (pow2_pos h). pose proof (pow2_pos (h + 1)).
  replace (x * 2 ^ (h + 1) + 2 ^ h - 1) with (2 ^ h - 1 + x * 2 ^ (h + 1)) by lia.
  rewrite N.div_add by lia. rewrite N.div_small; [lia|].
  rewrite N.pow_add_r, N.pow_1_r. lia.
Qed.

(* parent succeeds and raises the height by one *)
Lemma pos_parent_spec p : p < U64 -> pos_height p < 63 ->
  exists q, pos_parent p = Some q /\ pos_height q = pos_height p + 1 /\ q < U64.
Proof.
  intros Hp Hh. destruct (height_shape p) as [x Hx]. set (h := pos_height p) in *.
  unfold pos_parent, pos_orientation. fold h.
  unfold checked_shl64.
  destruct (N.ltb_spec h 64) as [_|]; [|lia].
  destruct (N.ltb_spec (h + 1) 64) as [_|]; [|lia].
  cbn [opt_bind]. rewrite !N.mul_1_l.
  assert (Hpow : 2 ^ (h + 1) < U64).
  { change U64 with (2 ^ 64). apply N.pow_lt_mono_r; lia. }
  assert (Hpow0 : 2 ^ h < U64).
  { change U64 with (2 ^ 64). apply N.pow_lt_mono_r; lia. }
  rewrite (N.mod_small (2 ^ (h + 1))) by exact Hpow. rewrite (N.mod_small (2 ^ h)) by exact Hpow0.
  rewrite land_pow2, (shape_testbit p h x Hx).
  pose proof (pow2_pos h) as P0. pose proof (pow2_pos (h + 1)) as P1.
  assert (E1 : 2 ^ (h + 1) = 2 * 2 ^ h) by (rewrite N.pow_add_r, N.pow_1_r; lia).
  assert (E2 : 2 ^ (h + 1 + 1) = 2 * 2 ^ (h + 1)) by (rewrite (N.pow_add_r 2 (h + 1) 1), N.pow_1_r; lia).
  unfold shape in Hx.
  destruct (N.odd x) eqn:Hodd.
  - (* bit set: Side::Left, subtract *)
    destruct (N.eqb_spec (2 ^ (h + 1)) 0) as [E0|_]; [lia|].
    apply N.odd_spec in Hodd. destruct Hodd as [y Hy].
    unfold checked_sub. destruct (N.leb_spec (2 ^ h) p) as [_|Hlt]; [|lia].
    exists (p - 2 ^ h). split; [reflexivity|]. split; [|lia].
    assert (Hs : shape (p - 2 ^ h) (h + 1) y).
    { unfold shape. rewrite Hx, Hy, E2, E1. lia. }
    exact (shape_height_N _ _ y Hs).
  - destruct (N.eqb_spec 0 0) as [_|]; [|lia].
    assert (Hev : N.even x = true) by (rewrite <- N.negb_odd, Hodd; reflexivity).
    apply N.even_spec in Hev. destruct Hev as [y Hy].
    assert (Hq : p + 2 ^ h = y * 2 ^ (h + 1 + 1) + 2 ^ (h + 1) - 1).
    { rewrite Hx, Hy, E2, E1. lia. }
    assert (Hlt : p + 2 ^ h < U64).
    { (* p < 2^64 and bit h+1.. : (x+1)*2^(h+1) <= 2^64 *)
      assert (Hx64 : x * 2 ^ (h + 1) < U64) by lia.
      assert (E64 : U64 = 2 ^ (63 - h) * 2 ^ (h + 1)).
      { rewrite <- N.pow_add_r. replace (63 - h + (h + 1)) with 64 by lia. reflexivity. }
      assert (Hxx : x < 2 ^ (63 - h)).
      { apply (N.mul_lt_mono_pos_r (2 ^ (h + 1))); [exact P1|]. rewrite <- E64. exact Hx64. }
      assert ((x + 1) * 2 ^ (h + 1) <= U64).
      { rewrite E64. apply N.mul_le_mono_r. lia. }
      lia. }
    unfold checked_add. destruct (N.ltb_spec (p + 2 ^ h) U64) as [_|]; [|lia].
    exists (p + 2 ^ h). split; [reflexivity|]. split; [|exact Hlt].
    exact (shape_height_N _ _ y Hq).
Qed.

Lemma leaf_pos_height i : pos_height (2 * i) = 0.
Proof. apply trailing_ones_even. Qed.

(* exact parent of a position whose block index is even (left child): shape p h (2y) -> parent has
   shape (h+1) y.  This is the case of every node the peak stack ever merges or joins. *)
Lemma pos_parent_even p h y : shape p h (2 * y) -> p < U64 -> h < 63 ->
  exists q, pos_parent p = Some q /\ shape q (h + 1) y /\ q < U64.
Proof.
  intros Hs Hp Hh.
  assert (Hh' : pos_height p = h) by (apply (shape_height_N _ _ _ Hs)).
  unfold pos_parent, pos_orientation. rewrite Hh'. unfold checked_shl64.
  destruct (N.ltb_spec h 64) as [_|]; [|lia].
  destruct (N.ltb_spec (h + 1) 64) as [_|]; [|lia].
  cbn [opt_bind]. rewrite !N.mul_1_l.
  assert (Hpow : 2 ^ (h + 1) < U64) by (change U64 with (2 ^ 64); apply N.pow_lt_mono_r; lia).
  assert (Hpow0 : 2 ^ h < U64) by (change U64 with (2 ^ 64); apply N.pow_lt_mono_r; lia).
  rewrite (N.mod_small (2 ^ (h + 1))) by exact Hpow. rewrite (N.mod_small (2 ^ h)) by exact Hpow0.
  rewrite land_pow2, (shape_testbit p h (2 * y) Hs).
  assert (Hodd : N.odd (2 * y) = false) by (rewrite N.odd_mul, N.odd_2; reflexivity).
  rewrite Hodd. destruct (N.eqb_spec 0 0) as [_|]; [|lia].
  pose proof (pow2_pos h) as P0. pose proof (pow2_pos (h + 1)) as P1.
  assert (E1 : 2 ^ (h + 1) = 2 * 2 ^ h) by (rewrite N.pow_add_r, N.pow_1_r; lia).
  assert (E2 : 2 ^ (h + 1 + 1) = 2 * 2 ^ (h + 1)) by (rewrite (N.pow_add_r 2 (h + 1) 1), N.pow_1_r; lia).
  unfold shape in Hs.
  assert (Hq : p + 2 ^ h = y * 2 ^ (h + 1 + 1) + 2 ^ (h + 1) - 1) by (rewrite Hs, E2, E1; lia).
  assert (Hlt : p + 2 ^ h < U64).
  { assert (Hx64 : (2 * y) * 2 ^ (h + 1) < U64) by lia.
    assert (E64 : U64 = 2 ^ (63 - h) * 2 ^ (h + 1)).
    { rewrite <- N.pow_add_r. replace (63 - h + (h + 1)) with 64 by lia. reflexivity. }
    assert (Hxx : 2 * y < 2 ^ (63 - h)).
    { apply (N.mul_lt_mono_pos_r (2 ^ (h + 1))); [exact P1|]. rewrite <- E64. exact Hx64. }
    assert ((2 * y + 1) * 2 ^ (h + 1) <= U64) by (rewrite E64; apply N.mul_le_mono_r; lia).
    lia. }
  unfold checked_add. destruct (N.ltb_spec (p + 2 ^ h) U64) as [_|]; [|lia].
  exists (p + 2 ^ h). split; [reflexivity|]. split; [exact Hq | exact Hlt].
Qed.

(* positions determine (height, block index) *)
Lemma shape_inj p h x h' x' : shape p h x -> shape p h' x' -> h = h' /\ x = x'.
Proof.
  intros H1 H2. assert (E : h = h').
  { rewrite <- (shape_height_N _ _ _ H1). apply (shape_height_N _ _ _ H2). }
  subst h'. split; [reflexivity|]. unfold shape in *. pose proof (pow2_pos h). pose proof (pow2_pos (h + 1)).
  assert (x * 2 ^ (h + 1) = x' * 2 ^ (h + 1)) by lia.
  apply N.mul_cancel_r in H3; [exact H3 | lia].
Qed.
