(* Merkle/SparseTree.v — L1 (SparseModel.v) refines L2 (SparseFun.v): representation of a
   functional compact tree in the hash-addressed node store, characterisation of PathIter /
   path_set, and the refinement of generate_proof.  (insert/delete: SparseUpdate.v)

   Interface premises (Section hypotheses, all repeated in the Properties files):
     dg_eqb decides equality; kbit reads the bits of a key; kcpl is the common prefix length;
     of_bits/bits are mutually inverse on 256-bit keys; the hash functions are collision-free
     ([hash_ok] on the induced spec-level hashes). *)
From Coq Require Import Arith.
From FV Require Import Base.Bytes Merkle.SparseSpec Merkle.SparseFun Merkle.SparseModel
  Merkle.SparseProofs Merkle.SparseRefine.
Open Scope N_scope.

Fixpoint cpl (a b : key) : nat :=
  match a, b with
  | x :: a', y :: b' => if Bool.eqb x y then S (cpl a' b') else O
  | _, _ => O
  end.

Lemma map_fst_combine {A B} : forall (l : list A) (l' : list B), length l = length l' -> map fst (combine l l') = l.
Proof. induction l as [|x l IH]; intros [|y l'] H; simpl in *; try discriminate; [reflexivity|]. f_equal. apply IH. lia. Qed.
Lemma map_snd_combine {A B} : forall (l : list A) (l' : list B), length l = length l' -> map snd (combine l l') = l'.
Proof. induction l as [|x l IH]; intros [|y l'] H; simpl in *; try discriminate; [reflexivity|]. f_equal. apply IH. lia. Qed.
Lemma combine_fst_snd {A B} : forall (l : list (A * B)), combine (map fst l) (map snd l) = l.
Proof. induction l as [|[x y] l IH]; simpl; [reflexivity|]. f_equal. exact IH. Qed.

(* The interface premises, bundled: operations of the L1 model on an abstract digest type and
   the laws tying them to bit-list keys, plus collision-freeness of the hashes. *)
Record smt_iface (Dg : Type) := {
  i_eqb : Dg -> Dg -> bool;
  i_zero : Dg;
  i_hleaf : Dg -> Dg -> Dg;
  i_hnode : Dg -> Dg -> Dg;
  i_sum : bytes -> Dg;
  i_kbit : Dg -> N -> option bool;
  i_kcpl : Dg -> Dg -> N;
  i_bits : Dg -> key;
  i_of_bits : key -> Dg;
  i_eqb_spec : forall a b, i_eqb a b = true <-> a = b;
  i_kbit_spec : forall k i, i_kbit k i = nth_error (i_bits k) (N.to_nat i);
  i_kcpl_spec : forall a b, i_kcpl a b = N.of_nat (cpl (i_bits a) (i_bits b));
  i_of_bits_bits : forall k, i_of_bits (i_bits k) = k;
  i_bits_of_bits : forall ks, length ks = 256%nat -> i_bits (i_of_bits ks) = ks;
  i_hash_ok : hash_ok i_zero (shleaf i_hleaf i_of_bits) i_hnode
}.
Arguments i_eqb {Dg} _. Arguments i_zero {Dg} _. Arguments i_hleaf {Dg} _. Arguments i_hnode {Dg} _.
Arguments i_sum {Dg} _. Arguments i_kbit {Dg} _. Arguments i_kcpl {Dg} _. Arguments i_bits {Dg} _.
Arguments i_of_bits {Dg} _. Arguments i_eqb_spec {Dg} _. Arguments i_kbit_spec {Dg} _.
Arguments i_kcpl_spec {Dg} _. Arguments i_of_bits_bits {Dg} _. Arguments i_bits_of_bits {Dg} _.
Arguments i_hash_ok {Dg} _.

Section TreeRefine.
  Context {Dg : Type} (IF : smt_iface Dg).
  Notation dg_eqb := (i_eqb IF).
  Notation zero := (i_zero IF).
  Notation hleaf := (i_hleaf IF).
  Notation hnode := (i_hnode IF).
  Notation kbit := (i_kbit IF).
  Notation bits := (i_bits IF).
  Notation of_bits := (i_of_bits IF).
  Let dg_eqb_spec := i_eqb_spec IF.
  Let kbit_spec := i_kbit_spec IF.
  Let of_bits_bits := i_of_bits_bits IF.
  Let bits_of_bits := i_bits_of_bits IF.
  Let Hok := i_hash_ok IF.

  Notation shleaf := (shleaf hleaf of_bits).
  Notation root := (c_root zero shleaf hnode).
  Notation ctree := (@ctree Dg).
  Notation node := (@node Dg).
  Notation store := (@store Dg).
  Notation sget := (sget dg_eqb).
  Notation sset := (sset dg_eqb).
  Notation sdel := (sdel dg_eqb).
  Notation node_hash := (node_hash zero).
  Notation prim_of_node := (prim_of_node zero).
  Notation node_of_prim := (node_of_prim hleaf hnode).
  Notation child := (child dg_eqb zero hleaf hnode).
  Notation child_key := (child_key zero).
  Notation path_iter := (path_iter dg_eqb zero hleaf hnode kbit).
  Notation path_set := (path_set dg_eqb zero hleaf hnode kbit).

  Lemma dg_refl a : dg_eqb a a = true.
  Proof. apply dg_eqb_spec. reflexivity. Qed.
  Lemma dg_neq a b : a <> b -> dg_eqb a b = false.
  Proof. intros H. destruct (dg_eqb a b) eqn:E; [apply dg_eqb_spec in E; contradiction | reflexivity]. Qed.

  (* ---------------------------------------------------------------- nodes of a functional tree *)
  Definition height_at (pre : key) : N := 256 - N.of_nat (length pre).

  Definition node_of (pre : key) (t : ctree) : node :=
    match t with
    | CE => Placeholder
    | CL rest v => Node (hleaf (of_bits (pre ++ rest)) v) 0 PfxLeaf (of_bits (pre ++ rest)) v
    | CN l r => Node (hnode (root (pre ++ [false]) l) (root (pre ++ [true]) r)) (height_at pre) PfxNode
                     (root (pre ++ [false]) l) (root (pre ++ [true]) r)
    end.

  Lemma node_hash_node_of pre t : node_hash (node_of pre t) = root pre t.
  Proof. destruct t; reflexivity. Qed.

  Lemma root_nonzero pre t : t <> CE -> root pre t <> zero.
  Proof.
    destruct Hok as [_ [_ [_ [Hlz Hnz]]]].
    destruct t; intros H; [contradiction | apply Hlz | apply Hnz].
  Qed.
  Lemma root_zero_iff pre t : root pre t = zero <-> t = CE.
  Proof.
    split; [|intros ->; reflexivity]. intros H. destruct t; [reflexivity | |]; exfalso;
      eapply root_nonzero; try exact H; discriminate.
  Qed.

  Lemma node_of_prim_node_of pre t : t <> CE -> node_of_prim (prim_of_node (node_of pre t)) = Ok (node_of pre t).
  Proof. destruct t; intros H; [contradiction | reflexivity | reflexivity]. Qed.

  (* every node of [t] (at path [pre]) is in the store under its digest with its primitive *)
  Fixpoint stored (st : store) (pre : key) (t : ctree) : Prop :=
    match t with
    | CE => True
    | CL rest v => sget st (root pre t) = Some (prim_of_node (node_of pre t))
    | CN l r => sget st (root pre t) = Some (prim_of_node (node_of pre t)) /\
                stored st (pre ++ [false]) l /\ stored st (pre ++ [true]) r
    end.

  Lemma stored_get st pre t : stored st pre t -> t <> CE ->
    sget st (root pre t) = Some (prim_of_node (node_of pre t)).
  Proof. destruct t; simpl; intros H Hn; [contradiction | exact H | apply H]. Qed.

  Definition pick {A} (b : bool) (l r : A) : A := if b then r else l.

  Lemma stored_child st pre l r b : stored st pre (CN l r) -> stored st (pre ++ [b]) (pick b l r).
  Proof. intros [_ [Hl Hr]]. destruct b; assumption. Qed.

  Lemma child_node_of st pre l r b : stored st pre (CN l r) ->
    child st (node_of pre (CN l r)) b = Ok (node_of (pre ++ [b]) (pick b l r)).
  Proof.
    intros Hs. pose proof (stored_child st pre l r b Hs) as Hc.
    unfold SparseModel.child. cbn [node_of is_leaf node_prefix prefix_eqb is_placeholder orb bytes_hi bytes_lo].
    assert ((if b then root (pre ++ [true]) r else root (pre ++ [false]) l) = root (pre ++ [b]) (pick b l r)) as ->
      by (destruct b; reflexivity).
    destruct (pick b l r) as [|k v|l' r'] eqn:Ep.
    - cbn [c_root]. rewrite dg_refl. reflexivity.
    - rewrite dg_neq by (apply root_nonzero; discriminate).
      rewrite (stored_get st _ _ Hc) by discriminate. apply node_of_prim_node_of. discriminate.
    - rewrite dg_neq by (apply root_nonzero; discriminate).
      rewrite (stored_get st _ _ Hc) by discriminate. apply node_of_prim_node_of. discriminate.
  Qed.

  Lemma child_key_node_of pre l r b :
    child_key (node_of pre (CN l r)) b = Ok (root (pre ++ [b]) (pick b l r)).
  Proof. destruct b; reflexivity. Qed.

  (* ---------------------------------------------------------------- structural well-formedness *)
  (* [d] = number of key bits below the position; compact: no inner node with fewer than two leaves *)
  Fixpoint cwf (d : nat) (t : ctree) {struct t} : Prop :=
    match t with
    | CE => True
    | CL rest _ => length rest = d
    | CN l r => match d with
                | O => False
                | S d' => cwf d' l /\ cwf d' r /\ mk_node l r = CN l r
                end
    end.

  Lemma cwf_child d l r b : cwf (S d) (CN l r) -> cwf d (pick b l r).
  Proof. intros [Hl [Hr _]]. destruct b; assumption. Qed.

  Lemma cwf_build d : forall (m : @smap Dg), swf d m -> cwf d (build d m).
  Proof.
    induction d as [|d IH]; intros m Hwf.
    - pose proof (swf_zero_small m Hwf) as Hs. destruct m as [|[k v] [|e2 m]]; simpl in Hs; try lia.
      + exact I.
      + destruct Hwf as [_ Hl]. inversion Hl; subst. assumption.
    - destruct m as [|[k v] [|e2 m]].
      + exact I.
      + destruct Hwf as [_ Hl]. inversion Hl; subst. assumption.
      + rewrite build_big by (simpl; lia). cbn [cwf]. split; [|split].
        * apply IH. apply swf_sub. exact Hwf.
        * apply IH. apply swf_sub. exact Hwf.
        * rewrite mk_node_build by exact Hwf. apply build_big. simpl; lia.
  Qed.

  (* ---------------------------------------------------------------- the descent along a key *)
  (* path nodes top-down, starting with the node of [t] itself *)
  Fixpoint path_nodes_td (pre ks : key) (t : ctree) {struct t} : list node :=
    node_of pre t ::
    match t, ks with
    | CN l r, b :: ks' => path_nodes_td (pre ++ [b]) ks' (pick b l r)
    | _, _ => []
    end.

  (* per inner level, top-down: (digest of the sibling of the path child, node of this level) *)
  Fixpoint levels (pre ks : key) (t : ctree) {struct t} : list (Dg * node) :=
    match t, ks with
    | CN l r, b :: ks' =>
        (root (pre ++ [negb b]) (pick (negb b) l r), node_of pre t) :: levels (pre ++ [b]) ks' (pick b l r)
    | _, _ => []
    end.

  (* where the descent ends: position, remaining key bits, subtree (a leaf or a placeholder) *)
  Fixpoint term_pre (pre ks : key) (t : ctree) {struct t} : key :=
    match t, ks with
    | CN l r, b :: ks' => term_pre (pre ++ [b]) ks' (pick b l r)
    | _, _ => pre
    end.
  Fixpoint term_ks (ks : key) (t : ctree) {struct t} : key :=
    match t, ks with
    | CN l r, b :: ks' => term_ks ks' (pick b l r)
    | _, _ => ks
    end.
  Fixpoint term_t (ks : key) (t : ctree) {struct t} : ctree :=
    match t, ks with
    | CN l r, b :: ks' => term_t ks' (pick b l r)
    | _, _ => t
    end.

  Lemma path_nodes_td_levels pre ks t : forall d, cwf d t -> length ks = d ->
    path_nodes_td pre ks t = map snd (levels pre ks t) ++ [node_of (term_pre pre ks t) (term_t ks t)].
  Proof.
    revert pre ks. induction t as [|k v|l IHl r IHr]; intros pre ks d Hc Hk.
    - reflexivity.
    - reflexivity.
    - destruct d; [destruct Hc|]. destruct ks as [|b ks]; [discriminate|]. injection Hk as Hk.
      cbn [path_nodes_td levels term_pre term_t map snd app]. f_equal.
      destruct b; cbn [pick]; [eapply IHr | eapply IHl]; eauto; apply Hc.
  Qed.

  Lemma term_t_not_node ks t : forall d, cwf d t -> length ks = d ->
    match term_t ks t with CN _ _ => False | _ => True end.
  Proof.
    revert ks. induction t as [|k v|l IHl r IHr]; intros ks d Hc Hk; try exact I.
    destruct d; [destruct Hc|]. destruct ks as [|b ks]; [discriminate|]. injection Hk as Hk.
    cbn [term_t]. destruct b; cbn [pick]; [eapply IHr | eapply IHl]; eauto; apply Hc.
  Qed.

  Lemma term_pre_ks pre ks t : term_pre pre ks t ++ term_ks ks t = pre ++ ks.
  Proof.
    revert pre ks. induction t as [|k v|l IHl r IHr]; intros pre ks; try reflexivity.
    destruct ks as [|b ks]; [reflexivity|]. cbn [term_pre term_ks].
    destruct b; cbn [pick]; [rewrite IHr | rewrite IHl]; apply app_snoc_assoc.
  Qed.

  Lemma term_pre_length pre ks t : length (term_pre pre ks t) = (length pre + length (levels pre ks t))%nat.
  Proof.
    revert pre ks. induction t as [|k v|l IHl r IHr]; intros pre ks; try (simpl; lia).
    destruct ks as [|b ks]; [simpl; lia|]. cbn [term_pre levels length].
    destruct b; cbn [pick]; [rewrite IHr | rewrite IHl]; rewrite app_length; simpl; lia.
  Qed.

  Lemma term_cwf ks t : forall d, cwf d t -> length ks = d ->
    cwf (length (term_ks ks t)) (term_t ks t).
  Proof.
    revert ks. induction t as [|k v|l IHl r IHr]; intros ks d Hc Hk.
    - simpl. exact I.
    - simpl in *. congruence.
    - destruct d; [destruct Hc|]. destruct ks as [|b ks]; [discriminate|]. injection Hk as Hk.
      cbn [term_ks term_t]. destruct b; cbn [pick]; [eapply IHr | eapply IHl]; eauto; apply Hc.
  Qed.

  Lemma term_stored st pre ks t : stored st pre t -> stored st (term_pre pre ks t) (term_t ks t).
  Proof.
    revert pre ks. induction t as [|k v|l IHl r IHr]; intros pre ks Hs; try exact Hs.
    destruct ks as [|b ks]; [exact Hs|]. cbn [term_pre term_t].
    destruct b; cbn [pick]; [apply IHr | apply IHl]; apply Hs.
  Qed.

  (* ---------------------------------------------------------------- PathIter *)
  Definition ok_item (n : node) (s : Dg) : res node * res Dg := (Ok n, Ok s).

  Lemma path_iter_td key st : forall t pre ks d x fuel,
    stored st pre t -> cwf d t -> length ks = d -> bits key = pre ++ ks -> (d < fuel)%nat ->
    path_iter fuel st key (Ok (node_of pre t), Ok x) (N.of_nat (length pre)) =
    combine (map (@Ok node) (path_nodes_td pre ks t)) (map (@Ok Dg) (x :: map fst (levels pre ks t))).
  Proof.
    induction t as [|k v|l IHl r IHr]; intros pre ks d x fuel Hs Hc Hk Hb Hf.
    - destruct fuel; [lia|]. reflexivity.
    - destruct fuel; [lia|]. reflexivity.
    - destruct fuel; [lia|]. destruct d; [destruct Hc|].
      destruct ks as [|b ks]; [discriminate|]. injection Hk as Hk.
      cbn [SparseModel.path_iter fst]. cbn [node_of is_node node_prefix prefix_eqb].
      rewrite kbit_spec, Nat2N.id, Hb, nth_error_app2 by lia. rewrite Nat.sub_diag. cbn [nth_error].
      cbn [path_nodes_td levels map combine fst].
      assert (N.of_nat (length pre) + 1 = N.of_nat (length (pre ++ [b]))) as Eoff
        by (rewrite app_length; simpl; lia).
      assert (bits key = (pre ++ [b]) ++ ks) as Hb' by (rewrite app_snoc_assoc; exact Hb).
      fold (node_of pre (CN l r)).
      destruct b.
      + rewrite (child_node_of st pre l r true Hs), (child_key_node_of pre l r false). cbn [pick negb].
        rewrite Eoff. f_equal. apply (IHr (pre ++ [true]) ks d); auto; [apply Hs | apply Hc | lia].
      + rewrite (child_node_of st pre l r false Hs), (child_key_node_of pre l r true). cbn [pick negb].
        rewrite Eoff. f_equal. apply (IHl (pre ++ [false]) ks d); auto; [apply Hs | apply Hc | lia].
  Qed.

  Lemma collect_ok : forall (ns : list node) (ss : list Dg), length ns = length ss ->
    collect_items (combine (map (@Ok node) ns) (map (@Ok Dg) ss)) = Ok (combine ns ss).
  Proof.
    induction ns as [|n ns IH]; intros [|s ss] H; simpl in H; try discriminate; try reflexivity.
    cbn [map combine collect_items]. rewrite IH by lia. reflexivity.
  Qed.

  Lemma path_nodes_td_length pre ks t : length (path_nodes_td pre ks t) = S (length (levels pre ks t)).
  Proof.
    revert pre ks. induction t as [|k v|l IHl r IHr]; intros pre ks; try reflexivity.
    destruct ks as [|b ks]; [reflexivity|]. cbn [path_nodes_td levels length]. f_equal.
    destruct b; cbn [pick]; [apply IHr | apply IHl].
  Qed.

  (* the tree object of L1 that represents the functional tree [t] over the store [st] *)
  Definition tree_of (st : store) (t : ctree) : @tree Dg := mkTree (node_of [] t) st.

  Theorem path_set_td st t key :
    stored st [] t -> cwf 256 t -> length (bits key) = 256%nat ->
    path_set (tree_of st t) key =
    Ok (rev (path_nodes_td [] (bits key) t), rev (map fst (levels [] (bits key) t))).
  Proof.
    intros Hs Hc Hk. unfold SparseModel.path_set, tree_of. cbn [t_root t_store].
    assert (max_height <? SparseModel.node_height (node_of [] t) = false) as ->.
    { destruct t; cbn [node_of SparseModel.node_height height_at length]; reflexivity. }
    assert (path_iter 300 st key (Ok (node_of [] t), Ok (node_hash (node_of [] t)))
              (max_height - SparseModel.node_height (node_of [] t)) =
            combine (map (@Ok node) (path_nodes_td [] (bits key) t))
                    (map (@Ok Dg) (node_hash (node_of [] t) :: map fst (levels [] (bits key) t)))) as ->.
    { destruct t as [|k v|l r].
      - reflexivity.
      - reflexivity.
      - change (max_height - SparseModel.node_height (node_of [] (CN l r))) with (N.of_nat (length (@nil bool))).
        apply (path_iter_td key st (CN l r) [] (bits key) 256%nat); auto. lia. }
    rewrite collect_ok by (cbn [length]; rewrite map_length; apply path_nodes_td_length).
    cbn [rbind]. f_equal. f_equal.
    - rewrite map_fst_combine; [reflexivity|]. cbn [length]. rewrite map_length. apply path_nodes_td_length.
    - rewrite map_snd_combine by (cbn [length]; rewrite map_length; apply path_nodes_td_length).
      cbn [rev]. apply removelast_last.
  Qed.

  (* ---------------------------------------------------------------- generate_proof *)
  Notation generate_proof := (generate_proof dg_eqb zero hleaf hnode kbit).

  Definition exl (x : @xleaf Dg) : @exclusion_leaf Dg :=
    match x with XLeaf k v => ExLeaf (of_bits k) v | XPlaceholder => ExPlaceholder end.

  Lemma levels_sides pre ks t : map fst (levels pre ks t) = c_sides zero shleaf hnode pre ks t.
  Proof.
    revert pre ks. induction t as [|k v|l IHl r IHr]; intros pre ks; try reflexivity.
    destruct ks as [|b ks]; [reflexivity|]. destruct b; cbn [levels c_sides map fst pick negb]; f_equal; auto.
  Qed.

  Lemma c_get_term ks t : forall d, cwf d t -> length ks = d ->
    c_get ks t = match term_t ks t with
                 | CL rest v => if key_eqb (term_ks ks t) rest then Some v else None
                 | _ => None
                 end.
  Proof.
    revert ks. induction t as [|k v|l IHl r IHr]; intros ks d Hc Hk; try reflexivity.
    destruct d; [destruct Hc|]. destruct ks as [|b ks]; [discriminate|]. injection Hk as Hk.
    destruct b; cbn [c_get term_t term_ks pick]; [eapply IHr | eapply IHl]; eauto; apply Hc.
  Qed.

  Lemma c_terminal_term pre ks t : forall d, cwf d t -> length ks = d ->
    c_terminal pre ks t = match term_t ks t with
                          | CL rest v => XLeaf (term_pre pre ks t ++ rest) v
                          | _ => XPlaceholder
                          end.
  Proof.
    revert pre ks. induction t as [|k v|l IHl r IHr]; intros pre ks d Hc Hk.
    - destruct ks; reflexivity.
    - destruct ks; reflexivity.
    - destruct d; [destruct Hc|]. destruct ks as [|b ks]; [discriminate|]. injection Hk as Hk.
      destruct b; cbn [c_terminal term_t term_pre pick]; [eapply IHr | eapply IHl]; eauto; apply Hc.
  Qed.

  Lemma of_bits_inj a b : length a = 256%nat -> length b = 256%nat -> of_bits a = of_bits b -> a = b.
  Proof. intros Ha Hb H. rewrite <- (bits_of_bits a Ha), <- (bits_of_bits b Hb), H. reflexivity. Qed.

  Theorem generate_proof_td st t key :
    stored st [] t -> cwf 256 t -> length (bits key) = 256%nat ->
    generate_proof (tree_of st t) key =
    Ok (match c_get (bits key) t with
        | Some _ => Inclusion (rev (c_sides zero shleaf hnode [] (bits key) t))
        | None => Exclusion (rev (c_sides zero shleaf hnode [] (bits key) t)) (exl (c_terminal [] (bits key) t))
        end).
  Proof.
    intros Hs Hc Hk. unfold SparseModel.generate_proof. rewrite (path_set_td st t key Hs Hc Hk). cbn [rbind].
    rewrite (path_nodes_td_levels [] (bits key) t 256 Hc Hk), rev_app_distr. cbn [rev app].
    rewrite levels_sides.
    rewrite (c_get_term (bits key) t 256 Hc Hk), (c_terminal_term [] (bits key) t 256 Hc Hk).
    pose proof (term_cwf (bits key) t 256 Hc Hk) as Hct.
    pose proof (term_t_not_node (bits key) t 256 Hc Hk) as Hnn.
    pose proof (term_pre_ks [] (bits key) t) as Hpk. cbn [app] in Hpk.
    destruct (term_t (bits key) t) as [|rest v|l r]; [| |destruct Hnn].
    - reflexivity.
    - cbn [node_of is_placeholder negb andb leaf_key bytes_lo leaf_data bytes_hi cwf] in *.
      assert (length (term_pre [] (bits key) t ++ rest) = 256%nat) as Hl1.
      { rewrite app_length, Hct, <- app_length, Hpk. exact Hk. }
      destruct (key_eqb (term_ks (bits key) t) rest) eqn:E.
      + apply key_eqb_eq in E. rewrite <- E, Hpk, of_bits_bits, dg_refl. reflexivity.
      + apply key_eqb_neq in E. rewrite dg_neq; [reflexivity|].
        intros H0. apply E.
        assert (of_bits (term_pre [] (bits key) t ++ rest) = of_bits (bits key)) as H
          by (rewrite of_bits_bits; exact H0).
        apply of_bits_inj in H; auto.
        assert (term_pre [] (bits key) t ++ rest = term_pre [] (bits key) t ++ term_ks (bits key) t) as H2
          by (rewrite Hpk; exact H).
        apply app_inv_head in H2. congruence.
  Qed.
End TreeRefine.
