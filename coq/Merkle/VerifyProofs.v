(* Merkle/VerifyProofs.v — the L1 verifier (binary/verify.rs: path_length_from_key + the
   three-phase loop of `verify`) accepts exactly when the RFC 6962 recomputation
   `root_from_path` from the same tuple reaches the root.  All tuples, n < 2^64 (the u64 range). *)
From FV Require Import Base.Bytes Base.U64 Merkle.RFC6962 Merkle.RFCFacts Merkle.BinaryModel.
From Coq Require Import Arith PeanoNat Lia.
Open Scope N_scope.

(* ------------------------------------------------------------------ arithmetic *)
Lemma p2pos k : 0 < 2 ^ k.
Proof. apply N.neq_0_lt_0. apply N.pow_nonzero. lia. Qed.
Lemma p2S k : 2 ^ (k + 1) = 2 * 2 ^ k.
Proof. rewrite N.pow_add_r, N.pow_1_r. lia. Qed.

(* k = 2^(log2 (n-1)) is the RFC split point *)
Lemma splitN_spec n : 2 <= n -> 2 ^ N.log2 (n - 1) < n <= 2 * 2 ^ N.log2 (n - 1).
Proof.
  intros H. assert (Hp : 0 < n - 1) by lia.
  pose proof (N.log2_spec (n - 1) Hp) as [Hlo Hhi].
  rewrite <- N.add_1_r, p2S in Hhi. lia.
Qed.

Lemma log2_pred_pow2 t : N.log2 (2 * 2 ^ t - 1) = t.
Proof.
  pose proof (p2pos t). apply N.log2_unique; [lia|]. rewrite <- N.add_1_r, p2S. lia.
Qed.

Lemma log2_bridge x : Nat.log2 (N.to_nat x) = N.to_nat (N.log2 x).
Proof.
  destruct (N.eq_dec x 0) as [->|Hx]; [reflexivity|].
  assert (Hp : 0 < x) by lia.
  pose proof (N.log2_spec x Hp) as [Hlo Hhi].
  apply Nat.log2_unique; [lia|].
  change 2%nat with (N.to_nat 2).
  rewrite <- N2Nat.inj_succ, <- !N2Nat.inj_pow.
  revert Hlo Hhi. generalize (2 ^ N.log2 x), (2 ^ N.succ (N.log2 x)). intros; lia.
Qed.

Lemma split_k_bridge n : 2 <= n -> split_k (N.to_nat n) = N.to_nat (2 ^ N.log2 (n - 1)).
Proof.
  intros H. unfold split_k.
  replace (N.to_nat n - 1)%nat with (N.to_nat (n - 1)) by (rewrite N2Nat.inj_sub; reflexivity).
  rewrite log2_bridge, N2Nat.inj_pow. reflexivity.
Qed.

(* the test of the first loop of verify is "bit `j` of the index is 0" *)
Lemma bit_test i j :
  (i - i / 2 ^ (j + 1) * 2 ^ (j + 1) <? 2 ^ j) = negb (N.testbit i j).
Proof.
  rewrite p2S. pose proof (p2pos j) as HA. set (A := 2 ^ j) in *.
  assert (Hb : N.b2n (N.testbit i j) = (i / A) mod 2) by apply N.testbit_spec'.
  pose proof (N.div_mod i A ltac:(lia)) as E1.
  pose proof (N.mod_lt i A ltac:(lia)) as L1.
  set (q := i / A) in *. set (r := i mod A) in *.
  pose proof (N.div_mod q 2 ltac:(lia)) as E2.
  pose proof (N.mod_lt q 2 ltac:(lia)) as L2.
  set (q2 := q / 2) in *. set (b := q mod 2) in *.
  assert (Hd : i / (2 * A) = q2).
  { symmetry. apply (N.div_unique i (2 * A) q2 (A * b + r)); nia. }
  rewrite Hd.
  destruct (N.testbit i j); cbn [N.b2n negb] in *.
  - apply N.ltb_ge. nia.
  - apply N.ltb_lt. nia.
Qed.

Lemma list_last_case {A} (l : list A) : l = [] \/ exists l' a, l = l' ++ [a].
Proof.
  destruct l as [|x r]; [left; reflexivity | right].
  destruct (@exists_last _ (x :: r)) as [l' [a E]]; [discriminate|]. eauto.
Qed.

Lemma lenN_app' {A} (x y : list A) : lenN (x ++ y) = lenN x + lenN y.
Proof. unfold lenN. rewrite app_length. lia. Qed.
Lemma lenN_cons {A} (a : A) l : lenN (a :: l) = lenN l + 1.
Proof. unfold lenN. cbn [length]. lia. Qed.
Lemma lenN_nil {A} : lenN (@nil A) = 0.
Proof. reflexivity. Qed.

Section Verify.
  Context {D : Type}.
  Variables (leaf_sum : bytes -> D) (node_sum : D -> D -> D).
  Variable D_eqb : D -> D -> bool.
  Hypothesis D_eqb_spec : forall x y, D_eqb x y = true <-> x = y.

  (* ---------------------------------------------------------------- the RFC recursion over N *)
  Definition R (h : D) (p : list D) (i n : N) : option D :=
    root_from_path node_sum h p (N.to_nat i) (N.to_nat n).

  Lemma R_zero h p i : R h p i 0 = None.
  Proof. reflexivity. Qed.

  Lemma R_one h p i : R h p i 1 = if i =? 0 then match p with [] => Some h | _ => None end else None.
  Proof.
    unfold R, root_from_path. change (N.to_nat 1) with 1%nat. cbn [rfp_f Nat.eqb].
    destruct (Nat.eqb_spec (N.to_nat i) 0), (N.eqb_spec i 0); try lia; reflexivity.
  Qed.

  Lemma R_nil h i n : 2 <= n -> R h [] i n = None.
  Proof. intros H. unfold R. apply rfp_nil_inv. lia. Qed.

  Lemma R_unfold h p last i n : 2 <= n ->
    R h (p ++ [last]) i n =
      let k := 2 ^ N.log2 (n - 1) in
      if i <? k then match R h p i k with Some r => Some (node_sum r last) | None => None end
      else match R h p (i - k) (n - k) with Some r => Some (node_sum last r) | None => None end.
  Proof.
    intros H. unfold R. rewrite rfp_unfold by lia. cbn zeta.
    rewrite split_k_bridge by exact H. set (k := 2 ^ N.log2 (n - 1)).
    rewrite <- !N2Nat.inj_sub.
    destruct (Nat.ltb_spec (N.to_nat i) (N.to_nat k)), (N.ltb_spec i k); try lia; reflexivity.
  Qed.

  Lemma R_some_lt : forall n h p i r, R h p i n = Some r -> i < n.
  Proof.
    intros n. induction n as [n IH] using (well_founded_induction N.lt_wf_0). intros h p i r H.
    destruct (N.eq_dec n 0) as [->|H0]; [rewrite R_zero in H; discriminate|].
    destruct (N.eq_dec n 1) as [->|H1].
    { rewrite R_one in H. destruct (N.eqb_spec i 0); [lia | discriminate]. }
    assert (H2 : 2 <= n) by lia.
    destruct (list_last_case p) as [->|[p' [a ->]]]; [rewrite R_nil in H by exact H2; discriminate|].
    rewrite R_unfold in H by exact H2. cbn zeta in H.
    pose proof (splitN_spec n H2) as Hk. set (k := 2 ^ N.log2 (n - 1)) in *.
    destruct (N.ltb_spec i k) as [Hi|Hi]; [lia|].
    destruct (R h p' (i - k) (n - k)) as [r'|] eqn:E; [|discriminate].
    apply IH in E; lia.
  Qed.

  (* ---------------------------------------------------------------- bottom-up recomputation *)
  Fixpoint climb (j : N) (s : D) (p : list D) (i : N) : D :=
    match p with
    | [] => s
    | x :: r => climb (j + 1) (if N.testbit i j then node_sum x s else node_sum s x) r i
    end.

  Lemma climb_app : forall p j s x i,
    climb j s (p ++ [x]) i =
      if N.testbit i (j + lenN p) then node_sum x (climb j s p i) else node_sum (climb j s p i) x.
  Proof.
    induction p as [|a p IH]; intros j s x i.
    - cbn [app climb]. rewrite lenN_nil, N.add_0_r. reflexivity.
    - cbn [app climb]. rewrite IH. rewrite lenN_cons.
      replace (j + 1 + lenN p) with (j + (lenN p + 1)) by lia. reflexivity.
  Qed.

  Lemma climb_ext : forall p j s i i',
    (forall b, j <= b < j + lenN p -> N.testbit i b = N.testbit i' b) ->
    climb j s p i = climb j s p i'.
  Proof.
    induction p as [|a p IH]; intros j s i i' H; [reflexivity|].
    cbn [climb]. rewrite lenN_cons in H. rewrite (H j) by lia. apply IH.
    intros b Hb. apply H. lia.
  Qed.

  (* Lemma P: in a perfect tree the RFC recursion is the bottom-up climb *)
  Lemma R_perfect : forall (t : nat) h p i, i < 2 ^ N.of_nat t ->
    R h p i (2 ^ N.of_nat t) = if (length p =? t)%nat then Some (climb 0 h p i) else None.
  Proof.
    induction t as [|t IH]; intros h p i Hi.
    - change (2 ^ N.of_nat 0) with 1 in *. rewrite R_one.
      destruct (N.eqb_spec i 0); [|lia]. destruct p; reflexivity.
    - rewrite Nat2N.inj_succ, <- N.add_1_r, p2S in *. set (T := N.of_nat t) in *.
      pose proof (p2pos T) as HK.
      destruct (list_last_case p) as [->|[p' [a ->]]]; [apply R_nil; lia|].
      rewrite R_unfold by lia. cbn zeta. rewrite log2_pred_pow2.
      rewrite app_length. cbn [length].
      replace (length p' + 1 =? S t)%nat with (length p' =? t)%nat
        by (destruct (Nat.eqb_spec (length p') t), (Nat.eqb_spec (length p' + 1) (S t)); try lia; reflexivity).
      destruct (N.ltb_spec i (2 ^ T)) as [Hlt|Hge].
      + rewrite IH by exact Hlt.
        destruct (Nat.eqb_spec (length p') t) as [E|]; [|reflexivity].
        rewrite climb_app. rewrite N.add_0_l.
        assert (Hb : N.testbit i (lenN p') = false).
        { apply N.testbit_false. unfold lenN. rewrite E. fold T. rewrite N.div_small by exact Hlt. reflexivity. }
        rewrite Hb. reflexivity.
      + replace (2 * 2 ^ T - 2 ^ T) with (2 ^ T) by lia.
        rewrite IH by lia.
        destruct (Nat.eqb_spec (length p') t) as [E|]; [|reflexivity].
        rewrite climb_app. rewrite N.add_0_l.
        assert (Hb : N.testbit i (lenN p') = true).
        { apply N.testbit_true. unfold lenN. rewrite E. fold T.
          rewrite <- (N.div_unique i (2 ^ T) 1 (i - 2 ^ T)); [reflexivity | lia | lia]. }
        rewrite Hb. f_equal. f_equal. apply climb_ext. intros b Hb'.
        unfold lenN in Hb'. rewrite E in Hb'. fold T in Hb'.
        rewrite <- (N.mod_pow2_bits_low (i - 2 ^ T) T b) by lia.
        rewrite <- (N.mod_pow2_bits_low i T b) by lia.
        f_equal. replace i with (i - 2 ^ T + 1 * 2 ^ T) at 2 by lia.
        rewrite N.mod_add by lia. reflexivity.
  Qed.

  (* ---------------------------------------------------------------- the first loop of verify *)
  Notation vloop := (verify_loop node_sum).
  Notation vtail := (verify_tail node_sum).

  Lemma vloop_S f p i n s j se :
    vloop (S f) p i n s j se =
      if n <=? i / 2 ^ (j + 1) * 2 ^ (j + 1) + 2 ^ (j + 1) - 1 then Some (s, j, se)
      else if lenN p <? j + 1 then None
      else match nth_error p (N.to_nat j) with
           | None => None
           | Some pd =>
               vloop f p i n (if i - i / 2 ^ (j + 1) * 2 ^ (j + 1) <? 2 ^ j then node_sum s pd else node_sum pd s)
                     (j + 1) (i / 2 ^ (j + 1) * 2 ^ (j + 1) + 2 ^ (j + 1) - 1)
           end.
  Proof. reflexivity. Qed.

  Lemma skipn_nth {A} : forall (l : list A) a x, nth_error l a = Some x -> skipn a l = x :: skipn (S a) l.
  Proof.
    induction l as [|y l IH]; intros a x H; [destruct a; discriminate|].
    destruct a; [injection H as ->; reflexivity|]. cbn [nth_error] in H. cbn [skipn]. rewrite (IH a x H). reflexivity.
  Qed.

  (* phase 1 inside an aligned perfect block [0, 2^m) that fits below n while [0, 2^(m+1)) does not *)
  Lemma loop_perfect p i n m : i < 2 ^ m -> 2 ^ m <= n -> n < 2 * 2 ^ m -> m <= lenN p ->
    forall (d : nat) fuel j s se, j + N.of_nat d = m -> (d < fuel)%nat ->
      vloop fuel p i n s j se =
        Some (climb j s (firstn d (skipn (N.to_nat j) p)) i, m, if (d =? 0)%nat then se else 2 ^ m - 1).
  Proof.
    intros Hi Hn Hn2 Hp. induction d as [|d IH]; intros fuel j s se Hj Hf.
    - destruct fuel as [|f]; [lia|]. rewrite vloop_S.
      assert (j = m) by lia. subst j. rewrite p2S.
      rewrite (N.div_small i (2 * 2 ^ m)) by lia.
      destruct (N.leb_spec n (0 * (2 * 2 ^ m) + 2 * 2 ^ m - 1)) as [_|]; [|lia].
      reflexivity.
    - destruct fuel as [|f]; [lia|]. rewrite vloop_S.
      assert (Em : 2 ^ m = 2 ^ (j + 1) * 2 ^ N.of_nat d).
      { rewrite <- N.pow_add_r. f_equal. lia. }
      pose proof (p2pos (j + 1)) as HS. pose proof (p2pos (N.of_nat d)) as HQ.
      assert (Hq : i / 2 ^ (j + 1) < 2 ^ N.of_nat d).
      { apply N.div_lt_upper_bound; [lia|]. rewrite <- Em. exact Hi. }
      assert (Hend : i / 2 ^ (j + 1) * 2 ^ (j + 1) + 2 ^ (j + 1) <= 2 ^ m).
      { rewrite Em. revert Hq. generalize (i / 2 ^ (j + 1)), (2 ^ (j + 1)), (2 ^ N.of_nat d). intros; nia. }
      destruct (N.leb_spec n (i / 2 ^ (j + 1) * 2 ^ (j + 1) + 2 ^ (j + 1) - 1)) as [|_]; [lia|].
      destruct (N.ltb_spec (lenN p) (j + 1)) as [|_]; [lia|].
      destruct (nth_error p (N.to_nat j)) as [pd|] eqn:En.
      2:{ apply nth_error_None in En. unfold lenN in Hp. lia. }
      rewrite (skipn_nth _ _ _ En). cbn [firstn climb]. rewrite bit_test.
      rewrite (IH f (j + 1)) by lia.
      replace (N.to_nat (j + 1)) with (S (N.to_nat j)) by lia.
      f_equal. f_equal.
      + f_equal. destruct (N.testbit i j); reflexivity.
      + destruct d as [|d']; [|reflexivity].
        cbn [Nat.eqb]. assert (Ej : j + 1 = m) by lia. rewrite Ej.
        rewrite N.div_small by exact Hi. lia.
  Qed.

  (* ---------------------------------------------------------------- the three phases as one function *)
  (* the fuel is kept abstract in the proofs (a literal 70 makes the kernel unfold the loop) *)
  Definition Vloopf (fuel : nat) (h : D) (p : list D) (i n : N) : option D :=
    match vloop fuel p i n h 0 i with
    | None => None
    | Some (s1, par, se) =>
        match (if se =? n - 1 then Some (s1, par)
               else if lenN p <=? par then None
               else match nth_error p (N.to_nat par) with
                    | None => None
                    | Some pd => Some (node_sum s1 pd, par + 1)
                    end) with
        | None => None
        | Some (s2, par2) => Some (vtail (skipn (N.to_nat par2) p) s2)
        end
    end.

  Lemma vtail_app : forall r x s, vtail (r ++ [x]) s = node_sum x (vtail r s).
  Proof. induction r as [|y r IH]; intros x s; [reflexivity|]. cbn [app verify_tail]. apply IH. Qed.

  Lemma vloop_mono q : forall fuel p i n s j se x,
    vloop fuel p i n s j se = Some x -> j <= lenN p ->
    vloop fuel (p ++ q) i n s j se = Some x /\ snd (fst x) <= lenN p.
  Proof.
    induction fuel as [|f IH]; intros p i n s j se x H Hj; [discriminate|].
    rewrite vloop_S in *.
    destruct (N.leb_spec n (i / 2 ^ (j + 1) * 2 ^ (j + 1) + 2 ^ (j + 1) - 1)).
    - injection H as <-. split; [reflexivity | exact Hj].
    - destruct (N.ltb_spec (lenN p) (j + 1)) as [|Hl]; [discriminate|].
      destruct (N.ltb_spec (lenN (p ++ q)) (j + 1)) as [Hl'|_]; [rewrite lenN_app' in Hl'; lia|].
      destruct (nth_error p (N.to_nat j)) as [pd|] eqn:En; [|discriminate].
      rewrite nth_error_app1 by (unfold lenN in Hl; lia). rewrite En.
      apply IH; [exact H | lia].
  Qed.

  (* phase 1 on (i, n) with i in the right subtree coincides with phase 1 on (i - k, n - k) *)
  Lemma vloop_shift p m i n : 2 ^ m <= i -> i < n -> n < 2 * 2 ^ m ->
    forall fuel j s se se', j <= m -> se' = se + 2 ^ m ->
      vloop fuel p i n s j se' =
        match vloop fuel p (i - 2 ^ m) (n - 2 ^ m) s j se with
        | Some (a, b, c) => Some (a, b, c + 2 ^ m)
        | None => None
        end.
  Proof.
    intros Hki Hin Hn2. induction fuel as [|f IH]; intros j s se se' Hj ->; [reflexivity|].
    rewrite !vloop_S. pose proof (p2pos m) as Hk. set (k := 2 ^ m) in *.
    destruct (N.eq_dec j m) as [->|Hne].
    - fold k. rewrite p2S. fold k. rewrite (N.div_small i (2 * k)) by lia.
      rewrite (N.div_small (i - k) (2 * k)) by lia.
      destruct (N.leb_spec n (0 * (2 * k) + 2 * k - 1)) as [_|]; [|lia].
      destruct (N.leb_spec (n - k) (0 * (2 * k) + 2 * k - 1)) as [_|]; [|lia].
      reflexivity.
    - assert (Ek : k = 2 ^ (m - j - 1) * 2 ^ (j + 1)).
      { unfold k. rewrite <- N.pow_add_r. f_equal. lia. }
      pose proof (p2pos (j + 1)) as HS. set (S := 2 ^ (j + 1)) in *. set (Q := 2 ^ (m - j - 1)) in *.
      assert (Ed : i / S = (i - k) / S + Q).
      { replace i with (i - k + Q * S) at 1 by lia. apply N.div_add. lia. }
      rewrite Ed. set (a := (i - k) / S) in *.
      assert (Es : (a + Q) * S = a * S + k) by (rewrite Ek; lia).
      rewrite Es.
      destruct (N.leb_spec n (a * S + k + S - 1)), (N.leb_spec (n - k) (a * S + S - 1)); try lia; [reflexivity|].
      destruct (N.ltb_spec (lenN p) (j + 1)); [reflexivity|].
      destruct (nth_error p (N.to_nat j)) as [pd|]; [|reflexivity].
      replace (i - (a * S + k)) with (i - k - a * S) by lia.
      apply IH; lia.
  Qed.

  Lemma firstn_app_exact {A} (l1 l2 : list A) : firstn (length l1) (l1 ++ l2) = l1.
  Proof. rewrite firstn_app, Nat.sub_diag, firstn_O, firstn_all, app_nil_r. reflexivity. Qed.

  Lemma log2_le_63 t n : 2 ^ t <= n -> n < 2 ^ 64 -> t <= 63.
  Proof.
    intros H1 H2. assert (t < 64); [|lia].
    apply (N.pow_lt_mono_r_iff 2); [reflexivity|]. eapply N.le_lt_trans; eassumption.
  Qed.

  Section Fuel.
  Variable fuel : nat.
  Hypothesis Hfuel : (63 < fuel)%nat.
  Notation Vloop := (Vloopf fuel).

  Lemma Vloop_perfect t h p i : t <= 63 -> i < 2 ^ t -> length p = N.to_nat t ->
    Vloop h p i (2 ^ t) = Some (climb 0 h p i).
  Proof.
    intros Ht Hi El. pose proof (p2pos t) as Hk. unfold Vloopf.
    rewrite (loop_perfect p i (2 ^ t) t Hi ltac:(lia) ltac:(lia)
               ltac:(unfold lenN; lia) (length p) fuel 0 h i ltac:(lia) ltac:(lia)).
    cbn [N.to_nat skipn]. rewrite firstn_all.
    assert (Ese : (if (length p =? 0)%nat then i else 2 ^ t - 1) = 2 ^ t - 1).
    { destruct (Nat.eqb_spec (length p) 0) as [E0|]; [|reflexivity].
      assert (E : t = 0) by lia. rewrite E in *. change (2 ^ 0) with 1 in *. lia. }
    rewrite Ese, N.eqb_refl. rewrite <- El, skipn_all. reflexivity.
  Qed.

  Lemma Vloop_left m n h p a i : m <= 63 -> i < 2 ^ m -> 2 ^ m < n -> n < 2 * 2 ^ m -> length p = N.to_nat m ->
    Vloop h (p ++ [a]) i n = Some (node_sum (climb 0 h p i) a).
  Proof.
    intros Hm Hi Hn1 Hn2 El. pose proof (p2pos m) as Hk. unfold Vloopf.
    assert (HL : lenN (p ++ [a]) = m + 1) by (rewrite lenN_app'; unfold lenN; cbn [length]; lia).
    rewrite (loop_perfect (p ++ [a]) i n m Hi ltac:(lia) Hn2 ltac:(lia) (length p) fuel 0 h i ltac:(lia) ltac:(lia)).
    cbn [N.to_nat skipn]. rewrite firstn_app_exact.
    assert (Ese : (if (length p =? 0)%nat then i else 2 ^ m - 1) = 2 ^ m - 1).
    { destruct (Nat.eqb_spec (length p) 0) as [E0|]; [|reflexivity].
      assert (E : m = 0) by lia. rewrite E in *. change (2 ^ 0) with 1 in *. lia. }
    rewrite Ese. destruct (N.eqb_spec (2 ^ m - 1) (n - 1)) as [|_]; [lia|].
    rewrite HL. destruct (N.leb_spec (m + 1) m) as [|_]; [lia|].
    rewrite <- El, nth_error_app2, Nat.sub_diag by lia. cbn [nth_error].
    rewrite skipn_all2 by (rewrite app_length; cbn [length]; lia). reflexivity.
  Qed.

  Lemma Vloop_right m n h p a i r : 2 ^ m <= i -> i < n -> n < 2 * 2 ^ m -> i - 2 ^ m < n - 2 ^ m ->
    Vloop h p (i - 2 ^ m) (n - 2 ^ m) = Some r ->
    Vloop h (p ++ [a]) i n = Some (node_sum a r).
  Proof.
    intros Hge Hi Hn2 Hi' E. pose proof (p2pos m) as Hk. unfold Vloopf in *.
    destruct (vloop fuel p (i - 2 ^ m) (n - 2 ^ m) h 0 (i - 2 ^ m)) as [[[s1 par] se]|] eqn:EL; [|discriminate].
    destruct (vloop_mono [a] _ _ _ _ _ _ _ _ EL ltac:(lia)) as [EL' Hpar]. cbn [fst snd] in Hpar.
    rewrite (vloop_shift (p ++ [a]) m i n Hge Hi Hn2 fuel 0 h (i - 2 ^ m) i ltac:(lia) ltac:(lia)).
    rewrite EL'.
    assert (Hskip : forall q, q <= lenN p -> skipn (N.to_nat q) (p ++ [a]) = skipn (N.to_nat q) p ++ [a]).
    { intros q Hq. rewrite skipn_app. replace (N.to_nat q - length p)%nat with 0%nat by (unfold lenN in Hq; lia). reflexivity. }
    destruct (N.eqb_spec se (n - 2 ^ m - 1)), (N.eqb_spec (se + 2 ^ m) (n - 1)); try lia.
    - injection E as <-. rewrite Hskip by exact Hpar. rewrite vtail_app. reflexivity.
    - destruct (N.leb_spec (lenN p) par) as [|Hl]; [discriminate|].
      destruct (N.leb_spec (lenN (p ++ [a])) par) as [Hl'|_]; [rewrite lenN_app' in Hl'; lia|].
      destruct (nth_error p (N.to_nat par)) as [pd|] eqn:En; [|discriminate].
      rewrite nth_error_app1 by (unfold lenN in Hl; lia). rewrite En.
      injection E as <-. rewrite Hskip by lia. rewrite vtail_app. reflexivity.
  Qed.

  (* the model's three phases compute the RFC recomputation whenever the latter is defined *)
  Lemma Vloop_correct : forall n, n < 2 ^ 64 -> forall h p i r, R h p i n = Some r -> Vloop h p i n = Some r.
  Proof.
    intros n. induction n as [n IH] using (well_founded_induction N.lt_wf_0). intros Hb h p i r H.
    pose proof (R_some_lt _ _ _ _ _ H) as Hi.
    destruct (N.eq_dec n (2 ^ N.log2 n)) as [Epow|Hnp].
    - (* perfect tree *)
      set (t := N.log2 n) in *. assert (Ht : t <= 63) by (apply (log2_le_63 t n); lia).
      assert (Et : N.of_nat (N.to_nat t) = t) by apply N2Nat.id.
      rewrite Epow in H, Hi |- *. rewrite <- Et in H at 1. rewrite R_perfect in H by (rewrite Et; lia).
      destruct (Nat.eqb_spec (length p) (N.to_nat t)) as [El|]; [|discriminate]. injection H as <-.
      apply Vloop_perfect; assumption.
    - assert (H2 : 2 <= n).
      { destruct (N.eq_dec n 0) as [->|]; [lia|]. destruct (N.eq_dec n 1) as [->|]; [|lia]. exfalso. apply Hnp. reflexivity. }
      pose proof (splitN_spec n H2) as Hk.
      assert (Hn2 : n <> 2 * 2 ^ N.log2 (n - 1)).
      { intros E. apply Hnp. rewrite E at 2. rewrite <- p2S, N.log2_pow2 by lia. rewrite p2S. exact E. }
      destruct (list_last_case p) as [->|[p' [a ->]]]; [rewrite R_nil in H by exact H2; discriminate|].
      rewrite R_unfold in H by exact H2. cbn zeta in H.
      set (m := N.log2 (n - 1)) in *. pose proof (p2pos m) as Hk0.
      assert (Hm : m <= 63) by (apply (log2_le_63 m n); lia).
      destruct (N.ltb_spec i (2 ^ m)) as [Hlt|Hge].
      + (* left subtree: perfect of size 2^m, then one right sibling *)
        destruct (R h p' i (2 ^ m)) as [r'|] eqn:E; [|discriminate]. injection H as <-.
        assert (Et : N.of_nat (N.to_nat m) = m) by apply N2Nat.id.
        rewrite <- Et in E at 1. rewrite R_perfect in E by (rewrite Et; lia).
        destruct (Nat.eqb_spec (length p') (N.to_nat m)) as [El|]; [|discriminate]. injection E as <-.
        apply (Vloop_left m); try assumption; lia.
      + (* right subtree: same loop shifted by k, then the left sibling at the very end *)
        destruct (R h p' (i - 2 ^ m) (n - 2 ^ m)) as [r'|] eqn:E; [|discriminate]. injection H as <-.
        pose proof (R_some_lt _ _ _ _ _ E) as Hi'.
        apply IH in E; [|lia|lia].
        apply (Vloop_right m); try assumption; lia.
  Qed.
  End Fuel.

  (* ---------------------------------------------------------------- path_length_from_key *)
  Lemma plfk_S f key n :
    path_length_from_key (S f) key n =
      if n =? 0 then None
      else
        let path_length := if is_pow2 n then ilog2 n else ilog2 n + 1 in
        match checked_sub path_length 1 with
        | None => None
        | Some pl1 =>
            match checked_sub key (2 ^ pl1) with
            | None => Some path_length
            | Some subtree_key =>
                if (2 ^ pl1 =? 1) || (n - 2 ^ pl1 <=? 1) then Some 1
                else do r <- path_length_from_key f subtree_key (n - 2 ^ pl1); Some (r + 1)
            end
        end.
  Proof. reflexivity. Qed.

  Lemma pl_eq n : 2 <= n -> (if is_pow2 n then ilog2 n else ilog2 n + 1) = N.log2 (n - 1) + 1.
  Proof.
    intros H. unfold is_pow2, ilog2. destruct (N.ltb_spec 0 n) as [Hp|]; [|lia]. cbn [andb].
    pose proof (N.log2_spec n Hp) as [Hlo Hhi]. set (t := N.log2 n) in *.
    destruct (N.eqb_spec (2 ^ t) n) as [E|Hne].
    - assert (Ht : t <> 0) by (intros E0; rewrite E0 in E; change (2 ^ 0) with 1 in E; lia).
      replace t with (t - 1 + 1) in E by lia. rewrite p2S in E. rewrite <- E, log2_pred_pow2. lia.
    - f_equal. symmetry. apply N.log2_unique; [lia|]. lia.
  Qed.

  Lemma opt_map_some {A B} (o : option A) (f : A -> B) :
    match o with Some r => Some (f r) | None => None end <> None <-> o <> None.
  Proof. destruct o; split; congruence. Qed.

  (* the length accepted by verify is exactly the length for which the RFC recomputation is defined *)
  Lemma plfk_spec : forall (fuel : nat) n i, 2 <= n -> n < 2 ^ N.of_nat fuel -> i < n ->
    exists l, path_length_from_key fuel i n = Some l /\
              forall h p, R h p i n <> None <-> lenN p = l.
  Proof.
    induction fuel as [|f IH]; intros n i H2 Hb Hi.
    { change (2 ^ N.of_nat 0) with 1 in Hb. lia. }
    rewrite plfk_S. destruct (N.eqb_spec n 0) as [|_]; [lia|]. cbn zeta.
    rewrite pl_eq by exact H2. pose proof (splitN_spec n H2) as Hk.
    set (m := N.log2 (n - 1)) in *. pose proof (p2pos m) as Hk0.
    unfold checked_sub at 1. destruct (N.leb_spec 1 (m + 1)) as [_|]; [|lia].
    replace (m + 1 - 1) with m by lia.
    assert (HRu : forall h p a, R h (p ++ [a]) i n =
       if i <? 2 ^ m then match R h p i (2 ^ m) with Some r => Some (node_sum r a) | None => None end
       else match R h p (i - 2 ^ m) (n - 2 ^ m) with Some r => Some (node_sum a r) | None => None end).
    { intros h p a. rewrite R_unfold by exact H2. reflexivity. }
    unfold checked_sub. destruct (N.leb_spec (2 ^ m) i) as [Hge|Hlt].
    - destruct (N.ltb_spec i (2 ^ m)) as [|_]; [lia|].
      destruct ((2 ^ m =? 1) || (n - 2 ^ m <=? 1)) eqn:Eb.
      + assert (E1 : n - 2 ^ m = 1).
        { apply orb_true_iff in Eb. destruct Eb as [Eb|Eb]; [apply N.eqb_eq in Eb | apply N.leb_le in Eb]; lia. }
        exists 1. split; [reflexivity|]. intros h p.
        destruct (list_last_case p) as [->|[p' [a ->]]].
        * rewrite R_nil by exact H2. rewrite lenN_nil. split; [congruence | lia].
        * rewrite HRu, E1, R_one. destruct (N.eqb_spec (i - 2 ^ m) 0) as [_|]; [|lia].
          rewrite lenN_app'. change (lenN [a]) with 1.
          destruct p' as [|x p']; [split; [reflexivity | congruence]|].
          rewrite lenN_cons. split; [congruence | lia].
      + apply orb_false_iff in Eb. destruct Eb as [Eb1 Eb2]. apply N.leb_gt in Eb2.
        destruct (IH (n - 2 ^ m) (i - 2 ^ m)) as [l' [El' Hl']]; [lia | | lia |].
        { rewrite Nat2N.inj_succ, <- N.add_1_r, p2S in Hb. lia. }
        rewrite El'. cbn [opt_bind]. exists (l' + 1). split; [reflexivity|]. intros h p.
        destruct (list_last_case p) as [->|[p' [a ->]]].
        * rewrite R_nil by exact H2. rewrite lenN_nil. split; [congruence | lia].
        * rewrite HRu, opt_map_some, Hl', lenN_app'. change (lenN [a]) with 1. lia.
    - destruct (N.ltb_spec i (2 ^ m)) as [_|]; [|lia].
      exists (m + 1). split; [reflexivity|]. intros h p.
      destruct (list_last_case p) as [->|[p' [a ->]]].
      * rewrite R_nil by exact H2. rewrite lenN_nil. split; [congruence | lia].
      * rewrite HRu, opt_map_some, lenN_app'. change (lenN [a]) with 1.
        rewrite <- (N2Nat.id m) at 1. rewrite R_perfect by (rewrite N2Nat.id; exact Hlt).
        destruct (Nat.eqb_spec (length p') (N.to_nat m)); unfold lenN; split; try congruence; lia.
  Qed.

  (* ---------------------------------------------------------------- verify *)
  Lemma verify_unfold root data p i n :
    verify leaf_sum node_sum D_eqb root data p i n =
      if negb (if n <=? 1 then (match p with [] => true | _ => false end)
               else match path_length_from_key 70 i n with
                    | Some l => lenN p =? l
                    | None => false
                    end) then false
      else if n <=? i then false
      else match p with
           | [] => if n =? 1 then D_eqb root (leaf_sum data) else false
           | _ => match Vloopf 70 (leaf_sum data) p i n with Some s => D_eqb s root | None => false end
           end.
  Proof.
    unfold verify, Vloopf. generalize 70%nat. intros F.
    destruct (negb _); [reflexivity|]. destruct (n <=? i); [reflexivity|].
    destruct p as [|x p]; [reflexivity|].
    destruct (vloop F (x :: p) i n (leaf_sum data) 0 i) as [[[s1 par] se]|]; [|reflexivity].
    destruct (se =? n - 1); [reflexivity|].
    destruct (lenN (x :: p) <=? par); [reflexivity|].
    destruct (nth_error (x :: p) (N.to_nat par)); reflexivity.
  Qed.

  Theorem verify_iff root data p i n : n < 2 ^ 64 ->
    verify leaf_sum node_sum D_eqb root data p i n = true <-> R (leaf_sum data) p i n = Some root.
  Proof.
    intros Hb. rewrite verify_unfold.
    destruct (N.eq_dec n 0) as [->|H0].
    { rewrite R_zero. replace (0 <=? i) with true by (symmetry; apply N.leb_le; lia).
      destruct (negb _); split; discriminate. }
    destruct (N.eq_dec n 1) as [->|H1].
    { rewrite R_one. change (1 <=? 1) with true. cbv iota.
      destruct p as [|x p]; cbn [negb].
      - destruct (N.leb_spec 1 i), (N.eqb_spec i 0); try lia; [split; discriminate|].
        change (1 =? 1) with true. cbv iota. rewrite D_eqb_spec. split; congruence.
      - destruct (i =? 0); split; discriminate. }
    assert (H2 : 2 <= n) by lia.
    destruct (N.leb_spec n 1) as [|_]; [lia|].
    assert (Hf : n < 2 ^ N.of_nat 70).
    { apply N.lt_trans with (2 ^ 64); [exact Hb | reflexivity]. }
    split.
    - intros H.
      destruct (N.leb_spec n i) as [|Hi]; [destruct (negb _); discriminate|].
      destruct (plfk_spec 70 n i H2 Hf Hi) as [l [El Hl]]. rewrite El in H.
      destruct (N.eqb_spec (lenN p) l) as [Elen|]; [|discriminate]. cbn [negb] in H.
      destruct (R (leaf_sum data) p i n) as [r|] eqn:ER; [|apply (Hl (leaf_sum data) p) in Elen; congruence].
      destruct p as [|x p]; [rewrite R_nil in ER by exact H2; discriminate|].
      rewrite (Vloop_correct 70 ltac:(lia) n Hb _ _ _ _ ER) in H. apply D_eqb_spec in H. congruence.
    - intros ER. pose proof (R_some_lt _ _ _ _ _ ER) as Hi.
      destruct (plfk_spec 70 n i H2 Hf Hi) as [l [El Hl]]. rewrite El.
      assert (Elen : lenN p = l) by (apply (Hl (leaf_sum data)); congruence).
      destruct (N.eqb_spec (lenN p) l) as [_|]; [|contradiction]. cbn [negb].
      destruct (N.leb_spec n i) as [|_]; [lia|].
      destruct p as [|x p]; [rewrite R_nil in ER by exact H2; discriminate|].
      rewrite (Vloop_correct 70 ltac:(lia) n Hb _ _ _ _ ER). apply D_eqb_spec. reflexivity.
  Qed.
End Verify.

(* ------------------------------------------------------------------ RFC-level soundness:
   with an injective node hash, a tuple whose recomputation reaches the tree hash of `ls` (for the
   tree size |ls|) carries the hash of the leaf at that index and exactly the RFC audit path. *)
Section Sound.
  Context {L D : Type}.
  Variables (lf : L -> D) (node_sum : D -> D -> D) (empty_sum : D).
  Hypothesis node_inj : forall a b c d, node_sum a b = node_sum c d -> a = c /\ b = d.
  Notation MTH := (MTH lf node_sum empty_sum).
  Notation PATH := (PATH lf node_sum empty_sum).
  Notation root_from_path := (root_from_path node_sum).
  Open Scope nat_scope.

  Lemma rfp_sound : forall (n : nat) (ls : list L) h p i,
    length ls = n -> root_from_path h p i n = Some (MTH ls) ->
    exists d, nth_error ls i = Some d /\ h = lf d /\ p = PATH i ls.
  Proof.
    induction n as [n IH] using lt_wf_ind. intros ls h p i Hn H.
    destruct (Nat.eq_dec n 0) as [->|H0]; [discriminate H|].
    destruct (Nat.eq_dec n 1) as [->|H1].
    { destruct ls as [|x [|y r]]; cbn [length] in Hn; try lia.
      unfold root_from_path in H. cbn [rfp_f Nat.eqb] in H.
      destruct (Nat.eqb_spec i 0) as [->|]; [|discriminate]. destruct p; [|discriminate].
      injection H as ->. exists x. repeat split. }
    assert (H2 : 2 <= n) by lia.
    destruct (list_last_case p) as [->|[p' [a ->]]]; [rewrite rfp_nil_inv in H by exact H2; discriminate|].
    rewrite rfp_unfold in H by exact H2. cbn zeta in H.
    rewrite (MTH_split lf node_sum empty_sum ls) in H by lia.
    rewrite (PATH_unfold lf node_sum empty_sum i ls) by lia. cbn zeta. rewrite Hn in *.
    set (k := split_k n) in *.
    assert (Hk : k < n) by (apply split_k_lt; lia).
    assert (Hk0 : 0 < k) by apply split_k_pos.
    destruct (Nat.ltb_spec i k) as [Hik|Hik].
    - destruct (root_from_path h p' i k) as [r'|] eqn:E; [|discriminate].
      injection H as H. apply node_inj in H. destruct H as [-> ->].
      destruct (IH k Hk (firstn k ls) h p' i) as [d [Hd [Hh Hp]]]; [rewrite firstn_length; lia | exact E |].
      exists d. rewrite nth_error_firstn' in Hd by exact Hik. rewrite Hp. repeat split; assumption.
    - destruct (root_from_path h p' (i - k) (n - k)) as [r'|] eqn:E; [|discriminate].
      injection H as H. apply node_inj in H. destruct H as [-> ->].
      destruct (IH (n - k) ltac:(lia) (skipn k ls) h p' (i - k)) as [d [Hd [Hh Hp]]]; [rewrite skipn_length; lia | exact E |].
      exists d. rewrite nth_error_skipn' in Hd. replace (k + (i - k)) with i in Hd by lia.
      rewrite Hp. repeat split; assumption.
  Qed.
End Sound.

Section Corollaries.
  Context {D : Type}.
  Variables (leaf_sum : bytes -> D) (node_sum : D -> D -> D) (empty_sum : D).
  Variable D_eqb : D -> D -> bool.
  Hypothesis D_eqb_spec : forall x y, D_eqb x y = true <-> x = y.
  Notation MTH := (MTH leaf_sum node_sum empty_sum).
  Notation PATH := (PATH leaf_sum node_sum empty_sum).

  (* completeness: the verifier accepts the RFC audit path of every leaf of every tree *)
  Theorem verify_complete (ls : list bytes) (i : N) (d : bytes) :
    lenN ls < 2 ^ 64 -> nth_error ls (N.to_nat i) = Some d ->
    verify leaf_sum node_sum D_eqb (MTH ls) d (PATH (N.to_nat i) ls) i (lenN ls) = true.
  Proof.
    intros Hb Hd. apply (verify_iff leaf_sum node_sum D_eqb D_eqb_spec); [exact Hb|].
    unfold R, lenN. rewrite Nat2N.id.
    apply (path_recomputes_root leaf_sum node_sum empty_sum (length ls)); [reflexivity | | exact Hd].
    apply nth_error_Some. congruence.
  Qed.

  (* soundness: an accepted tuple recomputes the root ... *)
  Theorem verify_sound_rfc root data p i n : n < 2 ^ 64 ->
    verify leaf_sum node_sum D_eqb root data p i n = true ->
    root_from_path node_sum (leaf_sum data) p (N.to_nat i) (N.to_nat n) = Some root.
  Proof. intros Hb H. apply (verify_iff leaf_sum node_sum D_eqb D_eqb_spec) in H; assumption. Qed.

  (* ... and, when the node hash is injective (collision-freeness as an explicit premise), an
     accepted tuple against the tree hash of `ls` proves membership of a leaf with that hash at
     that index, and the proof is the RFC audit path *)
  Theorem verify_sound (ls : list bytes) data p i :
    (forall a b c d, node_sum a b = node_sum c d -> a = c /\ b = d) ->
    lenN ls < 2 ^ 64 ->
    verify leaf_sum node_sum D_eqb (MTH ls) data p i (lenN ls) = true ->
    exists d, nth_error ls (N.to_nat i) = Some d /\ leaf_sum data = leaf_sum d /\ p = PATH (N.to_nat i) ls.
  Proof.
    intros Hinj Hb H. apply verify_sound_rfc in H; [|exact Hb].
    unfold lenN in H. rewrite Nat2N.id in H.
    exact (rfp_sound leaf_sum node_sum empty_sum Hinj (length ls) ls _ _ _ eq_refl H).
  Qed.
End Corollaries.
