(* Merkle/RFCFacts.v — facts about the L3 definitions themselves: fuel independence, and the
   audit path of RFC 6962 recomputes the tree hash (the spec is self-consistent). *)
From FV Require Import Base.Bytes Merkle.RFC6962.
From Coq Require Import Arith PeanoNat.
Open Scope nat_scope.

Section Facts.
  Context {L D : Type}.
  Variables (lf : L -> D) (node_sum : D -> D -> D) (empty_sum : D).
  Notation MTH := (MTH lf node_sum empty_sum).
  Notation PATH := (PATH lf node_sum empty_sum).
  Notation path_f := (path_f lf node_sum empty_sum).
  Notation rfp_f := (rfp_f node_sum).
  Notation root_from_path := (root_from_path node_sum).

  Lemma nth_error_firstn' {A} : forall (l : list A) k i, i < k -> nth_error (firstn k l) i = nth_error l i.
  Proof.
    induction l as [|x l IH]; intros k i H; [rewrite firstn_nil; reflexivity|].
    destruct k; [lia|]. destruct i; [reflexivity|]. cbn [firstn nth_error]. apply IH. lia.
  Qed.
  Lemma nth_error_skipn' {A} : forall (l : list A) k i, nth_error (skipn k l) i = nth_error l (k + i).
  Proof.
    induction l as [|x l IH]; intros k i; [rewrite skipn_nil; destruct i, k; reflexivity|].
    destruct k; [reflexivity|]. cbn [skipn Nat.add nth_error]. apply IH.
  Qed.

  Lemma path_f_fuel : forall f1 f2 m l, length l <= f1 -> length l <= f2 -> path_f f1 m l = path_f f2 m l.
  Proof.
    induction f1 as [|f1 IH]; intros f2 m l H1 H2.
    - destruct l; [|cbn [length] in H1; lia]. destruct f2; reflexivity.
    - destruct f2 as [|f2].
      + destruct l; [reflexivity | cbn [length] in H2; lia].
      + cbn [path_f]. destruct (Nat.leb_spec (length l) 1) as [|Hl]; [reflexivity|].
        set (k := split_k (length l)).
        assert (Hk : k < length l) by (apply split_k_lt; lia).
        assert (Hk0 : 0 < k) by apply split_k_pos.
        destruct (m <? k); f_equal; apply IH; rewrite ?firstn_length, ?skipn_length; lia.
  Qed.

  Lemma PATH_unfold m l : 2 <= length l ->
    PATH m l = let k := split_k (length l) in
               if m <? k then PATH m (firstn k l) ++ [MTH (skipn k l)]
               else PATH (m - k) (skipn k l) ++ [MTH (firstn k l)].
  Proof.
    intros H. unfold PATH at 1. destruct (length l) as [|n] eqn:E; [lia|].
    cbn [path_f]. rewrite E. destruct (Nat.leb_spec (S n) 1) as [|_]; [lia|].
    cbn zeta. set (k := split_k (S n)).
    assert (Hk : k < S n) by (apply split_k_lt; lia).
    assert (Hk0 : 0 < k) by apply split_k_pos.
    destruct (m <? k); f_equal; apply path_f_fuel; rewrite ?firstn_length, ?skipn_length; lia.
  Qed.

  Lemma PATH_small m l : length l <= 1 -> PATH m l = [].
  Proof.
    intros H. unfold PATH. destruct (length l) as [|n] eqn:E; [reflexivity|].
    cbn [path_f]. rewrite E. destruct (Nat.leb_spec (S n) 1); [reflexivity | lia].
  Qed.

  Lemma rfp_f_fuel : forall f1 f2 h p i n, n <= f1 -> n <= f2 -> 1 <= f1 -> 1 <= f2 ->
    rfp_f f1 h p i n = rfp_f f2 h p i n.
  Proof.
    induction f1 as [|f1 IH]; intros f2 h p i n H1 H2 G1 G2; [lia|].
    destruct f2 as [|f2]; [lia|]. cbn [rfp_f].
    destruct (Nat.eqb_spec n 0); [reflexivity|]. destruct (Nat.eqb_spec n 1); [reflexivity|].
    set (k := split_k n).
    assert (Hk : k < n) by (apply split_k_lt; lia).
    assert (Hk0 : 0 < k) by apply split_k_pos.
    destruct (rev p) as [|last rp]; [reflexivity|].
    destruct (i <? k).
    - rewrite (IH f2 h (rev rp) i k); [reflexivity | lia | lia | lia | lia].
    - rewrite (IH f2 h (rev rp) (i - k) (n - k)); [reflexivity | lia | lia | lia | lia].
  Qed.

  Lemma rfp_unfold h p last i n : 2 <= n ->
    root_from_path h (p ++ [last]) i n =
      let k := split_k n in
      if i <? k then match root_from_path h p i k with Some r => Some (node_sum r last) | None => None end
      else match root_from_path h p (i - k) (n - k) with Some r => Some (node_sum last r) | None => None end.
  Proof.
    intros H. unfold root_from_path at 1. cbn [rfp_f].
    destruct (Nat.eqb_spec n 0); [lia|]. destruct (Nat.eqb_spec n 1); [lia|].
    rewrite rev_app_distr. cbn [rev app]. rewrite rev_involutive. cbn zeta.
    set (k := split_k n).
    assert (Hk : k < n) by (apply split_k_lt; lia).
    assert (Hk0 : 0 < k) by apply split_k_pos.
    unfold root_from_path.
    destruct (i <? k).
    - rewrite (rfp_f_fuel n (S k)); [reflexivity | lia | lia | lia | lia].
    - rewrite (rfp_f_fuel n (S (n - k))); [reflexivity | lia | lia | lia | lia].
  Qed.

  Lemma rfp_nil_inv h i n : 2 <= n -> root_from_path h [] i n = None.
  Proof.
    intros H. unfold root_from_path. cbn [rfp_f].
    destruct (Nat.eqb_spec n 0); [lia|]. destruct (Nat.eqb_spec n 1); [lia|]. reflexivity.
  Qed.

  (* the RFC audit path recomputes the tree hash *)
  Theorem path_recomputes_root : forall (n : nat) (ls : list L) (i : nat) (d : L),
    length ls = n -> i < n -> nth_error ls i = Some d ->
    root_from_path (lf d) (PATH i ls) i n = Some (MTH ls).
  Proof.
    induction n as [n IH] using lt_wf_ind. intros ls i d Hn Hi Hd.
    destruct (Nat.le_gt_cases n 1) as [Hsmall|Hbig].
    - assert (E1 : n = 1) by lia. assert (E0 : i = 0) by lia. subst i.
      destruct ls as [|x [|y r]]; cbn [length] in Hn; try lia.
      cbn in Hd. injection Hd as ->. rewrite PATH_small by (cbn; lia). rewrite E1. reflexivity.
    - rewrite PATH_unfold by lia. cbn zeta. rewrite Hn. set (k := split_k n).
      assert (Hk : k < n) by (apply split_k_lt; lia).
      assert (Hk0 : 0 < k) by apply split_k_pos.
      rewrite (MTH_split lf node_sum empty_sum ls) by lia. rewrite Hn. fold k.
      destruct (Nat.ltb_spec i k) as [Hik|Hik].
      + rewrite rfp_unfold by lia. cbn zeta. fold k.
        destruct (Nat.ltb_spec i k) as [_|]; [|lia].
        rewrite (IH k Hk (firstn k ls) i d); [reflexivity | rewrite firstn_length; lia | exact Hik |].
        rewrite nth_error_firstn' by exact Hik. exact Hd.
      + rewrite rfp_unfold by lia. cbn zeta. fold k.
        destruct (Nat.ltb_spec i k) as [|_]; [lia|].
        rewrite (IH (n - k) ltac:(lia) (skipn k ls) (i - k) d); [reflexivity | rewrite skipn_length; lia | lia |].
        rewrite nth_error_skipn'. replace (k + (i - k)) with i by lia. exact Hd.
  Qed.
End Facts.
