(* Merkle/SparseRefine.v — L1 (SparseModel.v) against L2/L3 (SparseFun.v / SparseSpec.v).

   The L1 model is parametric in the digest type [Dg] and in the key operations
   [kbit]/[kcpl]; here they are tied to bit lists by an explicit interface:
     bits : Dg -> key                the 256 key bits of a digest used as a key (MSB first)
     of_bits : key -> Dg             its inverse on keys
   with [kbit k i = nth_error (bits k) i] (get_bit_at_index_from_msb).  Run/Smt.v tests the
   concrete msb.rs functions against this interface on every run; SparseMsb.v proves it for
   the byte-level definitions. *)
From FV Require Import Base.Bytes Merkle.SparseSpec Merkle.SparseFun Merkle.SparseModel Merkle.SparseProofs.
Open Scope N_scope.

Section VerifyRefine.
  Context {Dg : Type}.
  Variable dg_eqb : Dg -> Dg -> bool.
  Variable zero : Dg.
  Variable hleaf : Dg -> Dg -> Dg.
  Variable hnode : Dg -> Dg -> Dg.
  Variable sum : bytes -> Dg.
  Variable kbit : Dg -> N -> option bool.
  Variable bits : Dg -> key.
  Variable of_bits : key -> Dg.

  Hypothesis dg_eqb_spec : forall a b, dg_eqb a b = true <-> a = b.
  Hypothesis kbit_spec : forall k i, kbit k i = nth_error (bits k) (N.to_nat i).
  Hypothesis of_bits_bits : forall k, of_bits (bits k) = k.

  (* the spec-level leaf hash induced by the L1 one *)
  Definition shleaf (ks : key) (v : Dg) : Dg := hleaf (of_bits ks) v.

  Definition xl (l : @exclusion_leaf Dg) : @xleaf Dg :=
    match l with ExLeaf k v => XLeaf (bits k) v | ExPlaceholder => XPlaceholder end.

  Lemma bits_inj a b : bits a = bits b -> a = b.
  Proof. intros H. rewrite <- (of_bits_bits a), <- (of_bits_bits b), H. reflexivity. Qed.

  Lemma path_root_snoc : forall sides ks s cur b,
    nth_error ks (length sides) = Some b ->
    path_root hnode ks (sides ++ [s]) cur = path_root hnode ks sides (if b then hnode s cur else hnode cur s).
  Proof.
    induction sides as [|s0 sides IH]; intros ks s cur b Hn.
    - destruct ks as [|b0 ks]; [discriminate|]. simpl in Hn. injection Hn as ->. reflexivity.
    - destruct ks as [|b0 ks]; [discriminate|]. simpl in Hn. cbn [app path_root].
      rewrite (IH ks s cur b Hn). reflexivity.
  Qed.

  Lemma path_root_none : forall sides ks cur,
    (length ks < length sides)%nat -> path_root hnode ks sides cur = None.
  Proof.
    induction sides as [|s sides IH]; intros ks cur H; simpl in H; [lia|].
    destruct ks as [|b ks]; [reflexivity|]. simpl in H. cbn [path_root]. rewrite IH by lia. reflexivity.
  Qed.

  Lemma path_root_some : forall sides ks cur,
    (length sides <= length ks)%nat -> exists x, path_root hnode ks sides cur = Some x.
  Proof.
    induction sides as [|s sides IH]; intros ks cur H; [eexists; reflexivity|].
    destruct ks as [|b ks]; simpl in H; [lia|]. cbn [path_root].
    destruct (IH ks cur) as [x ->]; [lia|]. eexists; reflexivity.
  Qed.

  (* the verifier's loop (leaf-to-root, index = len-1-i) is the top-down recomputation *)
  Lemma verify_loop_path_root key : forall ps cur,
    (length ps <= length (bits key))%nat ->
    verify_loop hnode kbit key ps cur = path_root hnode (bits key) (rev ps) cur.
  Proof.
    induction ps as [|s ps IH]; intros cur H.
    - reflexivity.
    - simpl in H. cbn [verify_loop rev]. rewrite kbit_spec. unfold lenN. rewrite Nat2N.id.
      destruct (nth_error (bits key) (length ps)) as [b|] eqn:Eb.
      + rewrite (path_root_snoc (rev ps) (bits key) s cur b) by (rewrite rev_length; exact Eb).
        destruct b; apply IH; lia.
      + apply nth_error_None in Eb. lia.
  Qed.

  Theorem inclusion_verify_spec ps root key value :
    length (bits key) = 256%nat ->
    exists b, inclusion_verify dg_eqb hleaf hnode sum kbit ps root key value = Some b /\
              (b = true <-> spec_verify_incl shleaf hnode root (bits key) (sum value) ps).
  Proof.
    intros Hk. unfold inclusion_verify, spec_verify_incl, shleaf. rewrite of_bits_bits.
    destruct (256 <? lenN ps) eqn:El.
    - exists false. split; [reflexivity|]. split; [discriminate|]. intros H.
      apply N.ltb_lt in El. unfold lenN in El.
      rewrite path_root_none in H; [discriminate|]. rewrite rev_length. lia.
    - apply N.ltb_ge in El. unfold lenN in El.
      rewrite verify_loop_path_root by lia.
      destruct (path_root_some (rev ps) (bits key) (hleaf key (sum value))) as [x Ex]; [rewrite rev_length; lia|].
      rewrite Ex. exists (dg_eqb x root). split; [reflexivity|]. rewrite dg_eqb_spec.
      split; [intros ->; reflexivity | intros H; injection H; auto].
  Qed.

  Theorem exclusion_verify_spec ps leaf root key :
    length (bits key) = 256%nat ->
    exists b, exclusion_verify dg_eqb zero hleaf hnode kbit ps leaf root key = Some b /\
              (b = true <-> spec_verify_excl zero shleaf hnode root (bits key) ps (xl leaf)).
  Proof.
    intros Hk. unfold exclusion_verify, spec_verify_excl.
    assert (xleaf_hash zero shleaf (xl leaf) = exclusion_leaf_hash zero hleaf leaf) as Eh.
    { destruct leaf; simpl; [unfold shleaf; rewrite of_bits_bits|]; reflexivity. }
    rewrite Eh.
    destruct (match leaf with ExLeaf k _ => dg_eqb k key | ExPlaceholder => false end) eqn:Ek.
    - exists false. split; [reflexivity|]. split; [discriminate|]. intros [H _].
      destruct leaf as [k v|]; [|discriminate]. apply dg_eqb_spec in Ek. subst. simpl in H. contradiction.
    - assert (match xl leaf with XLeaf k' _ => k' <> bits key | XPlaceholder => True end) as Hl.
      { destruct leaf as [k v|]; simpl; [|exact I]. intros H. apply bits_inj in H.
        apply dg_eqb_spec in H. congruence. }
      destruct (256 <? lenN ps) eqn:El.
      + exists false. split; [reflexivity|]. split; [discriminate|]. intros [_ H].
        apply N.ltb_lt in El. unfold lenN in El.
        rewrite path_root_none in H; [discriminate|]. rewrite rev_length. lia.
      + apply N.ltb_ge in El. unfold lenN in El.
        rewrite verify_loop_path_root by lia.
        destruct (path_root_some (rev ps) (bits key) (exclusion_leaf_hash zero hleaf leaf)) as [x Ex]; [rewrite rev_length; lia|].
        rewrite Ex. exists (dg_eqb x root). split; [reflexivity|]. rewrite dg_eqb_spec.
        split; [intros ->; split; [exact Hl | reflexivity] | intros [_ H]; injection H; auto].
  Qed.

  (* ---- accepted proofs prove (non-)membership in ANY map with that root, under collision-freeness *)
  Theorem inclusion_verify_sound (m : @smap Dg) ps key value :
    hash_ok zero shleaf hnode -> wf_map 256 m -> length (bits key) = 256%nat ->
    inclusion_verify dg_eqb hleaf hnode sum kbit ps (smt_root zero shleaf hnode 256 m) key value = Some true ->
    m_get m (bits key) = Some (sum value).
  Proof.
    intros Hok Hwf Hk Hv.
    destruct (inclusion_verify_spec ps (smt_root zero shleaf hnode 256 m) key value Hk) as [b [E Hb]].
    rewrite E in Hv. injection Hv as ->.
    eapply spec_incl_sound; eauto. apply Hb. reflexivity.
  Qed.

  Theorem exclusion_verify_sound (m : @smap Dg) ps leaf key :
    hash_ok zero shleaf hnode -> wf_map 256 m -> length (bits key) = 256%nat ->
    exclusion_verify dg_eqb zero hleaf hnode kbit ps leaf (smt_root zero shleaf hnode 256 m) key = Some true ->
    m_get m (bits key) = None.
  Proof.
    intros Hok Hwf Hk Hv.
    destruct (exclusion_verify_spec ps leaf (smt_root zero shleaf hnode 256 m) key Hk) as [b [E Hb]].
    rewrite E in Hv. injection Hv as ->.
    eapply spec_excl_sound; eauto. apply Hb. reflexivity.
  Qed.
End VerifyRefine.

(* ---------------------------------------------------------------- C13: load at the empty / a missing root *)
Section LoadFacts.
  Context {Dg : Type}.
  Variable dg_eqb : Dg -> Dg -> bool.
  Variable zero : Dg.
  Variable hleaf : Dg -> Dg -> Dg.
  Variable hnode : Dg -> Dg -> Dg.
  Hypothesis dg_eqb_spec : forall a b, dg_eqb a b = true <-> a = b.

  Lemma dg_eqb_refl a : dg_eqb a a = true.
  Proof. apply dg_eqb_spec. reflexivity. Qed.
  Lemma dg_eqb_false a b : a <> b -> dg_eqb a b = false.
  Proof. intros H. destruct (dg_eqb a b) eqn:E; [apply dg_eqb_spec in E; contradiction | reflexivity]. Qed.

  Theorem load_empty_root (st : @store Dg) :
    tree_load dg_eqb zero hleaf hnode st zero = Ok (tree_new st)
    /\ tree_root zero (tree_new st) = zero.
  Proof. unfold tree_load. rewrite dg_eqb_refl. split; reflexivity. Qed.

  Theorem load_missing_root (st : @store Dg) root :
    root <> zero -> sget dg_eqb st root = None ->
    tree_load dg_eqb zero hleaf hnode st root = Err ELoadError.
  Proof. intros Hz Hg. unfold tree_load. rewrite dg_eqb_false by exact Hz. rewrite Hg. reflexivity. Qed.
End LoadFacts.
