(* Merkle/SparseInsert.v — MerkleTree::insert (path_set + update_with_path_set) of the L1
   model refines c_insert of the functional tree and preserves the storage invariant. *)
From Coq Require Import Arith.
From FV Require Import Base.Bytes Merkle.SparseSpec Merkle.SparseFun Merkle.SparseModel
  Merkle.SparseProofs Merkle.SparseRefine Merkle.SparseTree Merkle.SparseExt.
Open Scope N_scope.

Section Insert.
  Context {Dg : Type} (IF : smt_iface Dg).
  Notation dg_eqb := (i_eqb IF).
  Notation zero := (i_zero IF).
  Notation hleaf := (i_hleaf IF).
  Notation hnode := (i_hnode IF).
  Notation sum := (i_sum IF).
  Notation kbit := (i_kbit IF).
  Notation kcpl := (i_kcpl IF).
  Notation bits := (i_bits IF).
  Notation of_bits := (i_of_bits IF).
  Let dg_eqb_spec := i_eqb_spec IF.
  Let kbit_spec := i_kbit_spec IF.
  Let kcpl_spec := i_kcpl_spec IF.
  Let of_bits_bits := i_of_bits_bits IF.
  Let bits_of_bits := i_bits_of_bits IF.
  Let Hok := i_hash_ok IF.
  Notation shleaf := (shleaf hleaf of_bits).
  Notation root := (c_root zero shleaf hnode).
  Notation ctree := (@ctree Dg).
  Notation node := (@node Dg).
  Notation store := (@store Dg).
  Notation sget := (sget dg_eqb).
  Notation sset := (sset dg_eqb).
  Notation sdel := (sdel dg_eqb).
  Notation node_hash := (node_hash zero).
  Notation prim_of_node := (prim_of_node zero).
  Notation node_of := (node_of IF).
  Notation stored := (stored IF).
  Notation store_node := (store_node dg_eqb zero).
  Notation levels := (levels IF).
  Notation path_nodes_td := (path_nodes_td IF).
  Notation tree_of := (tree_of IF).
  Notation has_dg := (has_dg IF).
  Notation at_ext := (at_ext IF).
  Notation new_parent := (new_parent dg_eqb zero hnode).
  Notation create_node_on_path := (create_node_on_path zero hnode kbit kcpl).
  Notation placeholder_loop := (placeholder_loop dg_eqb zero hnode kbit kcpl).
  Notation create_leaf := (create_leaf hleaf sum).

  (* ---------------------------------------------------------------- replacing the terminal subtree *)
  Fixpoint plug (ks : key) (t nt : ctree) {struct t} : ctree :=
    match t, ks with
    | CN l r, true :: ks' => CN l (plug ks' r nt)
    | CN l r, false :: ks' => CN (plug ks' l nt) r
    | _, _ => nt
    end.

  Lemma c_insert_plug v : forall (t : ctree) ks d, cwf d t -> length ks = d ->
    c_insert ks v t = plug ks t (c_insert (term_ks ks t) v (term_t ks t)).
  Proof.
    induction t as [|k0 v0|l IHl r IHr]; intros ks d Hc Hk; try reflexivity.
    destruct d; [destruct Hc|]. destruct ks as [|b ks]; [discriminate|]. injection Hk as Hk.
    destruct b; cbn [c_insert plug term_ks term_t pick]; f_equal; [eapply IHr | eapply IHl]; eauto; apply Hc.
  Qed.

  Lemma plug_term_id : forall (t : ctree) ks, plug ks t (term_t ks t) = t.
  Proof.
    induction t as [|k0 v0|l IHl r IHr]; intros ks; try reflexivity.
    destruct ks as [|b ks]; [reflexivity|]. destruct b; cbn [plug term_t pick]; f_equal; auto.
  Qed.

  Lemma plug_not_CE : forall (t : ctree) ks nt, nt <> CE -> plug ks t nt <> CE.
  Proof. intros t ks nt H. destruct t; try exact H. destruct ks as [|[|] ks]; try exact H; discriminate. Qed.

  Lemma mk_node_CN_l (a b r : ctree) : mk_node (CN a b) r = CN (CN a b) r.
  Proof. destruct r; reflexivity. Qed.
  Lemma mk_node_CN_r (l a b : ctree) : mk_node l (CN a b) = CN l (CN a b).
  Proof. destruct l; reflexivity. Qed.
  Lemma mk_node_CL_l k v (r : ctree) : r <> CE -> mk_node (CL k v) r = CN (CL k v) r.
  Proof. destruct r; intros H; [contradiction | reflexivity | reflexivity]. Qed.
  Lemma mk_node_CL_r k v (l : ctree) : l <> CE -> mk_node l (CL k v) = CN l (CL k v).
  Proof. destruct l; intros H; [contradiction | reflexivity | reflexivity]. Qed.

  Lemma cwf_plug nt : nt <> CE -> forall (t : ctree) ks d, cwf d t -> length ks = d ->
    cwf (length (term_ks ks t)) nt -> cwf d (plug ks t nt).
  Proof.
    intros Hn. induction t as [|k0 v0|l IHl r IHr]; intros ks d Hc Hk Hnt.
    - simpl in *. congruence.
    - simpl in *. congruence.
    - destruct d; [destruct Hc|]. destruct ks as [|b ks]; [discriminate|]. injection Hk as Hk.
      destruct Hc as [Hl [Hr Hm]].
      destruct b; cbn [plug term_ks pick] in *; cbn [cwf].
      + split; [exact Hl|]. split; [eapply IHr; eauto|].
        destruct l as [|kl vl|la lb].
        * destruct r as [|kr vr|ra rb]; try discriminate.
          destruct d; [destruct Hr|]. destruct ks as [|b2 ks]; [discriminate|].
          destruct b2; cbn [plug]; apply mk_node_CN_r.
        * apply mk_node_CL_l. apply plug_not_CE. exact Hn.
        * apply mk_node_CN_l.
      + split; [eapply IHl; eauto|]. split; [exact Hr|].
        destruct r as [|kr vr|ra rb].
        * destruct l as [|kl vl|la lb]; try discriminate.
          destruct d; [destruct Hl|]. destruct ks as [|b2 ks]; [discriminate|].
          destruct b2; cbn [plug]; apply mk_node_CN_l.
        * apply mk_node_CL_r. apply plug_not_CE. exact Hn.
        * apply mk_node_CN_r.
  Qed.

  Lemma root_plug_changed nt : forall (t : ctree) pre ks,
    root (term_pre pre ks t) nt <> root (term_pre pre ks t) (term_t ks t) ->
    root pre (plug ks t nt) <> root pre t.
  Proof.
    destruct Hok as [_ [Hni _]].
    induction t as [|k0 v0|l IHl r IHr]; intros pre ks H; try exact H.
    destruct ks as [|b ks]; [exact H|].
    destruct b; cbn [plug term_pre term_t pick c_root] in *; intros E; apply Hni in E as [E1 E2].
    - eapply IHr; eauto.
    - eapply IHl; eauto.
  Qed.

  (* ---------------------------------------------------------------- frames *)
  Definition frame (P : key) (st st' : store) : Prop :=
    forall h, h <> zero -> (forall q, ~ at_ext h (P ++ q)) -> sget st' h = sget st h.

  Lemma frame_refl P st : frame P st st.
  Proof. intros h _ _. reflexivity. Qed.

  Lemma has_dg_nonzero : forall (t : ctree) pre h, has_dg pre t h -> h <> zero.
  Proof.
    induction t as [|k v|l IHl r IHr]; intros pre h Hh.
    - destruct Hh.
    - cbn [SparseExt.has_dg] in Hh. subst h. apply (root_nonzero IF pre (CL k v)). discriminate.
    - destruct Hh as [Hh|[Hh|Hh]]; [subst h; apply (root_nonzero IF pre (CN l r)); discriminate | eapply IHl; eauto | eapply IHr; eauto].
  Qed.

  (* a subtree on the other side of a branch survives writes confined to this side *)
  Lemma stored_other_side pre b (S : ctree) d st st' :
    cwf d S -> (length (pre ++ [negb b]) + d = 256)%nat ->
    frame (pre ++ [b]) st st' -> stored st (pre ++ [negb b]) S -> stored st' (pre ++ [negb b]) S.
  Proof.
    intros Hc Hp Hf. apply (stored_frame IF). intros h Hh. apply Hf.
    - eapply has_dg_nonzero; eauto.
    - intros q Ha. destruct (has_dg_ext IF S _ d h Hc Hp Hh) as [q' Hq'].
      pose proof (at_ext_unique IF _ _ _ Ha Hq') as X. rewrite !app_snoc_assoc in X.
      destruct b; [apply (branch_neq pre true q q') | apply (branch_neq pre false q q')]; exact X.
  Qed.

  Lemma not_has_dg_parent pre b (S : ctree) d (T : ctree) dT :
    cwf d S -> (length (pre ++ [b]) + d = 256)%nat ->
    T <> CE -> (match T with CL _ _ => False | _ => True end) -> cwf dT T -> (length pre + dT = 256)%nat ->
    ~ has_dg (pre ++ [b]) S (root pre T).
  Proof.
    intros Hc Hp Hn Hnl HcT HpT.
    apply (not_has_dg_by_ext IF S (pre ++ [b]) d (root pre T) pre Hc Hp).
    - pose proof (at_ext_root IF pre T dT Hn HcT HpT) as A. destruct T; [contradiction | destruct Hnl | exact A].
    - intros q. rewrite app_snoc_assoc. apply app_cons_neq_self.
  Qed.

  (* ---------------------------------------------------------------- phase 2: rebuilding the path upwards *)
  Definition ustep (acc : node * store) (sp : Dg * node) : node * store :=
    let np := new_parent (fst acc) (fst sp) (snd sp) in
    (np, sdel (store_node (snd acc) np) (node_hash (snd sp))).

  Lemma new_parent_node_of pre d (l r : ctree) b (x : ctree) :
    cwf (S d) (CN l r) -> (length pre + S d = 256)%nat ->
    new_parent (node_of (pre ++ [b]) x) (root (pre ++ [negb b]) (pick (negb b) l r)) (node_of pre (CN l r))
    = node_of pre (if b then CN l x else CN x r).
  Proof.
    intros Hc Hp. unfold SparseModel.new_parent. cbn [SparseTree.node_of bytes_lo SparseModel.node_height].
    rewrite (node_hash_node_of IF). destruct b; cbn [negb pick].
    - rewrite (dg_refl IF). reflexivity.
    - rewrite (dg_neq IF) by (apply (sibling_distinct IF pre d l r Hc Hp)). reflexivity.
  Qed.

  Lemma up_insert (st0 : store) nt : nt <> CE ->
    forall (t : ctree) pre ks d stT,
      cwf d t -> (length pre + d = 256)%nat -> length ks = d -> stored st0 pre t ->
      cwf (length (term_ks ks t)) nt ->
      root (term_pre pre ks t) nt <> root (term_pre pre ks t) (term_t ks t) ->
      stored stT (term_pre pre ks t) nt -> frame (term_pre pre ks t) st0 stT ->
      exists st', fold_right (fun sp acc => ustep acc sp) (node_of (term_pre pre ks t) nt, stT) (levels pre ks t)
                  = (node_of pre (plug ks t nt), st') /\
                  stored st' pre (plug ks t nt) /\ frame pre st0 st'.
  Proof.
    intros Hn. induction t as [|k0 v0|l IHl r IHr]; intros pre ks d stT Hc Hp Hk Hs Hcn Hch HsT HfT.
    - exists stT. cbn in *. auto.
    - exists stT. cbn in *. auto.
    - destruct d; [destruct Hc|]. destruct ks as [|b ks]; [discriminate|]. injection Hk as Hk.
      assert (length (pre ++ [b]) + d = 256)%nat as Hp' by (rewrite app_length; simpl; lia).
      assert (length (pre ++ [negb b]) + d = 256)%nat as Hp'' by (rewrite app_length; simpl; lia).
      cbn [SparseTree.levels SparseTree.term_pre SparseTree.term_t SparseTree.term_ks fold_right] in *.
      pose proof (cwf_child d l r b Hc) as Hcc. pose proof (stored_child IF st0 pre l r b Hs) as Hsc.
      assert (exists st1,
                fold_right (fun sp acc => ustep acc sp) (node_of (term_pre (pre ++ [b]) ks (pick b l r)) nt, stT)
                           (levels (pre ++ [b]) ks (pick b l r))
                = (node_of (pre ++ [b]) (plug ks (pick b l r) nt), st1) /\
                stored st1 (pre ++ [b]) (plug ks (pick b l r) nt) /\ frame (pre ++ [b]) st0 st1) as [st1 [E1 [Hs1 Hf1]]].
      { destruct b; cbn [pick] in *; [eapply IHr | eapply IHl]; eauto. }
      rewrite E1. unfold ustep at 1. cbn [fst snd].
      set (sub' := plug ks (pick b l r) nt) in *.
      assert (cwf d sub') as Hcs' by (apply cwf_plug; auto).
      assert (plug (b :: ks) (CN l r) nt = if b then CN l sub' else CN sub' r) as Epl
        by (destruct b; reflexivity).
      assert (cwf (S d) (plug (b :: ks) (CN l r) nt)) as Hcnew.
      { apply cwf_plug; auto. simpl. f_equal. exact Hk. }
      rewrite (new_parent_node_of pre d l r b sub' Hc Hp). rewrite <- Epl.
      rewrite (node_hash_node_of IF).
      set (newt := plug (b :: ks) (CN l r) nt) in *.
      assert (newt <> CE) as Hnn by (apply plug_not_CE; exact Hn).
      assert (root pre newt <> root pre (CN l r)) as Hchg.
      { apply root_plug_changed. cbn [SparseTree.term_pre SparseTree.term_t]. exact Hch. }
      eexists. split; [reflexivity|]. split.
      + (* stored *)
        assert (stored (sdel (store_node st1 (node_of pre newt)) (root pre (CN l r))) (pre ++ [b]) sub') as Hchild.
        { apply (stored_sdel IF).
          - apply (not_has_dg_parent pre b sub' d (CN l r) (S d)); auto. discriminate.
          - apply (stored_store_node IF st1 pre newt (S d) Hnn Hcnew Hp sub' (pre ++ [b]) d Hcs' Hp' Hs1). }
        assert (stored (sdel (store_node st1 (node_of pre newt)) (root pre (CN l r))) (pre ++ [negb b]) (pick (negb b) l r)) as Hside.
        { apply (stored_sdel IF).
          - apply (not_has_dg_parent pre (negb b) _ d (CN l r) (S d)); auto; [apply cwf_child; exact Hc | discriminate].
          - apply (stored_store_node IF st1 pre newt (S d) Hnn Hcnew Hp (pick (negb b) l r) (pre ++ [negb b]) d
                     (cwf_child d l r (negb b) Hc) Hp'').
            apply (stored_other_side pre b _ d st0 st1); auto; [apply cwf_child; exact Hc|].
            apply (stored_child IF). exact Hs. }
        assert (sget (sdel (store_node st1 (node_of pre newt)) (root pre (CN l r))) (root pre newt)
                = Some (prim_of_node (node_of pre newt))) as Hnew.
        { rewrite (sget_sdel_neq IF) by (intros E; apply Hchg; symmetry; exact E).
          unfold SparseModel.store_node. rewrite (node_hash_node_of IF). apply (sget_sset_eq IF). }
        unfold newt in *. rewrite Epl in *. destruct b; cbn [negb pick] in *; cbn [SparseTree.stored]; auto.
      + (* frame *)
        intros h Hz Hne.
        assert (at_ext (root pre (CN l r)) pre) as A0
          by (apply (at_ext_root IF pre (CN l r) (S d)); auto; discriminate).
        assert (at_ext (root pre newt) pre) as A1.
        { pose proof (at_ext_root IF pre newt (S d) Hnn Hcnew Hp) as A.
          replace (ext pre newt) with pre in A; [exact A|]. rewrite Epl. destruct b; reflexivity. }
        assert (h <> root pre (CN l r)) as N0.
        { intros E. subst h. apply (Hne []). rewrite app_nil_r. exact A0. }
        assert (h <> root pre newt) as N1.
        { intros E. subst h. apply (Hne []). rewrite app_nil_r. exact A1. }
        rewrite (sget_sdel_neq IF) by (intros E; apply N0; symmetry; exact E).
        unfold SparseModel.store_node. rewrite (node_hash_node_of IF).
        rewrite (sget_sset_neq IF) by (intros E; apply N1; symmetry; exact E).
        apply Hf1; [exact Hz|]. intros q Ha. apply (Hne (b :: q)). rewrite <- app_snoc_assoc. exact Ha.
  Qed.

  (* ---------------------------------------------------------------- frames of single writes *)
  Lemma frame_trans P st1 st2 st3 : frame P st1 st2 -> frame P st2 st3 -> frame P st1 st3.
  Proof. intros H1 H2 h Hz Hn. rewrite (H2 h Hz Hn). apply H1; assumption. Qed.

  Lemma frame_weaken P b st st' : frame (P ++ [b]) st st' -> frame P st st'.
  Proof.
    intros Hf h Hz Hn. apply Hf; [exact Hz|]. intros q Ha. apply (Hn (b :: q)). rewrite <- app_snoc_assoc. exact Ha.
  Qed.

  Lemma frame_store_node P q st p (x : ctree) dx : x <> CE -> cwf dx x -> (length p + dx = 256)%nat ->
    ext p x = P ++ q -> frame P st (store_node st (node_of p x)).
  Proof.
    intros Hn Hc Hp He h Hz Hne. unfold SparseModel.store_node. rewrite (node_hash_node_of IF).
    apply (sget_sset_neq IF). intros E. subst h. apply (Hne q). rewrite <- He. apply (at_ext_root IF p x dx); auto.
  Qed.

  Lemma frame_sdel P q st p (x : ctree) dx : x <> CE -> cwf dx x -> (length p + dx = 256)%nat ->
    ext p x = P ++ q -> frame P st (sdel st (root p x)).
  Proof.
    intros Hn Hc Hp He h Hz Hne. apply (sget_sdel_neq IF). intros E. subst h. apply (Hne q). rewrite <- He.
    apply (at_ext_root IF p x dx); auto.
  Qed.

  Lemma frame_sdel_zero P st : frame P st (sdel st zero).
  Proof. intros h Hz _. apply (sget_sdel_neq IF). intros E. apply Hz. symmetry. exact E. Qed.

  (* ---------------------------------------------------------------- phase 1: the new subtree at the end of the path *)
  Definition chain (u : key) (sub : ctree) : ctree :=
    fold_right (fun (b : bool) acc => if b then CN CE acc else CN acc CE) sub u.
  Definition two (b : bool) (r1 : key) (v1 : Dg) (r2 : key) (v2 : Dg) : ctree :=
    if b then CN (CL r2 v2) (CL r1 v1) else CN (CL r1 v1) (CL r2 v2).

  Lemma c_split_chain : forall u b r1 (v1 : Dg) r2 v2,
    c_split (u ++ b :: r1) v1 (u ++ negb b :: r2) v2 = chain u (two b r1 v1 r2 v2).
  Proof.
    induction u as [|x u IH]; intros b r1 v1 r2 v2.
    - cbn [app c_split chain fold_right two]. destruct b; reflexivity.
    - cbn [app c_split]. rewrite eqb_reflx. rewrite IH. destruct x; reflexivity.
  Qed.

  Lemma diverge : forall k1 k2 : key, length k1 = length k2 -> k1 <> k2 ->
    exists u b r1 r2, k1 = u ++ b :: r1 /\ k2 = u ++ negb b :: r2 /\ cpl k1 k2 = length u /\ length r1 = length r2.
  Proof.
    induction k1 as [|x k1 IH]; intros [|y k2] Hl Hn; simpl in Hl; try discriminate.
    - contradiction.
    - destruct (Bool.eqb x y) eqn:E.
      + apply eqb_prop in E. subst y. destruct (IH k2) as [u [b [r1 [r2 [E1 [E2 [E3 E4]]]]]]]; [lia | congruence |].
        exists (x :: u), b, r1, r2. subst. cbn [app cpl length]. rewrite eqb_reflx. rewrite E3. auto.
      + exists [], x, k1, k2. cbn [app cpl length]. rewrite E. repeat split; [|lia].
        f_equal. destruct x, y; try discriminate; reflexivity.
  Qed.

  Lemma cpl_app (p a b : key) : cpl (p ++ a) (p ++ b) = (length p + cpl a b)%nat.
  Proof. induction p as [|x p IH]; [reflexivity|]. cbn [app cpl length]. rewrite eqb_reflx, IH. reflexivity. Qed.

  Lemma chain_snoc u b (sub : ctree) : chain (u ++ [b]) sub = chain u (chain [b] sub).
  Proof. unfold chain. rewrite fold_right_app. reflexivity. Qed.

  Lemma split_last {A} : forall (l : list A) n, length l = S n -> exists l0 x, l = l0 ++ [x] /\ length l0 = n.
  Proof.
    intros l n H. destruct (exists_last (l:=l)) as [l0 [x E]]; [intros ->; discriminate|].
    exists l0, x. split; [exact E|]. subst l. rewrite app_length in H. simpl in H. lia.
  Qed.

  Lemma join_placeholder key A0 b (sa sb : ctree) rest :
    bits key = (A0 ++ [b]) ++ rest -> (length (A0 ++ [b]) <= 256)%nat ->
    create_node_on_path key (node_of (A0 ++ [b]) (CN sa sb)) Placeholder
    = Ok (node_of A0 (chain [b] (CN sa sb))).
  Proof.
    intros Hb Hl. unfold SparseModel.create_node_on_path.
    cbn [SparseTree.node_of is_leaf node_prefix prefix_eqb is_placeholder orb andb SparseModel.node_height].
    rewrite app_length in Hl. simpl in Hl.
    assert (N.max (height_at (A0 ++ [b])) 0 + 1 = height_at A0) as Eh.
    { unfold height_at. rewrite app_length. simpl. rewrite N.max_0_r. lia. }
    rewrite Eh.
    assert (max_height <? height_at A0 = false) as -> by (apply N.ltb_ge; unfold height_at, max_height; lia).
    assert (max_height - height_at A0 = N.of_nat (length A0)) as -> by (unfold height_at, max_height; lia).
    rewrite kbit_spec, Nat2N.id, Hb, <- app_assoc, nth_error_app2 by lia. rewrite Nat.sub_diag. cbn [app nth_error].
    destruct b; cbn [chain fold_right]; unfold create_node; cbn [SparseTree.node_of c_root SparseModel.node_hash]; reflexivity.
  Qed.

  Lemma cwf_chain1 d b (sa sb : ctree) : cwf d (CN sa sb) -> cwf (S d) (chain [b] (CN sa sb)).
  Proof.
    intros H. destruct b; cbn [chain fold_right cwf]; repeat split; auto.
  Qed.

  Lemma loop_chain key : forall n u A0 (sa sb : ctree) d st rest,
    length u = n -> cwf d (CN sa sb) -> (length (A0 ++ u) + d = 256)%nat ->
    bits key = (A0 ++ u) ++ rest -> stored st (A0 ++ u) (CN sa sb) ->
    exists st', placeholder_loop n key (node_of (A0 ++ u) (CN sa sb)) st = Ok (node_of A0 (chain u (CN sa sb)), st') /\
                stored st' A0 (chain u (CN sa sb)) /\ frame A0 st st' /\ cwf (n + d) (chain u (CN sa sb)).
  Proof.
    induction n as [|n IH]; intros u A0 sa sb d st rest Hu Hc Hp Hb Hs.
    - destruct u; [|discriminate]. rewrite app_nil_r in *. exists st.
      change (chain [] (CN sa sb)) with (CN sa sb). cbn [SparseModel.placeholder_loop plus].
      split; [reflexivity|]. split; [exact Hs|]. split; [apply frame_refl | exact Hc].
    - destruct (split_last u n Hu) as [u0 [b [-> Hu0]]].
      rewrite app_assoc in *. cbn [SparseModel.placeholder_loop].
      assert (length ((A0 ++ u0) ++ [b]) <= 256)%nat as Hle by lia.
      rewrite (join_placeholder key (A0 ++ u0) b sa sb rest Hb Hle). cbn [rbind].
      pose proof (cwf_chain1 d b sa sb Hc) as Hc1.
      assert (length (A0 ++ u0) + S d = 256)%nat as Hp1 by (rewrite app_length in Hp; simpl in Hp; lia).
      assert (exists sa1 sb1, chain [b] (CN sa sb) = CN sa1 sb1) as [sa1 [sb1 E1]] by (destruct b; eexists; eexists; reflexivity).
      set (st1 := store_node st (node_of (A0 ++ u0) (chain [b] (CN sa sb)))).
      assert (stored st1 (A0 ++ u0) (chain [b] (CN sa sb))) as Hs1.
      { assert (stored st1 ((A0 ++ u0) ++ [b]) (CN sa sb)) as Hsub.
        { assert (chain [b] (CN sa sb) <> CE) as Hn1 by (rewrite E1; discriminate).
          apply (stored_store_node IF st (A0 ++ u0) (chain [b] (CN sa sb)) (S d) Hn1 Hc1 Hp1
                   (CN sa sb) ((A0 ++ u0) ++ [b]) d Hc Hp Hs). }
        assert (sget st1 (root (A0 ++ u0) (chain [b] (CN sa sb))) = Some (prim_of_node (node_of (A0 ++ u0) (chain [b] (CN sa sb))))) as Hn.
        { unfold st1, SparseModel.store_node. rewrite (node_hash_node_of IF). apply (sget_sset_eq IF). }
        destruct b; cbn [chain fold_right SparseTree.stored] in *; auto. }
      rewrite E1 in *.
      destruct (IH u0 A0 sa1 sb1 (S d) st1 (b :: rest)) as [st' [E [Hs' [Hf' Hc']]]]; auto.
      { rewrite <- app_assoc in Hb. exact Hb. }
      exists st'. rewrite chain_snoc, E1. split; [exact E|]. split; [exact Hs'|]. split.
      + eapply frame_trans; [|exact Hf']. unfold st1. rewrite E1.
        apply (frame_store_node A0 u0 st (A0 ++ u0) (CN sa1 sb1) (S d)); auto. discriminate.
      + replace (S n + d)%nat with (n + S d)%nat by lia. exact Hc'.
  Qed.

  Lemma node_of_leaf_eq p1 r1 p2 r2 (v : Dg) : p1 ++ r1 = p2 ++ r2 -> node_of p1 (CL r1 v) = node_of p2 (CL r2 v).
  Proof. intros E. cbn [SparseTree.node_of]. rewrite E. reflexivity. Qed.
  Lemma root_leaf_eq p1 r1 p2 r2 (v : Dg) : p1 ++ r1 = p2 ++ r2 -> root p1 (CL r1 v) = root p2 (CL r2 v).
  Proof. intros E. cbn [c_root]. rewrite E. reflexivity. Qed.
  Lemma stored_leaf_move st p1 r1 p2 r2 (v : Dg) : p1 ++ r1 = p2 ++ r2 -> stored st p1 (CL r1 v) -> stored st p2 (CL r2 v).
  Proof.
    intros E H. cbn [SparseTree.stored] in *. rewrite <- (node_of_leaf_eq p1 r1 p2 r2 v E), <- (root_leaf_eq p1 r1 p2 r2 v E). exact H.
  Qed.

  Lemma split_tail st tp tks rest u b r1 r2 v v0 :
    length (tp ++ tks) = 256%nat -> tks = u ++ b :: r1 -> rest = u ++ negb b :: r2 -> length r1 = length r2 ->
    stored st tp (CL rest v0) -> stored st tp (CL tks v) ->
    exists stT, placeholder_loop (length u) (of_bits (tp ++ tks)) (node_of (tp ++ u) (two b r1 v r2 v0))
                                 (store_node st (node_of (tp ++ u) (two b r1 v r2 v0)))
                = Ok (node_of tp (c_split tks v rest v0), stT) /\
                stored stT tp (c_split tks v rest v0) /\ frame tp st stT.
  Proof.
    intros Hlen E1 E2 E4 Hs Hleaf.
    assert (length (tp ++ u) + S (length r1) = 256)%nat as Hpu.
    { rewrite E1 in Hlen. rewrite !app_length in *. simpl in Hlen. lia. }
    assert (cwf (S (length r1)) (two b r1 v r2 v0)) as Hc2 by (destruct b; cbn [two cwf]; repeat split; auto).
    set (st1 := store_node st (node_of (tp ++ u) (two b r1 v r2 v0))).
    assert (exists sa sb, two b r1 v r2 v0 = CN sa sb) as [sa [sb E2n]] by (destruct b; eexists; eexists; reflexivity).
    assert (two b r1 v r2 v0 <> CE) as Hn2 by (rewrite E2n; discriminate).
    assert (stored st1 (tp ++ u) (two b r1 v r2 v0)) as Hs2.
    { assert (stored st ((tp ++ u) ++ [b]) (CL r1 v)) as Hl1.
      { apply (stored_leaf_move st tp tks); [|exact Hleaf]. rewrite E1, <- !app_assoc. reflexivity. }
      assert (stored st ((tp ++ u) ++ [negb b]) (CL r2 v0)) as Hl2.
      { apply (stored_leaf_move st tp rest); [|exact Hs]. rewrite E2, <- !app_assoc. reflexivity. }
      assert (length ((tp ++ u) ++ [b]) + length r1 = 256)%nat as Hpb by (rewrite app_length; simpl; lia).
      assert (length ((tp ++ u) ++ [negb b]) + length r2 = 256)%nat as Hpnb by (rewrite app_length; simpl; lia).
      pose proof (stored_store_node IF st (tp ++ u) (two b r1 v r2 v0) (S (length r1)) Hn2 Hc2 Hpu
                    (CL r1 v) ((tp ++ u) ++ [b]) (length r1) eq_refl Hpb Hl1) as Hl1'.
      pose proof (stored_store_node IF st (tp ++ u) (two b r1 v r2 v0) (S (length r1)) Hn2 Hc2 Hpu
                    (CL r2 v0) ((tp ++ u) ++ [negb b]) (length r2) eq_refl Hpnb Hl2) as Hl2'.
      assert (sget st1 (root (tp ++ u) (two b r1 v r2 v0)) = Some (prim_of_node (node_of (tp ++ u) (two b r1 v r2 v0)))) as Hn
        by (unfold st1, SparseModel.store_node; rewrite (node_hash_node_of IF); apply (sget_sset_eq IF)).
      fold st1 in Hl1', Hl2'. destruct b; cbn [two negb SparseTree.stored] in *; auto. }
    assert (frame tp st st1) as Hf1.
    { apply (frame_store_node tp u st (tp ++ u) (two b r1 v r2 v0) (S (length r1))); auto. rewrite E2n. reflexivity. }
    clearbody st1. rewrite E2n in *.
    destruct (loop_chain (of_bits (tp ++ tks)) (length u) u tp sa sb (S (length r1)) st1 (b :: r1))
      as [st' [El [Hs' [Hf' Hc']]]]; auto.
    { rewrite (i_bits_of_bits IF) by assumption. rewrite E1, <- app_assoc. reflexivity. }
    exists st'. rewrite El.
    assert (c_split tks v rest v0 = chain u (CN sa sb)) as -> by (rewrite E1, E2, c_split_chain, E2n; reflexivity).
    split; [reflexivity|]. split; [exact Hs'|]. eapply frame_trans; eauto.
  Qed.

  Notation leaf_key := (leaf_key zero).
  Notation common_path_length := (common_path_length zero kcpl).

  Definition phase1 (st : store) (req actual : node) (nsides : N) : res (node * store) :=
    if negb (dg_eqb (leaf_key req) (leaf_key actual)) then
      dor '(cur, st0) <- (if negb (is_placeholder actual) then
                             dor c <- create_node_on_path (leaf_key req) req actual; Ok (c, store_node st c)
                           else Ok (req, st));
      placeholder_loop (N.to_nat (common_path_length req actual - nsides)) (leaf_key req) cur st0
    else Ok (req, sdel st (node_hash actual)).

  Lemma phase1_ok st tp tks (tt : ctree) v :
    length (tp ++ tks) = 256%nat -> cwf (length tks) tt -> (match tt with CN _ _ => False | _ => True end) ->
    stored st tp tt -> stored st tp (CL tks v) -> tt <> CL tks v ->
    exists stT, phase1 st (node_of tp (CL tks v)) (node_of tp tt) (N.of_nat (length tp))
                = Ok (node_of tp (c_insert tks v tt), stT) /\
                stored stT tp (c_insert tks v tt) /\ frame tp st stT.
  Proof.
    intros Hlen Hc Hnn Hs Hleaf Hne. destruct Hok as [Hli [Hni [Hln [Hlz Hnz]]]].
    assert (length tp + length tks = 256)%nat as Hp by (rewrite <- app_length; exact Hlen).
    destruct tt as [|rest v0|]; [| |destruct Hnn].
    - (* the path ends at a placeholder *)
      unfold phase1. cbn [SparseTree.node_of SparseModel.leaf_key bytes_lo is_placeholder negb c_insert].
      destruct (dg_eqb (of_bits (tp ++ tks)) zero) eqn:Ez; cbn [negb].
      + exists (sdel st zero). split; [reflexivity|]. split; [|apply frame_sdel_zero].
        apply (stored_sdel IF); [|exact Hleaf]. cbn [SparseExt.has_dg]. intros E.
        apply (root_nonzero IF tp (CL tks v)); [discriminate | symmetry; exact E].
      + exists st. unfold SparseModel.common_path_length. cbn [is_placeholder orb]. cbn [N.sub N.to_nat SparseModel.placeholder_loop rbind].
        split; [reflexivity|]. split; [exact Hleaf | apply frame_refl].
    - cbn [cwf] in Hc. destruct (key_eqb tks rest) eqn:Ek.
      + (* same key, different value: the old leaf is dropped *)
        apply key_eqb_eq in Ek. subst rest. assert (v0 <> v) as Hv by congruence.
        unfold phase1. cbn [SparseTree.node_of SparseModel.leaf_key bytes_lo c_insert].
        rewrite (dg_refl IF). cbn [negb]. rewrite key_eqb_refl.
        exists (sdel st (root tp (CL tks v0))). split; [reflexivity|]. split.
        * apply (stored_sdel IF); [|exact Hleaf]. cbn [SparseExt.has_dg c_root]. intros E.
          apply Hli in E as [_ E]. congruence.
        * apply (frame_sdel tp tks st tp (CL tks v0) (length tks)); auto. discriminate.
      + (* different key: split *)
        pose proof Ek as Ekb. apply key_eqb_neq in Ek.
        destruct (diverge tks rest (eq_sym Hc) Ek) as [u [b [r1 [r2 [E1 [E2 [E3 E4]]]]]]].
        assert (of_bits (tp ++ tks) <> of_bits (tp ++ rest)) as HK.
        { intros E. apply (of_bits_inj IF) in E; [apply app_inv_head in E; contradiction | exact Hlen |].
          rewrite app_length, Hc, <- app_length. exact Hlen. }
        assert (length (tp ++ rest) = 256%nat) as Hlen0 by (rewrite app_length, Hc, <- app_length; exact Hlen).
        unfold phase1. cbn [SparseTree.node_of SparseModel.leaf_key bytes_lo is_placeholder negb c_insert].
        rewrite (dg_neq IF _ _ HK). cbn [negb]. rewrite Ekb.
        (* the merged node of the two leaves *)
        unfold SparseModel.create_node_on_path, SparseModel.common_path_length.
        cbn [is_leaf node_prefix prefix_eqb is_placeholder orb andb SparseModel.leaf_key bytes_lo].
        rewrite kcpl_spec, !bits_of_bits by assumption. rewrite cpl_app, E3.
        rewrite kbit_spec, Nat2N.id, bits_of_bits by assumption.
        assert (nth_error (tp ++ tks) (length tp + length u) = Some b) as ->.
        { rewrite E1, nth_error_app2 by lia. replace (length tp + length u - length tp)%nat with (length u) by lia.
          rewrite nth_error_app2 by lia. rewrite Nat.sub_diag. reflexivity. }
        assert (length (tp ++ u) + S (length r1) = 256)%nat as Hpu.
        { rewrite app_length. rewrite E1, app_length in Hp. simpl in Hp. lia. }
        assert (cwf (S (length r1)) (two b r1 v r2 v0)) as Hc2.
        { destruct b; cbn [two cwf]; repeat split; auto. }
        assert ((if b then Ok (create_node zero hnode (Node (hleaf (of_bits (tp ++ rest)) v0) 0 PfxLeaf (of_bits (tp ++ rest)) v0)
                                (Node (hleaf (of_bits (tp ++ tks)) v) 0 PfxLeaf (of_bits (tp ++ tks)) v)
                                (max_height - N.of_nat (length tp + length u)))
                 else Ok (create_node zero hnode (Node (hleaf (of_bits (tp ++ tks)) v) 0 PfxLeaf (of_bits (tp ++ tks)) v)
                                (Node (hleaf (of_bits (tp ++ rest)) v0) 0 PfxLeaf (of_bits (tp ++ rest)) v0)
                                (max_height - N.of_nat (length tp + length u))))
                = Ok (node_of (tp ++ u) (two b r1 v r2 v0))) as Em.
        { assert (((tp ++ u) ++ [b]) ++ r1 = tp ++ tks) as X1 by (rewrite E1, <- !app_assoc; reflexivity).
          assert (((tp ++ u) ++ [negb b]) ++ r2 = tp ++ rest) as X2 by (rewrite E2, <- !app_assoc; reflexivity).
          assert (height_at (tp ++ u) = max_height - N.of_nat (length tp + length u)) as Xh
            by (unfold height_at; rewrite app_length; reflexivity).
          destruct b; cbn [negb] in X2; unfold create_node, two; cbn [SparseTree.node_of c_root SparseModel.node_hash];
            unfold SparseRefine.shleaf; rewrite X1, X2, Xh; reflexivity. }
        destruct b; rewrite Em; cbn [rbind].
        all: replace (N.to_nat (N.of_nat (length tp + length u) - N.of_nat (length tp))) with (length u) by lia.
        all: eapply split_tail; eauto.
  Qed.

  (* ---------------------------------------------------------------- assembling MerkleTree::insert *)
  Notation update_with_path_set := (update_with_path_set dg_eqb zero hnode kbit kcpl).
  Notation tree_insert := (tree_insert dg_eqb zero hleaf hnode sum kbit kcpl).
  Notation path_set := (path_set dg_eqb zero hleaf hnode kbit).
  Notation node_eqb := (node_eqb dg_eqb).

  Lemma update_unfold t req actual parents sides :
    update_with_path_set t req (actual :: parents) sides =
    if node_eqb req actual then Ok t else
    dor '(cur, st1) <- phase1 (t_store t) req actual (lenN sides);
    (let '(c2, s2) := fold_left ustep (combine sides parents) (cur, st1) in Ok (mkTree c2 s2)).
  Proof. reflexivity. Qed.

  Lemma prefix_eqb_refl (p : prefix) : prefix_eqb p p = true.
  Proof. destruct p; reflexivity. Qed.

  Lemma node_eqb_eq (a b : node) : node_eqb a b = true <-> a = b.
  Proof.
    destruct a as [h1 g1 p1 l1 r1|], b as [h2 g2 p2 l2 r2|]; cbn [SparseModel.node_eqb]; split; intros H; try discriminate; try reflexivity.
    - repeat (apply andb_true_iff in H as [H ?]).
      apply dg_eqb_spec in H. apply N.eqb_eq in H3. apply dg_eqb_spec in H1. apply dg_eqb_spec in H0.
      destruct p1, p2; try discriminate; congruence.
    - injection H as -> -> -> -> ->. rewrite !(dg_refl IF), N.eqb_refl, prefix_eqb_refl. reflexivity.
  Qed.

  Lemma rev_combine {A B} : forall (a : list A) (b : list B), length a = length b ->
    combine (rev a) (rev b) = rev (combine a b).
  Proof.
    induction a as [|x a IH]; intros [|y b] H; simpl in H; try discriminate; [reflexivity|].
    cbn [rev combine]. rewrite <- IH by lia.
    assert (length (rev a) = length (rev b)) as Hl by (rewrite !rev_length; lia).
    clear IH H. revert Hl. generalize (rev a) (rev b). intros c. induction c as [|z c IHc]; intros [|w e] Hl; simpl in Hl; try discriminate; [reflexivity|].
    cbn [app combine]. f_equal. apply IHc. lia.
  Qed.

  Lemma c_insert_term_ne tks v (tt : ctree) : c_insert tks v tt <> CE.
  Proof.
    destruct tt as [|k0 v0|l r]; cbn [c_insert]; try discriminate.
    - destruct (key_eqb tks k0); [discriminate|]. destruct tks as [|b1 r1], k0 as [|b2 r2]; cbn [c_split]; try discriminate.
      destruct (Bool.eqb b1 b2), b1; discriminate.
    - destruct tks as [|[|] ?]; discriminate.
  Qed.

  Lemma cwf_c_insert_term tks v (tt : ctree) :
    cwf (length tks) tt -> (match tt with CN _ _ => False | _ => True end) -> cwf (length tks) (c_insert tks v tt).
  Proof.
    intros Hc Hnn. destruct tt as [|k0 v0|]; [reflexivity | | destruct Hnn].
    cbn [cwf] in Hc. cbn [c_insert]. destruct (key_eqb tks k0) eqn:E; [reflexivity|].
    apply key_eqb_neq in E. rewrite (c_split_build (length tks) tks v k0 v0) by auto.
    apply cwf_build. split.
    - cbn [map fst]. constructor; [intros [H|[]]; congruence | constructor; [intros [] | constructor]].
    - repeat constructor; auto.
  Qed.

  Lemma c_insert_term_changed tks v (tt : ctree) :
    cwf (length tks) tt -> (match tt with CN _ _ => False | _ => True end) -> tt <> CL tks v ->
    c_insert tks v tt <> tt.
  Proof.
    intros Hc Hnn Hne. destruct tt as [|k0 v0|]; [discriminate | | destruct Hnn].
    cbn [cwf] in Hc. cbn [c_insert]. destruct (key_eqb tks k0) eqn:E.
    - apply key_eqb_eq in E. subst k0. intros H. apply Hne. symmetry. exact H.
    - apply key_eqb_neq in E. destruct (diverge tks k0 (eq_sym Hc) E) as [u [b [r1 [r2 [E1 [E2 _]]]]]].
      rewrite E1, E2, c_split_chain. destruct u as [|x u]; [destruct b | destruct x]; discriminate.
  Qed.

  Theorem tree_insert_refines st (t : ctree) key data :
    stored st [] t -> cwf 256 t -> length (bits key) = 256%nat ->
    exists st', tree_insert (tree_of st t) key data = (tree_of st' (c_insert (bits key) (sum data) t), Ok tt) /\
                stored st' [] (c_insert (bits key) (sum data) t).
  Proof.
    intros Hs Hc Hk. set (ks := bits key). set (v := sum data).
    assert (create_leaf key data = node_of [] (CL ks v)) as Eleaf.
    { unfold SparseModel.create_leaf. cbn [SparseTree.node_of app]. unfold ks. rewrite of_bits_bits. reflexivity. }
    unfold SparseModel.tree_insert, SparseTree.tree_of. cbn [t_root t_store]. rewrite Eleaf.
    set (st1 := store_node st (node_of [] (CL ks v))).
    assert (cwf 256 (CL ks v)) as Hcl by exact Hk.
    assert (stored st1 [] t) as Hs1.
    { assert (CL ks v <> CE) as Hnl by discriminate.
      apply (stored_store_node IF st [] (CL ks v) 256%nat Hnl Hcl eq_refl t [] 256%nat Hc eq_refl Hs). }
    assert (stored st1 [] (CL ks v)) as Hl1.
    { cbn [SparseTree.stored]. unfold st1, SparseModel.store_node. rewrite (node_hash_node_of IF). apply (sget_sset_eq IF). }
    assert (t = CE \/ t <> CE) as [->|Hne] by (destruct t; [left; reflexivity | right; discriminate | right; discriminate]).
    - (* empty tree *) cbn [SparseTree.node_of is_placeholder c_insert]. exists st1. split; [reflexivity | exact Hl1].
    - assert (is_placeholder (node_of [] t) = false) as -> by (destruct t; [contradiction | reflexivity | reflexivity]).
      change (mkTree (node_of [] t) st1) with (tree_of st1 t).
      rewrite (path_set_td IF st1 t key Hs1 Hc Hk). fold ks.
      rewrite (path_nodes_td_levels IF [] ks t 256 Hc Hk), rev_app_distr. cbn [rev app].
      rewrite update_unfold.
      pose proof (term_pre_ks [] ks t) as Hpk. cbn [app] in Hpk.
      pose proof (term_cwf ks t 256 Hc Hk) as Hct.
      pose proof (term_t_not_node ks t 256 Hc Hk) as Hnn.
      pose proof (term_stored IF st1 [] ks t Hs1) as Hst.
      pose proof (term_pre_length IF [] ks t) as Hlp. cbn [length plus] in Hlp.
      set (tp := term_pre [] ks t) in *. set (tks := term_ks ks t) in *. set (tt' := term_t ks t) in *.
      set (L := levels [] ks t) in *.
      assert (length (tp ++ tks) = 256%nat) as Hlen by (rewrite Hpk; exact Hk).
      assert (node_of [] (CL ks v) = node_of tp (CL tks v)) as En by (apply node_of_leaf_eq; symmetry; exact Hpk).
      assert (stored st1 tp (CL tks v)) as Hleaf.
      { apply (stored_leaf_move st1 [] ks); [symmetry; exact Hpk | exact Hl1]. }
      rewrite En.
      assert (c_insert tks v (CL tks v) = CL tks v) as Esame by (cbn [c_insert]; rewrite key_eqb_refl; reflexivity).
      destruct (node_eqb (node_of tp (CL tks v)) (node_of tp tt')) eqn:Eeq.
      + apply node_eqb_eq in Eeq.
        assert (tt' = CL tks v) as Htt.
        { destruct tt' as [|rest v0|]; [discriminate | | destruct Hnn]. cbn [SparseTree.node_of] in Eeq.
          injection Eeq as _ Ek Ev. apply (of_bits_inj IF) in Ek; auto.
          - apply app_inv_head in Ek. congruence.
          - cbn [cwf] in Hct. rewrite app_length, Hct, <- app_length. exact Hlen. }
        assert (c_insert ks v t = t) as Eid.
        { rewrite (c_insert_plug v t ks 256 Hc Hk). fold tks tt'. rewrite Htt, Esame, <- Htt. apply plug_term_id. }
        exists st1. rewrite Eid. split; [reflexivity | exact Hs1].
      + assert (tt' <> CL tks v) as Htne.
        { intros H. rewrite H in Eeq. assert (node_eqb (node_of tp (CL tks v)) (node_of tp (CL tks v)) = true) as X by (apply node_eqb_eq; reflexivity).
          congruence. }
        destruct (phase1_ok st1 tp tks tt' v Hlen Hct Hnn Hst Hleaf Htne) as [stT [E1 [HsT HfT]]].
        change (t_store (tree_of st1 t)) with st1.
        assert (lenN (rev (map fst L)) = N.of_nat (length tp)) as -> by (unfold lenN; rewrite rev_length, map_length, Hlp; reflexivity).
        rewrite E1. cbn [rbind].
        rewrite rev_combine by (rewrite !map_length; reflexivity). rewrite combine_fst_snd.
        assert (forall init, fold_left ustep (rev L) init = fold_right (fun sp acc => ustep acc sp) init L) as ->
          by (intros init; rewrite <- fold_left_rev_right, rev_involutive; reflexivity).
        set (nt := c_insert tks v tt') in *.
        assert (nt <> CE) as Hnt by apply c_insert_term_ne.
        assert (cwf (length tks) nt) as Hcnt by (apply cwf_c_insert_term; assumption).
        assert (root tp nt <> root tp tt') as Hchg.
        { intros E. apply (root_inj_pos IF) in E. revert E. apply c_insert_term_changed; assumption. }
        destruct (up_insert st1 nt Hnt t [] ks 256%nat stT Hc eq_refl Hk Hs1 Hcnt Hchg HsT HfT) as [st' [E2 [Hs' _]]].
        fold tp L in E2. rewrite E2. exists st'.
        rewrite (c_insert_plug v t ks 256 Hc Hk). fold tks tt' nt. split; [reflexivity | exact Hs'].
  Qed.
End Insert.
