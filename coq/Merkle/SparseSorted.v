(* Merkle/SparseSorted.v — keys in lexicographic order: common-prefix facts, and the model of
   BTreeMap::collect (bt_collect): its result is strictly increasing and denotes the map with
   "last duplicate wins". *)
From Coq Require Import Arith.
From FV Require Import Base.Bytes Merkle.SparseSpec Merkle.SparseFun Merkle.SparseModel
  Merkle.SparseProofs Merkle.SparseRefine Merkle.SparseTree Merkle.SparseHistory.
Open Scope N_scope.

(* ---------------------------------------------------------------- common prefixes *)
Lemma cpl_sym : forall a b : key, cpl a b = cpl b a.
Proof.
  induction a as [|x a IH]; intros [|y b]; simpl; try reflexivity.
  destruct x, y; simpl; try reflexivity; rewrite IH; reflexivity.
Qed.

Lemma cpl_app_same (p a b : key) : cpl (p ++ a) (p ++ b) = (length p + cpl a b)%nat.
Proof. induction p as [|x p IH]; [reflexivity|]. cbn [app cpl length]. rewrite eqb_reflx, IH. reflexivity. Qed.

Lemma cpl_diverge (u x y : key) : cpl (u ++ false :: x) (u ++ true :: y) = length u.
Proof. rewrite cpl_app_same. simpl. lia. Qed.

(* ---------------------------------------------------------------- the order *)
Lemma bc_refl : forall a : key, bits_compare a a = Eq.
Proof. induction a as [|x a IH]; [reflexivity|]. simpl. destruct x; exact IH. Qed.

Lemma bc_eq : forall a b : key, bits_compare a b = Eq -> a = b.
Proof.
  induction a as [|x a IH]; intros [|y b] H; simpl in H; try discriminate; [reflexivity|].
  destruct x, y; try discriminate; f_equal; apply IH; exact H.
Qed.

Lemma bc_gt_lt : forall a b : key, bits_compare a b = Gt -> bits_compare b a = Lt.
Proof.
  induction a as [|x a IH]; intros [|y b] H; simpl in *; try discriminate; try reflexivity.
  destruct x, y; try discriminate; try reflexivity; apply IH; exact H.
Qed.

Lemma lt_diverge : forall a b : key, length a = length b -> bits_compare a b = Lt ->
  exists u x y, a = u ++ false :: x /\ b = u ++ true :: y.
Proof.
  induction a as [|x a IH]; intros [|y b] Hl H; simpl in *; try discriminate.
  destruct x, y; try discriminate.
  - destruct (IH b) as [u [x' [y' [E1 E2]]]]; [lia | exact H |]. exists (true :: u), x', y'. subst. auto.
  - exists [], a, b. auto.
  - destruct (IH b) as [u [x' [y' [E1 E2]]]]; [lia | exact H |]. exists (false :: u), x', y'. subst. auto.
Qed.

(* two decompositions of the same list at different depths *)
Lemma app_cons_longer {A} : forall (X Y : list A) x y s t,
  X ++ x :: s = Y ++ y :: t -> (length Y < length X)%nat -> exists w, X = Y ++ y :: w.
Proof.
  induction X as [|a X IH]; intros Y x y s t E Hl; simpl in Hl; [lia|].
  destruct Y as [|b Y]; simpl in *.
  - injection E as -> _. exists X. reflexivity.
  - injection E as -> E. destruct (IH Y x y s t E) as [w Hw]; [lia|]. exists w. subst. reflexivity.
Qed.

Lemma app_cons_same_len {A} : forall (X Y : list A) x y s t,
  X ++ x :: s = Y ++ y :: t -> length X = length Y -> X = Y /\ x = y.
Proof.
  induction X as [|a X IH]; intros [|b Y] x y s t E Hl; simpl in *; try discriminate.
  - injection E as -> _. auto.
  - injection E as -> E. destruct (IH Y x y s t E) as [-> ->]; [lia|]. auto.
Qed.

Section Collect.
  Context {Dg : Type} (IF : smt_iface Dg) (kcmp : Dg -> Dg -> comparison).
  Hypothesis kcmp_spec : forall a b, kcmp a b = bits_compare (i_bits IF a) (i_bits IF b).
  Notation bits := (i_bits IF).
  Notation sum := (i_sum IF).

  Definition klt (a b : Dg) : Prop := bits_compare (bits a) (bits b) = Lt.
  Definition hd_lt (k : Dg) (m : list (Dg * bytes)) : Prop :=
    match m with [] => True | e :: _ => klt k (fst e) end.
  Fixpoint chain_lt (m : list (Dg * bytes)) : Prop :=
    match m with [] => True | e :: r => hd_lt (fst e) r /\ chain_lt r end.

  Definition ent (e : Dg * bytes) : key * Dg := (bits (fst e), sum (snd e)).

  Notation bt_insert := (bt_insert kcmp).
  Notation bt_collect := (bt_collect kcmp).

  Lemma bt_insert_hd k0 : forall m k v, hd_lt k0 m -> klt k0 k -> hd_lt k0 (bt_insert m k v).
  Proof.
    intros [|[k' v'] r] k v Hm Hk; [exact Hk|]. cbn [SparseModel.bt_insert]. destruct (kcmp k k'); simpl; auto.
  Qed.

  Lemma bt_insert_chain : forall m k v, chain_lt m -> chain_lt (bt_insert m k v).
  Proof.
    induction m as [|[k' v'] r IH]; intros k v Hc.
    - simpl. auto.
    - cbn [SparseModel.bt_insert]. destruct Hc as [Hh Hr]. destruct (kcmp k k') eqn:E; rewrite kcmp_spec in E.
      + apply bc_eq in E. cbn [chain_lt fst]. split; [|exact Hr].
        destruct r as [|e r]; [exact I|]. unfold hd_lt, klt in *. cbn [fst] in *. rewrite E. exact Hh.
      + cbn [chain_lt fst]. split; [exact E|]. split; assumption.
      + cbn [chain_lt fst]. split; [|apply IH; exact Hr]. apply bt_insert_hd; [exact Hh|]. apply bc_gt_lt. exact E.
  Qed.

  Lemma bt_collect_chain set : chain_lt (bt_collect set).
  Proof.
    unfold SparseModel.bt_collect. assert (chain_lt []) as H by exact I. revert H. generalize (@nil (Dg * bytes)).
    induction set as [|e set IH]; intros acc H; [exact H|]. cbn [fold_left]. apply IH. apply bt_insert_chain. exact H.
  Qed.

  Lemma m_get_bt_insert : forall m k v q,
    m_get (map ent (bt_insert m k v)) q = if key_eqb (bits k) q then Some (sum v) else m_get (map ent m) q.
  Proof.
    induction m as [|[k' v'] r IH]; intros k v q; [reflexivity|].
    cbn [SparseModel.bt_insert]. destruct (kcmp k k') eqn:E; rewrite kcmp_spec in E.
    - apply bc_eq in E. cbn [map ent fst snd m_get]. rewrite <- E. destruct (key_eqb (bits k) q); reflexivity.
    - reflexivity.
    - cbn [map ent fst snd m_get]. rewrite IH. destruct (key_eqb (bits k') q) eqn:E1; [|reflexivity].
      destruct (key_eqb (bits k) q) eqn:E2; [|reflexivity].
      apply key_eqb_eq in E1. apply key_eqb_eq in E2. rewrite E2, <- E1, bc_refl in E. discriminate.
  Qed.

  Lemma m_get_bt_collect set q :
    m_get (map ent (bt_collect set)) q = m_get (map_of_list (map ent set)) q.
  Proof.
    unfold SparseModel.bt_collect, map_of_list.
    assert (forall q, m_get (map ent []) q = m_get (@nil (key * Dg)) q) as H by reflexivity.
    revert q. revert H. generalize (@nil (Dg * bytes)) (@nil (key * Dg)).
    induction set as [|e set IH]; intros a1 a2 H q; [apply H|].
    cbn [fold_left map]. apply IH. intros q'. rewrite m_get_bt_insert, m_get_m_set. cbn [ent fst snd].
    destruct (key_eqb (bits (fst e)) q'); [reflexivity | apply H].
  Qed.

  Lemma bt_insert_forall (Pp : Dg * bytes -> Prop) : forall m k v, Forall Pp m -> Pp (k, v) -> Forall Pp (bt_insert m k v).
  Proof.
    induction m as [|[k' v'] r IH]; intros k v Hm Hk; [constructor; auto|].
    cbn [SparseModel.bt_insert]. inversion Hm; subst. destruct (kcmp k k'); constructor; auto.
  Qed.

  Lemma bt_collect_forall (Pp : Dg * bytes -> Prop) set : Forall Pp set -> Forall Pp (bt_collect set).
  Proof.
    unfold SparseModel.bt_collect. assert (Forall Pp []) as H by constructor. revert H. generalize (@nil (Dg * bytes)).
    induction set as [|e set IH]; intros acc H Hs; [exact H|]. inversion Hs; subst. cbn [fold_left]. apply IH; [|assumption].
    apply bt_insert_forall; [exact H|]. destruct e; assumption.
  Qed.

  Lemma chain_lt_adj : forall X e e' Y, chain_lt (X ++ e :: e' :: Y) -> klt (fst e) (fst e').
  Proof.
    induction X as [|x X IH]; intros e e' Y H.
    - destruct H as [H _]. exact H.
    - destruct H as [_ H]. eapply IH; eauto.
  Qed.
End Collect.
