(* Merkle/SparseDelete.v — MerkleTree::delete (path_set + delete_with_path_set) of the L1
   model refines c_delete of the functional tree and preserves the storage invariant. *)
From Coq Require Import Arith.
From FV Require Import Base.Bytes Merkle.SparseSpec Merkle.SparseFun Merkle.SparseModel
  Merkle.SparseProofs Merkle.SparseRefine Merkle.SparseTree Merkle.SparseExt Merkle.SparseInsert.
Open Scope N_scope.

(* ---------------------------------------------------------------- list lemmas about Iterator::find *)
Lemma find_rest_skip {A} (p : A -> bool) : forall (z l : list A),
  Forall (fun x => p x = false) z -> find_rest p (z ++ l) = find_rest p l.
Proof.
  induction z as [|x z IH]; intros l H; [reflexivity|]. inversion H; subst.
  cbn [app find_rest]. rewrite H2. apply IH. assumption.
Qed.
Lemma find_rest_none {A} (p : A -> bool) : forall (z : list A),
  Forall (fun x => p x = false) z -> find_rest p z = (None, []).
Proof.
  induction z as [|x z IH]; intros H; [reflexivity|]. inversion H; subst.
  cbn [find_rest]. rewrite H2. apply IH. assumption.
Qed.

Section Delete.
  Context {Dg : Type} (IF : smt_iface Dg).
  Notation dg_eqb := (i_eqb IF).
  Notation zero := (i_zero IF).
  Notation hleaf := (i_hleaf IF).
  Notation hnode := (i_hnode IF).
  Notation sum := (i_sum IF).
  Notation kbit := (i_kbit IF).
  Notation kcpl := (i_kcpl IF).
  Notation bits := (i_bits IF).
  Notation of_bits := (i_of_bits IF).
  Let dg_eqb_spec := i_eqb_spec IF.
  Let of_bits_bits := i_of_bits_bits IF.
  Let bits_of_bits := i_bits_of_bits IF.
  Let Hok := i_hash_ok IF.
  Notation shleaf := (shleaf hleaf of_bits).
  Notation root := (c_root zero shleaf hnode).
  Notation ctree := (@ctree Dg).
  Notation node := (@node Dg).
  Notation store := (@store Dg).
  Notation sget := (sget dg_eqb).
  Notation sset := (sset dg_eqb).
  Notation sdel := (sdel dg_eqb).
  Notation node_hash := (node_hash zero).
  Notation prim_of_node := (prim_of_node zero).
  Notation node_of_prim := (node_of_prim hleaf hnode).
  Notation node_of := (node_of IF).
  Notation stored := (stored IF).
  Notation store_node := (store_node dg_eqb zero).
  Notation levels := (levels IF).
  Notation path_nodes_td := (path_nodes_td IF).
  Notation tree_of := (tree_of IF).
  Notation has_dg := (has_dg IF).
  Notation at_ext := (at_ext IF).
  Notation new_parent := (new_parent dg_eqb zero hnode).

  (* ---------------------------------------------------------------- L2: delete = replace the terminal by CE and re-normalise *)
  Fixpoint plug_mk (ks : key) (t nt : ctree) {struct t} : ctree :=
    match t, ks with
    | CN l r, true :: ks' => mk_node l (plug_mk ks' r nt)
    | CN l r, false :: ks' => mk_node (plug_mk ks' l nt) r
    | _, _ => nt
    end.

  Lemma c_delete_plug : forall (t : ctree) ks d, cwf d t -> length ks = d ->
    c_delete ks t = plug_mk ks t (c_delete (term_ks ks t) (term_t ks t)).
  Proof.
    induction t as [|k0 v0|l IHl r IHr]; intros ks d Hc Hk; try reflexivity.
    destruct d; [destruct Hc|]. destruct ks as [|b ks]; [discriminate|]. injection Hk as Hk.
    destruct b; cbn [c_delete plug_mk term_ks term_t pick]; f_equal; [eapply IHr | eapply IHl]; eauto; apply Hc.
  Qed.

  Lemma plug_mk_id : forall (t : ctree) ks d, cwf d t -> length ks = d -> plug_mk ks t (term_t ks t) = t.
  Proof.
    induction t as [|k0 v0|l IHl r IHr]; intros ks d Hc Hk; try reflexivity.
    destruct d; [destruct Hc|]. destruct ks as [|b ks]; [discriminate|]. injection Hk as Hk.
    destruct Hc as [Hl [Hr Hm]].
    destruct b; cbn [plug_mk term_t pick]; [rewrite (IHr ks d) | rewrite (IHl ks d)]; auto.
  Qed.

  Lemma cwf_mk_node d (l r : ctree) : cwf d l -> cwf d r -> cwf (S d) (mk_node l r).
  Proof.
    intros Hl Hr. destruct l as [|kl vl|la lb], r as [|kr vr|ra rb]; cbn [mk_node cwf] in *; auto;
      try (simpl; lia); repeat split; auto.
  Qed.

  Lemma cwf_plug_mk nt : forall (t : ctree) ks d, cwf d t -> length ks = d ->
    cwf (length (term_ks ks t)) nt -> cwf d (plug_mk ks t nt).
  Proof.
    induction t as [|k0 v0|l IHl r IHr]; intros ks d Hc Hk Hnt.
    - simpl in *. congruence.
    - simpl in *. congruence.
    - destruct d; [destruct Hc|]. destruct ks as [|b ks]; [discriminate|]. injection Hk as Hk.
      destruct Hc as [Hl [Hr Hm]].
      destruct b; cbn [plug_mk term_ks pick] in *; apply cwf_mk_node; auto.
  Qed.

  (* deleting down to nothing: the subtree was a placeholder or a single leaf *)
  Lemma plug_mk_CE : forall (t : ctree) ks d, cwf d t -> length ks = d -> plug_mk ks t CE = CE ->
    match t with CN _ _ => False | _ => True end.
  Proof.
    induction t as [|k0 v0|l IHl r IHr]; intros ks d Hc Hk H; try exact I.
    destruct d; [destruct Hc|]. destruct ks as [|b ks]; [discriminate|]. injection Hk as Hk.
    destruct Hc as [Hl [Hr Hm]].
    destruct b; cbn [plug_mk] in H.
    - destruct l as [|kl vl|la lb]; [|destruct (plug_mk ks r CE); discriminate | destruct (plug_mk ks r CE); discriminate].
      destruct (plug_mk ks r CE) eqn:E; try discriminate.
      pose proof (IHr ks d Hr Hk E) as Hx. destruct r; [discriminate | discriminate | destruct Hx].
    - destruct r as [|kr vr|ra rb].
      + destruct (plug_mk ks l CE) eqn:E; try discriminate.
        pose proof (IHl ks d Hl Hk E) as Hx. destruct l; [discriminate | discriminate | destruct Hx].
      + destruct (plug_mk ks l CE); discriminate.
      + destruct (plug_mk ks l CE); discriminate.
  Qed.

  (* ---------------------------------------------------------------- the model's steps *)
  Definition dstepN (acc : node * store) (sp : Dg * node) : node * store :=
    let np := new_parent (fst acc) (fst sp) (snd sp) in (np, store_node (snd acc) np).

  Definition load (st : store) (h : Dg) : option node :=
    match sget st h with
    | Some p => match node_of_prim p with Ok n => Some n | Err _ => None end
    | None => None
    end.

  (* one level of the bottom-up rebuild of delete_with_path_set, uniformly *)
  Definition dstep (acc : node * store) (sp : Dg * node) : node * store :=
    if is_placeholder (fst acc) then
      match load (snd acc) (fst sp) with
      | Some nd => if is_leaf nd then (nd, snd acc) else dstepN acc sp
      | None => acc
      end
    else if is_leaf (fst acc) then (if dg_eqb (fst sp) zero then acc else dstepN acc sp)
    else dstepN acc sp.

  Definition grows (st0 st1 : store) : Prop :=
    forall (T : ctree) pre d, cwf d T -> (length pre + d = 256)%nat -> stored st0 pre T -> stored st1 pre T.
  Lemma grows_refl st : grows st st.
  Proof. intros T pre d _ _ H. exact H. Qed.
  Lemma grows_trans a b c : grows a b -> grows b c -> grows a c.
  Proof. intros H1 H2 T pre d Hc Hp H. eapply H2; eauto. Qed.
  Lemma grows_store_node st p (x : ctree) dx : x <> CE -> cwf dx x -> (length p + dx = 256)%nat ->
    grows st (store_node st (node_of p x)).
  Proof. intros Hn Hc Hp T pre d HcT HpT H. eapply (stored_store_node IF); eauto. Qed.

  Lemma load_stored st pre (t : ctree) : stored st pre t -> t <> CE -> load st (root pre t) = Some (node_of pre t).
  Proof.
    intros Hs Hn. unfold load. rewrite (stored_get IF st pre t Hs Hn). rewrite (node_of_prim_node_of IF) by exact Hn. reflexivity.
  Qed.

  (* side subtrees along the path are stored *)
  Fixpoint sides_stored (st : store) (pre ks : key) (t : ctree) {struct t} : Prop :=
    match t, ks with
    | CN l r, b :: ks' => stored st (pre ++ [negb b]) (pick (negb b) l r) /\ sides_stored st (pre ++ [b]) ks' (pick b l r)
    | _, _ => True
    end.

  (* ---------------------------------------------------------------- the rebuild, top-down *)
  Lemma up_delete (st0 : store) : forall (t : ctree) pre ks d,
    cwf d t -> (length pre + d = 256)%nat -> length ks = d -> sides_stored st0 pre ks t ->
    exists st1, fold_right (fun sp acc => dstep acc sp) (Placeholder, st0) (levels pre ks t)
                = (node_of pre (plug_mk ks t CE), st1) /\
                stored st1 pre (plug_mk ks t CE) /\ grows st0 st1.
  Proof.
    induction t as [|k0 v0|l IHl r IHr]; intros pre ks d Hc Hp Hk Hss.
    - exists st0. cbn. split; [reflexivity|]. split; [exact I | apply grows_refl].
    - exists st0. cbn. split; [reflexivity|]. split; [exact I | apply grows_refl].
    - destruct d; [destruct Hc|]. destruct ks as [|b ks]; [discriminate|]. injection Hk as Hk.
      assert (length (pre ++ [b]) + d = 256)%nat as Hp' by (rewrite app_length; simpl; lia).
      assert (length (pre ++ [negb b]) + d = 256)%nat as Hp'' by (rewrite app_length; simpl; lia).
      cbn [SparseTree.levels fold_right sides_stored] in *. destruct Hss as [HsS Hss'].
      pose proof (cwf_child d l r b Hc) as Hcc. pose proof (cwf_child d l r (negb b) Hc) as HcS.
      assert (exists st1,
                fold_right (fun sp acc => dstep acc sp) (Placeholder, st0) (levels (pre ++ [b]) ks (pick b l r))
                = (node_of (pre ++ [b]) (plug_mk ks (pick b l r) CE), st1) /\
                stored st1 (pre ++ [b]) (plug_mk ks (pick b l r) CE) /\ grows st0 st1) as [st1 [E1 [Hs1 Hg1]]].
      { destruct b; cbn [pick] in *; [eapply IHr | eapply IHl]; eauto. }
      rewrite E1.
      set (sub := pick b l r) in *. set (S := pick (negb b) l r) in *. set (sub' := plug_mk ks sub CE) in *.
      assert (cwf d sub') as Hcs' by (apply cwf_plug_mk; auto; exact I).
      assert (plug_mk (b :: ks) (CN l r) CE = if b then mk_node S sub' else mk_node sub' S) as Epl
        by (unfold sub', sub, S; destruct b; reflexivity).
      rewrite Epl.
      assert (stored st1 (pre ++ [negb b]) S) as HsS1 by (eapply Hg1; eauto).
      assert (mk_node l r = CN l r) as Hm by apply Hc.
      (* the node written when the level does not collapse *)
      assert (forall x, new_parent (node_of (pre ++ [b]) x) (root (pre ++ [negb b]) S) (node_of pre (CN l r))
                        = node_of pre (if b then CN S x else CN x S)) as Hnp.
      { intros x. unfold S. rewrite (new_parent_node_of IF pre d l r b x Hc Hp). destruct b; reflexivity. }
      assert (forall newt, newt = (if b then CN S sub' else CN sub' S) -> cwf (Datatypes.S d) newt ->
                exists st2, dstepN (node_of (pre ++ [b]) sub', st1) (root (pre ++ [negb b]) S, node_of pre (CN l r))
                            = (node_of pre newt, st2) /\ stored st2 pre newt /\ grows st0 st2) as HN.
      { intros newt En Hcn. unfold dstepN. cbn [fst snd]. rewrite Hnp, <- En.
        assert (newt <> CE) as Hnn by (rewrite En; destruct b; discriminate).
        eexists. split; [reflexivity|]. split.
        - assert (sget (store_node st1 (node_of pre newt)) (root pre newt) = Some (prim_of_node (node_of pre newt))) as Hn
            by (unfold SparseModel.store_node; rewrite (node_hash_node_of IF); apply (sget_sset_eq IF)).
          pose proof (stored_store_node IF st1 pre newt (Datatypes.S d) Hnn Hcn Hp sub' (pre ++ [b]) d Hcs' Hp' Hs1) as H1.
          pose proof (stored_store_node IF st1 pre newt (Datatypes.S d) Hnn Hcn Hp S (pre ++ [negb b]) d HcS Hp'' HsS1) as H2.
          rewrite En in *. destruct b; cbn [negb SparseTree.stored] in *; auto.
        - eapply grows_trans; [exact Hg1|]. apply (grows_store_node st1 pre newt (Datatypes.S d)); auto. }
      unfold dstep. cbn [fst snd].
      set (nP := node_of pre (CN l r)) in *.
      destruct sub' as [|k v|sa sb] eqn:Esub.
      + (* nothing left below: the sibling is looked up *)
        cbn [SparseTree.node_of is_placeholder].
        assert (S <> CE) as HSn.
        { pose proof (plug_mk_CE sub ks d Hcc Hk Esub) as Hx. unfold sub, S in *.
          destruct b; cbn [pick negb] in *; intros E; rewrite E in Hm.
          - destruct r; [discriminate | discriminate | destruct Hx].
          - destruct l; [discriminate | discriminate | destruct Hx]. }
        rewrite (load_stored st1 (pre ++ [negb b]) S HsS1 HSn).
        destruct S as [|ks' vs|Sa Sb] eqn:ES; [contradiction | |].
        * cbn [SparseTree.node_of is_leaf node_prefix prefix_eqb orb].
          exists st1. split; [|split; [|exact Hg1]].
          -- f_equal. destruct b; cbn [mk_node negb]; apply node_of_leaf_eq; rewrite app_snoc_assoc; reflexivity.
          -- destruct b; cbn [mk_node negb] in *; eapply stored_leaf_move; try exact HsS1; rewrite app_snoc_assoc; reflexivity.
        * cbn [SparseTree.node_of is_leaf node_prefix prefix_eqb is_placeholder orb].
          change Placeholder with (node_of (pre ++ [b]) (@CE Dg)).
          destruct (HN (if b then CN (CN Sa Sb) CE else CN CE (CN Sa Sb))) as [st2 [E2 [Hs2 Hg2]]]; [reflexivity | |].
          { destruct b; cbn [cwf]; repeat split; auto. }
          exists st2. rewrite E2. destruct b; cbn [mk_node]; auto.
      + (* a lone leaf is rising *)
        cbn [SparseTree.node_of is_placeholder is_leaf node_prefix prefix_eqb orb].
        destruct S as [|ks' vs|Sa Sb] eqn:ES.
        * cbn [c_root]. rewrite (dg_refl IF). exists st1. split; [|split; [|exact Hg1]].
          -- f_equal. change (Node (hleaf (of_bits ((pre ++ [b]) ++ k)) v) 0 PfxLeaf (of_bits ((pre ++ [b]) ++ k)) v)
               with (node_of (pre ++ [b]) (CL k v)).
             destruct b; cbn [mk_node]; apply node_of_leaf_eq; rewrite app_snoc_assoc; reflexivity.
          -- destruct b; cbn [mk_node] in *; eapply stored_leaf_move; try exact Hs1; rewrite app_snoc_assoc; reflexivity.
        * rewrite (dg_neq IF) by (apply (root_nonzero IF); discriminate).
          change (Node (hleaf (of_bits ((pre ++ [b]) ++ k)) v) 0 PfxLeaf (of_bits ((pre ++ [b]) ++ k)) v)
            with (node_of (pre ++ [b]) (CL k v)).
          destruct (HN (if b then CN (CL ks' vs) (CL k v) else CN (CL k v) (CL ks' vs))) as [st2 [E2 [Hs2 Hg2]]]; [reflexivity | |].
          { destruct b; cbn [cwf] in *; repeat split; auto. }
          exists st2. rewrite E2. destruct b; cbn [mk_node]; auto.
        * rewrite (dg_neq IF) by (apply (root_nonzero IF); discriminate).
          change (Node (hleaf (of_bits ((pre ++ [b]) ++ k)) v) 0 PfxLeaf (of_bits ((pre ++ [b]) ++ k)) v)
            with (node_of (pre ++ [b]) (CL k v)).
          destruct (HN (if b then CN (CN Sa Sb) (CL k v) else CN (CL k v) (CN Sa Sb))) as [st2 [E2 [Hs2 Hg2]]]; [reflexivity | |].
          { destruct b; cbn [cwf] in *; repeat split; auto. }
          exists st2. rewrite E2. destruct b; cbn [mk_node]; auto.
      + (* an inner node below *)
        cbn [SparseTree.node_of is_placeholder is_leaf node_prefix prefix_eqb orb].
        change (Node (hnode (root ((pre ++ [b]) ++ [false]) sa) (root ((pre ++ [b]) ++ [true]) sb)) (height_at (pre ++ [b])) PfxNode
                     (root ((pre ++ [b]) ++ [false]) sa) (root ((pre ++ [b]) ++ [true]) sb))
          with (node_of (pre ++ [b]) (CN sa sb)).
        destruct (HN (if b then CN S (CN sa sb) else CN (CN sa sb) S)) as [st2 [E2 [Hs2 Hg2]]]; [reflexivity | |].
        { destruct b; cbn [cwf]; (split; [|split]); auto using mk_node_CN_r, mk_node_CN_l. }
        exists st2. rewrite E2. destruct b; [rewrite mk_node_CN_r | rewrite mk_node_CN_l]; auto.
  Qed.

  (* ---------------------------------------------------------------- the model's control flow is that fold *)
  Notation delete_with_path_set := (delete_with_path_set dg_eqb zero hleaf hnode).
  Definition match_side (s : Dg) (n : node) : bool := dg_eqb (bytes_lo zero n) s || dg_eqb (bytes_hi zero n) s.
  Definition nzb (s : Dg) : bool := negb (dg_eqb s zero).

  Definition finish (cur : node) (st : store) (sides : list Dg) (pars : list node) : @tree Dg * res unit :=
    let '(c, s) := fold_left dstepN (combine sides pars) (cur, st) in (mkTree c s, Ok tt).

  Lemma delete_unfold t actual (RL : list (Dg * node)) :
    delete_with_path_set t (actual :: map snd RL) (map fst RL) =
    let st := fold_left (fun s n => sdel s (node_hash n)) (actual :: map snd RL) (t_store t) in
    match RL with
    | [] => finish Placeholder st [] []
    | (s1, n1) :: RL' =>
        match sget st s1 with
        | None => (mkTree (t_root t) st, Err ELoadError)
        | Some p =>
            match node_of_prim p with
            | Err e => (mkTree (t_root t) st, Err e)
            | Ok fs =>
                if is_leaf fs then
                  match find_rest nzb (map fst RL') with
                  | (Some side, sides') =>
                      match find_rest (match_side side) (map snd RL) with
                      | (Some op, pars') => let np := new_parent fs side op in finish np (store_node st np) sides' pars'
                      | (None, pars') => finish fs st sides' pars'
                      end
                  | (None, sides') => finish fs st sides' (map snd RL)
                  end
                else finish Placeholder st (map fst RL) (map snd RL)
            end
        end
    end.
  Proof. destruct RL as [|[s1 n1] RL']; reflexivity. Qed.

  Lemma new_parent_is_node cur s n : is_placeholder (new_parent cur s n) = false /\ is_leaf (new_parent cur s n) = false.
  Proof. unfold SparseModel.new_parent. destruct (dg_eqb (bytes_lo zero n) s); split; reflexivity. Qed.

  Lemma fold_dstep_node : forall (X : list (Dg * node)) cur st,
    is_placeholder cur = false -> is_leaf cur = false ->
    fold_left dstep X (cur, st) = fold_left dstepN X (cur, st).
  Proof.
    induction X as [|sp X IH]; intros cur st Hp Hl; [reflexivity|].
    cbn [fold_left]. unfold dstep at 2. cbn [fst snd]. rewrite Hp, Hl.
    destruct (dstepN (cur, st) sp) as [c' s'] eqn:E. unfold dstepN in E. cbn [fst snd] in E. injection E as <- <-.
    apply IH; apply new_parent_is_node.
  Qed.

  Lemma fold_dstep_rise : forall (Z : list (Dg * node)) cur st,
    is_placeholder cur = false -> is_leaf cur = true -> Forall (fun sp => fst sp = zero) Z ->
    fold_left dstep Z (cur, st) = (cur, st).
  Proof.
    induction Z as [|sp Z IH]; intros cur st Hp Hl HZ; [reflexivity|]. inversion HZ; subst.
    cbn [fold_left]. unfold dstep at 2. cbn [fst snd]. rewrite Hp, Hl, H1, (dg_refl IF). apply IH; auto.
  Qed.

  Lemma zero_run : forall (X : list (Dg * node)),
    Forall (fun sp => fst sp = zero) X \/
    exists Z s n X', X = Z ++ (s, n) :: X' /\ Forall (fun sp => fst sp = zero) Z /\ s <> zero.
  Proof.
    induction X as [|[s n] X IH]; [left; constructor|].
    destruct (dg_eqb s zero) eqn:E.
    - apply dg_eqb_spec in E. subst s. destruct IH as [IH|[Z [s' [n' [X' [E1 [HZ Hs]]]]]]].
      + left. constructor; auto.
      + right. exists ((zero, n) :: Z), s', n', X'. subst X. repeat split; auto.
    - right. exists [], s, n, X. repeat split; auto. intros E'. subst s. rewrite (dg_refl IF) in E. discriminate.
  Qed.

  Lemma delete_tail t (st : store) actual (RL : list (Dg * node)) :
    fold_left (fun s n => sdel s (node_hash n)) (actual :: map snd RL) (t_store t) = st ->
    (forall s1 n1 RL', RL = (s1, n1) :: RL' ->
       exists fs, load st s1 = Some fs /\ is_placeholder fs = false) ->
    (forall s1 n1 Z s n RL'', RL = (s1, n1) :: Z ++ (s, n) :: RL'' -> Forall (fun sp => fst sp = zero) Z -> s <> zero ->
       match_side s n = true /\ match_side s n1 = false /\ Forall (fun sp => match_side s (snd sp) = false) Z) ->
    delete_with_path_set t (actual :: map snd RL) (map fst RL) =
    (let '(c, s) := fold_left dstep RL (Placeholder, st) in (mkTree c s, Ok tt)).
  Proof.
    intros Est Hload Halign. rewrite delete_unfold. cbv zeta. rewrite Est.
    destruct RL as [|[s1 n1] RL'].
    - reflexivity.
    - destruct (Hload s1 n1 RL' eq_refl) as [fs [Hl Hnp]]. pose proof Hl as Hl'. unfold load in Hl'.
      destruct (sget st s1) as [p|] eqn:Esg; [|discriminate]. destruct (node_of_prim p) as [fs'|] eqn:Enp; [|discriminate].
      injection Hl' as ->. cbn [fold_left]. unfold dstep at 2. cbn [fst snd is_placeholder].
      rewrite Hl.
      destruct (is_leaf fs) eqn:Elf.
      + destruct (zero_run RL') as [HZ|[Z [s [n [RL'' [E [HZ Hs]]]]]]].
        * rewrite find_rest_none.
          2:{ apply Forall_map. eapply Forall_impl; [|exact HZ]. intros sp H. cbn in H. unfold nzb. rewrite H, (dg_refl IF). reflexivity. }
          unfold finish. cbn [combine fold_left]. rewrite fold_dstep_rise; auto.
        * subst RL'. destruct (Halign s1 n1 Z s n RL'' eq_refl HZ Hs) as [Hm [Hn1 HnZ]].
          rewrite map_app. cbn [map fst].
          rewrite find_rest_skip.
          2:{ apply Forall_map. eapply Forall_impl; [|exact HZ]. intros sp H. cbn in H. unfold nzb. rewrite H, (dg_refl IF). reflexivity. }
          cbn [map snd]. rewrite (map_app snd). cbn [map snd].
          cbn [find_rest]. unfold nzb at 1. rewrite (dg_neq IF s zero Hs). cbn [negb]. rewrite Hn1.
          rewrite find_rest_skip by (apply Forall_map; exact HnZ).
          cbn [find_rest]. rewrite Hm. cbv zeta. unfold finish. rewrite combine_fst_snd.
          rewrite fold_left_app. rewrite fold_dstep_rise; auto. cbn [fold_left].
          assert (dstep (fs, st) (s, n) = (new_parent fs s n, store_node st (new_parent fs s n))) as ->
            by (unfold dstep, dstepN; cbn [fst snd]; rewrite Hnp, Elf, (dg_neq IF s zero Hs); reflexivity).
          rewrite fold_dstep_node by apply new_parent_is_node. reflexivity.
      + unfold finish. rewrite combine_fst_snd. cbn [fold_left].
        assert (dstepN (Placeholder, st) (s1, n1) = (new_parent Placeholder s1 n1, store_node st (new_parent Placeholder s1 n1))) as ->
          by reflexivity.
        rewrite fold_dstep_node by apply new_parent_is_node. reflexivity.
  Qed.

  (* ---------------------------------------------------------------- facts about the levels of a tree *)
  Definition below (P : key) (n : node) : Prop :=
    exists a (l r : ctree) d, n = node_of (P ++ a) (CN l r) /\ cwf d (CN l r) /\ (length (P ++ a) + d = 256)%nat.

  Lemma levels_below : forall (t : ctree) pre ks d, cwf d t -> (length pre + d = 256)%nat -> length ks = d ->
    Forall (fun sp => below pre (snd sp)) (levels pre ks t).
  Proof.
    induction t as [|k0 v0|l IHl r IHr]; intros pre ks d Hc Hp Hk; try constructor.
    destruct d; [destruct Hc|]. destruct ks as [|b ks]; [constructor|]. injection Hk as Hk.
    cbn [SparseTree.levels]. constructor.
    - cbn [snd]. exists [], l, r, (S d). rewrite app_nil_r. auto.
    - assert (Forall (fun sp => below (pre ++ [b]) (snd sp)) (levels (pre ++ [b]) ks (pick b l r))) as H.
      { destruct b; cbn [pick]; [eapply IHr | eapply IHl]; eauto; try apply Hc; rewrite app_length; simpl; lia. }
      eapply Forall_impl; [|exact H]. intros sp [a [l' [r' [d' [E [Hc' Hp']]]]]].
      exists (b :: a), l', r', d'. rewrite <- app_snoc_assoc. auto.
  Qed.

  Lemma child_ne_side pre b (S : ctree) d A c (x : ctree) dx a :
    cwf d S -> (length (pre ++ [negb b]) + d = 256)%nat -> S <> CE ->
    A = (pre ++ [b]) ++ a -> cwf dx x -> (length (A ++ [c]) + dx = 256)%nat ->
    root (A ++ [c]) x <> root (pre ++ [negb b]) S.
  Proof.
    intros HcS HpS HnS EA Hcx Hpx E.
    destruct x as [|kx vx|xa xb] eqn:Ex.
    - symmetry in E. apply (root_nonzero IF) in E; auto.
    - rewrite <- Ex in *. assert (x <> CE) as Hnx by (rewrite Ex; discriminate).
      pose proof (at_ext_root IF (A ++ [c]) x dx Hnx Hcx Hpx) as A1.
      pose proof (at_ext_root IF (pre ++ [negb b]) S d HnS HcS HpS) as A2. rewrite <- E in A2.
      pose proof (at_ext_unique IF _ _ _ A1 A2) as X.
      destruct (ext_prefix (A ++ [c]) x) as [q Hq]. destruct (ext_prefix (pre ++ [negb b]) S) as [q' Hq'].
      rewrite Hq, Hq', EA in X. rewrite <- !app_assoc in X. cbn [app] in X. apply (branch_neq pre b _ _ X).
    - rewrite <- Ex in *. assert (x <> CE) as Hnx by (rewrite Ex; discriminate).
      pose proof (at_ext_root IF (A ++ [c]) x dx Hnx Hcx Hpx) as A1.
      pose proof (at_ext_root IF (pre ++ [negb b]) S d HnS HcS HpS) as A2. rewrite <- E in A2.
      pose proof (at_ext_unique IF _ _ _ A1 A2) as X.
      destruct (ext_prefix (A ++ [c]) x) as [q Hq]. destruct (ext_prefix (pre ++ [negb b]) S) as [q' Hq'].
      rewrite Hq, Hq', EA in X. rewrite <- !app_assoc in X. cbn [app] in X. apply (branch_neq pre b _ _ X).
  Qed.

  Lemma no_match pre b (S : ctree) d n :
    cwf d S -> (length (pre ++ [negb b]) + d = 256)%nat -> S <> CE -> below (pre ++ [b]) n ->
    match_side (root (pre ++ [negb b]) S) n = false.
  Proof.
    intros HcS HpS HnS [a [l' [r' [d' [En [Hc' Hp']]]]]]. subst n.
    unfold match_side. cbn [SparseTree.node_of bytes_lo bytes_hi].
    destruct d'; [destruct Hc'|]. destruct Hc' as [Hl' [Hr' _]].
    rewrite !(dg_neq IF); [reflexivity | |].
    - apply (child_ne_side pre b S d _ true r' d' a); auto. rewrite app_length. simpl. lia.
    - apply (child_ne_side pre b S d _ false l' d' a); auto. rewrite app_length. simpl. lia.
  Qed.

  Lemma levels_match : forall (t : ctree) pre ks d, cwf d t -> (length pre + d = 256)%nat -> length ks = d ->
    forall L1 s n L2, levels pre ks t = L1 ++ (s, n) :: L2 -> s <> zero ->
      match_side s n = true /\ Forall (fun sp => match_side s (snd sp) = false) L2.
  Proof.
    induction t as [|k0 v0|l IHl r IHr]; intros pre ks d Hc Hp Hk L1 s n L2 E Hs.
    - destruct L1; discriminate.
    - destruct L1; discriminate.
    - destruct d; [destruct Hc|]. destruct ks as [|b ks]; [destruct L1; discriminate|]. injection Hk as Hk.
      assert (length (pre ++ [b]) + d = 256)%nat as Hp' by (rewrite app_length; simpl; lia).
      assert (length (pre ++ [negb b]) + d = 256)%nat as Hp'' by (rewrite app_length; simpl; lia).
      cbn [SparseTree.levels] in E. destruct L1 as [|e L1].
      + cbn [app] in E. injection E as Es En EL. subst s n L2. split.
        * unfold match_side. cbn [SparseTree.node_of bytes_lo bytes_hi].
          destruct b; cbn [negb pick]; rewrite (dg_refl IF); [reflexivity | apply orb_true_r].
        * assert (pick (negb b) l r <> CE) as HnS.
          { intros E0. apply Hs. rewrite E0. reflexivity. }
          pose proof (levels_below (pick b l r) (pre ++ [b]) ks d (cwf_child d l r b Hc) Hp' Hk) as HB.
          eapply Forall_impl; [|exact HB]. intros sp Hb.
          apply (no_match pre b (pick (negb b) l r) d); auto. apply cwf_child. exact Hc.
      + cbn [app] in E. injection E as _ E.
        destruct b; cbn [pick] in E.
        * apply (IHr (pre ++ [true]) ks d (proj1 (proj2 Hc)) Hp' Hk L1 s n L2 E Hs).
        * apply (IHl (pre ++ [false]) ks d (proj1 Hc) Hp' Hk L1 s n L2 E Hs).
  Qed.

  Lemma last_level_load st : forall (t : ctree) pre ks d, cwf d t -> (length pre + d = 256)%nat -> length ks = d ->
    sides_stored st pre ks t ->
    forall L' s1 n1, levels pre ks t = L' ++ [(s1, n1)] ->
      exists fs, load st s1 = Some fs /\ is_placeholder fs = false.
  Proof.
    induction t as [|k0 v0|l IHl r IHr]; intros pre ks d Hc Hp Hk Hss L' s1 n1 E.
    - destruct L'; discriminate.
    - destruct L'; discriminate.
    - destruct d; [destruct Hc|]. destruct ks as [|b ks]; [destruct L'; discriminate|]. injection Hk as Hk.
      assert (length (pre ++ [b]) + d = 256)%nat as Hp' by (rewrite app_length; simpl; lia).
      cbn [SparseTree.levels sides_stored] in *. destruct Hss as [HsS Hss'].
      destruct (levels (pre ++ [b]) ks (pick b l r)) as [|e LC] eqn:ELC.
      + (* the path child is the terminal *)
        destruct L' as [|x L'']; [|destruct L''; discriminate]. cbn [app] in E. injection E as Es En. subst s1 n1.
        assert (pick (negb b) l r <> CE) as HnS.
        { pose proof Hc as [Hl [Hr Hm]]. intros E0.
          assert (match pick b l r with CN _ _ => False | _ => True end) as Hterm.
          { destruct (pick b l r) as [| |ca cb] eqn:Ep; try exact I.
            pose proof (cwf_child d l r b (conj Hl (conj Hr Hm))) as Hcc. rewrite Ep in Hcc.
            destruct d; [destruct Hcc|]. destruct ks as [|b2 ks]; [discriminate|].
            cbn [SparseTree.levels] in ELC. discriminate. }
          destruct b; cbn [pick negb] in *; rewrite E0 in Hm.
          - destruct r; [discriminate | discriminate | destruct Hterm].
          - destruct l; [discriminate | discriminate | destruct Hterm]. }
        exists (node_of (pre ++ [negb b]) (pick (negb b) l r)). split; [apply load_stored; auto|].
        destruct (pick (negb b) l r); [contradiction | reflexivity | reflexivity].
      + destruct L' as [|x L'']; [discriminate|]. cbn [app] in E. injection E as _ E.
        rewrite <- ELC in E.
        destruct b; cbn [pick] in *.
        * apply (IHr (pre ++ [true]) ks d (proj1 (proj2 Hc)) Hp' Hk Hss' L'' s1 n1 E).
        * apply (IHl (pre ++ [false]) ks d (proj1 Hc) Hp' Hk Hss' L'' s1 n1 E).
  Qed.

  (* ---------------------------------------------------------------- the initial removals *)
  Definition on_path (K : key) (h : Dg) : Prop := h = zero \/ exists x y, at_ext h x /\ K = x ++ y.

  Lemma sget_fold_sdel : forall (hs : list Dg) (st : store) h,
    Forall (fun x => x <> h) hs -> sget (fold_left (fun s x => sdel s x) hs st) h = sget st h.
  Proof.
    induction hs as [|x hs IH]; intros st h H; [reflexivity|]. inversion H; subst.
    cbn [fold_left]. rewrite IH by assumption. apply (sget_sdel_neq IF). assumption.
  Qed.

  Lemma sides_stored_sdel hs : forall (t : ctree) pre ks d st,
    cwf d t -> (length pre + d = 256)%nat -> length ks = d -> stored st pre t ->
    Forall (on_path (pre ++ ks)) hs ->
    sides_stored (fold_left (fun s x => sdel s x) hs st) pre ks t.
  Proof.
    induction t as [|k0 v0|l IHl r IHr]; intros pre ks d st Hc Hp Hk Hs Hon; try exact I.
    destruct d; [destruct Hc|]. destruct ks as [|b ks]; [exact I|]. injection Hk as Hk.
    assert (length (pre ++ [b]) + d = 256)%nat as Hp' by (rewrite app_length; simpl; lia).
    assert (length (pre ++ [negb b]) + d = 256)%nat as Hp'' by (rewrite app_length; simpl; lia).
    cbn [sides_stored]. split.
    - apply (stored_frame IF st); [|apply (stored_child IF); exact Hs].
      intros h Hh. apply sget_fold_sdel. eapply Forall_impl; [|exact Hon].
      intros x [Hz|[ex [ey [Hax HK]]]] E; subst x.
      + eapply has_dg_nonzero; eauto.
      + destruct (has_dg_ext IF _ _ d h (cwf_child d l r (negb b) Hc) Hp'' Hh) as [q Hq].
        pose proof (at_ext_unique IF _ _ _ Hax Hq) as X. subst ex.
        rewrite <- !app_assoc in HK. cbn [app] in HK. apply (branch_neq pre b _ _ HK).
    - assert (Forall (on_path ((pre ++ [b]) ++ ks)) hs) as Hon' by (rewrite app_snoc_assoc; exact Hon).
      destruct b; cbn [pick]; [eapply IHr | eapply IHl]; eauto; try apply Hc; apply Hs.
  Qed.

  Lemma levels_on_path : forall (t : ctree) pre ks d, cwf d t -> (length pre + d = 256)%nat -> length ks = d ->
    Forall (fun sp => on_path (pre ++ ks) (node_hash (snd sp))) (levels pre ks t).
  Proof.
    induction t as [|k0 v0|l IHl r IHr]; intros pre ks d Hc Hp Hk; try constructor.
    destruct d; [destruct Hc|]. destruct ks as [|b ks]; [constructor|]. injection Hk as Hk.
    cbn [SparseTree.levels]. constructor.
    - cbn [snd]. right. exists pre, (b :: ks). split; [|reflexivity]. rewrite (node_hash_node_of IF).
      apply (at_ext_root IF pre (CN l r) (S d)); auto. discriminate.
    - rewrite <- app_snoc_assoc.
      destruct b; cbn [pick]; [eapply IHr | eapply IHl]; eauto; try apply Hc; rewrite app_length; simpl; lia.
  Qed.

  (* ---------------------------------------------------------------- assembling MerkleTree::delete *)
  Notation tree_delete := (tree_delete dg_eqb zero hleaf hnode kbit).
  Notation path_set := (path_set dg_eqb zero hleaf hnode kbit).

  Lemma fold_sdel_map (ns : list node) (st : store) :
    fold_left (fun s n => sdel s (node_hash n)) ns st = fold_left (fun s x => sdel s x) (map node_hash ns) st.
  Proof. revert st. induction ns as [|n ns IH]; intros st; [reflexivity|]. cbn [map fold_left]. apply IH. Qed.

  Theorem tree_delete_refines st (t : ctree) key :
    stored st [] t -> cwf 256 t -> length (bits key) = 256%nat ->
    exists st', tree_delete (tree_of st t) key = (tree_of st' (c_delete (bits key) t), Ok tt) /\
                stored st' [] (c_delete (bits key) t).
  Proof.
    intros Hs Hc Hk. set (ks := bits key).
    unfold SparseModel.tree_delete. unfold SparseModel.tree_root. unfold SparseTree.tree_of at 1. cbn [t_root].
    rewrite (node_hash_node_of IF).
    assert (t = CE \/ t <> CE) as [->|Hne] by (destruct t; [left; reflexivity | right; discriminate | right; discriminate]).
    - cbn [c_root]. rewrite (dg_refl IF). exists st. split; [reflexivity | exact I].
    - rewrite (dg_neq IF) by (apply (root_nonzero IF); exact Hne).
      rewrite (path_set_td IF st t key Hs Hc Hk). fold ks.
      rewrite (path_nodes_td_levels IF [] ks t 256 Hc Hk), rev_app_distr. cbn [rev app].
      pose proof (term_pre_ks [] ks t) as Hpk. cbn [app] in Hpk.
      pose proof (term_cwf ks t 256 Hc Hk) as Hct.
      pose proof (term_t_not_node ks t 256 Hc Hk) as Hnn.
      set (tp := term_pre [] ks t) in *. set (tks := term_ks ks t) in *. set (tt' := term_t ks t) in *.
      set (L := levels [] ks t) in *.
      assert (length (tp ++ tks) = 256%nat) as Hlen by (rewrite Hpk; exact Hk).
      (* does the model enter delete_with_path_set? *)
      assert ((dg_eqb (leaf_key zero (node_of tp tt')) key = false /\ c_delete tks tt' = tt') \/
              (dg_eqb (leaf_key zero (node_of tp tt')) key = true /\ c_delete tks tt' = CE /\
               on_path ks (node_hash (node_of tp tt')))) as Hcase.
      { destruct tt' as [|rest v0|] eqn:Ett; [| |destruct Hnn].
        - cbn [SparseTree.node_of SparseModel.leaf_key bytes_lo SparseModel.node_hash].
          destruct (dg_eqb zero key) eqn:Ez; [right | left]; repeat split; auto. left. reflexivity.
        - cbn [SparseTree.node_of SparseModel.leaf_key bytes_lo cwf] in *.
          destruct (key_eqb tks rest) eqn:Ek.
          + apply key_eqb_eq in Ek. subst rest. right. rewrite Hpk. unfold ks. rewrite of_bits_bits, (dg_refl IF).
            split; [reflexivity|]. split; [cbn [c_delete]; rewrite key_eqb_refl; reflexivity|].
            right. exists (tp ++ tks), []. rewrite app_nil_r. split; [|symmetry; exact Hpk].
            change (SparseModel.node_hash zero (Node (hleaf key v0) 0 PfxLeaf key v0)) with (hleaf key v0).
            assert (hleaf key v0 = root tp (CL tks v0)) as -> by (cbn [c_root]; unfold SparseRefine.shleaf; rewrite Hpk; unfold ks; rewrite of_bits_bits; reflexivity).
            apply (at_ext_root IF tp (CL tks v0) (length tks)); [discriminate | reflexivity | rewrite <- app_length; exact Hlen].
          + left. split; [|cbn [c_delete]; rewrite Ek; reflexivity].
            apply (dg_neq IF). intros E. apply key_eqb_neq in Ek. apply Ek.
            rewrite <- (of_bits_bits key) in E. apply (of_bits_inj IF) in E; auto.
            * fold ks in E. rewrite <- Hpk in E. apply app_inv_head in E. congruence.
            * rewrite app_length, Hct, <- app_length. exact Hlen. }
      destruct Hcase as [[Ek Edel]|[Ek [Edel Hon0]]]; rewrite Ek.
      + (* the key is absent: nothing changes *)
        exists st. assert (c_delete ks t = t) as ->.
        { rewrite (c_delete_plug t ks 256 Hc Hk). fold tks tt'. rewrite Edel. apply (plug_mk_id t ks 256 Hc Hk). }
        split; [reflexivity | exact Hs].
      + assert (c_delete ks t = plug_mk ks t CE) as Ecd
          by (rewrite (c_delete_plug t ks 256 Hc Hk); fold tks tt'; rewrite Edel; reflexivity).
        rewrite Ecd. rewrite <- !map_rev. set (RL := rev L).
        set (st' := fold_left (fun s n => sdel s (node_hash n)) (node_of tp tt' :: map snd RL) st).
        assert (sides_stored st' [] ks t) as Hss.
        { unfold st'. rewrite fold_sdel_map. apply (sides_stored_sdel _ t [] ks 256%nat st); auto.
          cbn [map app]. constructor; [exact Hon0|]. rewrite map_map. apply Forall_map. unfold RL. apply Forall_rev.
          apply (levels_on_path t [] ks 256%nat Hc eq_refl Hk). }
        rewrite (delete_tail (tree_of st t) st' (node_of tp tt') RL); [| reflexivity | |].
        * assert (forall init, fold_left dstep RL init = fold_right (fun sp acc => dstep acc sp) init L) as ->
            by (intros init; unfold RL; rewrite <- fold_left_rev_right, rev_involutive; reflexivity).
          destruct (up_delete st' t [] ks 256%nat Hc eq_refl Hk Hss) as [st1 [E1 [Hs1 _]]].
          fold L in E1. rewrite E1. exists st1. split; [reflexivity | exact Hs1].
        * intros s1 n1 RL' E. apply (last_level_load st' t [] ks 256%nat Hc eq_refl Hk Hss (rev RL') s1 n1).
          fold L. rewrite <- (rev_involutive L). fold RL. rewrite E. reflexivity.
        * intros s1 n1 Z s n RL'' E HZ Hsz.
          assert (L = rev RL'' ++ (s, n) :: (rev Z ++ [(s1, n1)])) as EL.
          { rewrite <- (rev_involutive L). fold RL. rewrite E. cbn [rev]. rewrite rev_app_distr. cbn [rev].
            rewrite <- !app_assoc. reflexivity. }
          destruct (levels_match t [] ks 256%nat Hc eq_refl Hk _ _ _ _ EL Hsz) as [Hm Hall].
          apply Forall_app in Hall as [HallZ Hall1]. inversion Hall1; subst.
          split; [exact Hm|]. split; [assumption|]. rewrite <- (rev_involutive Z). apply Forall_rev. exact HallZ.
  Qed.
End Delete.
