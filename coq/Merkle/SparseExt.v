(* Merkle/SparseExt.v — which digests live where.  Under collision-freeness the digest of a
   non-empty subtree of a compact tree determines its "extent": the position of an inner
   node, the full key of a leaf.  This gives the frame lemmas for the node store: writing
   the node of any well-formed subtree never invalidates a stored tree; removing a digest
   only matters for trees that contain a node with that extent. *)
From Coq Require Import Arith.
From FV Require Import Base.Bytes Merkle.SparseSpec Merkle.SparseFun Merkle.SparseModel
  Merkle.SparseProofs Merkle.SparseRefine Merkle.SparseTree.
Open Scope N_scope.

Section Ext.
  Context {Dg : Type} (IF : smt_iface Dg).
  Notation dg_eqb := (i_eqb IF).
  Notation zero := (i_zero IF).
  Notation hleaf := (i_hleaf IF).
  Notation hnode := (i_hnode IF).
  Notation bits := (i_bits IF).
  Notation of_bits := (i_of_bits IF).
  Let dg_eqb_spec := i_eqb_spec IF.
  Let Hok := i_hash_ok IF.
  Notation shleaf := (shleaf hleaf of_bits).
  Notation root := (c_root zero shleaf hnode).
  Notation ctree := (@ctree Dg).
  Notation node := (@node Dg).
  Notation store := (@store Dg).
  Notation sget := (sget dg_eqb).
  Notation sset := (sset dg_eqb).
  Notation sdel := (sdel dg_eqb).
  Notation node_hash := (node_hash zero).
  Notation prim_of_node := (prim_of_node zero).
  Notation node_of := (node_of IF).
  Notation stored := (stored IF).
  Notation store_node := (store_node dg_eqb zero).

  (* ---------------------------------------------------------------- the association-list store *)
  Lemma sget_sdel_eq (st : store) h : sget (sdel st h) h = None.
  Proof.
    induction st as [|[k p] st IH]; [reflexivity|]. cbn [SparseModel.sdel].
    destruct (dg_eqb k h) eqn:E; [exact IH|]. cbn [SparseModel.sget]. rewrite E. exact IH.
  Qed.
  Lemma sget_sdel_neq (st : store) h h' : h <> h' -> sget (sdel st h) h' = sget st h'.
  Proof.
    intros Hn. induction st as [|[k p] st IH]; [reflexivity|]. cbn [SparseModel.sdel SparseModel.sget].
    destruct (dg_eqb k h) eqn:E.
    - apply dg_eqb_spec in E. subst k. rewrite (dg_neq IF h h' Hn). exact IH.
    - cbn [SparseModel.sget]. destruct (dg_eqb k h'); [reflexivity | exact IH].
  Qed.
  Lemma sget_sset_eq (st : store) h p : sget (sset st h p) h = Some p.
  Proof. unfold SparseModel.sset. cbn [SparseModel.sget]. rewrite (dg_refl IF). reflexivity. Qed.
  Lemma sget_sset_neq (st : store) h h' p : h <> h' -> sget (sset st h p) h' = sget st h'.
  Proof.
    intros Hn. unfold SparseModel.sset. cbn [SparseModel.sget]. rewrite (dg_neq IF h h' Hn).
    apply sget_sdel_neq. exact Hn.
  Qed.

  (* ---------------------------------------------------------------- digests of a tree *)
  Fixpoint has_dg (pre : key) (t : ctree) (h : Dg) : Prop :=
    match t with
    | CE => False
    | CL _ _ => h = root pre t
    | CN l r => h = root pre t \/ has_dg (pre ++ [false]) l h \/ has_dg (pre ++ [true]) r h
    end.

  Lemma has_dg_root pre t : t <> CE -> has_dg pre t (root pre t).
  Proof. destruct t; intros H; [contradiction | reflexivity | left; reflexivity]. Qed.

  Lemma stored_frame (st st' : store) : forall t pre,
    (forall h, has_dg pre t h -> sget st' h = sget st h) -> stored st pre t -> stored st' pre t.
  Proof.
    induction t as [|k v|l IHl r IHr]; intros pre Hf Hs.
    - exact I.
    - cbn [SparseTree.stored] in *. rewrite Hf; [exact Hs | reflexivity].
    - cbn [SparseTree.stored] in *. destruct Hs as [H0 [Hl Hr]]. split; [|split].
      + rewrite Hf; [exact H0 | left; reflexivity].
      + apply IHl; [|exact Hl]. intros h Hh. apply Hf. right. left. exact Hh.
      + apply IHr; [|exact Hr]. intros h Hh. apply Hf. right. right. exact Hh.
  Qed.

  Lemma stored_sdel (st : store) pre t h : ~ has_dg pre t h -> stored st pre t -> stored (sdel st h) pre t.
  Proof.
    intros Hn. apply stored_frame. intros h' Hh. apply sget_sdel_neq. intros E. subst. contradiction.
  Qed.

  (* ---------------------------------------------------------------- extents *)
  Definition ext (p : key) (t : ctree) : key :=
    match t with CL rest _ => p ++ rest | _ => p end.

  (* [h] is the digest of a well-formed non-empty subtree with extent [x] *)
  Definition at_ext (h : Dg) (x : key) : Prop :=
    exists p t d, t <> CE /\ cwf d t /\ (length p + d = 256)%nat /\ h = root p t /\ ext p t = x.

  Lemma at_ext_root p t d : t <> CE -> cwf d t -> (length p + d = 256)%nat -> at_ext (root p t) (ext p t).
  Proof. intros. exists p, t, d. auto. Qed.

  Lemma branch_point : forall (p1 p2 a b c e : key),
    p1 ++ false :: a = p2 ++ false :: b -> p1 ++ true :: c = p2 ++ true :: e -> p1 = p2.
  Proof.
    induction p1 as [|z1 p1 IH]; intros [|z2 p2] a b c e H1 H2; simpl in *.
    - reflexivity.
    - injection H1 as E1 _. injection H2 as E2 _. congruence.
    - injection H1 as E1 _. injection H2 as E2 _. congruence.
    - injection H1 as E1 H1. injection H2 as _ H2. f_equal; [exact E1 | eapply IH; eauto].
  Qed.

  Lemma ext_prefix p (t : ctree) : exists q, ext p t = p ++ q.
  Proof. destruct t; simpl; [exists [] | eexists; reflexivity | exists []]; rewrite ?app_nil_r; reflexivity. Qed.

  Lemma compact_left_CE d (r : ctree) : cwf (S d) (CN CE r) -> exists l' r', r = CN l' r'.
  Proof. intros [_ [_ Hm]]. destruct r; simpl in Hm; try discriminate. eauto. Qed.
  Lemma compact_right_CE d (l : ctree) : cwf (S d) (CN l CE) -> exists l' r', l = CN l' r'.
  Proof. intros [_ [_ Hm]]. destruct l; simpl in Hm; try discriminate. eauto. Qed.

  (* the digest of an inner node determines its position *)
  Lemma node_pos_inj : forall (t1 : ctree) p1 d1 t2 p2 d2,
    cwf d1 t1 -> cwf d2 t2 -> (length p1 + d1 = 256)%nat -> (length p2 + d2 = 256)%nat ->
    root p1 t1 = root p2 t2 ->
    match t1 with CN _ _ => p1 = p2 | _ => True end.
  Proof.
    destruct Hok as [Hli [Hni [Hln [Hlz Hnz]]]].
    induction t1 as [|k v|l1 IHl r1 IHr]; intros p1 d1 t2 p2 d2 Hc1 Hc2 Hp1 Hp2 Hr; try exact I.
    destruct t2 as [|k2 v2|l2 r2].
    - exfalso. simpl in Hr. eapply Hnz; eauto.
    - exfalso. simpl in Hr. symmetry in Hr. eapply Hln; eauto.
    - cbn [c_root] in Hr. apply Hni in Hr as [Hl Hr].
      destruct d1; [destruct Hc1|]. destruct d2; [destruct Hc2|].
      destruct l1 as [|kl vl|ll lr].
      + (* left empty: the right child is an inner node *)
        destruct (compact_left_CE d1 r1 Hc1) as [a [b ->]].
        assert (l2 = CE) as -> by (apply (root_zero_iff IF (p2 ++ [false])); symmetry; exact Hl).
        destruct (compact_left_CE d2 r2 Hc2) as [a2 [b2 ->]].
        assert (p1 ++ [true] = p2 ++ [true]) as E.
        { apply (IHr (p1 ++ [true]) d1 (CN a2 b2) (p2 ++ [true]) d2); try apply Hc1; try apply Hc2; auto;
            rewrite app_length; simpl; lia. }
        apply app_inj_tail in E. apply E.
      + destruct r1 as [|kr vr|rl rr].
        * destruct (compact_right_CE d1 _ Hc1) as [a [b Hab]]. discriminate.
        * (* two leaves: keys branch exactly here *)
          destruct l2 as [|kl2 vl2|]; [exfalso; simpl in Hl; eapply Hlz; eauto | | exfalso; simpl in Hl; eapply Hln; eauto].
          destruct r2 as [|kr2 vr2|]; [exfalso; simpl in Hr; eapply Hlz; eauto | | exfalso; simpl in Hr; eapply Hln; eauto].
          cbn [c_root] in Hl, Hr. apply Hli in Hl as [El _]. apply Hli in Hr as [Er _].
          rewrite !app_snoc_assoc in El, Er. eapply branch_point; eauto.
        * destruct l2 as [|kl2 vl2|]; [exfalso; simpl in Hl; eapply Hlz; eauto | | exfalso; simpl in Hl; eapply Hln; eauto].
          destruct r2 as [|kr2 vr2|rl2 rr2]; [exfalso; simpl in Hr; eapply Hnz; eauto | exfalso; simpl in Hr; symmetry in Hr; eapply Hln; eauto |].
          assert (p1 ++ [true] = p2 ++ [true]) as E.
          { apply (IHr (p1 ++ [true]) d1 (CN rl2 rr2) (p2 ++ [true]) d2); try apply Hc1; try apply Hc2; auto;
              rewrite app_length; simpl; lia. }
          apply app_inj_tail in E. apply E.
      + destruct l2 as [|kl2 vl2|ll2 lr2]; [exfalso; simpl in Hl; eapply Hnz; eauto | exfalso; simpl in Hl; symmetry in Hl; eapply Hln; eauto |].
        assert (p1 ++ [false] = p2 ++ [false]) as E.
        { apply (IHl (p1 ++ [false]) d1 (CN ll2 lr2) (p2 ++ [false]) d2); try apply Hc1; try apply Hc2; auto;
            rewrite app_length; simpl; lia. }
        apply app_inj_tail in E. apply E.
  Qed.

  Lemma at_ext_unique h x y : at_ext h x -> at_ext h y -> x = y.
  Proof.
    destruct Hok as [Hli [Hni [Hln [Hlz Hnz]]]].
    intros [p1 [t1 [d1 [Hn1 [Hc1 [Hp1 [E1 X1]]]]]]] [p2 [t2 [d2 [Hn2 [Hc2 [Hp2 [E2 X2]]]]]]].
    subst h x y. destruct t1 as [|k1 v1|l1 r1]; [contradiction| |]; destruct t2 as [|k2 v2|l2 r2]; try contradiction.
    - cbn [c_root] in E2. apply Hli in E2 as [E _]. exact E.
    - exfalso. simpl in E2. eapply Hln; eauto.
    - exfalso. simpl in E2. symmetry in E2. eapply Hln; eauto.
    - cbn [ext]. apply (node_pos_inj (CN l1 r1) p1 d1 (CN l2 r2) p2 d2); auto.
  Qed.

  (* same position: the digest determines the subtree *)
  Lemma root_inj_pos : forall (t1 t2 : ctree) p, root p t1 = root p t2 -> t1 = t2.
  Proof.
    destruct Hok as [Hli [Hni [Hln [Hlz Hnz]]]].
    induction t1 as [|k v|l1 IHl r1 IHr]; intros t2 p H; destruct t2 as [|k2 v2|l2 r2]; simpl in H;
      try reflexivity; try (exfalso; (eapply Hlz + eapply Hnz + eapply Hln); eauto; fail);
      try (exfalso; symmetry in H; (eapply Hlz + eapply Hnz + eapply Hln); eauto; fail).
    - apply Hli in H as [E1 E2]. apply app_inv_head in E1. congruence.
    - apply Hni in H as [E1 E2]. f_equal; [eapply IHl | eapply IHr]; eauto.
  Qed.

  Lemma has_dg_ext : forall (t : ctree) pre d h, cwf d t -> (length pre + d = 256)%nat -> has_dg pre t h ->
    exists q, at_ext h (pre ++ q).
  Proof.
    induction t as [|k v|l IHl r IHr]; intros pre d h Hc Hp Hh.
    - destruct Hh.
    - simpl in Hh. subst h. exists k. apply (at_ext_root pre (CL k v) d); auto. discriminate.
    - destruct d; [destruct Hc|]. destruct Hh as [Hh|[Hh|Hh]].
      + subst h. exists []. rewrite app_nil_r. apply (at_ext_root pre (CN l r) (S d)); auto. discriminate.
      + destruct (IHl (pre ++ [false]) d h) as [q Hq]; [apply Hc | rewrite app_length; simpl; lia | exact Hh |].
        exists (false :: q). rewrite <- app_snoc_assoc. exact Hq.
      + destruct (IHr (pre ++ [true]) d h) as [q Hq]; [apply Hc | rewrite app_length; simpl; lia | exact Hh |].
        exists (true :: q). rewrite <- app_snoc_assoc. exact Hq.
  Qed.

  (* digests below a child never equal the digest of something whose extent is outside *)
  Lemma not_has_dg_by_ext (t : ctree) pre d h x : cwf d t -> (length pre + d = 256)%nat ->
    at_ext h x -> (forall q, x <> pre ++ q) -> ~ has_dg pre t h.
  Proof.
    intros Hc Hp Hx Hne Hh. destruct (has_dg_ext t pre d h Hc Hp Hh) as [q Hq].
    apply (Hne q). eapply at_ext_unique; eauto.
  Qed.

  Lemma app_cons_neq_self (p : key) b q : p <> p ++ b :: q.
  Proof.
    intros H. assert (length p = length (p ++ b :: q)) as L by (rewrite <- H; reflexivity).
    rewrite app_length in L. simpl in L. lia.
  Qed.
  Lemma branch_neq (p : key) b q q' : p ++ b :: q <> p ++ negb b :: q'.
  Proof. intros H. apply app_inv_head in H. injection H as H _. destruct b; discriminate. Qed.

  (* siblings under a compact inner node have different digests *)
  Lemma sibling_distinct pre d (l r : ctree) : cwf (S d) (CN l r) -> (length pre + S d = 256)%nat ->
    root (pre ++ [false]) l <> root (pre ++ [true]) r.
  Proof.
    intros Hc Hp E. pose proof Hc as [Hl [Hr Hm]].
    destruct l as [|kl vl|ll lr].
    - symmetry in E. apply (root_zero_iff IF (pre ++ [true]) r) in E. subst r. discriminate.
    - assert (at_ext (root (pre ++ [false]) (CL kl vl)) ((pre ++ [false]) ++ kl)) as A1.
      { apply (at_ext_root (pre ++ [false]) (CL kl vl) d); auto; [discriminate | rewrite app_length; simpl; lia]. }
      destruct r as [|kr vr|rl rr].
      + exfalso. apply (root_nonzero IF (pre ++ [false]) (CL kl vl)); [discriminate | exact E].
      + assert (at_ext (root (pre ++ [true]) (CL kr vr)) ((pre ++ [true]) ++ kr)) as A2.
        { apply (at_ext_root (pre ++ [true]) (CL kr vr) d); auto; [discriminate | rewrite app_length; simpl; lia]. }
        rewrite <- E in A2. pose proof (at_ext_unique _ _ _ A1 A2) as X. rewrite !app_snoc_assoc in X.
        apply (branch_neq pre false kl kr). exact X.
      + destruct Hok as [_ [_ [Hln _]]]. simpl in E. eapply Hln; eauto.
    - assert (at_ext (root (pre ++ [false]) (CN ll lr)) (pre ++ [false])) as A1.
      { apply (at_ext_root (pre ++ [false]) (CN ll lr) d); auto; [discriminate | rewrite app_length; simpl; lia]. }
      destruct r as [|kr vr|rl rr].
      + exfalso. apply (root_nonzero IF (pre ++ [false]) (CN ll lr)); [discriminate | exact E].
      + destruct Hok as [_ [_ [Hln _]]]. simpl in E. symmetry in E. eapply Hln; eauto.
      + assert (at_ext (root (pre ++ [true]) (CN rl rr)) (pre ++ [true])) as A2.
        { apply (at_ext_root (pre ++ [true]) (CN rl rr) d); auto; [discriminate | rewrite app_length; simpl; lia]. }
        rewrite <- E in A2. pose proof (at_ext_unique _ _ _ A1 A2) as X.
        apply app_inj_tail in X. destruct X; discriminate.
  Qed.

  (* ---------------------------------------------------------------- writing a well-formed node is harmless *)
  Lemma node_of_prim_eq p1 (t1 : ctree) d1 p2 t2 d2 :
    t1 <> CE -> t2 <> CE -> cwf d1 t1 -> cwf d2 t2 -> (length p1 + d1 = 256)%nat -> (length p2 + d2 = 256)%nat ->
    root p1 t1 = root p2 t2 -> prim_of_node (node_of p1 t1) = prim_of_node (node_of p2 t2).
  Proof.
    intros Hn1 Hn2 Hc1 Hc2 Hp1 Hp2 E.
    pose proof (at_ext_unique _ _ _ (at_ext_root p1 t1 d1 Hn1 Hc1 Hp1)
                  (eq_rect _ (fun h => at_ext h (ext p2 t2)) (at_ext_root p2 t2 d2 Hn2 Hc2 Hp2) _ (eq_sym E))) as X.
    destruct Hok as [Hli [Hni [Hln [Hlz Hnz]]]].
    destruct t1 as [|k1 v1|l1 r1]; [contradiction| |]; destruct t2 as [|k2 v2|l2 r2]; try contradiction.
    - cbn [ext] in X. cbn [c_root] in E. apply Hli in E as [_ ->]. cbn [node_of SparseTree.node_of]. rewrite X. reflexivity.
    - exfalso. simpl in E. eapply Hln; eauto.
    - exfalso. simpl in E. symmetry in E. eapply Hln; eauto.
    - cbn [ext] in X. subst p2. apply root_inj_pos in E. rewrite E. reflexivity.
  Qed.

  Lemma stored_store_node (st : store) p x dx : x <> CE -> cwf dx x -> (length p + dx = 256)%nat ->
    forall (t : ctree) pre d, cwf d t -> (length pre + d = 256)%nat ->
    stored st pre t -> stored (store_node st (node_of p x)) pre t.
  Proof.
    intros Hnx Hcx Hpx. unfold SparseModel.store_node. rewrite (node_hash_node_of IF).
    induction t as [|k v|l IHl r IHr]; intros pre d Hc Hp Hs.
    - exact I.
    - cbn [SparseTree.stored] in *.
      destruct (dg_eqb (root p x) (root pre (CL k v))) eqn:E.
      + apply dg_eqb_spec in E. rewrite <- E, sget_sset_eq. f_equal.
        apply (node_of_prim_eq p x dx pre (CL k v) d); auto. discriminate.
      + rewrite sget_sset_neq; [exact Hs|]. intros E'. rewrite E', (dg_refl IF) in E. discriminate.
    - destruct d; [destruct Hc|]. cbn [SparseTree.stored] in *. destruct Hs as [H0 [Hl Hr]]. split; [|split].
      + destruct (dg_eqb (root p x) (root pre (CN l r))) eqn:E.
        * apply dg_eqb_spec in E. rewrite <- E, sget_sset_eq. f_equal.
          apply (node_of_prim_eq p x dx pre (CN l r) (S d)); auto. discriminate.
        * rewrite sget_sset_neq; [exact H0|]. intros E'. rewrite E', (dg_refl IF) in E. discriminate.
      + apply (IHl (pre ++ [false]) d); [apply Hc | rewrite app_length; simpl; lia | exact Hl].
      + apply (IHr (pre ++ [true]) d); [apply Hc | rewrite app_length; simpl; lia | exact Hr].
  Qed.
End Ext.
