(* Merkle/RFC6962.v — L3 specification: the Merkle Tree Hash, audit paths and the audit-path
   recomputation of RFC 6962 §2.1 (RFC 9162 §2.1.3), parametric in the hash functions.
   Written from the RFC text, independently of the Rust code. *)
From FV Require Import Base.Bytes.
From Coq Require Import Arith PeanoNat.
Open Scope nat_scope.

Section RFC.
  Context {L D : Type}.
  Variables (leaf_sum : L -> D) (node_sum : D -> D -> D) (empty_sum : D).

  (* k = the largest power of two strictly smaller than n (n >= 2) *)
  Definition split_k (n : nat) : nat := 2 ^ Nat.log2 (n - 1).

  Fixpoint mth (fuel : nat) (l : list L) : D :=
    match l with
    | [] => empty_sum
    | [x] => leaf_sum x
    | _ => match fuel with
           | O => empty_sum
           | S f => let k := split_k (length l) in
                    node_sum (mth f (firstn k l)) (mth f (skipn k l))
           end
    end.
  Definition MTH (l : list L) : D := mth (length l) l.

  (* audit path for leaf m of l, leaf-to-root order *)
  Fixpoint path_f (fuel : nat) (m : nat) (l : list L) : list D :=
    match fuel with
    | O => []
    | S f =>
      if length l <=? 1 then []
      else let k := split_k (length l) in
           if m <? k then path_f f m (firstn k l) ++ [MTH (skipn k l)]
           else path_f f (m - k) (skipn k l) ++ [MTH (firstn k l)]
    end.
  Definition PATH (m : nat) (l : list L) : list D := path_f (length l) m l.

  (* recomputation of the root from a leaf hash, an audit path (leaf-to-root), the leaf index
     and the tree size; None when the path has the wrong length for (i, n) or i >= n *)
  Fixpoint rfp_f (fuel : nat) (h : D) (p : list D) (i n : nat) : option D :=
    match fuel with
    | O => None
    | S f =>
      if n =? 0 then None
      else if n =? 1 then (if (i =? 0) then match p with [] => Some h | _ => None end else None)
      else let k := split_k n in
           match rev p with
           | [] => None
           | last :: rp' =>
             let p' := rev rp' in
             if i <? k then
               match rfp_f f h p' i k with Some r => Some (node_sum r last) | None => None end
             else
               match rfp_f f h p' (i - k) (n - k) with Some r => Some (node_sum last r) | None => None end
           end
    end.
  Definition root_from_path (h : D) (p : list D) (i n : nat) : option D := rfp_f (S n) h p i n.

  (* ------------------------------------------------------------------ basic facts *)
  Lemma split_k_lt n : 2 <= n -> split_k n < n.
  Proof.
    intros H. unfold split_k.
    assert (Hp : 0 < n - 1) by lia.
    pose proof (Nat.log2_spec (n - 1) Hp) as [Hlo _]. lia.
  Qed.
  Lemma split_k_pos n : 0 < split_k n.
  Proof. unfold split_k. apply Nat.neq_0_lt_0. apply Nat.pow_nonzero. lia. Qed.
  Lemma split_k_ge n : 2 <= n -> n <= 2 * split_k n.
  Proof.
    intros H. unfold split_k.
    assert (Hp : 0 < n - 1) by lia.
    pose proof (Nat.log2_spec (n - 1) Hp) as [_ Hhi]. cbn [Nat.pow] in Hhi. lia.
  Qed.
  Lemma split_k_pow2 h m : 0 < m <= 2 ^ h -> split_k (2 ^ h + m) = 2 ^ h.
  Proof.
    intros [Hm1 Hm2]. unfold split_k. f_equal.
    apply Nat.log2_unique; [lia|]. cbn [Nat.pow]. lia.
  Qed.

  Lemma mth_fuel2 : forall f1 f2 l, length l <= f1 -> length l <= f2 -> mth f1 l = mth f2 l.
  Proof.
    induction f1 as [|f1 IH]; intros f2 l H1 H2.
    - destruct l as [|x [|y r]]; cbn [length] in H1; try lia. destruct f2; reflexivity.
    - destruct l as [|x [|y r]]; [destruct f2; reflexivity | destruct f2; reflexivity |].
      destruct f2 as [|f2]; [cbn [length] in H2; lia|].
      cbn [mth]. set (l := x :: y :: r) in *. set (k := split_k (length l)).
      assert (Hk : k < length l) by (apply split_k_lt; subst l; cbn [length]; lia).
      assert (Hk0 : 0 < k) by apply split_k_pos.
      assert (L1 : length (firstn k l) = k) by (rewrite firstn_length; lia).
      assert (L2 : length (skipn k l) = length l - k) by apply skipn_length.
      f_equal; apply IH; lia.
  Qed.
  Lemma mth_fuel fuel l : length l <= fuel -> mth fuel l = MTH l.
  Proof. intros H. unfold MTH. apply mth_fuel2; lia. Qed.

  Lemma MTH_nil : MTH [] = empty_sum.  Proof. reflexivity. Qed.
  Lemma MTH_one x : MTH [x] = leaf_sum x.  Proof. reflexivity. Qed.

  Lemma mth_S f x y r :
    mth (S f) (x :: y :: r) =
    node_sum (mth f (firstn (split_k (length (x :: y :: r))) (x :: y :: r)))
             (mth f (skipn (split_k (length (x :: y :: r))) (x :: y :: r))).
  Proof. reflexivity. Qed.

  Lemma MTH_split l : 2 <= length l ->
    MTH l = node_sum (MTH (firstn (split_k (length l)) l)) (MTH (skipn (split_k (length l)) l)).
  Proof.
    intros H. destruct l as [|x [|y r]]; cbn [length] in H; try lia.
    unfold MTH at 1. change (length (x :: y :: r)) with (S (S (length r))) at 1.
    rewrite mth_S. set (l := x :: y :: r). set (k := split_k (length l)).
    assert (Hk : k < length l) by (apply split_k_lt; exact H).
    assert (Hk0 : 0 < k) by apply split_k_pos.
    rewrite (mth_fuel _ (firstn k l)) by (rewrite firstn_length; subst l; cbn [length] in *; lia).
    rewrite (mth_fuel _ (skipn k l)) by (rewrite skipn_length; subst l; cbn [length] in *; lia).
    reflexivity.
  Qed.

  (* the law the MMR / peak-stack implementations rely on *)
  Lemma MTH_app_pow2 h a b : length a = 2 ^ h -> 0 < length b <= 2 ^ h ->
    MTH (a ++ b) = node_sum (MTH a) (MTH b).
  Proof.
    intros Ha Hb.
    assert (H2 : 2 <= length (a ++ b)).
    { rewrite app_length, Ha. pose proof (Nat.pow_nonzero 2 h ltac:(lia)). lia. }
    rewrite MTH_split by exact H2.
    rewrite app_length, Ha, split_k_pow2 by exact Hb.
    rewrite <- Ha. rewrite firstn_app, Nat.sub_diag, firstn_all, firstn_O, app_nil_r.
    rewrite skipn_app, Nat.sub_diag, skipn_all, skipn_O. reflexivity.
  Qed.
End RFC.
