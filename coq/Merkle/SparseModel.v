(* Merkle/SparseModel.v — L1: executable model mirroring fuel-merkle/src/sparse/*.rs and
   common/{msb,path,path_iterator,node,storage_map}.rs function by function.

   Digests and keys are one type [Dg] (Bytes32 in Rust: a leaf stores its key in bytes_lo).
   The node store is an association list keyed by digest (StorageMap = HashMap: insert
   overwrites, remove of an absent key is a no-op).  Rust `Vec`s keep their Rust order.
   Where the Rust code would panic (`expect`, `unwrap`, slice index, arithmetic overflow
   under overflow-checks) the model returns [Err EPanic]; [EFuel] is the out-of-fuel value
   of the one fuel-bounded loop (PathIter) and never occurs for 256-bit keys.
   Definitions only: proofs live in Merkle/SparseProofs.v / SparseRefine.v. *)
From FV Require Import Base.Bytes.
Open Scope N_scope.

(* ---------------------------------------------------------------- common/msb.rs  ([u8; N]) *)
Definition get_bit_at_index_from_msb (k : bytes) (index : N) : option bool :=
  let byte_index := index / 8 in
  let byte_bit_index := index mod 8 in
  match nth_error k (N.to_nat byte_index) with
  | None => None
  | Some byte => let mask := N.shiftl 1 (7 - byte_bit_index) in
                 Some (negb (N.land byte mask =? 0))
  end.

(* u8::leading_zeros *)
Definition leading_zeros8 (x : N) : N := if x =? 0 then 8 else 7 - N.log2 x.

Fixpoint common_prefix_count (a b : bytes) : N :=
  match a, b with
  | byte1 :: a', byte2 :: b' =>
      let common_bits := leading_zeros8 (N.lxor byte1 byte2) in
      if byte1 =? byte2 then common_bits + common_prefix_count a' b' else common_bits
  | _, _ => 0
  end.

(* Ord for [u8; 32] (used by BTreeMap in from_set): lexicographic *)
Fixpoint bytes_compare (a b : bytes) : comparison :=
  match a, b with
  | [], [] => Eq
  | [], _ :: _ => Lt
  | _ :: _, [] => Gt
  | x :: a', y :: b' => match x ?= y with Eq => bytes_compare a' b' | c => c end
  end.

(* ---------------------------------------------------------------- errors / results *)
Inductive err := ELoadError | EChildNotFound | ENodeIsLeaf | EDeserialize | EPanic | EFuel.
Inductive res (A : Type) := Ok (a : A) | Err (e : err).
Arguments Ok {A} a.
Arguments Err {A} e.
Definition rbind {A B} (r : res A) (f : A -> res B) : res B :=
  match r with Ok a => f a | Err e => Err e end.
Notation "'dor' x <- o ; k" := (rbind o (fun x => k)) (at level 200, x name, o at level 100, k at level 200).
Notation "'dor' ' p <- o ; k" := (rbind o (fun x => match x with p => k end)) (at level 200, p pattern, o at level 100, k at level 200).

Definition err_code (e : err) : N :=
  match e with ELoadError => 1 | EChildNotFound => 2 | ENodeIsLeaf => 3 | EDeserialize => 4 | EPanic => 5 | EFuel => 6 end.

Definition max_height : N := 256.           (* Node::max_height() = key_size_bits() *)

Section SparseModel.
  Context {Dg : Type}.
  Variable dg_eqb : Dg -> Dg -> bool.
  Variable zero : Dg.                         (* zero_sum() *)
  Variable hleaf : Dg -> Dg -> Dg.            (* calculate_leaf_hash(key, value_hash) *)
  Variable hnode : Dg -> Dg -> Dg.            (* calculate_node_hash(left, right) *)
  Variable sum : bytes -> Dg.                 (* common::sum *)
  Variable kbit : Dg -> N -> option bool.     (* Path::get_instruction: Some true = Side::Right *)
  Variable kcpl : Dg -> Dg -> N.              (* Path::common_path_length *)
  Variable kcmp : Dg -> Dg -> comparison.     (* Ord on Bytes32 *)

  (* ---------------------------------------------------------------- common/prefix.rs, sparse/primitive.rs *)
  Inductive prefix := PfxNode | PfxLeaf.
  Definition prefix_byte (p : prefix) : N := match p with PfxNode => 1 | PfxLeaf => 0 end.
  Definition prefix_of_byte (b : N) : option prefix :=
    if b =? 1 then Some PfxNode else if b =? 0 then Some PfxLeaf else None.
  Definition prefix_eqb (a b : prefix) : bool :=
    match a, b with PfxNode, PfxNode | PfxLeaf, PfxLeaf => true | _, _ => false end.

  (* Primitive = (u32 height, u8 prefix, Bytes32 lo, Bytes32 hi) *)
  Record primitive := mkPrim { p_height : N; p_prefix : N; p_lo : Dg; p_hi : Dg }.

  (* ---------------------------------------------------------------- sparse/hash.rs *)
  Definition calculate_hash (p : prefix) (lo hi : Dg) : Dg :=
    match p with PfxLeaf => hleaf lo hi | PfxNode => hnode lo hi end.

  (* ---------------------------------------------------------------- sparse/merkle_tree/node.rs *)
  Inductive node :=
  | Node (hash : Dg) (height : N) (pfx : prefix) (lo hi : Dg)
  | Placeholder.

  Definition node_new (height : N) (pfx : prefix) (lo hi : Dg) : node :=
    Node (calculate_hash pfx lo hi) height pfx lo hi.
  Definition create_leaf (k : Dg) (data : bytes) : node :=
    let hi := sum data in Node (hleaf k hi) 0 PfxLeaf k hi.
  Definition node_hash (n : node) : Dg := match n with Node h _ _ _ _ => h | Placeholder => zero end.
  Definition node_height (n : node) : N := match n with Node _ h _ _ _ => h | Placeholder => 0 end.
  Definition node_prefix (n : node) : prefix := match n with Node _ _ p _ _ => p | Placeholder => PfxLeaf end.
  Definition bytes_lo (n : node) : Dg := match n with Node _ _ _ lo _ => lo | Placeholder => zero end.
  Definition bytes_hi (n : node) : Dg := match n with Node _ _ _ _ hi => hi | Placeholder => zero end.
  Definition is_placeholder (n : node) : bool := match n with Placeholder => true | _ => false end.
  Definition is_leaf (n : node) : bool := prefix_eqb (node_prefix n) PfxLeaf || is_placeholder n.
  Definition is_node (n : node) : bool := prefix_eqb (node_prefix n) PfxNode.
  Definition leaf_key (n : node) : Dg := bytes_lo n.
  Definition leaf_data (n : node) : Dg := bytes_hi n.

  (* derived PartialEq *)
  Definition node_eqb (a b : node) : bool :=
    match a, b with
    | Placeholder, Placeholder => true
    | Node h1 g1 p1 l1 r1, Node h2 g2 p2 l2 r2 =>
        dg_eqb h1 h2 && (g1 =? g2) && prefix_eqb p1 p2 && dg_eqb l1 l2 && dg_eqb r1 r2
    | _, _ => false
    end.

  Definition create_node (l r : node) (height : N) : node :=
    let lo := node_hash l in let hi := node_hash r in Node (hnode lo hi) height PfxNode lo hi.
  Definition create_node_from_hashes (lo hi : Dg) (height : N) : node :=
    Node (hnode lo hi) height PfxNode lo hi.

  Definition common_path_length (a b : node) : N :=
    if is_placeholder a || is_placeholder b then 0 else kcpl (leaf_key a) (leaf_key b).

  (* `path.get_instruction(parent_depth).unwrap()`: None => panic *)
  Definition create_node_on_path (path : Dg) (path_node side_node : node) : res node :=
    if is_leaf path_node && is_leaf side_node then
      let parent_depth := common_path_length path_node side_node in
      let parent_height := max_height - parent_depth in
      match kbit path parent_depth with
      | None => Err EPanic
      | Some false => Ok (create_node path_node side_node parent_height)
      | Some true => Ok (create_node side_node path_node parent_height)
      end
    else
      let parent_height := N.max (node_height path_node) (node_height side_node) + 1 in
      if max_height <? parent_height then Err EPanic else
      let parent_depth := max_height - parent_height in
      match kbit path parent_depth with
      | None => Err EPanic
      | Some false => Ok (create_node path_node side_node parent_height)
      | Some true => Ok (create_node side_node path_node parent_height)
      end.

  (* From<&Node> for Primitive / TryFrom<Primitive> for Node *)
  Definition prim_of_node (n : node) : primitive :=
    mkPrim (node_height n) (prefix_byte (node_prefix n)) (bytes_lo n) (bytes_hi n).
  Definition node_of_prim (p : primitive) : res node :=
    match prefix_of_byte (p_prefix p) with
    | None => Err EDeserialize
    | Some pfx => Ok (node_new (p_height p) pfx (p_lo p) (p_hi p))
    end.

  (* ---------------------------------------------------------------- common/storage_map.rs *)
  Definition store := list (Dg * primitive).
  Fixpoint sget (st : store) (k : Dg) : option primitive :=
    match st with
    | [] => None
    | (k', v) :: r => if dg_eqb k' k then Some v else sget r k
    end.
  Fixpoint sdel (st : store) (k : Dg) : store :=
    match st with
    | [] => []
    | (k', v) :: r => if dg_eqb k' k then sdel r k else (k', v) :: sdel r k
    end.
  Definition sset (st : store) (k : Dg) (v : primitive) : store := (k, v) :: sdel st k.
  (* storage.insert(node.hash(), &node.as_ref().into()) *)
  Definition store_node (st : store) (n : node) : store := sset st (node_hash n) (prim_of_node n).

  (* ---------------------------------------------------------------- StorageNode (ParentNode impl) *)
  (* right = true: right_child / right_child_key *)
  Definition child_key (n : node) (right : bool) : res Dg :=
    if is_leaf n then Err ENodeIsLeaf else Ok (if right then bytes_hi n else bytes_lo n).
  Definition child (st : store) (n : node) (right : bool) : res node :=
    if is_leaf n then Err ENodeIsLeaf else
    let k := if right then bytes_hi n else bytes_lo n in
    if dg_eqb k zero then Ok Placeholder else
    match sget st k with
    | None => Err EChildNotFound
    | Some p => node_of_prim p
    end.

  (* ---------------------------------------------------------------- common/path_iterator.rs *)
  (* The list of items PathIter yields, starting from [cur] at offset [off]. *)
  Fixpoint path_iter (fuel : nat) (st : store) (key : Dg) (cur : res node * res Dg) (off : N)
    : list (res node * res Dg) :=
    match fuel with
    | O => [(Err EFuel, Err EFuel)]
    | S f =>
        cur :: match fst cur with
               | Ok path_node =>
                   if is_node path_node then
                     match kbit key off with
                     | None => []
                     | Some false => path_iter f st key (child st path_node false, child_key path_node true) (off + 1)
                     | Some true => path_iter f st key (child st path_node true, child_key path_node false) (off + 1)
                     end
                   else []
               | Err _ => []
               end
    end.

  (* ---------------------------------------------------------------- sparse/merkle_tree.rs *)
  Record tree := mkTree { t_root : node; t_store : store }.
  Definition tree_new (st : store) : tree := mkTree Placeholder st.
  Definition tree_root (t : tree) : Dg := node_hash (t_root t).

  Definition tree_load (st : store) (root : Dg) : res tree :=
    if dg_eqb root zero then Ok (tree_new st)
    else match sget st root with
         | None => Err ELoadError
         | Some p => dor n <- node_of_prim p; Ok (mkTree n st)
         end.

  (* .map(|(p, s)| Ok((p?, s?))).collect::<Result<Vec<_>,_>>() : first error in order *)
  Fixpoint collect_items (l : list (res node * res Dg)) : res (list (node * Dg)) :=
    match l with
    | [] => Ok []
    | (Ok p, Ok s) :: r => dor r' <- collect_items r; Ok ((p, s) :: r')
    | (Err e, _) :: _ => Err e
    | (_, Err e) :: _ => Err e
    end.

  Definition path_set (t : tree) (key : Dg) : res (list node * list Dg) :=
    let root := t_root t in
    if max_height <? node_height root then Err EPanic else   (* checked_sub(..).expect(..) *)
    let items := path_iter 300 (t_store t) key (Ok root, Ok (node_hash root)) (max_height - node_height root) in
    dor l <- collect_items items;
    let path_nodes := rev (map fst l) in
    let side_nodes := rev (map snd l) in
    Ok (path_nodes, removelast side_nodes).               (* side_nodes.pop(): drop the root *)

  (* iter::repeat_n(placeholder, n): join [cur] with [n] placeholders along [path] *)
  Fixpoint placeholder_loop (n : nat) (path : Dg) (cur : node) (st : store) : res (node * store) :=
    match n with
    | O => Ok (cur, st)
    | S n' => dor c <- create_node_on_path path cur Placeholder;
              placeholder_loop n' path c (store_node st c)
    end.

  Definition new_parent (cur : node) (side : Dg) (old_parent : node) : node :=
    if dg_eqb (bytes_lo old_parent) side
    then create_node_from_hashes side (node_hash cur) (node_height old_parent)
    else create_node_from_hashes (node_hash cur) side (node_height old_parent).

  Definition update_with_path_set (t : tree) (requested : node) (path_nodes : list node)
             (side_nodes : list Dg) : res tree :=
    let path := leaf_key requested in
    match path_nodes with
    | [] => Err EPanic                                       (* &path_nodes[0] *)
    | actual :: parents =>
        if node_eqb requested actual then Ok t else
        let st := t_store t in
        dor '(cur, st1) <-
          (if negb (dg_eqb (leaf_key requested) (leaf_key actual)) then
             dor '(cur, st0) <-
               (if negb (is_placeholder actual) then
                  dor c <- create_node_on_path path requested actual; Ok (c, store_node st c)
                else Ok (requested, st));
             let ancestor_depth := common_path_length requested actual in
             let placeholders_count := ancestor_depth - lenN side_nodes in   (* saturating_sub *)
             placeholder_loop (N.to_nat placeholders_count) path cur st0
           else Ok (requested, sdel st (node_hash actual)));
        let '(cur2, st2) :=
          fold_left (fun (acc : node * store) (sp : Dg * node) =>
                       let np := new_parent (fst acc) (fst sp) (snd sp) in
                       (np, sdel (store_node (snd acc) np) (node_hash (snd sp))))
                    (combine side_nodes parents) (cur, st1) in
        Ok (mkTree cur2 st2)
    end.

  Definition tree_insert (t : tree) (key : Dg) (data : bytes) : tree * res unit :=
    let leaf_node := create_leaf key data in
    let t1 := mkTree (t_root t) (store_node (t_store t) leaf_node) in
    if is_placeholder (t_root t1) then (mkTree leaf_node (t_store t1), Ok tt)
    else match path_set t1 key with
         | Err e => (t1, Err e)
         | Ok (path_nodes, side_nodes) =>
             match update_with_path_set t1 leaf_node path_nodes side_nodes with
             | Ok t2 => (t2, Ok tt)
             | Err e => (t1, Err e)
             end
         end.

  (* Iterator::find on a slice iterator: the element found and what is left of the iterator *)
  Fixpoint find_rest {A} (p : A -> bool) (l : list A) : option A * list A :=
    match l with
    | [] => (None, [])
    | x :: r => if p x then (Some x, r) else find_rest p r
    end.

  Definition delete_with_path_set (t : tree) (path_nodes : list node) (side_nodes : list Dg)
    : tree * res unit :=
    let st := fold_left (fun s n => sdel s (node_hash n)) path_nodes (t_store t) in
    let parents := tl path_nodes in                          (* path_nodes_iter.next() *)
    let finish (cur : node) (st : store) (sides : list Dg) (pars : list node) :=
      let '(cur2, st2) :=
        fold_left (fun (acc : node * store) (sp : Dg * node) =>
                     let np := new_parent (fst acc) (fst sp) (snd sp) in
                     (np, store_node (snd acc) np))
                  (combine sides pars) (cur, st) in
      (mkTree cur2 st2, Ok tt) in
    match side_nodes with
    | [] => finish Placeholder st side_nodes parents
    | first_side :: sides_rest =>
        match sget st first_side with
        | None => (mkTree (t_root t) st, Err ELoadError)
        | Some p =>
            match node_of_prim p with
            | Err e => (mkTree (t_root t) st, Err e)
            | Ok first_side_node =>
                if is_leaf first_side_node then
                  match find_rest (fun s => negb (dg_eqb s zero)) sides_rest with
                  | (Some side_node, sides') =>
                      match find_rest (fun parent => dg_eqb (bytes_lo parent) side_node
                                                     || dg_eqb (bytes_hi parent) side_node) parents with
                      | (Some old_parent, parents') =>
                          let np := new_parent first_side_node side_node old_parent in
                          finish np (store_node st np) sides' parents'
                      | (None, parents') => finish first_side_node st sides' parents'
                      end
                  | (None, sides') => finish first_side_node st sides' parents
                  end
                else finish Placeholder st side_nodes parents
            end
        end
    end.

  Definition tree_delete (t : tree) (key : Dg) : tree * res unit :=
    if dg_eqb (tree_root t) zero then (t, Ok tt) else
    match path_set t key with
    | Err e => (t, Err e)
    | Ok (path_nodes, side_nodes) =>
        match path_nodes with
        | n :: _ => if dg_eqb (leaf_key n) key then delete_with_path_set t path_nodes side_nodes
                    else (t, Ok tt)
        | [] => (t, Ok tt)
        end
    end.

  (* ---------------------------------------------------------------- sparse/proof.rs *)
  Inductive exclusion_leaf := ExLeaf (leaf_key leaf_value : Dg) | ExPlaceholder.
  Inductive proof :=
  | Inclusion (proof_set : list Dg)
  | Exclusion (proof_set : list Dg) (leaf : exclusion_leaf).

  Definition generate_proof (t : tree) (key : Dg) : res proof :=
    dor '(path_nodes, side_nodes) <- path_set t key;
    match path_nodes with
    | [] => Err EPanic
    | actual_leaf :: _ =>
        if negb (is_placeholder actual_leaf) && dg_eqb (leaf_key actual_leaf) key
        then Ok (Inclusion side_nodes)
        else Ok (Exclusion side_nodes
                   (if is_placeholder actual_leaf then ExPlaceholder
                    else ExLeaf (leaf_key actual_leaf) (leaf_data actual_leaf)))
    end.

  (* the common loop of both verifiers; index = len - 1 - i.  None = `expect` would panic *)
  Fixpoint verify_loop (key : Dg) (ps : list Dg) (cur : Dg) : option Dg :=
    match ps with
    | [] => Some cur
    | side_hash :: ps' =>
        let index := lenN ps' in                 (* proof_set.len() - 1 - i *)
        match kbit key index with
        | None => None
        | Some false => verify_loop key ps' (hnode cur side_hash)
        | Some true => verify_loop key ps' (hnode side_hash cur)
        end
    end.

  Definition exclusion_leaf_hash (l : exclusion_leaf) : Dg :=
    match l with ExLeaf k v => hleaf k v | ExPlaceholder => zero end.

  Definition inclusion_verify (proof_set : list Dg) (root key : Dg) (value : bytes) : option bool :=
    if 256 <? lenN proof_set then Some false else
    match verify_loop key proof_set (hleaf key (sum value)) with
    | None => None
    | Some cur => Some (dg_eqb cur root)
    end.

  Definition exclusion_verify (proof_set : list Dg) (leaf : exclusion_leaf) (root key : Dg) : option bool :=
    if (match leaf with ExLeaf k _ => dg_eqb k key | ExPlaceholder => false end) then Some false else
    if 256 <? lenN proof_set then Some false else
    match verify_loop key proof_set (exclusion_leaf_hash leaf) with
    | None => None
    | Some cur => Some (dg_eqb cur root)
    end.

  (* ---------------------------------------------------------------- merkle_tree/branch.rs *)
  Record branch := mkBranch { b_bits : Dg; b_node : node }.

  Section FromSet.
    (* from_set is generic in the storage: StorageMap (from_set), EmptyStorage
       (root_from_set), VectorStorage (nodes_from_set).  Only `insert` is used. *)
    Context {Stg : Type}.
    Variable s_insert : Stg -> Dg -> primitive -> Stg.
    Definition s_store_node (s : Stg) (n : node) : Stg := s_insert s (node_hash n) (prim_of_node n).

    Fixpoint branch_pad (n : nat) (path : Dg) (cur : node) (s : Stg) : res (node * Stg) :=
      match n with
      | O => Ok (cur, s)
      | S n' => dor c <- create_node_on_path path cur Placeholder;
                branch_pad n' path c (s_store_node s c)
      end.

    Definition pad_branch (ancestor_height : N) (b : branch) (s : Stg) : res (branch * Stg) :=
      if is_node (b_node b) then
        let parent_height := node_height (b_node b) + 1 in
        if ancestor_height <? parent_height then Err EPanic else   (* u32 underflow *)
        let stale_depth := ancestor_height - parent_height in
        dor '(n, s') <- branch_pad (N.to_nat stale_depth) (b_bits b) (b_node b) s;
        Ok (mkBranch (b_bits b) n, s')
      else Ok (b, s).

    Definition merge_branches (s : Stg) (left_branch right_branch : branch) : res (branch * Stg) :=
      dor '(ancestor_height, l, r, s1) <-
        (if is_leaf (b_node left_branch) && is_leaf (b_node right_branch) then
           let parent_depth := common_path_length (b_node left_branch) (b_node right_branch) in
           Ok (max_height - parent_depth, left_branch, right_branch, s)
         else
           let ancestor_depth := kcpl (b_bits left_branch) (b_bits right_branch) in
           let ancestor_height := max_height - ancestor_depth in
           (* for branch in [&mut right_branch, &mut left_branch] *)
           dor '(r, s0) <- pad_branch ancestor_height right_branch s;
           dor '(l, s1) <- pad_branch ancestor_height left_branch s0;
           Ok (ancestor_height, l, r, s1));
      let n := create_node (b_node l) (b_node r) ancestor_height in
      Ok (mkBranch (b_bits l) n, s_store_node s1 n).

    (* BTreeMap<Bytes32, D>::collect: sorted by key, a later duplicate replaces the value *)
    Fixpoint bt_insert (m : list (Dg * bytes)) (k : Dg) (v : bytes) : list (Dg * bytes) :=
      match m with
      | [] => [(k, v)]
      | (k', v') :: r => match kcmp k k' with
                         | Lt => (k, v) :: m
                         | Eq => (k, v) :: r
                         | Gt => (k', v') :: bt_insert r k v
                         end
      end.
    Definition bt_collect (set : list (Dg * bytes)) : list (Dg * bytes) :=
      fold_left (fun m e => bt_insert m (fst e) (snd e)) set [].

    (* the inner `while right_proximity > left_proximity` merge loop; stacks are TOP-FIRST *)
    Fixpoint merge_while (fuel : nat) (left_proximity : N) (nodes : list branch) (prox : list N) (s : Stg)
      : res (list branch * list N * Stg) :=
      match prox with
      | right_proximity :: prox' =>
          if left_proximity <? right_proximity then
            match fuel with
            | O => Err EFuel
            | S f =>
                match nodes with
                | current :: right_b :: nodes' =>
                    dor '(merged, s') <- merge_branches s current right_b;
                    merge_while f left_proximity (merged :: nodes') prox' s'
                | _ => Err EPanic                          (* .expect(..) *)
                end
            end
          else Ok (nodes, prox, s)
      | [] => Ok (nodes, prox, s)
      end.

    Fixpoint window_loop (lefts : list branch) (nodes : list branch) (prox : list N) (s : Stg)
      : res (list branch * Stg) :=
      match lefts with
      | [] => Ok (nodes, s)
      | left_b :: lefts' =>
          match nodes with
          | current :: _ =>
              let left_proximity := common_path_length (b_node current) (b_node left_b) in
              dor '(nodes1, prox1, s1) <- merge_while (length nodes) left_proximity nodes prox s;
              window_loop lefts' (left_b :: nodes1) (left_proximity :: prox1) s1
          | [] => window_loop lefts' (left_b :: nodes) prox s
          end
      end.

    Fixpoint merge_stack (nd : branch) (rest : list branch) (s : Stg) : res (branch * Stg) :=
      match rest with
      | [] => Ok (nd, s)
      | next :: rest' => dor '(m, s') <- merge_branches s nd next; merge_stack m rest' s'
      end.

    (* returns the root node and the final storage *)
    Definition from_set_gen (s : Stg) (set : list (Dg * bytes)) : res (node * Stg) :=
      let sorted := bt_collect set in
      let branches := map (fun e => let n := create_leaf (fst e) (snd e) in mkBranch (leaf_key n) n) sorted in
      let s1 := fold_left (fun s b => s_store_node s (b_node b)) branches s in
      match branches with
      | [] => Ok (Placeholder, s1)
      | [b] => Ok (b_node b, s1)
      | _ =>
          dor '(nodes, s2) <- window_loop (rev branches) [] [] s1;   (* branches.pop() *)
          match nodes with
          | [] => Err EPanic
          | n0 :: rest =>
              dor '(top, s3) <- merge_stack n0 rest s2;
              let height := node_height (b_node top) in
              if max_height <? height then Err EPanic else
              let depth := max_height - height in
              branch_pad (N.to_nat depth) (b_bits top) (b_node top) s3
          end
      end.
  End FromSet.

  (* MerkleTree::from_set over a StorageMap *)
  Definition from_set (st : store) (set : list (Dg * bytes)) : res tree :=
    dor '(n, st') <- from_set_gen sset st set; Ok (mkTree n st').
  (* in_memory::MerkleTree::root_from_set (EmptyStorage) *)
  Definition root_from_set (set : list (Dg * bytes)) : res Dg :=
    dor '(n, _) <- from_set_gen (fun (u : unit) _ _ => u) tt set; Ok (node_hash n).
  (* in_memory::MerkleTree::nodes_from_set (VectorStorage: push only); the vector is returned
     in push order *)
  Definition nodes_from_set (set : list (Dg * bytes)) : res (Dg * list (Dg * primitive)) :=
    dor '(n, v) <- from_set_gen (fun (v : list (Dg * primitive)) k p => (k, p) :: v) [] set;
    Ok (node_hash n, rev v).
End SparseModel.

Arguments Placeholder {Dg}.
Arguments ExPlaceholder {Dg}.
