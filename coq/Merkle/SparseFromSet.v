(* Merkle/SparseFromSet.v — MerkleTree::from_set (sorted leaves, three-node-window merge with
   proximities, merge_branches with placeholder padding) builds the canonical compact tree of
   the set and stores all of its nodes.  Runs of consecutive sorted leaves are described by a
   common key prefix and a suffix map. *)
From Coq Require Import Arith.
From FV Require Import Base.Bytes Merkle.SparseSpec Merkle.SparseFun Merkle.SparseModel
  Merkle.SparseProofs Merkle.SparseRefine Merkle.SparseTree Merkle.SparseExt Merkle.SparseInsert
  Merkle.SparseDelete Merkle.SparseHistory Merkle.SparseSorted.
Open Scope N_scope.

(* ---------------------------------------------------------------- suffix maps under a common prefix *)
Section PreMap.
  Context {V : Type}.
  Notation smap := (@smap V).

  Definition pre_map (u : key) (m : smap) : smap := map (fun e => (u ++ fst e, snd e)) m.

  Lemma pre_map_nil (m : smap) : pre_map [] m = m.
  Proof. unfold pre_map. induction m as [|[k v] m IH]; [reflexivity|]. cbn [map]. rewrite IH. reflexivity. Qed.
  Lemma pre_map_pre_map u w (m : smap) : pre_map u (pre_map w m) = pre_map (u ++ w) m.
  Proof. unfold pre_map. rewrite map_map. apply map_ext. intros [k v]. cbn [fst snd]. rewrite app_assoc. reflexivity. Qed.
  Lemma pre_map_app u (m1 m2 : smap) : pre_map u (m1 ++ m2) = pre_map u m1 ++ pre_map u m2.
  Proof. apply map_app. Qed.
  Lemma pre_map_length u (m : smap) : length (pre_map u m) = length m.
  Proof. apply map_length. Qed.

  Lemma sub_app b (m1 m2 : smap) : sub b (m1 ++ m2) = sub b m1 ++ sub b m2.
  Proof. unfold sub. apply flat_map_app. Qed.

  Lemma sub_pre_same b u (m : smap) : sub b (pre_map (b :: u) m) = pre_map u m.
  Proof.
    induction m as [|[k v] m IH]; [reflexivity|]. cbn [pre_map map fst snd app] in *.
    rewrite sub_cons, eqb_reflx. f_equal. exact IH.
  Qed.
  Lemma sub_pre_other b u (m : smap) : sub (negb b) (pre_map (b :: u) m) = [].
  Proof.
    induction m as [|[k v] m IH]; [reflexivity|]. cbn [pre_map map fst snd app] in *.
    rewrite sub_cons. assert (Bool.eqb b (negb b) = false) as -> by (destruct b; reflexivity). exact IH.
  Qed.

  Lemma build_pre_chain : forall u d (m : smap), (2 <= length m)%nat ->
    build (length u + d) (pre_map u m) = chain u (build d m).
  Proof.
    induction u as [|b u IH]; intros d m Hm.
    - rewrite pre_map_nil. reflexivity.
    - cbn [length plus]. rewrite build_big by (rewrite pre_map_length; exact Hm).
      destruct b.
      + rewrite sub_pre_same, (sub_pre_other true). rewrite build_nil, IH by exact Hm. reflexivity.
      + rewrite sub_pre_same, (sub_pre_other false). rewrite build_nil, IH by exact Hm. reflexivity.
  Qed.

  Lemma build_join d u1 (m1 : smap) u2 m2 : m1 <> [] -> m2 <> [] ->
    build (S d) (pre_map (false :: u1) m1 ++ pre_map (true :: u2) m2)
    = CN (build d (pre_map u1 m1)) (build d (pre_map u2 m2)).
  Proof.
    intros H1 H2. rewrite build_big.
    - rewrite !sub_app, !sub_pre_same, (sub_pre_other false), (sub_pre_other true), app_nil_r. reflexivity.
    - rewrite app_length, !pre_map_length. destruct m1; [contradiction|]. destruct m2; [contradiction|]. simpl. lia.
  Qed.

  Lemma swf_pre_map u d (m : smap) : swf d m -> swf (length u + d) (pre_map u m).
  Proof.
    intros [Hnd Hl]. split.
    - unfold pre_map. rewrite map_map. cbn [fst].
      clear Hl. induction m as [|[k v] m IH]; [constructor|]. inversion Hnd; subst. cbn [map fst]. constructor; [|apply IH; assumption].
      intros Hin. apply in_map_iff in Hin as [[k' v'] [E Hin]]. cbn [fst] in E. apply app_inv_head in E. subst.
      apply H1. apply in_map_iff. exists (k, v'). auto.
    - unfold pre_map. apply Forall_map. eapply Forall_impl; [|exact Hl]. intros [k v] H. cbn [fst] in *. rewrite app_length. lia.
  Qed.

  Lemma NoDup_app_disj {A} : forall (a b : list A), NoDup a -> NoDup b -> (forall x, In x a -> ~ In x b) -> NoDup (a ++ b).
  Proof.
    induction a as [|x a IH]; intros b Ha Hb Hd; [exact Hb|]. inversion Ha; subst. cbn [app]. constructor.
    - intros Hin. apply in_app_or in Hin as [Hin|Hin]; [contradiction|]. apply (Hd x); [left; reflexivity | exact Hin].
    - apply IH; auto. intros y Hy. apply Hd. right. exact Hy.
  Qed.

  Lemma swf_join d u1 d1 (m1 : smap) u2 d2 m2 : swf d1 m1 -> swf d2 m2 ->
    (length u1 + d1 = d)%nat -> (length u2 + d2 = d)%nat ->
    swf (S d) (pre_map (false :: u1) m1 ++ pre_map (true :: u2) m2).
  Proof.
    intros H1 H2 E1 E2.
    pose proof (swf_pre_map (false :: u1) d1 m1 H1) as [N1 L1]. pose proof (swf_pre_map (true :: u2) d2 m2 H2) as [N2 L2].
    cbn [length plus] in *. rewrite E1 in L1. rewrite E2 in L2. split.
    - rewrite map_app. apply NoDup_app_disj; auto.
      intros x Hx Hy. unfold pre_map in Hx, Hy. rewrite map_map in Hx, Hy.
      apply in_map_iff in Hx as [e1 [Ex _]]. apply in_map_iff in Hy as [e2 [Ey _]]. cbn [fst app] in *. congruence.
    - apply Forall_app. split; assumption.
  Qed.

  Definition fst_key (m : smap) : key := match m with (k, _) :: _ => k | [] => [] end.
  Lemma fst_key_pre_app u (m1 m2 : smap) : m1 <> [] -> fst_key (pre_map u m1 ++ m2) = u ++ fst_key m1.
  Proof. destruct m1 as [|[k v] m1]; [contradiction|]. reflexivity. Qed.
End PreMap.

Lemma build_perm {V} d : forall (m m' : @smap V), Permutation.Permutation m m' -> build d m = build d m'.
Proof.
  induction d as [|d IH]; intros m m' HP.
  - pose proof (Permutation.Permutation_length HP) as HL.
    destruct m as [|[k v] [|e2 m]].
    + apply Permutation.Permutation_nil in HP. subst. reflexivity.
    + apply Permutation.Permutation_length_1_inv in HP. subst. reflexivity.
    + destruct m' as [|[k' v'] [|e2' m']]; simpl in HL; try lia. reflexivity.
  - pose proof (Permutation.Permutation_length HP) as HL.
    destruct m as [|[k v] [|e2 m]].
    + apply Permutation.Permutation_nil in HP. subst. reflexivity.
    + apply Permutation.Permutation_length_1_inv in HP. subst. reflexivity.
    + destruct m' as [|[k' v'] [|e2' m']]; simpl in HL; try lia.
      cbn [build]. rewrite (IH _ _ (sub_perm false _ _ HP)), (IH _ _ (sub_perm true _ _ HP)). reflexivity.
Qed.

Section FromSet.
  Context {Dg : Type} (IF : smt_iface Dg).
  Notation dg_eqb := (i_eqb IF).
  Notation zero := (i_zero IF).
  Notation hleaf := (i_hleaf IF).
  Notation hnode := (i_hnode IF).
  Notation sum := (i_sum IF).
  Notation kbit := (i_kbit IF).
  Notation kcpl := (i_kcpl IF).
  Notation bits := (i_bits IF).
  Notation of_bits := (i_of_bits IF).
  Let kcpl_spec := i_kcpl_spec IF.
  Let of_bits_bits := i_of_bits_bits IF.
  Let bits_of_bits := i_bits_of_bits IF.
  Notation shleaf := (shleaf hleaf of_bits).
  Notation root := (c_root zero shleaf hnode).
  Notation ctree := (@ctree Dg).
  Notation node := (@node Dg).
  Notation store := (@store Dg).
  Notation smap := (@smap Dg).
  Notation sget := (sget dg_eqb).
  Notation sset := (sset dg_eqb).
  Notation node_hash := (node_hash zero).
  Notation prim_of_node := (prim_of_node zero).
  Notation node_of := (node_of IF).
  Notation stored := (stored IF).
  Notation store_node := (store_node dg_eqb zero).
  Notation grows := (grows IF).
  Notation placeholder_loop := (placeholder_loop dg_eqb zero hnode kbit kcpl).
  Notation branch_pad := (branch_pad zero hnode kbit kcpl sset).
  Notation pad_branch := (pad_branch zero hnode kbit kcpl sset).
  Notation merge_branches := (merge_branches zero hnode kbit kcpl sset).

  Lemma branch_pad_loop : forall n path cur s, branch_pad n path cur s = placeholder_loop n path cur s.
  Proof.
    induction n as [|n IH]; intros path cur s; [reflexivity|].
    cbn [SparseModel.branch_pad SparseModel.placeholder_loop].
    destruct (create_node_on_path zero hnode kbit kcpl path cur Placeholder) as [c|e]; [|reflexivity].
    cbn [rbind]. apply IH.
  Qed.

  (* the placeholder loop only adds nodes *)
  Lemma loop_chain_g key : forall n u A0 (sa sb : ctree) d st rest,
    length u = n -> cwf d (CN sa sb) -> (length (A0 ++ u) + d = 256)%nat ->
    bits key = (A0 ++ u) ++ rest -> stored st (A0 ++ u) (CN sa sb) ->
    exists st', placeholder_loop n key (node_of (A0 ++ u) (CN sa sb)) st = Ok (node_of A0 (chain u (CN sa sb)), st') /\
                stored st' A0 (chain u (CN sa sb)) /\ grows st st' /\ cwf (n + d) (chain u (CN sa sb)).
  Proof.
    induction n as [|n IH]; intros u A0 sa sb d st rest Hu Hc Hp Hb Hs.
    - destruct u; [|discriminate]. rewrite app_nil_r in *. exists st.
      change (chain [] (CN sa sb)) with (CN sa sb). cbn [SparseModel.placeholder_loop plus].
      split; [reflexivity|]. split; [exact Hs|]. split; [apply grows_refl | exact Hc].
    - destruct (split_last u n Hu) as [u0 [b [-> Hu0]]].
      rewrite app_assoc in Hp, Hb, Hs |- *. cbn [SparseModel.placeholder_loop].
      assert (length ((A0 ++ u0) ++ [b]) <= 256)%nat as Hle by lia.
      rewrite (join_placeholder IF key (A0 ++ u0) b sa sb rest Hb Hle). cbn [rbind].
      pose proof (cwf_chain1 d b sa sb Hc) as Hc1.
      assert (length (A0 ++ u0) + S d = 256)%nat as Hp1 by (rewrite app_length in Hp; simpl in Hp; lia).
      assert (exists sa1 sb1, chain [b] (CN sa sb) = CN sa1 sb1) as [sa1 [sb1 E1]] by (destruct b; eexists; eexists; reflexivity).
      assert (chain [b] (CN sa sb) <> CE) as Hn1 by (rewrite E1; discriminate).
      set (st1 := store_node st (node_of (A0 ++ u0) (chain [b] (CN sa sb)))).
      assert (grows st st1) as Hg1 by (apply (grows_store_node IF st (A0 ++ u0) _ (S d)); auto).
      assert (stored st1 (A0 ++ u0) (chain [b] (CN sa sb))) as Hs1.
      { assert (stored st1 ((A0 ++ u0) ++ [b]) (CN sa sb)) as Hsub by (apply (Hg1 _ _ d); auto).
        assert (sget st1 (root (A0 ++ u0) (chain [b] (CN sa sb))) = Some (prim_of_node (node_of (A0 ++ u0) (chain [b] (CN sa sb))))) as Hn.
        { unfold st1, SparseModel.store_node. rewrite (node_hash_node_of IF). apply (sget_sset_eq IF). }
        destruct b; cbn [chain fold_right SparseTree.stored] in *; auto. }
      rewrite E1 in *.
      destruct (IH u0 A0 sa1 sb1 (S d) st1 (b :: rest)) as [st' [E [Hs' [Hg' Hc']]]]; auto.
      { rewrite <- app_assoc in Hb. exact Hb. }
      exists st'. rewrite chain_snoc, E1. split; [exact E|]. split; [exact Hs'|]. split.
      + eapply grows_trans; eauto.
      + replace (S n + d)%nat with (n + S d)%nat by lia. exact Hc'.
  Qed.

  (* ---------------------------------------------------------------- runs and good branches *)
  Record run := mkRun { r_pre : key; r_d : nat; r_map : smap }.

  Definition good (st : store) (b : @branch Dg) (r : run) : Prop :=
    r_map r <> [] /\ (length (r_pre r) + r_d r = 256)%nat /\ swf (r_d r) (r_map r) /\
    b_bits b = of_bits (r_pre r ++ fst_key (r_map r)) /\
    b_node b = node_of (r_pre r) (build (r_d r) (r_map r)) /\
    stored st (r_pre r) (build (r_d r) (r_map r)).

  Lemma good_grows st st' b r : grows st st' -> good st b r -> good st' b r.
  Proof.
    intros Hg [H1 [H2 [H3 [H4 [H5 H6]]]]].
    split; [exact H1|]. split; [exact H2|]. split; [exact H3|]. split; [exact H4|]. split; [exact H5|].
    apply (Hg _ _ (r_d r)); auto. apply cwf_build. exact H3.
  Qed.

  Lemma fst_key_length d (m : smap) : m <> [] -> swf d m -> length (fst_key m) = d.
  Proof. destruct m as [|[k v] m]; [contradiction|]. intros _ [_ Hl]. inversion Hl as [|? ? Hk _]. exact Hk. Qed.

  (* padding one branch up to just below the ancestor at [A] *)
  Lemma pad_ok st b A c u d (m : smap) :
    good st b (mkRun ((A ++ [c]) ++ u) d m) ->
    exists st', pad_branch (height_at A) b st
                = Ok (mkBranch (b_bits b) (node_of (A ++ [c]) (build (length u + d) (pre_map u m))), st') /\
                stored st' (A ++ [c]) (build (length u + d) (pre_map u m)) /\ grows st st'.
  Proof.
    intros [Hne [Hp [Hwf [Hb [Hn Hs]]]]]. cbn [r_pre r_d r_map] in *.
    unfold SparseModel.pad_branch. rewrite Hn.
    destruct m as [|[k1 v1] [|e2 m']]; [contradiction | |].
    - (* a leaf is not padded *)
      rewrite build_single. cbn [SparseTree.node_of is_node node_prefix prefix_eqb pre_map map fst snd].
      rewrite build_single. exists st. rewrite build_single in Hs, Hn. split; [|split; [|apply grows_refl]].
      + destruct b as [bb bn]. cbn [b_bits b_node] in *. subst bn.
        rewrite (node_of_leaf_eq IF ((A ++ [c]) ++ u) k1 (A ++ [c]) (u ++ k1) v1) by (rewrite <- !app_assoc; reflexivity).
        reflexivity.
      + eapply (stored_leaf_move IF); [|exact Hs]. rewrite <- !app_assoc. reflexivity.
    - set (mm := (k1, v1) :: e2 :: m') in *.
      assert (2 <= length mm)%nat as Hbig by (unfold mm; simpl; lia).
      destruct d as [|d0]; [apply swf_zero_small in Hwf; unfold mm in Hwf; simpl in Hwf; lia|].
      pose proof (build_big d0 mm Hbig) as Eb. rewrite Eb in *.
      set (sa := build d0 (sub false mm)) in *. set (sb := build d0 (sub true mm)) in *.
      assert (cwf (S d0) (CN sa sb)) as Hc by (rewrite <- Eb; apply cwf_build; exact Hwf).
      cbn [SparseTree.node_of is_node node_prefix prefix_eqb SparseModel.node_height].
      assert (height_at A <? height_at ((A ++ [c]) ++ u) + 1 = false) as ->.
      { apply N.ltb_ge. unfold height_at. rewrite !app_length in *. simpl in *. lia. }
      assert (N.to_nat (height_at A - (height_at ((A ++ [c]) ++ u) + 1)) = length u) as ->.
      { unfold height_at. rewrite !app_length in *. simpl in *. lia. }
      change (Node (hnode (root (((A ++ [c]) ++ u) ++ [false]) sa) (root (((A ++ [c]) ++ u) ++ [true]) sb))
                   (height_at ((A ++ [c]) ++ u)) PfxNode (root (((A ++ [c]) ++ u) ++ [false]) sa) (root (((A ++ [c]) ++ u) ++ [true]) sb))
        with (node_of ((A ++ [c]) ++ u) (CN sa sb)).
      change (SparseModel.branch_pad zero hnode kbit kcpl sset) with branch_pad. rewrite branch_pad_loop.
      assert (bits (b_bits b) = ((A ++ [c]) ++ u) ++ k1) as Hbits.
      { rewrite Hb. apply bits_of_bits. cbn [fst_key]. rewrite app_length.
        destruct Hwf as [_ Hl]. inversion Hl; subst. cbn [fst] in *. lia. }
      destruct (loop_chain_g (b_bits b) (length u) u (A ++ [c]) sa sb (S d0) st k1 eq_refl Hc Hp Hbits Hs)
        as [st' [E [Hs' [Hg' _]]]].
      rewrite E. cbn [rbind]. exists st'. rewrite build_pre_chain by exact Hbig. rewrite Eb.
      split; [reflexivity|]. split; assumption.
  Qed.

  Lemma pad_leaf ah (b : @branch Dg) st : is_node (b_node b) = false -> pad_branch ah b st = Ok (b, st).
  Proof. intros H. unfold SparseModel.pad_branch. rewrite H. reflexivity. Qed.

  Lemma good_bits st b r : good st b r -> bits (b_bits b) = r_pre r ++ fst_key (r_map r).
  Proof.
    intros [Hne [Hp [Hwf [Hb _]]]]. rewrite Hb. apply bits_of_bits. rewrite app_length, (fst_key_length (r_d r)); auto.
  Qed.

  Lemma good_node_shape st b r : good st b r ->
    (exists k v, r_map r = [(k, v)] /\ b_node b = node_of (r_pre r) (CL k v)) \/
    ((2 <= length (r_map r))%nat /\ exists sa sb, build (r_d r) (r_map r) = CN sa sb).
  Proof.
    intros [Hne [Hp [Hwf [Hb [Hn Hs]]]]]. destruct (r_map r) as [|[k v] [|e2 m]] eqn:Em; [contradiction | left | right].
    - exists k, v. rewrite Hn, build_single. auto.
    - split; [simpl; lia|]. destruct (r_d r) as [|d0] eqn:Ed; [apply swf_zero_small in Hwf; simpl in Hwf; lia|].
      rewrite build_big by (simpl; lia). eauto.
  Qed.

  (* merging two adjacent runs whose prefixes branch at [A] *)
  Lemma merge_ok st b1 b2 A u1 d1 (m1 : smap) u2 d2 m2 :
    good st b1 (mkRun (A ++ false :: u1) d1 m1) -> good st b2 (mkRun (A ++ true :: u2) d2 m2) ->
    exists b st', merge_branches st b1 b2 = Ok (b, st') /\
      good st' b (mkRun A (S (length u1 + d1)) (pre_map (false :: u1) m1 ++ pre_map (true :: u2) m2)) /\
      grows st st'.
  Proof.
    intros G1 G2.
    pose proof (good_bits _ _ _ G1) as HK1. pose proof (good_bits _ _ _ G2) as HK2. cbn [r_pre r_map] in HK1, HK2.
    pose proof G1 as [Hne1 [Hp1 [Hwf1 [Hb1 [Hn1 Hs1]]]]]. pose proof G2 as [Hne2 [Hp2 [Hwf2 [Hb2 [Hn2 Hs2]]]]].
    cbn [r_pre r_d r_map] in *.
    assert (length u2 + d2 = length u1 + d1)%nat as Edd by (rewrite !app_length in Hp1, Hp2; simpl in Hp1, Hp2; lia).
    assert (length A + S (length u1 + d1) = 256)%nat as HpA by (rewrite !app_length in Hp1; simpl in Hp1; lia).
    assert (kcpl (b_bits b1) (b_bits b2) = N.of_nat (length A)) as Ecpl.
    { rewrite kcpl_spec, HK1, HK2, <- !app_assoc. cbn [app]. rewrite cpl_diverge. reflexivity. }
    assert (max_height - N.of_nat (length A) = height_at A) as Eh by reflexivity.
    rewrite <- (app_snoc_assoc A false u1) in G1. rewrite <- (app_snoc_assoc A true u2) in G2.
    unfold SparseModel.merge_branches.
    (* both shapes of the model's first phase are the two paddings *)
    assert ((if is_leaf (b_node b1) && is_leaf (b_node b2)
             then Ok (max_height - common_path_length zero kcpl (b_node b1) (b_node b2), b1, b2, st)
             else (dor '(r, s0) <- pad_branch (max_height - kcpl (b_bits b1) (b_bits b2)) b2 st;
                   dor '(l, s1) <- pad_branch (max_height - kcpl (b_bits b1) (b_bits b2)) b1 s0;
                   Ok (max_height - kcpl (b_bits b1) (b_bits b2), l, r, s1)))
            = (dor '(r, s0) <- pad_branch (height_at A) b2 st;
               dor '(l, s1) <- pad_branch (height_at A) b1 s0;
               Ok (height_at A, l, r, s1))) as Ephase.
    { rewrite Ecpl, Eh.
      destruct (is_leaf (b_node b1) && is_leaf (b_node b2)) eqn:El; [|reflexivity].
      apply andb_true_iff in El as [El1 El2].
      destruct (good_node_shape _ _ _ G1) as [[k1 [v1 [Em1 En1]]]|[_ [sa [sb E]]]];
        [|cbn [r_pre r_d r_map] in *; rewrite Hn1, E in El1; discriminate].
      destruct (good_node_shape _ _ _ G2) as [[k2 [v2 [Em2 En2]]]|[_ [sa [sb E]]]];
        [|cbn [r_pre r_d r_map] in *; rewrite Hn2, E in El2; discriminate].
      cbn [r_pre r_map] in *.
      rewrite (pad_leaf _ b2 st) by (rewrite En2; reflexivity). cbn [rbind].
      rewrite (pad_leaf _ b1 st) by (rewrite En1; reflexivity). cbn [rbind].
      unfold SparseModel.common_path_length. rewrite En1, En2.
      cbn [SparseTree.node_of is_placeholder orb SparseModel.leaf_key bytes_lo].
      rewrite Em1 in Hb1. rewrite Em2 in Hb2. cbn [fst_key] in Hb1, Hb2.
      rewrite !app_snoc_assoc. rewrite <- Hb1, <- Hb2, Ecpl, Eh. reflexivity. }
    change (SparseModel.pad_branch zero hnode kbit kcpl sset) with pad_branch in Ephase |- *.
    rewrite Ephase. clear Ephase.
    destruct (pad_ok st b2 A true u2 d2 m2 G2) as [s0 [E2 [HsX2 Hg2]]]. rewrite E2. cbn [rbind].
    destruct (pad_ok s0 b1 A false u1 d1 m1 (good_grows _ _ _ _ Hg2 G1)) as [s1 [E1 [HsX1 Hg1]]]. rewrite E1. cbn [rbind b_node b_bits].
    rewrite Edd in *.
    set (dd := (length u1 + d1)%nat) in *.
    set (X1 := build dd (pre_map u1 m1)) in *. set (X2 := build dd (pre_map u2 m2)) in *.
    set (joined := pre_map (false :: u1) m1 ++ pre_map (true :: u2) m2).
    assert (build (S dd) joined = CN X1 X2) as Ej by (apply build_join; assumption).
    assert (swf (S dd) joined) as Hwfj by (apply (swf_join dd u1 d1 m1 u2 d2 m2); auto).
    assert (cwf (S dd) (CN X1 X2)) as Hcj by (rewrite <- Ej; apply cwf_build; exact Hwfj).
    assert (create_node zero hnode (node_of (A ++ [false]) X1) (node_of (A ++ [true]) X2) (height_at A) = node_of A (CN X1 X2)) as En.
    { unfold create_node. rewrite !(node_hash_node_of IF). reflexivity. }
    rewrite En. unfold SparseModel.s_store_node.
    change (sset s1 (node_hash (node_of A (CN X1 X2))) (prim_of_node (node_of A (CN X1 X2)))) with (store_node s1 (node_of A (CN X1 X2))).
    assert (CN X1 X2 <> CE) as Hnn by discriminate.
    pose proof (grows_store_node IF s1 A (CN X1 X2) (S dd) Hnn Hcj HpA) as Hg3.
    eexists. eexists. split; [reflexivity|]. split.
    - split; [|split; [exact HpA|split; [exact Hwfj|split; [|split]]]]; cbn [r_pre r_d r_map].
      + unfold joined. destruct m1; [contradiction|]. discriminate.
      + cbn [b_bits]. rewrite Hb1. f_equal. unfold joined. rewrite fst_key_pre_app by exact Hne1.
        rewrite <- !app_assoc. reflexivity.
      + cbn [b_node]. rewrite Ej. reflexivity.
      + rewrite Ej. cbn [SparseTree.stored]. split; [|split].
        * unfold SparseModel.store_node. rewrite (node_hash_node_of IF). apply (sget_sset_eq IF).
        * destruct Hcj as [Hc1 [Hc2 _]].
          assert (length (A ++ [false]) + dd = 256)%nat as Hlf by (rewrite app_length; simpl; lia).
          exact (Hg3 X1 (A ++ [false]) dd Hc1 Hlf HsX1).
        * destruct Hcj as [Hc1 [Hc2 _]].
          assert (length (A ++ [true]) + dd = 256)%nat as Hlt by (rewrite app_length; simpl; lia).
          exact (Hg3 X2 (A ++ [true]) dd Hc2 Hlt (Hg1 X2 (A ++ [true]) dd Hc2 Hlt HsX2)).
    - eapply grows_trans; [exact Hg2|]. eapply grows_trans; [exact Hg1 | exact Hg3].
  Qed.

  (* ---------------------------------------------------------------- the stack of open runs *)
  Notation merge_while := (merge_while zero hnode kbit kcpl sset).
  Notation window_loop := (window_loop zero hnode kbit kcpl sset).
  Notation merge_stack := (merge_stack zero hnode kbit kcpl sset).

  Definition expand (r : run) : smap := pre_map (r_pre r) (r_map r).
  Definition all_entries (rs : list run) : smap := flat_map expand rs.
  Definition top_pre (rs : list run) : key := match rs with r :: _ => r_pre r | [] => [] end.

  (* stacks are TOP-FIRST; the top run is the leftmost; c = depth at which two neighbours branch *)
  Inductive stack_ok (st : store) : list (@branch Dg) -> list N -> list run -> Prop :=
  | so_one b r : good st b r -> stack_ok st [b] [] [r]
  | so_cons b r b' r' bs cs rs c A u1 u2 :
      good st b r -> r_pre r = A ++ false :: u1 -> r_pre r' = A ++ true :: u2 -> c = N.of_nat (length A) ->
      (match cs with c' :: _ => c' < c | [] => True end) ->
      stack_ok st (b' :: bs) cs (r' :: rs) ->
      stack_ok st (b :: b' :: bs) (c :: cs) (r :: r' :: rs).

  Lemma stack_ok_grows st st' bs cs rs : grows st st' -> stack_ok st bs cs rs -> stack_ok st' bs cs rs.
  Proof.
    intros Hg H. induction H.
    - constructor. eapply good_grows; eauto.
    - econstructor; eauto. eapply good_grows; eauto.
  Qed.

  Lemma stack_len st bs cs rs : stack_ok st bs cs rs -> length bs = S (length cs).
  Proof. intros H. induction H; simpl; auto. Qed.

  Lemma merge_top st b b' bs c cs r r' rs :
    stack_ok st (b :: b' :: bs) (c :: cs) (r :: r' :: rs) ->
    exists bn rn st', SparseModel.merge_branches zero hnode kbit kcpl sset st b b' = Ok (bn, st') /\
      stack_ok st' (bn :: bs) cs (rn :: rs) /\ grows st st' /\
      expand rn = expand r ++ expand r' /\ (exists u1, r_pre r = r_pre rn ++ false :: u1) /\
      c = N.of_nat (length (r_pre rn)).
  Proof.
    intros H. inversion H as [|? ? ? ? ? ? ? ? A u1 u2 Hg Hr Hr' Hc Hcs Htail]; subst.
    destruct r as [P d m]. destruct r' as [P' d' m']. cbn [r_pre] in Hr, Hr'. subst P P'.
    assert (good st b' (mkRun (A ++ true :: u2) d' m')) as Hg' by (inversion Htail; assumption).
    destruct (merge_ok st b b' A u1 d m u2 d' m' Hg Hg') as [bn [st' [E [Hgn Hgr]]]].
    exists bn, (mkRun A (S (length u1 + d)) (pre_map (false :: u1) m ++ pre_map (true :: u2) m')), st'.
    split; [exact E|]. split; [|split; [exact Hgr|split; [|split; [exists u1; reflexivity | reflexivity]]]].
    - inversion Htail as [|? ? b'' r'' bs' cs' rs' c' A' u1' u2' Hg2 Hr2 Hr2' Hc' Hcs' Htail']; subst.
      + constructor. exact Hgn.
      + cbn [r_pre] in Hr2.
        assert (length A' < length A)%nat as Hl by lia.
        destruct (app_cons_longer A A' true false u2 u1' Hr2 Hl) as [w Hw].
        eapply (so_cons st' bn _ b'' r'' bs' cs' rs' _ A' w u2'); eauto.
        eapply stack_ok_grows; eauto.
    - unfold expand. cbn [r_pre r_map]. rewrite pre_map_app, !pre_map_pre_map. reflexivity.
  Qed.

  Lemma merge_while_ok : forall prox nodes rs st fuel A0 lp,
    stack_ok st nodes prox rs -> (length prox <= fuel)%nat ->
    (exists y, top_pre rs = A0 ++ true :: y) -> lp = N.of_nat (length A0) ->
    exists nodes1 prox1 rs1 st1,
      merge_while fuel lp nodes prox st = Ok (nodes1, prox1, st1) /\
      stack_ok st1 nodes1 prox1 rs1 /\ grows st st1 /\ all_entries rs1 = all_entries rs /\
      (exists y', top_pre rs1 = A0 ++ true :: y') /\
      (match prox1 with c :: _ => c < lp | [] => True end).
  Proof.
    induction prox as [|c cs IH]; intros nodes rs st fuel A0 lp Hst Hf [y Hy] Hlp.
    - exists nodes, [], rs, st. destruct fuel; cbn [SparseModel.merge_while];
        (split; [reflexivity|]; split; [exact Hst|]; split; [apply grows_refl|]; split; [reflexivity|]; split; [eauto | exact I]).
    - inversion Hst as [|b r b' r' bs ? rs' ? A u1 u2 Hg Hr Hr' Hc Hcs Htail]; subst.
      cbn [top_pre] in Hy. cbn [SparseModel.merge_while].
      destruct (N.of_nat (length A0) <? N.of_nat (length A)) eqn:El.
      + pose proof El as Elb. apply N.ltb_lt in El. destruct fuel as [|f]; [simpl in Hf; lia|].
        cbn [SparseModel.merge_while]. rewrite Elb.
        destruct (merge_top st b b' bs _ cs r r' rs' Hst) as [bn [rn [st' [E [Hst' [Hg' [Eex [[w Hw] Hcn]]]]]]]].
        rewrite E. cbn [rbind].
        assert (exists y', r_pre rn = A0 ++ true :: y') as Hy'.
        { rewrite Hw in Hy. apply (app_cons_longer (r_pre rn) A0 false true w y Hy).
          apply Nat2N.inj in Hcn. lia. }
        destruct (IH (bn :: bs) (rn :: rs') st' f A0 (N.of_nat (length A0)) Hst') as [n1 [p1 [r1 [s1 [E1 [H1 [G1 [Ee1 [Hy1 Hp1]]]]]]]]]; auto.
        { simpl in Hf. lia. }
        exists n1, p1, r1, s1. split; [exact E1|]. split; [exact H1|]. split; [eapply grows_trans; eauto|].
        split; [|split; assumption]. rewrite Ee1. cbn [all_entries flat_map]. rewrite Eex, <- app_assoc. reflexivity.
      + pose proof El as Elb. apply N.ltb_ge in El.
        exists (b :: b' :: bs), (N.of_nat (length A) :: cs), (r :: r' :: rs'), st.
        split; [destruct fuel; cbn [SparseModel.merge_while]; rewrite Elb; reflexivity|]. split; [exact Hst|]. split; [apply grows_refl|]. split; [reflexivity|]. split; [eauto|].
        assert (length A <> length A0) as Hne.
        { intros E. rewrite Hr in Hy. destruct (app_cons_same_len A A0 false true u1 y Hy E) as [_ X]. discriminate. }
        lia.
  Qed.

  (* ---------------------------------------------------------------- leaves *)
  Definition lbr (e : Dg * bytes) : @branch Dg :=
    let n := create_leaf hleaf sum (fst e) (snd e) in mkBranch (leaf_key zero n) n.
  Definition lrun (e : Dg * bytes) : run := mkRun (bits (fst e)) 0 [([], sum (snd e))].
  Notation ent := (ent IF).
  Notation klt := (klt IF).

  Lemma leaf_good st e : length (bits (fst e)) = 256%nat -> stored st (bits (fst e)) (CL [] (sum (snd e))) ->
    good st (lbr e) (lrun e).
  Proof.
    intros Hk Hs. destruct e as [k d]. cbn [fst snd] in *. unfold good, lbr, lrun. cbn [r_pre r_d r_map fst snd b_bits b_node].
    split; [discriminate|]. split; [lia|]. split; [split; [repeat constructor; auto | repeat constructor]|].
    cbn [fst_key]. rewrite build_single. unfold SparseModel.create_leaf. cbn [SparseModel.leaf_key bytes_lo SparseTree.node_of].
    rewrite app_nil_r, of_bits_bits. auto.
  Qed.

  Fixpoint desc_from (etop : Dg * bytes) (Lf : list (Dg * bytes)) : Prop :=
    match Lf with [] => True | f :: r => klt (fst f) (fst etop) /\ desc_from f r end.

  Lemma expand_lrun e : expand (lrun e) = [ent e].
  Proof. unfold expand, lrun, pre_map, SparseSorted.ent. cbn [r_pre r_map map fst snd]. rewrite app_nil_r. reflexivity. Qed.

  Lemma window_ok : forall Lf etop nodes prox rs st,
    stack_ok st nodes prox rs -> (exists rs', rs = lrun etop :: rs') -> desc_from etop Lf ->
    Forall (fun f => length (bits (fst f)) = 256%nat) (etop :: Lf) ->
    Forall (fun f => good st (lbr f) (lrun f)) Lf ->
    exists nodes' prox' rs' st',
      window_loop (map lbr Lf) nodes prox st = Ok (nodes', st') /\ stack_ok st' nodes' prox' rs' /\ grows st st' /\
      all_entries rs' = map ent (rev Lf) ++ all_entries rs.
  Proof.
    induction Lf as [|f Lf IH]; intros etop nodes prox rs st Hst [rs0 Hrs] Hd Hlen Hgood.
    - exists nodes, prox, rs, st. cbn. split; [reflexivity|]. split; [exact Hst|]. split; [apply grows_refl | reflexivity].
    - destruct Hd as [Hlt Hd]. inversion Hlen as [|? ? Hltop Hlen']; subst. inversion Hlen' as [|? ? Hlf Hlen'']; subst.
      inversion Hgood as [|? ? Hgf Hgood']; subst.
      cbn [map SparseModel.window_loop].
      assert (exists current bs, nodes = current :: bs /\ good st current (lrun etop)) as [current [bs [En Hgc]]].
      { inversion Hst; subst; eauto. }
      subst nodes.
      (* the proximity of the new leaf to the top leaf *)
      destruct (lt_diverge (bits (fst f)) (bits (fst etop))) as [A0 [x [y [Ef Et]]]]; [lia | exact Hlt|].
      assert (common_path_length zero kcpl (b_node current) (b_node (lbr f)) = N.of_nat (length A0)) as Elp.
      { destruct Hgc as [_ [_ [_ [_ [Hn _]]]]]. rewrite Hn. unfold lrun, lbr. cbn [r_pre r_d r_map b_node].
        rewrite build_single. unfold SparseModel.common_path_length, SparseModel.create_leaf.
        cbn [SparseTree.node_of is_placeholder orb SparseModel.leaf_key bytes_lo].
        rewrite app_nil_r, of_bits_bits, kcpl_spec, Ef, Et, cpl_sym, cpl_diverge. reflexivity. }
      rewrite Elp.
      destruct (merge_while_ok prox (current :: bs) (lrun etop :: rs0) st (length (current :: bs)) A0 (N.of_nat (length A0)) Hst)
        as [n1 [p1 [r1 [s1 [E1 [H1 [G1 [Ee1 [[y' Hy1] Hp1]]]]]]]]]; auto.
      { pose proof (stack_len _ _ _ _ Hst). simpl in *. lia. }
      { exists y. exact Et. }
      change (SparseModel.merge_while zero hnode kbit kcpl sset) with merge_while. rewrite E1. cbn [rbind].
      assert (exists r1h r1t b1h b1t, r1 = r1h :: r1t /\ n1 = b1h :: b1t) as [r1h [r1t [b1h [b1t [Er1 En1]]]]]
        by (inversion H1; subst; eauto 8).
      subst r1 n1. cbn [top_pre] in Hy1.
      assert (stack_ok s1 (lbr f :: b1h :: b1t) (N.of_nat (length A0) :: p1) (lrun f :: r1h :: r1t)) as Hst1.
      { eapply (so_cons s1 (lbr f) (lrun f) b1h r1h b1t p1 r1t _ A0 x y'); eauto. eapply good_grows; eauto. }
      destruct (IH f (lbr f :: b1h :: b1t) (N.of_nat (length A0) :: p1) (lrun f :: r1h :: r1t) s1 Hst1) as [n2 [p2 [r2 [s2 [E2 [H2 [G2 Ee2]]]]]]]; eauto.
      { eapply Forall_impl; [|exact Hgood']. intros a Ha. eapply good_grows; eauto. }
      exists n2, p2, r2, s2. split; [exact E2|]. split; [exact H2|]. split; [eapply grows_trans; eauto|].
      rewrite Ee2. change (all_entries (lrun f :: r1h :: r1t)) with (expand (lrun f) ++ all_entries (r1h :: r1t)).
      rewrite expand_lrun, Ee1. cbn [rev]. rewrite map_app, <- app_assoc. reflexivity.
  Qed.

  Lemma merge_stack_ok : forall rest n0 cs rs st, stack_ok st (n0 :: rest) cs rs ->
    exists b r st', merge_stack n0 rest st = Ok (b, st') /\ good st' b r /\ grows st st' /\ expand r = all_entries rs.
  Proof.
    induction rest as [|next rest IH]; intros n0 cs rs st Hst.
    - inversion Hst; subst. exists n0, r, st. cbn. rewrite app_nil_r. split; [reflexivity|]. split; [assumption|]. split; [apply grows_refl | reflexivity].
    - inversion Hst as [|b r b' r' bs cs' rs' c A u1 u2 Hg Hr Hr' Hc Hcs Htail]; subst.
      destruct (merge_top st n0 next rest _ cs' r r' rs' Hst) as [bn [rn [st' [E [Hst' [Hg' [Eex _]]]]]]].
      cbn [SparseModel.merge_stack]. rewrite E. cbn [rbind].
      destruct (IH bn cs' (rn :: rs') st' Hst') as [b2 [r2 [s2 [E2 [G2 [Gr2 Ee2]]]]]].
      exists b2, r2, s2. split; [exact E2|]. split; [exact G2|]. split; [eapply grows_trans; eauto|].
      rewrite Ee2. cbn [all_entries flat_map]. rewrite Eex, <- app_assoc. reflexivity.
  Qed.

  (* ---------------------------------------------------------------- from_set over the node store *)
  Variable kcmp : Dg -> Dg -> comparison.
  Hypothesis kcmp_spec : forall a b, kcmp a b = bits_compare (bits a) (bits b).
  Notation chain_lt := (chain_lt IF).

  Lemma lbr_node e : b_node (lbr e) = node_of (bits (fst e)) (CL [] (sum (snd e))).
  Proof.
    destruct e as [k d]. unfold lbr, SparseModel.create_leaf. cbn [b_node fst snd SparseTree.node_of].
    rewrite app_nil_r, of_bits_bits. reflexivity.
  Qed.

  Lemma leaves_stored : forall (E : list (Dg * bytes)) st,
    Forall (fun e => length (bits (fst e)) = 256%nat) E ->
    grows st (fold_left (fun s b => s_store_node zero sset s (b_node b)) (map lbr E) st) /\
    Forall (fun e => good (fold_left (fun s b => s_store_node zero sset s (b_node b)) (map lbr E) st) (lbr e) (lrun e)) E.
  Proof.
    induction E as [|e E IH]; intros st Hl.
    - split; [apply grows_refl | constructor].
    - inversion Hl as [|? ? Hk Hl']; subst. cbn [map fold_left].
      assert (s_store_node zero sset st (b_node (lbr e)) = store_node st (node_of (bits (fst e)) (CL [] (sum (snd e))))) as ->
        by (rewrite lbr_node; reflexivity).
      set (st0 := store_node st (node_of (bits (fst e)) (CL [] (sum (snd e))))).
      assert (grows st st0) as Hg0.
      { apply (grows_store_node IF st (bits (fst e)) (CL [] (sum (snd e))) 0%nat); [discriminate | reflexivity | lia]. }
      destruct (IH st0 Hl') as [Hg1 Hf]. split; [eapply grows_trans; eauto|]. constructor; [|exact Hf].
      apply leaf_good; [exact Hk|]. apply (Hg1 _ _ 0%nat); [reflexivity | lia |].
      cbn [SparseTree.stored]. unfold st0, SparseModel.store_node. rewrite (node_hash_node_of IF). apply (sget_sset_eq IF).
  Qed.

  Lemma chain_lt_app_l : forall X Y : list (Dg * bytes), chain_lt (X ++ Y) -> chain_lt X.
  Proof.
    induction X as [|x X IH]; intros Y H; [exact I|]. destruct H as [Hh Ht]. split; [|eapply IH; eauto].
    destruct X; [exact I | exact Hh].
  Qed.

  Lemma chain_desc : forall Lf en, chain_lt (rev Lf ++ [en]) -> desc_from en Lf.
  Proof.
    induction Lf as [|f Lf IH]; intros en H; [exact I|]. cbn [rev] in H. rewrite <- app_assoc in H. cbn [app] in H. split.
    - exact (chain_lt_adj IF (rev Lf) f en [] H).
    - apply IH. apply (chain_lt_app_l (rev Lf ++ [f]) [en]). rewrite <- app_assoc. exact H.
  Qed.

  Theorem from_set_store (set : list (Dg * bytes)) :
    Forall (fun e => length (bits (fst e)) = 256%nat) set ->
    exists st, SparseModel.from_set_gen zero hleaf hnode sum kbit kcpl kcmp sset [] set
               = Ok (node_of [] (build 256 (map ent (bt_collect kcmp set))), st) /\
               stored st [] (build 256 (map ent (bt_collect kcmp set))) /\
               wf_map 256 (map ent (bt_collect kcmp set)).
  Proof.
    intros Hset. unfold SparseModel.from_set_gen.
    pose proof (bt_collect_chain IF kcmp kcmp_spec set) as Hch.
    pose proof (bt_collect_forall kcmp _ set Hset) as HlE.
    cbv zeta. set (E := bt_collect kcmp set) in *.
    change (map (fun e : Dg * bytes => mkBranch (leaf_key zero (create_leaf hleaf sum (fst e) (snd e))) (create_leaf hleaf sum (fst e) (snd e))) E) with (map lbr E).
    destruct (leaves_stored E [] HlE) as [_ Hgood].
    set (s1 := fold_left (fun s b => s_store_node zero sset s (b_node b)) (map lbr E) []) in *. clearbody s1.
    destruct E as [|e1 [|e2 E']] eqn:EE.
    - exists s1. cbn. split; [reflexivity|]. split; [exact I | apply swf_nil].
    - exists s1. cbn [map]. inversion Hgood as [|? ? Hg1 _]; subst. inversion HlE as [|? ? Hk1 _]; subst.
      unfold SparseSorted.ent at 1 2 3. rewrite build_single. rewrite lbr_node.
      rewrite (node_of_leaf_eq IF (bits (fst e1)) [] [] (bits (fst e1)) (sum (snd e1))) by (rewrite app_nil_r; reflexivity).
      split; [reflexivity|]. split.
      + destruct Hg1 as [_ [_ [_ [_ [_ Hs]]]]]. cbn [lrun r_pre r_d r_map] in Hs. rewrite build_single in Hs.
        eapply (stored_leaf_move IF); [|exact Hs]. rewrite app_nil_r. reflexivity.
      + split; [repeat constructor; auto | repeat constructor; exact Hk1].
    - rewrite <- EE in *. assert (2 <= length E)%nat as HbigE by (rewrite EE; simpl; lia).
      assert (match map lbr E with [] => False | [_] => False | _ => True end) as Hshape by (rewrite EE; exact I).
      destruct (map lbr E) as [|bb1 [|bb2 bbs]] eqn:Emb; try contradiction. rewrite <- Emb. clear Hshape.
      rewrite <- map_rev. destruct (rev E) as [|en Lf] eqn:Er.
      { apply (f_equal (@length _)) in Er. rewrite rev_length in Er. simpl in Er. lia. }
      assert (E = rev Lf ++ [en]) as EEr by (rewrite <- (rev_involutive E), Er; reflexivity).
      cbn [map SparseModel.window_loop].
      assert (Forall (fun e => good s1 (lbr e) (lrun e)) (en :: Lf)) as Hgood'.
      { rewrite <- Er. apply Forall_rev. exact Hgood. }
      assert (Forall (fun f => length (bits (fst f)) = 256%nat) (en :: Lf)) as Hl'.
      { rewrite <- Er. apply Forall_rev. exact HlE. }
      inversion Hgood' as [|? ? Hgen HgLf]; subst.
      destruct (window_ok Lf en [lbr en] [] [lrun en] s1 (so_one s1 _ _ Hgen)) as [n1 [p1 [r1 [s2 [E1 [H1 [G1 Ee1]]]]]]]; eauto.
      { apply chain_desc. rewrite <- EEr. exact Hch. }
      change (SparseModel.window_loop zero hnode kbit kcpl sset) with window_loop. rewrite E1. cbn [rbind].
      assert (exists n0 rest, n1 = n0 :: rest) as [n0 [rest En1]] by (inversion H1; subst; eauto).
      subst n1.
      destruct (merge_stack_ok rest n0 p1 r1 s2 H1) as [top [r [s3 [E3 [Gtop [G3 Eex]]]]]].
      change (SparseModel.merge_stack zero hnode kbit kcpl sset) with merge_stack. rewrite E3. cbn [rbind].
      assert (expand r = map ent E) as Eall.
      { rewrite Eex, Ee1. cbn [all_entries flat_map]. rewrite expand_lrun, app_nil_r, EEr, map_app. reflexivity. }
      pose proof (good_bits _ _ _ Gtop) as Hbits.
      destruct Gtop as [Hne [Hp [Hwf [Hb [Hn Hs]]]]]. destruct r as [P d mm]. cbn [r_pre r_d r_map] in *.
      unfold expand in Eall. cbn [r_pre r_map] in Eall.
      assert (2 <= length mm)%nat as Hbig.
      { rewrite <- (pre_map_length P mm), Eall, map_length. exact HbigE. }
      destruct d as [|d0]; [apply swf_zero_small in Hwf; lia|].
      pose proof (build_big d0 mm Hbig) as Eb. rewrite Eb in *.
      set (sa := build d0 (sub false mm)) in *. set (sb := build d0 (sub true mm)) in *.
      assert (cwf (S d0) (CN sa sb)) as Hc by (rewrite <- Eb; apply cwf_build; exact Hwf).
      rewrite Hn. cbn [SparseTree.node_of SparseModel.node_height].
      assert (max_height <? height_at P = false) as -> by (apply N.ltb_ge; unfold height_at, max_height; lia).
      assert (N.to_nat (max_height - height_at P) = length P) as -> by (unfold height_at, max_height; lia).
      change (Node (hnode (root (P ++ [false]) sa) (root (P ++ [true]) sb)) (height_at P) PfxNode (root (P ++ [false]) sa) (root (P ++ [true]) sb))
        with (node_of P (CN sa sb)).
      change (SparseModel.branch_pad zero hnode kbit kcpl sset) with branch_pad. rewrite branch_pad_loop.
      destruct (loop_chain_g (b_bits top) (length P) P [] sa sb (S d0) s3 (fst_key mm) eq_refl Hc Hp Hbits Hs)
        as [s4 [E4 [Hs4 [_ _]]]].
      cbn [app] in E4. rewrite E4. exists s4.
      assert (build 256 (map ent E) = chain P (CN sa sb)) as Ebuild.
      { rewrite <- Eall, <- Eb, <- Hp. apply build_pre_chain. exact Hbig. }
      rewrite Ebuild. split; [reflexivity|]. split; [exact Hs4|].
      rewrite <- Eall, <- Hp. apply swf_pre_map. exact Hwf.
  Qed.
End FromSet.
