(* Merkle/BinaryProofs.v — L1 ⊑ L3 for the binary Merkle family: the peak stack kept by
   MerkleRootCalculator / MerkleTree always holds the RFC 6962 hashes of the maximal aligned
   power-of-two blocks of the leaves pushed so far, and joining the peaks gives MTH. *)
From FV Require Import Base.Bytes Base.U64 Base.Map Merkle.RFC6962 Merkle.BinaryModel Merkle.PositionFacts.
From Coq Require Import Arith.
Open Scope N_scope.

Section Proofs.
  Context {L D : Type}.
  Variables (lf : L -> D) (node_sum : D -> D -> D) (empty_sum : D).

  Notation MTH := (MTH lf node_sum empty_sum).
  Notation node := (@node D).

  Definition hgt (n : node) : nat := N.to_nat (n_height n).

  (* stack (top first) represents the leaf list: blocks of size 2^height, strictly larger
     towards the bottom *)
  Inductive stack_rep : list node -> list L -> Prop :=
  | sr_nil : stack_rep [] []
  | sr_cons n rest pre blk :
      stack_rep rest pre ->
      length blk = (2 ^ hgt n)%nat ->
      n_hash n = MTH blk ->
      n_pos n < U64 ->
      match rest with [] => True | m :: _ => (hgt n < hgt m)%nat end ->
      stack_rep (n :: rest) (pre ++ blk).

  Lemma stack_rep_length_ge st ls : stack_rep st ls ->
    match st with [] => True | n :: _ => (2 ^ hgt n <= length ls)%nat end.
  Proof. intros H. destruct H as [|n rest pre blk _ Hl _ _ _]; [exact I|]. rewrite app_length. lia. Qed.

  Lemma pow2_nat_N (h : N) : N.of_nat (2 ^ N.to_nat h) = 2 ^ h.
  Proof.
    rewrite <- (N2Nat.id h) at 2. generalize (N.to_nat h) as k. induction k as [|k IH].
    - reflexivity.
    - rewrite Nat2N.inj_succ, N.pow_succ_r', <- IH. cbn [Nat.pow]. lia.
  Qed.

  (* a block of 2^h leaves inside a list shorter than 2^63 has h < 63 *)
  Lemma height_bound (h : N) (len : nat) : (2 ^ N.to_nat h <= len)%nat -> N.of_nat len < 2 ^ 63 -> h < 63.
  Proof.
    intros H1 H2.
    assert (H3 : N.of_nat (2 ^ N.to_nat h) <= N.of_nat len) by (clear H2; lia).
    rewrite pow2_nat_N in H3.
    apply (N.pow_lt_mono_r_iff 2); [reflexivity|].
    eapply N.le_lt_trans; eassumption.
  Qed.

  (* ------------------------------------------------------------------ merge loop *)
  Lemma merge_loop_rep : forall rest pre top blk created,
    stack_rep rest pre ->
    length blk = (2 ^ hgt top)%nat -> n_hash top = MTH blk -> n_pos top < U64 ->
    match rest with [] => True | m :: _ => (hgt top <= hgt m)%nat end ->
    N.of_nat (length (pre ++ blk)) < 2 ^ 63 ->
    exists st cr, merge_loop node_sum top rest created = Some (st, cr) /\ stack_rep st (pre ++ blk).
  Proof.
    induction rest as [|lhs rest' IH]; intros pre top blk created Hrep Hlen Hhash Hpos Hle Hbound.
    - inversion Hrep; subst. cbn [merge_loop]. eexists _, _. split; [reflexivity|].
      apply (sr_cons top [] [] blk); auto; constructor.
    - cbn [merge_loop].
      inversion Hrep as [|n r p b Hrep' Hlb Hhb Hposl Hord]; subst.
      destruct (N.eqb_spec (n_height top) (n_height lhs)) as [Heq|Hne].
      + (* equal heights: merge *)
        assert (Hh63 : n_height lhs < 63).
        { apply (height_bound _ (length ((p ++ b) ++ blk))); [|exact Hbound].
          rewrite !app_length. unfold hgt in Hlb. lia. }
        destruct (pos_parent_spec (n_pos lhs) Hposl Hh63) as [q [Hq [Hqh Hq64]]].
        rewrite Hq. cbn [opt_bind].
        set (new := create_node node_sum q lhs top).
        assert (Hnh : hgt new = S (hgt lhs)).
        { unfold hgt, n_height, new. cbn [create_node n_pos]. rewrite Hqh. unfold n_height. lia. }
        assert (Htl : hgt top = hgt lhs) by (unfold hgt; rewrite Heq; reflexivity).
        destruct (IH p new (b ++ blk) (created ++ [new])) as [st [cr [Hm Hst]]].
        * exact Hrep'.
        * rewrite app_length, Hlb, Hlen, Hnh, Htl. cbn [Nat.pow]. lia.
        * unfold new. cbn [create_node n_hash]. rewrite Hhb, Hhash.
          symmetry. apply (MTH_app_pow2 _ _ _ (hgt lhs)); [exact Hlb|].
          rewrite Hlen, Htl. pose proof (Nat.pow_nonzero 2 (hgt lhs)). lia.
        * exact Hq64.
        * destruct rest' as [|m r']; [exact I|]. rewrite Hnh. lia.
        * rewrite app_assoc. exact Hbound.
        * exists st, cr. split; [exact Hm|]. rewrite <- app_assoc. exact Hst.
      + eexists _, _. split; [reflexivity|]. apply sr_cons; auto.
        assert (n_height top <> n_height lhs) by exact Hne.
        unfold hgt in *. assert (N.to_nat (n_height top) <> N.to_nat (n_height lhs)) by (intros E; apply N2Nat.inj in E; contradiction).
        lia.
  Qed.

  Lemma push_rep stack pre (x : L) (n : node) created :
    stack_rep stack pre -> n_hash n = lf x -> n_pos n < U64 -> n_height n = 0 ->
    N.of_nat (length (pre ++ [x])) < 2 ^ 63 ->
    exists st cr, merge_loop node_sum n stack created = Some (st, cr) /\ stack_rep st (pre ++ [x]).
  Proof.
    intros Hrep Hh Hp Hz Hb. apply merge_loop_rep; auto.
    - unfold hgt. rewrite Hz. reflexivity.
    - destruct stack; [exact I|]. unfold hgt. rewrite Hz. cbn. lia.
  Qed.

  (* ------------------------------------------------------------------ joining the peaks *)
  Lemma join_peaks_rep : forall rest pre head suf created,
    stack_rep rest pre ->
    n_hash head = MTH suf -> (0 < length suf)%nat ->
    match rest with [] => True | m :: _ => (length suf < 2 ^ hgt m)%nat end ->
    N.of_nat (length (pre ++ suf)) < 2 ^ 63 ->
    exists r cr, join_peaks node_sum head rest created = Some (r, cr) /\ n_hash r = MTH (pre ++ suf).
  Proof.
    induction rest as [|l rest' IH]; intros pre head suf created Hrep Hh Hpos Hlt Hb.
    - inversion Hrep; subst. cbn [join_peaks]. eexists _, _. split; [reflexivity|]. exact Hh.
    - inversion Hrep as [|n r p b Hrep' Hlb Hhb Hposl Hord]; subst. cbn [join_peaks].
      assert (Hh63 : n_height l < 63).
      { apply (height_bound _ (length ((p ++ b) ++ suf))); [|exact Hb]. rewrite !app_length. unfold hgt in Hlb. lia. }
      destruct (pos_parent_spec (n_pos l) Hposl Hh63) as [q [Hq [Hqh Hq64]]].
      rewrite Hq. cbn [opt_bind].
      set (new := create_node node_sum q l head).
      destruct (IH p new (b ++ suf) (created ++ [new])) as [rr [cr [Hj Hr]]].
      + exact Hrep'.
      + unfold new. cbn [create_node n_hash]. rewrite Hhb, Hh. symmetry.
        apply (MTH_app_pow2 _ _ _ (hgt l)); [exact Hlb | lia].
      + rewrite app_length. lia.
      + destruct rest' as [|m r']; [exact I|]. rewrite app_length, Hlb.
        assert (2 ^ S (hgt l) <= 2 ^ hgt m)%nat by (apply Nat.pow_le_mono_r; lia).
        cbn [Nat.pow] in H. lia.
      + rewrite app_assoc. exact Hb.
      + exists rr, cr. split; [exact Hj|]. rewrite <- app_assoc. exact Hr.
  Qed.

  Lemma root_of_rep stack ls : stack_rep stack ls -> N.of_nat (length ls) < 2 ^ 63 ->
    calc_root node_sum empty_sum stack = Some (MTH ls).
  Proof.
    intros Hrep Hb. destruct Hrep as [|n rest pre blk Hrep Hl Hh Hp Hord]; [reflexivity|].
    cbn [calc_root].
    destruct (join_peaks_rep rest pre n blk [] Hrep Hh) as [r [cr [Hj Hr]]].
    - rewrite Hl. pose proof (Nat.pow_nonzero 2 (hgt n)). lia.
    - destruct rest as [|m r']; [exact I|]. rewrite Hl. apply Nat.pow_lt_mono_r; lia.
    - exact Hb.
    - rewrite Hj. cbn [opt_bind fst]. rewrite Hr. reflexivity.
  Qed.
End Proofs.

(* ---------------------------------------------------------------------- the calculator *)
Section Calculator.
  Context {D : Type}.
  Variables (leaf_sum : bytes -> D) (node_sum : D -> D -> D) (empty_sum : D).

  Lemma calc_push_all_rep : forall ls stack pre,
    stack_rep leaf_sum node_sum empty_sum stack pre ->
    N.of_nat (length (pre ++ ls)) < 2 ^ 63 ->
    exists st, calc_push_all leaf_sum node_sum stack ls = Some st /\
               stack_rep leaf_sum node_sum empty_sum st (pre ++ ls).
  Proof.
    induction ls as [|d ls IH]; intros stack pre Hrep Hb.
    - exists stack. rewrite app_nil_r. split; [reflexivity | exact Hrep].
    - cbn [calc_push_all]. unfold calc_push, create_leaf, from_leaf_index, checked_mul.
      cbn [opt_bind]. change (0 * 2 <? U64) with true. cbn [opt_bind].
      unfold push_with_callback.
      destruct (push_rep leaf_sum node_sum empty_sum stack pre d (mkNode (0 * 2) (leaf_sum d)) [mkNode (0 * 2) (leaf_sum d)])
        as [st [cr [Hm Hst]]]; auto.
      + cbn. reflexivity.
      + rewrite app_length in *. cbn [length] in *. lia.
      + rewrite Hm. cbn [opt_bind fst].
        destruct (IH st (pre ++ [d])) as [st' [H1 H2]]; [exact Hst | rewrite <- app_assoc; exact Hb |].
        exists st'. split; [exact H1|]. rewrite <- app_assoc in H2. exact H2.
  Qed.

  Theorem calculator_root_is_MTH (ls : list bytes) :
    N.of_nat (length ls) < 2 ^ 63 ->
    root_from_iterator leaf_sum node_sum empty_sum ls = Some (MTH leaf_sum node_sum empty_sum ls).
  Proof.
    intros Hb. unfold root_from_iterator.
    destruct (calc_push_all_rep ls [] [] (sr_nil _ _ _) Hb) as [st [H1 H2]].
    rewrite H1. cbn [opt_bind]. apply (root_of_rep leaf_sum node_sum empty_sum); assumption.
  Qed.

  (* roots rebuilt from leaf hashes: leaves are digests, the leaf function is the identity *)
  Lemma from_leaf_hashes_rep : forall hs stack pre,
    stack_rep (fun h : D => h) node_sum empty_sum stack pre ->
    N.of_nat (length (pre ++ hs)) < 2 ^ 63 ->
    exists st, from_leaf_hashes node_sum stack hs = Some st /\
               stack_rep (fun h : D => h) node_sum empty_sum st (pre ++ hs).
  Proof.
    induction hs as [|d hs IH]; intros stack pre Hrep Hb.
    - exists stack. rewrite app_nil_r. split; [reflexivity | exact Hrep].
    - cbn [from_leaf_hashes]. unfold create_leaf_with_hash, from_leaf_index, checked_mul.
      change (0 * 2 <? U64) with true. cbn [opt_bind].
      unfold push_with_callback.
      destruct (push_rep (fun h : D => h) node_sum empty_sum stack pre d (mkNode (0 * 2) d) [mkNode (0 * 2) d])
        as [st [cr [Hm Hst]]]; auto.
      + cbn. reflexivity.
      + rewrite app_length in *. cbn [length] in *. lia.
      + rewrite Hm. cbn [opt_bind fst].
        destruct (IH st (pre ++ [d])) as [st' [H1 H2]]; [exact Hst | rewrite <- app_assoc; exact Hb |].
        exists st'. split; [exact H1|]. rewrite <- app_assoc in H2. exact H2.
  Qed.

  Theorem from_leaf_hashes_root_is_MTH (hs : list D) :
    N.of_nat (length hs) < 2 ^ 63 ->
    exists st, from_leaf_hashes node_sum [] hs = Some st /\
               calc_root node_sum empty_sum st = Some (MTH (fun h : D => h) node_sum empty_sum hs).
  Proof.
    intros Hb. destruct (from_leaf_hashes_rep hs [] [] (sr_nil _ _ _) Hb) as [st [H1 H2]].
    exists st. split; [exact H1|]. apply (root_of_rep (fun h : D => h) node_sum empty_sum); assumption.
  Qed.

  (* ---------------------------------------------------------------- storage-backed tree *)
  Definition tree_inv (t : tree) (ls : list bytes) : Prop :=
    stack_rep leaf_sum node_sum empty_sum (t_nodes t) ls /\ t_count t = N.of_nat (length ls).

  Lemma tree_push_inv t ls d :
    tree_inv t ls -> N.of_nat (length ls) + 1 < 2 ^ 63 ->
    exists t', tree_push leaf_sum node_sum t d = PushOk t' /\ tree_inv t' (ls ++ [d]).
  Proof.
    intros [Hrep Hc] Hb. unfold tree_push, create_leaf, from_leaf_index, checked_mul.
    assert (H64 : t_count t * 2 < U64).
    { rewrite Hc. change U64 with (2 * 2 ^ 63). lia. }
    destruct (N.ltb_spec (t_count t * 2) U64) as [_|]; [|lia]. cbn [opt_bind].
    unfold push_with_callback.
    destruct (push_rep leaf_sum node_sum empty_sum (t_nodes t) ls d
               (mkNode (t_count t * 2) (leaf_sum d)) [mkNode (t_count t * 2) (leaf_sum d)])
      as [st [cr [Hm Hst]]]; auto.
    - unfold n_height. cbn [n_pos]. rewrite N.mul_comm. apply leaf_pos_height.
    - rewrite app_length. cbn [length]. lia.
    - rewrite Hm. eexists. split; [reflexivity|]. split; [exact Hst|].
      cbn [t_count]. rewrite Hc, app_length. cbn [length]. lia.
  Qed.

  Lemma tree_root_inv t ls : tree_inv t ls -> N.of_nat (length ls) < 2 ^ 63 ->
    tree_root node_sum empty_sum t = Some (MTH leaf_sum node_sum empty_sum ls).
  Proof.
    intros [Hrep _] Hb. pose proof (root_of_rep leaf_sum node_sum empty_sum _ _ Hrep Hb) as H.
    unfold tree_root, root_node. unfold calc_root in H.
    destruct (t_nodes t) as [|top rest]; [inversion Hrep; subst; reflexivity|].
    destruct (join_peaks node_sum top rest []) as [[r cr]|]; [|discriminate].
    cbn [opt_bind fst] in *. exact H.
  Qed.

  Definition tree_of (ls : list bytes) : option tree :=
    fold_left (fun ot d => match ot with
                           | Some t => match tree_push leaf_sum node_sum t d with PushOk t' => Some t' | _ => None end
                           | None => None end) ls (Some tree_new).

  Lemma tree_of_inv_gen : forall ls t pre, tree_inv t pre -> N.of_nat (length (pre ++ ls)) < 2 ^ 63 ->
    exists t', fold_left (fun ot d => match ot with
                           | Some t => match tree_push leaf_sum node_sum t d with PushOk t' => Some t' | _ => None end
                           | None => None end) ls (Some t) = Some t' /\ tree_inv t' (pre ++ ls).
  Proof.
    induction ls as [|d ls IH]; intros t pre Hinv Hb.
    - exists t. rewrite app_nil_r. split; [reflexivity | exact Hinv].
    - cbn [fold_left].
      destruct (tree_push_inv t pre d Hinv) as [t1 [Hp Hi]].
      { rewrite app_length in Hb. cbn [length] in Hb. lia. }
      rewrite Hp. destruct (IH t1 (pre ++ [d]) Hi) as [t2 [H1 H2]].
      { rewrite <- app_assoc. exact Hb. }
      exists t2. split; [exact H1|]. rewrite <- app_assoc in H2. exact H2.
  Qed.

  Theorem tree_root_is_MTH (ls : list bytes) :
    N.of_nat (length ls) < 2 ^ 63 ->
    exists t, tree_of ls = Some t /\ t_count t = N.of_nat (length ls) /\
              tree_root node_sum empty_sum t = Some (MTH leaf_sum node_sum empty_sum ls).
  Proof.
    intros Hb. destruct (tree_of_inv_gen ls tree_new []) as [t [H1 H2]].
    - split; [constructor | reflexivity].
    - exact Hb.
    - exists t. split; [exact H1|]. split; [apply H2|]. apply tree_root_inv; assumption.
  Qed.
End Calculator.
