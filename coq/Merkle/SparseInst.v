(* Merkle/SparseInst.v — a model of the hypotheses used by the sparse-Merkle theorems
   (non-vacuity): digests are bit lists, the hash functions are injective encodings with
   distinct tags, zero is the empty list, keys are bit lists.  In this instance
   collision-freeness ([hash_ok]) and the key interface of SparseRefine.v hold, so every
   premise of the C12–C14 theorems is satisfiable. *)
From FV Require Import Base.Bytes Merkle.SparseSpec Merkle.SparseFun Merkle.SparseModel Merkle.SparseProofs Merkle.SparseRefine
  Merkle.SparseTree Merkle.SparseHistory.
Open Scope N_scope.

Definition lb := list bool.

(* self-delimiting encoding of a pair of bit lists *)
Fixpoint enc2 (a b : lb) : lb :=
  match a with
  | [] => false :: b
  | x :: a' => true :: x :: enc2 a' b
  end.

Lemma enc2_inj : forall a b a' b', enc2 a b = enc2 a' b' -> a = a' /\ b = b'.
Proof.
  induction a as [|x a IH]; intros b [|x' a'] b' H; simpl in H; try discriminate.
  - injection H as ->. auto.
  - injection H as -> H. apply IH in H as [-> ->]. auto.
Qed.

Definition lb_zero : lb := [].
Definition lb_hleaf (k v : lb) : lb := true :: enc2 k v.
Definition lb_hnode (a b : lb) : lb := false :: enc2 a b.
Definition lb_sum (d : bytes) : lb := map N.odd d.
Definition lb_kbit (k : lb) (i : N) : option bool := nth_error k (N.to_nat i).
Definition lb_bits (k : lb) : key := k.
Definition lb_of_bits (k : key) : lb := k.

Lemma lb_eqb_spec : forall a b : lb, key_eqb a b = true <-> a = b.
Proof. exact key_eqb_eq. Qed.
Lemma lb_kbit_spec : forall (k : lb) (i : N), lb_kbit k i = nth_error (lb_bits k) (N.to_nat i).
Proof. reflexivity. Qed.
Lemma lb_of_bits_bits : forall k : lb, lb_of_bits (lb_bits k) = k.
Proof. reflexivity. Qed.

Lemma lb_hash_ok : hash_ok lb_zero (shleaf lb_hleaf lb_of_bits) lb_hnode.
Proof.
  unfold hash_ok, shleaf, lb_hleaf, lb_hnode, lb_zero, lb_of_bits. repeat split.
  - injection H as H. apply enc2_inj in H. tauto.
  - injection H as H. apply enc2_inj in H. tauto.
  - injection H as H. apply enc2_inj in H. tauto.
  - injection H as H. apply enc2_inj in H. tauto.
  - intros; discriminate.
  - intros; discriminate.
  - intros; discriminate.
Qed.

(* the spec-level form (keys are bit lists, value hashes are digests) *)
Lemma lb_hash_ok_spec : @hash_ok lb lb lb_zero lb_hleaf lb_hnode.
Proof. exact lb_hash_ok. Qed.

Example lb_key_256 : length (lb_bits (repeat true 256)) = 256%nat.
Proof. apply repeat_length. Qed.

(* a non-trivial well-formed map of depth 256 *)
Definition lb_k0 : key := repeat false 256.
Definition lb_k1 : key := repeat false 255 ++ [true].
Definition lb_k2 : key := true :: repeat false 255.
Definition lb_map : @smap lb := [(lb_k0, [true]); (lb_k1, []); (lb_k2, [false; true])].
Example lb_map_wf : wf_map 256 lb_map.
Proof.
  split.
  - repeat constructor; simpl; intuition discriminate.
  - repeat constructor.
Qed.
Example lb_ops_wf : @ops_wf lb 256 [MSet lb_k0 [true]; MSet lb_k1 []; MDel lb_k0; MSet lb_k2 [true]].
Proof. repeat constructor. Qed.

(* the bundled interface of SparseTree.v is inhabited *)
Definition lb_iface : smt_iface lb :=
  {| i_eqb := key_eqb; i_zero := lb_zero; i_hleaf := lb_hleaf; i_hnode := lb_hnode; i_sum := lb_sum;
     i_kbit := lb_kbit; i_kcpl := fun a b => N.of_nat (cpl a b); i_bits := lb_bits; i_of_bits := lb_of_bits;
     i_eqb_spec := lb_eqb_spec; i_kbit_spec := lb_kbit_spec; i_kcpl_spec := fun a b => eq_refl;
     i_of_bits_bits := lb_of_bits_bits; i_bits_of_bits := fun ks _ => eq_refl; i_hash_ok := lb_hash_ok |}.

(* a non-trivial well-formed L1 history (insert, insert of a last-bit sibling, delete, reload, insert) *)
Definition lb_history : list (@l1op lb) :=
  [LIns lb_k0 [1]; LIns lb_k1 []; LDel lb_k0; LLoad; LIns lb_k2 [2; 3]; LDel lb_k2].
Example lb_history_wf : Forall (l1op_wf lb_iface) lb_history.
Proof. repeat constructor. Qed.
