(* Merkle/SparseSpec.v — L3: the compact sparse Merkle root of a finite map, written from
   the property text (C12–C14), independent of the Rust code.

   Keys are bit lists of length D (D = 256 in the executable instance).  A finite map is a
   list of (key, value-hash) pairs with pairwise distinct keys ([wf_map]).  The root is
   defined by recursion on the depth:

     empty map            -> zero                      (32 zero bytes)
     exactly one entry    -> hleaf key value           (H(0x00 || key || H(value)); NOT expanded)
     two or more entries  -> hnode (root of the entries whose next key bit is 0)
                                   (root of the entries whose next key bit is 1)

   The recursion works on *suffix maps*: [sroot d pre m] is the root of the subtree at path
   [pre] whose entries are given by their remaining [d] key bits; a leaf hashes the full
   key [pre ++ rest].  The hash functions are Section variables; nothing is assumed about
   them here. *)
From Coq Require Import List Bool Arith Lia.
Import ListNotations.

Definition key := list bool.

Fixpoint key_eqb (a b : key) : bool :=
  match a, b with
  | [], [] => true
  | x :: a', y :: b' => Bool.eqb x y && key_eqb a' b'
  | _, _ => false
  end.

Section SparseSpec.
  Context {V Dg : Type}.
  Variable zero : Dg.
  Variable hleaf : key -> V -> Dg.
  Variable hnode : Dg -> Dg -> Dg.

  (* ------------------------------------------------------------------ finite maps *)
  Definition smap := list (key * V).

  Fixpoint m_get (m : smap) (k : key) : option V :=
    match m with
    | [] => None
    | (k', v) :: r => if key_eqb k' k then Some v else m_get r k
    end.
  Definition m_del (k : key) (m : smap) : smap := filter (fun e => negb (key_eqb (fst e) k)) m.
  Definition m_set (k : key) (v : V) (m : smap) : smap := (k, v) :: m_del k m.

  Definition wf_map (D : nat) (m : smap) : Prop :=
    NoDup (map fst m) /\ Forall (fun e => length (fst e) = D) m.

  (* ------------------------------------------------------------------ the root *)
  (* entries whose first remaining bit is [b], with that bit stripped *)
  Definition sub (b : bool) (m : smap) : smap :=
    flat_map (fun e => match fst e with
                       | x :: k' => if Bool.eqb x b then [(k', snd e)] else []
                       | [] => []
                       end) m.

  Fixpoint sroot (d : nat) (pre : key) (m : smap) : Dg :=
    match m with
    | [] => zero
    | [(k, v)] => hleaf (pre ++ k) v
    | _ => match d with
           | O => zero                       (* unreachable for distinct keys of length d *)
           | S d' => hnode (sroot d' (pre ++ [false]) (sub false m))
                           (sroot d' (pre ++ [true]) (sub true m))
           end
    end.

  Definition smt_root (D : nat) (m : smap) : Dg := sroot D [] m.

  (* ------------------------------------------------------------------ histories *)
  Inductive mop := MSet (k : key) (v : V) | MDel (k : key).
  Definition mop_key (o : mop) : key := match o with MSet k _ => k | MDel k => k end.
  Definition m_step (m : smap) (o : mop) : smap :=
    match o with MSet k v => m_set k v m | MDel k => m_del k m end.
  Definition map_after (ops : list mop) : smap := fold_left m_step ops [].

  (* BTreeMap::collect of a list of pairs: later duplicates win *)
  Definition map_of_list (l : list (key * V)) : smap :=
    fold_left (fun m e => m_set (fst e) (snd e) m) l [].

  (* ------------------------------------------------------------------ proofs (C14) *)
  (* Recomputation of the root from the digest [cur] of the subtree reached after following
     the key bits [ks] for [length sides] steps; [sides] are the sibling digests TOP-DOWN
     (root's child first).  None: more side nodes than key bits. *)
  Fixpoint path_root (ks : key) (sides : list Dg) (cur : Dg) {struct sides} : option Dg :=
    match sides with
    | [] => Some cur
    | s :: sides' =>
        match ks with
        | [] => None
        | b :: ks' =>
            match path_root ks' sides' cur with
            | None => None
            | Some x => Some (if b then hnode s x else hnode x s)
            end
        end
    end.

  (* what an exclusion proof claims to sit at the end of the path *)
  Inductive xleaf := XLeaf (k : key) (v : V) | XPlaceholder.
  Definition xleaf_hash (l : xleaf) : Dg :=
    match l with XLeaf k v => hleaf k v | XPlaceholder => zero end.

  (* Spec-level verifiers.  [proof_set] is in the order of the wire format: leaf-to-root. *)
  Definition spec_verify_incl (root : Dg) (k : key) (v : V) (proof_set : list Dg) : Prop :=
    path_root k (rev proof_set) (hleaf k v) = Some root.
  Definition spec_verify_excl (root : Dg) (k : key) (proof_set : list Dg) (l : xleaf) : Prop :=
    (match l with XLeaf k' _ => k' <> k | XPlaceholder => True end) /\
    path_root k (rev proof_set) (xleaf_hash l) = Some root.

  (* Spec-level proof generation: the siblings along [ks] (top-down) until the subtree has
     at most one entry, and what is found there. *)
  Fixpoint spec_sides (d : nat) (pre ks : key) (m : smap) : list Dg :=
    match m with
    | [] | [_] => []
    | _ => match d, ks with
           | S d', b :: ks' =>
               sroot d' (pre ++ [negb b]) (sub (negb b) m)
                 :: spec_sides d' (pre ++ [b]) ks' (sub b m)
           | _, _ => []
           end
    end.
  Fixpoint spec_terminal (d : nat) (pre ks : key) (m : smap) : xleaf :=
    match m with
    | [] => XPlaceholder
    | [(k, v)] => XLeaf (pre ++ k) v
    | _ => match d, ks with
           | S d', b :: ks' => spec_terminal d' (pre ++ [b]) ks' (sub b m)
           | _, _ => XPlaceholder
           end
    end.

  (* collision-freeness of the hash functions, as used by the soundness theorems *)
  Definition hash_ok : Prop :=
    (forall k v k' v', hleaf k v = hleaf k' v' -> k = k' /\ v = v') /\
    (forall a b a' b', hnode a b = hnode a' b' -> a = a' /\ b = b') /\
    (forall k v a b, hleaf k v <> hnode a b) /\
    (forall k v, hleaf k v <> zero) /\
    (forall a b, hnode a b <> zero).
End SparseSpec.
