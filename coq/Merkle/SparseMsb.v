(* Merkle/SparseMsb.v — the byte-level key functions of common/msb.rs (as modelled in
   SparseModel.v) compute the bit-list functions of the interface [smt_iface] on well-formed
   byte strings: get_bit_at_index_from_msb reads the bits MSB-first, common_prefix_count is
   the length of the common bit prefix, and bytes <-> bits are mutually inverse.
   The per-byte facts are closed finite checks over all 256 (resp. 256 x 256) byte values,
   evaluated by vm_compute; the bound is in the statement (b < 256). *)
From Coq Require Import Arith.
From FV Require Import Base.Bytes Merkle.SparseSpec Merkle.SparseModel Merkle.SparseTree.
Open Scope N_scope.

Definition byte_bits (b : N) : list bool :=
  [N.testbit b 7; N.testbit b 6; N.testbit b 5; N.testbit b 4; N.testbit b 3; N.testbit b 2; N.testbit b 1; N.testbit b 0].
Definition bits_of_bytes (bs : bytes) : list bool := flat_map byte_bits bs.
Definition b2n (b : bool) : N := if b then 1 else 0.
Fixpoint bytes_of_bits (l : list bool) : bytes :=
  match l with
  | b7 :: b6 :: b5 :: b4 :: b3 :: b2 :: b1 :: b0 :: r =>
      (128 * b2n b7 + 64 * b2n b6 + 32 * b2n b5 + 16 * b2n b4 + 8 * b2n b3 + 4 * b2n b2 + 2 * b2n b1 + b2n b0)
        :: bytes_of_bits r
  | _ => []
  end.

Definition all_bytes : list N := map N.of_nat (seq 0 256).
Lemma in_all_bytes b : b < 256 -> In b all_bytes.
Proof.
  intros H. unfold all_bytes. apply in_map_iff. exists (N.to_nat b). split; [apply N2Nat.id|].
  apply in_seq. lia.
Qed.

(* ---- finite per-byte facts *)
Definition bit_check (b : N) : bool :=
  forallb (fun j => Bool.eqb (negb (N.land b (N.shiftl 1 (7 - j)) =? 0)) (nth (N.to_nat j) (byte_bits b) false))
          [0; 1; 2; 3; 4; 5; 6; 7].
Lemma bit_check_all : forallb bit_check all_bytes = true.
Proof. vm_compute. reflexivity. Qed.

Definition cpl_check (x y : N) : bool :=
  (leading_zeros8 (N.lxor x y) =? N.of_nat (cpl (byte_bits x) (byte_bits y))) &&
  Bool.eqb (x =? y) (Nat.eqb (cpl (byte_bits x) (byte_bits y)) 8).
Lemma cpl_check_all : forallb (fun x => forallb (cpl_check x) all_bytes) all_bytes = true.
Proof. vm_compute. reflexivity. Qed.

Definition roundtrip_check (b : N) : bool := bytes_eqb (bytes_of_bits (byte_bits b)) [b].
Lemma roundtrip_check_all : forallb roundtrip_check all_bytes = true.
Proof. vm_compute. reflexivity. Qed.

Lemma byte_bit b j : b < 256 -> j < 8 ->
  negb (N.land b (N.shiftl 1 (7 - j)) =? 0) = nth (N.to_nat j) (byte_bits b) false.
Proof.
  intros Hb Hj. pose proof bit_check_all as H. rewrite forallb_forall in H.
  specialize (H b (in_all_bytes b Hb)). unfold bit_check in H. rewrite forallb_forall in H.
  apply eqb_prop. apply H.
  assert (j = 0 \/ j = 1 \/ j = 2 \/ j = 3 \/ j = 4 \/ j = 5 \/ j = 6 \/ j = 7) as Hc by lia.
  simpl. intuition.
Qed.

Lemma byte_cpl x y : x < 256 -> y < 256 ->
  leading_zeros8 (N.lxor x y) = N.of_nat (cpl (byte_bits x) (byte_bits y)) /\
  ((x =? y) = Nat.eqb (cpl (byte_bits x) (byte_bits y)) 8).
Proof.
  intros Hx Hy. pose proof cpl_check_all as H. rewrite forallb_forall in H.
  specialize (H x (in_all_bytes x Hx)). rewrite forallb_forall in H. specialize (H y (in_all_bytes y Hy)).
  unfold cpl_check in H. apply andb_true_iff in H as [H1 H2]. apply N.eqb_eq in H1. apply eqb_prop in H2. auto.
Qed.

Lemma byte_roundtrip b : b < 256 -> bytes_of_bits (byte_bits b) = [b].
Proof.
  intros Hb. pose proof roundtrip_check_all as H. rewrite forallb_forall in H.
  specialize (H b (in_all_bytes b Hb)). apply bytes_eqb_eq. exact H.
Qed.

Lemma byte_bits_length b : length (byte_bits b) = 8%nat.
Proof. reflexivity. Qed.

(* ---- byte strings *)
Lemma wf_bytes_cons b bs : wf_bytes (b :: bs) = true <-> b < 256 /\ wf_bytes bs = true.
Proof. unfold wf_bytes. cbn [forallb]. rewrite andb_true_iff. unfold is_byte. rewrite N.ltb_lt. tauto. Qed.

Lemma bits_of_bytes_length bs : length (bits_of_bytes bs) = (8 * length bs)%nat.
Proof. induction bs as [|b bs IH]; [reflexivity|]. unfold bits_of_bytes in *. cbn [flat_map]. rewrite app_length, IH. simpl. lia. Qed.

Lemma nth_error_bits : forall bs n,
  nth_error (bits_of_bytes bs) n =
  match nth_error bs (n / 8) with
  | Some b => nth_error (byte_bits b) (n mod 8)
  | None => None
  end.
Proof.
  induction bs as [|b bs IH]; intros n.
  - unfold bits_of_bytes. cbn [flat_map]. destruct n; destruct (_ / 8)%nat; reflexivity.
  - unfold bits_of_bytes in *. cbn [flat_map]. destruct (lt_dec n 8) as [Hl|Hg].
    + rewrite nth_error_app1 by (rewrite byte_bits_length; exact Hl).
      rewrite Nat.div_small, Nat.mod_small by exact Hl. reflexivity.
    + rewrite nth_error_app2 by (rewrite byte_bits_length; lia). rewrite byte_bits_length, IH.
      pose proof (Nat.div_add (n - 8) 1 8) as D1. pose proof (Nat.mod_add (n - 8) 1 8) as D2.
      replace (n - 8 + 1 * 8)%nat with n in D1, D2 by lia.
      rewrite D1, D2 by lia. replace ((n - 8) / 8 + 1)%nat with (S ((n - 8) / 8)) by lia. reflexivity.
Qed.

Theorem msb_get_bit (k : bytes) (i : N) : wf_bytes k = true ->
  get_bit_at_index_from_msb k i = nth_error (bits_of_bytes k) (N.to_nat i).
Proof.
  intros Hwf. unfold get_bit_at_index_from_msb. rewrite nth_error_bits.
  assert (N.to_nat (i / 8) = (N.to_nat i / 8)%nat) as -> by (rewrite N2Nat.inj_div; reflexivity).
  destruct (nth_error k (N.to_nat i / 8)) as [b|] eqn:Eb; [|reflexivity].
  assert (b < 256) as Hb.
  { apply nth_error_In in Eb. unfold wf_bytes in Hwf. rewrite forallb_forall in Hwf. apply Hwf in Eb.
    unfold is_byte in Eb. apply N.ltb_lt. exact Eb. }
  assert (i mod 8 < 8) as Hj by (apply N.mod_lt; lia).
  rewrite (byte_bit b (i mod 8) Hb Hj).
  assert (N.to_nat (i mod 8) = (N.to_nat i mod 8)%nat) as -> by (rewrite N2Nat.inj_mod; reflexivity).
  symmetry. apply nth_error_nth'. rewrite byte_bits_length. apply Nat.mod_upper_bound. lia.
Qed.

Lemma cpl_app_eq (a A B : key) : cpl (a ++ A) (a ++ B) = (length a + cpl A B)%nat.
Proof. induction a as [|x a IH]; [reflexivity|]. cbn [app cpl length]. rewrite eqb_reflx, IH. reflexivity. Qed.

Lemma cpl_le : forall a b : key, (cpl a b <= length a)%nat.
Proof. induction a as [|x a IH]; intros [|y b]; simpl; try lia. destruct (Bool.eqb x y); [specialize (IH b); lia | lia]. Qed.

Lemma cpl_full_eq : forall a b : key, length a = length b -> cpl a b = length a -> a = b.
Proof.
  induction a as [|x a IH]; intros [|y b] Hl Hc; simpl in *; try discriminate; [reflexivity|].
  destruct (Bool.eqb x y) eqn:E; [|discriminate]. apply eqb_prop in E. subst. f_equal. apply IH; lia.
Qed.

Lemma cpl_app_neq : forall (a b A B : key), length a = length b -> (cpl a b < length a)%nat ->
  cpl (a ++ A) (b ++ B) = cpl a b.
Proof.
  induction a as [|x a IH]; intros [|y b] A B Hl Hc; simpl in *; try discriminate; try lia.
  destruct (Bool.eqb x y); [|reflexivity]. f_equal. apply IH; lia.
Qed.

Theorem msb_common_prefix : forall a b : bytes, wf_bytes a = true -> wf_bytes b = true -> length a = length b ->
  common_prefix_count a b = N.of_nat (cpl (bits_of_bytes a) (bits_of_bytes b)).
Proof.
  induction a as [|x a IH]; intros [|y b] Ha Hb Hl; simpl in Hl; try discriminate; [reflexivity|].
  apply wf_bytes_cons in Ha as [Hx Ha]. apply wf_bytes_cons in Hb as [Hy Hb].
  cbn [common_prefix_count]. destruct (byte_cpl x y Hx Hy) as [E1 E2]. rewrite E1, E2.
  unfold bits_of_bytes. cbn [flat_map]. fold (bits_of_bytes a) (bits_of_bytes b).
  destruct (Nat.eqb (cpl (byte_bits x) (byte_bits y)) 8) eqn:E8.
  - apply Nat.eqb_eq in E8.
    assert (byte_bits x = byte_bits y) as Ebb by (apply cpl_full_eq; [reflexivity | exact E8]).
    rewrite E8. rewrite <- Ebb, cpl_app_eq, byte_bits_length, (IH b Ha Hb) by lia. lia.
  - apply Nat.eqb_neq in E8. rewrite cpl_app_neq; [reflexivity | reflexivity |].
    pose proof (cpl_le (byte_bits x) (byte_bits y)). rewrite byte_bits_length in *. lia.
Qed.

Theorem bytes_of_bits_of_bytes : forall k : bytes, wf_bytes k = true -> bytes_of_bits (bits_of_bytes k) = k.
Proof.
  induction k as [|b k IH]; intros Hwf; [reflexivity|]. apply wf_bytes_cons in Hwf as [Hb Hk].
  unfold bits_of_bytes. cbn [flat_map]. fold (bits_of_bytes k).
  change (bytes_of_bits (byte_bits b ++ bits_of_bytes k)) with
    ((128 * b2n (N.testbit b 7) + 64 * b2n (N.testbit b 6) + 32 * b2n (N.testbit b 5) + 16 * b2n (N.testbit b 4) +
      8 * b2n (N.testbit b 3) + 4 * b2n (N.testbit b 2) + 2 * b2n (N.testbit b 1) + b2n (N.testbit b 0))
       :: bytes_of_bits (bits_of_bytes k)).
  rewrite (IH Hk). f_equal. pose proof (byte_roundtrip b Hb) as R. unfold byte_bits in R. cbn [bytes_of_bits] in R.
  injection R as R. exact R.
Qed.

Theorem bits_of_bytes_of_bits : forall n (ks : list bool), length ks = (8 * n)%nat ->
  bits_of_bytes (bytes_of_bits ks) = ks /\ wf_bytes (bytes_of_bits ks) = true /\ length (bytes_of_bits ks) = n.
Proof.
  induction n as [|n IH]; intros ks Hl.
  - destruct ks; [repeat split; reflexivity | discriminate].
  - destruct ks as [|b7 [|b6 [|b5 [|b4 [|b3 [|b2 [|b1 [|b0 r]]]]]]]]; simpl in Hl; try lia.
    destruct (IH r) as [E1 [E2 E3]]; [lia|].
    cbn [bytes_of_bits]. unfold bits_of_bytes. cbn [flat_map]. fold (bits_of_bytes (bytes_of_bits r)). rewrite E1.
    split; [|split].
    + destruct b7, b6, b5, b4, b3, b2, b1, b0; reflexivity.
    + apply wf_bytes_cons. split; [|exact E2]. destruct b7, b6, b5, b4, b3, b2, b1, b0; vm_compute; reflexivity.
    + simpl. rewrite E3. reflexivity.
Qed.
