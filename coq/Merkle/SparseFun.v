(* Merkle/SparseFun.v — L2: the compact sparse Merkle tree as a functional data structure.
   A leaf keeps the key bits that remain below its position; deleting collapses a node
   whose children are (leaf, empty) into the leaf (re-attaching the branch bit), which is
   what the Rust code does with its "orphaned leaf" logic.  Structural recursion only. *)
From Coq Require Import List Bool Arith Lia.
From FV Require Import Merkle.SparseSpec.
Import ListNotations.

Section SparseFun.
  Context {V Dg : Type}.
  Variable zero : Dg.
  Variable hleaf : key -> V -> Dg.
  Variable hnode : Dg -> Dg -> Dg.

  Inductive ctree :=
  | CE                                  (* placeholder *)
  | CL (rest : key) (v : V)             (* leaf; [rest] = key bits below this position *)
  | CN (l r : ctree).

  (* digest of the subtree [t] sitting at path [pre] *)
  Fixpoint c_root (pre : key) (t : ctree) : Dg :=
    match t with
    | CE => zero
    | CL k v => hleaf (pre ++ k) v
    | CN l r => hnode (c_root (pre ++ [false]) l) (c_root (pre ++ [true]) r)
    end.

  (* the tree holding exactly two leaves with (distinct) remaining keys [k1], [k2] *)
  Fixpoint c_split (k1 : key) (v1 : V) (k2 : key) (v2 : V) : ctree :=
    match k1, k2 with
    | b1 :: r1, b2 :: r2 =>
        if Bool.eqb b1 b2
        then (if b1 then CN CE (c_split r1 v1 r2 v2) else CN (c_split r1 v1 r2 v2) CE)
        else (if b1 then CN (CL r2 v2) (CL r1 v1) else CN (CL r1 v1) (CL r2 v2))
    | _, _ => CL k1 v1                  (* unreachable for distinct keys of equal length *)
    end.

  Fixpoint c_insert (k : key) (v : V) (t : ctree) {struct t} : ctree :=
    match t with
    | CE => CL k v
    | CL k' v' => if key_eqb k k' then CL k v else c_split k v k' v'
    | CN l r =>
        match k with
        | false :: k' => CN (c_insert k' v l) r
        | true :: k' => CN l (c_insert k' v r)
        | [] => t                       (* unreachable: an inner node has depth < D *)
        end
    end.

  (* smart constructor used by delete: never leaves a lone leaf under an inner node *)
  Definition mk_node (l r : ctree) : ctree :=
    match l, r with
    | CE, CE => CE
    | CL k v, CE => CL (false :: k) v
    | CE, CL k v => CL (true :: k) v
    | _, _ => CN l r
    end.

  Fixpoint c_delete (k : key) (t : ctree) {struct t} : ctree :=
    match t with
    | CE => CE
    | CL k' v' => if key_eqb k k' then CE else t
    | CN l r =>
        match k with
        | false :: k' => mk_node (c_delete k' l) r
        | true :: k' => mk_node l (c_delete k' r)
        | [] => t
        end
    end.

  Fixpoint c_get (k : key) (t : ctree) {struct t} : option V :=
    match t with
    | CE => None
    | CL k' v' => if key_eqb k k' then Some v' else None
    | CN l r => match k with
                | false :: k' => c_get k' l
                | true :: k' => c_get k' r
                | [] => None
                end
    end.

  Definition c_step (t : ctree) (o : @mop V) : ctree :=
    match o with MSet k v => c_insert k v t | MDel k => c_delete k t end.

  (* the canonical tree of a suffix map (same recursion as [sroot]) *)
  Fixpoint build (d : nat) (m : @smap V) : ctree :=
    match m with
    | [] => CE
    | [(k, v)] => CL k v
    | _ => match d with
           | O => CE
           | S d' => CN (build d' (sub false m)) (build d' (sub true m))
           end
    end.

  (* proof generation on the functional tree: siblings top-down and what sits at the end *)
  Fixpoint c_sides (pre ks : key) (t : ctree) {struct t} : list Dg :=
    match t, ks with
    | CN l r, false :: ks' => c_root (pre ++ [true]) r :: c_sides (pre ++ [false]) ks' l
    | CN l r, true :: ks' => c_root (pre ++ [false]) l :: c_sides (pre ++ [true]) ks' r
    | _, _ => []
    end.
  Fixpoint c_terminal (pre ks : key) (t : ctree) {struct t} : @xleaf V :=
    match t, ks with
    | CN l r, false :: ks' => c_terminal (pre ++ [false]) ks' l
    | CN l r, true :: ks' => c_terminal (pre ++ [true]) ks' r
    | CL k v, _ => XLeaf (pre ++ k) v
    | _, _ => XPlaceholder
    end.
End SparseFun.

Arguments CE {V}.
