(* Merkle/PositionPathProofs.v — the position arithmetic of common/{position,path_iterator,
   position_path}.rs in general: the path iterator descends from the root through the aligned
   blocks containing the leaf; position_path keeps the path nodes that exist in a tree of c
   leaves and pairs each with the in-order position of its RFC sibling range.  Consequences:
   `sides_ok i c` for all i < c < 2^63 and `peaks_ok k` for all k < 2^63 (no computation bound). *)
From FV Require Import Base.Bytes Base.U64 Base.Map Merkle.RFC6962 Merkle.BinaryModel
     Merkle.PositionFacts Merkle.BinaryProofs Merkle.BinaryHistory Merkle.VerifyProofs Merkle.ProveProofs.
From Coq Require Import Arith PeanoNat Lia.
Open Scope N_scope.

(* ------------------------------------------------------------------ positions *)
Lemma key_height a h : pos_height (key a h) = h.
Proof. apply (shape_height_N _ _ a). apply key_shape. Qed.

Lemma key_leaf a h : pos_is_leaf (key a h) = (h =? 0).
Proof.
  unfold pos_is_leaf, key. destruct (N.eqb_spec h 0) as [->|Hh].
  - change (2 ^ (0 + 1)) with 2. change (2 ^ 0) with 1. replace (a * 2 + 1 - 1) with (2 * a) by lia.
    rewrite N.even_mul. reflexivity.
  - replace h with (h - 1 + 1) at 2 by lia. rewrite !p2S. pose proof (pow2_pos (h - 1)).
    replace (a * (2 * 2 ^ h) + 2 * 2 ^ (h - 1) - 1) with (2 * (a * 2 ^ h + 2 ^ (h - 1) - 1) + 1) by lia.
    rewrite N.even_add, N.even_mul. reflexivity.
Qed.

Lemma key_bound a h : (a + 1) * 2 ^ h <= 2 ^ 63 -> key a h < U64.
Proof.
  intros H. unfold key. pose proof (pow2_pos h). rewrite p2S. change U64 with (2 * 2 ^ 63). lia.
Qed.

Lemma key_child a h (rgt : bool) : 1 <= h -> h <= 63 -> (a + 1) * 2 ^ h <= 2 ^ 63 ->
  pos_child (key a h) rgt = Some (key (2 * a + (if rgt then 1 else 0)) (h - 1)).
Proof.
  intros H1 H63 Hb. unfold pos_child. rewrite key_leaf, key_height.
  destruct (N.eqb_spec h 0) as [|_]; [lia|].
  unfold checked_sub at 1. destruct (N.leb_spec 1 h) as [_|]; [|lia]. cbn [opt_bind].
  unfold checked_shl64. destruct (N.ltb_spec (h - 1) 64) as [_|]; [|lia]. cbn [opt_bind].
  rewrite N.mul_1_l.
  assert (Hp : 2 ^ (h - 1) < U64) by (change U64 with (2 ^ 64); apply N.pow_lt_mono_r; lia).
  rewrite N.mod_small by exact Hp.
  assert (E : 2 ^ h = 2 * 2 ^ (h - 1)) by (replace h with (h - 1 + 1) at 1 by lia; apply p2S).
  pose proof (pow2_pos (h - 1)) as HB.
  unfold key. rewrite p2S. replace (h - 1 + 1) with h by lia. rewrite E in *.
  destruct rgt.
  - unfold checked_add. change U64 with (2 * 2 ^ 63).
    destruct (N.ltb_spec (a * (2 * (2 * 2 ^ (h - 1))) + 2 * 2 ^ (h - 1) - 1 + 2 ^ (h - 1)) (2 * 2 ^ 63)) as [_|]; [|lia].
    f_equal. lia.
  - unfold checked_sub. destruct (N.leb_spec (2 ^ (h - 1)) (a * (2 * (2 * 2 ^ (h - 1))) + 2 * 2 ^ (h - 1) - 1)) as [_|]; [|lia].
    f_equal. lia.
Qed.

(* ------------------------------------------------------------------ the path iterator *)
Definition sibx (x : N) : N := if N.even x then x + 1 else x - 1.

(* path nodes of leaf I below height h, with their siblings, top first *)
Fixpoint pitems (h : nat) (I : N) : list (N * N) :=
  match h with
  | O => []
  | S h' => (key (I / 2 ^ N.of_nat h') (N.of_nat h'), key (sibx (I / 2 ^ N.of_nat h')) (N.of_nat h')) :: pitems h' I
  end.

Lemma div_step I h : I / 2 ^ h = 2 * (I / 2 ^ (h + 1)) + N.b2n (N.testbit I h).
Proof.
  rewrite N.testbit_spec'.
  replace (I / 2 ^ (h + 1)) with (I / 2 ^ h / 2).
  - apply N.div_mod. lia.
  - rewrite N.div_div by (try apply N.pow_nonzero; lia). f_equal. rewrite p2S. lia.
Qed.

Lemma path_iter_spec : forall (h : nat) fuel side I,
  (h < fuel)%nat -> N.of_nat h <= 63 -> (I / 2 ^ N.of_nat h + 1) * 2 ^ N.of_nat h <= 2 ^ 63 ->
  path_iter fuel (key (I / 2 ^ N.of_nat h) (N.of_nat h)) side I (64 - N.of_nat h) =
    Some ((key (I / 2 ^ N.of_nat h) (N.of_nat h), side) :: pitems h I).
Proof.
  induction h as [|h IH]; intros fuel side I Hf H63 Hb; (destruct fuel as [|f]; [lia|]); cbn [path_iter pitems].
  - rewrite key_leaf. reflexivity.
  - rewrite key_leaf. destruct (N.eqb_spec (N.of_nat (S h)) 0) as [|_]; [lia|].
    rewrite Nat2N.inj_succ, <- N.add_1_r in *. set (hh := N.of_nat h) in *.
    unfold key_bit. destruct (N.ltb_spec (64 - (hh + 1)) 64) as [_|]; [|lia].
    replace (63 - (64 - (hh + 1))) with hh by lia.
    pose proof (div_step I hh) as Ed. set (a := I / 2 ^ (hh + 1)) in *. set (x := I / 2 ^ hh) in *.
    rewrite !key_child by (try exact Hb; lia).
    replace (hh + 1 - 1) with hh by lia. cbn [opt_bind].
    replace (64 - (hh + 1) + 1) with (64 - hh) by lia.
    assert (Ex : 2 * a + (if N.testbit I hh then 1 else 0) = x) by (rewrite Ed; destruct (N.testbit I hh); reflexivity).
    assert (Es : 2 * a + (if negb (N.testbit I hh) then 1 else 0) = sibx x).
    { unfold sibx. rewrite Ed. destruct (N.testbit I hh); cbn [N.b2n negb].
      - rewrite N.even_add, N.even_mul. cbn. lia.
      - rewrite N.add_0_r, N.even_mul. cbn. lia. }
    rewrite Ex, Es. unfold x. rewrite IH; [reflexivity | lia | lia |].
    fold x. rewrite p2S in Hb. pose proof (pow2_pos hh). destruct (N.testbit I hh); cbn [N.b2n] in Ed; nia.
Qed.

(* ------------------------------------------------------------------ position_path_iter, step by step *)
Notation ppi := position_path_iter.

Lemma ppi_none p s r rm : ppi ((p, s) :: r) rm None = ppi ((p, s) :: r) rm (Some s).
Proof. reflexivity. Qed.
Lemma ppi_side_irrel p s1 s2 r rm S : ppi ((p, s1) :: r) rm (Some S) = ppi ((p, s2) :: r) rm (Some S).
Proof. reflexivity. Qed.
Lemma ppi_emit p s r rm S : p <= rm ->
  ppi ((p, s) :: r) rm (Some S) =
    (do s' <- descend_left 70 S rm; do rest <- ppi r rm None; Some ((p, s') :: rest)).
Proof. intros H. cbn [position_path_iter]. destruct (N.leb_spec p rm); [reflexivity | lia]. Qed.
Lemma ppi_skip p s r rm S : rm < p -> ppi ((p, s) :: r) rm (Some S) = ppi r rm (Some S).
Proof. intros H. cbn [position_path_iter]. destruct (N.leb_spec p rm); [lia | reflexivity]. Qed.

(* a node exists in the tree of c leaves iff its in-order position does not exceed the last leaf's,
   iff more than half of its block is filled *)
Lemma key_le_rm a h c : 1 <= c -> (key a h <= 2 * (c - 1) <-> a * 2 ^ (h + 1) + 2 ^ h < 2 * c).
Proof. intros Hc. unfold key. pose proof (pow2_pos h). lia. Qed.

Lemma log2_up_bounds r : 1 <= r -> r <= 2 ^ N.log2_up r /\ 2 ^ N.log2_up r < 2 * r.
Proof.
  intros H. destruct (N.eq_dec r 1) as [->|Hn]; [cbn; lia|].
  assert (H1 : 1 < r) by lia. pose proof (N.log2_up_spec r H1) as [Hlo Hhi].
  pose proof (N.log2_up_pos r H1) as Hp.
  set (H0 := N.log2_up r) in *.
  assert (E : 2 ^ H0 = 2 * 2 ^ N.pred H0) by (replace H0 with (N.pred H0 + 1) at 1 by lia; apply p2S).
  lia.
Qed.

Lemma log2_up_char r H : 1 <= r -> r <= 2 ^ H -> 2 ^ H < 2 * r -> N.log2_up r = H.
Proof.
  intros H1 Hle Hlt. destruct (N.eq_dec H 0) as [->|Hn].
  - change (2 ^ 0) with 1 in *. assert (r = 1) by lia. subst r. reflexivity.
  - apply N.log2_up_unique; [lia|]. split; [|exact Hle].
    replace H with (N.pred H + 1) in Hlt by lia. rewrite p2S in Hlt. lia.
Qed.

(* descending the left spine of a side node that starts inside the tree ends at the node of its
   RFC range *)
Lemma descend_spec c : 1 <= c -> forall (h : nat) a, N.of_nat h <= 63 ->
  (a + 1) * 2 ^ N.of_nat h <= 2 ^ 63 -> a * 2 ^ N.of_nat h < c ->
  descend_left 70 (key a (N.of_nat h)) (2 * (c - 1)) =
    Some (rkey (a * 2 ^ N.of_nat h) (N.min (c - a * 2 ^ N.of_nat h) (2 ^ N.of_nat h))).
Proof.
  intros Hc. assert (G : forall (h : nat) fuel a, (h < fuel)%nat -> N.of_nat h <= 63 ->
    (a + 1) * 2 ^ N.of_nat h <= 2 ^ 63 -> a * 2 ^ N.of_nat h < c ->
    descend_left fuel (key a (N.of_nat h)) (2 * (c - 1)) =
      Some (rkey (a * 2 ^ N.of_nat h) (N.min (c - a * 2 ^ N.of_nat h) (2 ^ N.of_nat h)))).
  { induction h as [|h IH]; intros fuel a Hf H63 Hb Hs; (destruct fuel as [|f]; [lia|]); cbn [descend_left].
    - change (N.of_nat 0) with 0 in *. change (2 ^ 0) with 1 in *.
      destruct (N.ltb_spec (2 * (c - 1)) (key a 0)) as [Hlt|_].
      + exfalso. apply N.lt_nge in Hlt. apply Hlt. apply key_le_rm; [exact Hc|]. change (2 ^ (0 + 1)) with 2. change (2 ^ 0) with 1. lia.
      + unfold rkey. replace (N.min (c - a * 1) 1) with 1 by lia. change (N.log2_up 1) with 0.
        change (2 ^ 0) with 1. rewrite N.div_1_r, N.mul_1_r. reflexivity.
    - rewrite Nat2N.inj_succ, <- N.add_1_r in *. set (hh := N.of_nat h) in *.
      pose proof (pow2_pos hh) as HB. rewrite p2S in *.
      destruct (N.ltb_spec (2 * (c - 1)) (key a (hh + 1))) as [Hlt|Hge].
      + assert (Hne : ~ (a * 2 ^ (hh + 1 + 1) + 2 ^ (hh + 1) < 2 * c)).
        { intros Hx. apply (key_le_rm a (hh + 1) c Hc) in Hx. lia. }
        rewrite !p2S in Hne.
        rewrite key_child by (rewrite ?p2S; lia). cbn [opt_bind]. replace (hh + 1 - 1) with hh by lia.
        rewrite N.add_0_r. rewrite (IH f (2 * a)) by lia.
        f_equal. f_equal; [lia|]. lia.
      + apply (key_le_rm a (hh + 1) c Hc) in Hge. rewrite !p2S in Hge.
        f_equal. unfold rkey.
        assert (El : N.log2_up (N.min (c - a * (2 * 2 ^ hh)) (2 * 2 ^ hh)) = hh + 1).
        { apply log2_up_char; rewrite ?p2S; lia. }
        rewrite El, p2S. rewrite N.div_mul by lia. reflexivity. }
  intros h a H63. apply G; lia.
Qed.

(* ------------------------------------------------------------------ position_path over a tree of c leaves *)
Section Count.
  Variable c : N.
  Hypothesis Hc : 1 <= c.
  Hypothesis Hc63 : c <= 2 ^ 63.
  Notation rm := (2 * (c - 1)).

  (* path nodes above the node of the RFC range (s, r) that start at s are at most half filled and
     are skipped; the node of the range is emitted with the remembered side *)
  Lemma chain : forall (d : nat) s r I sd a,
    1 <= r -> s <= I -> I < s + r -> s = a * 2 ^ (N.log2_up r + N.of_nat d) ->
    (c = s + r \/ (d = 0%nat /\ r = 2 ^ N.log2_up r /\ s + r <= c)) ->
    ppi (pitems (S (N.to_nat (N.log2_up r) + d)) I) rm (Some sd) =
      (do s' <- descend_left 70 sd rm;
       do rest <- ppi (pitems (N.to_nat (N.log2_up r)) I) rm None;
       Some ((key (s / 2 ^ N.log2_up r) (N.log2_up r), s') :: rest)).
  Proof.
    induction d as [|d IH]; intros s r I sd a Hr Hlo Hhi Hs Hd;
      pose proof (log2_up_bounds r Hr) as [Hb1 Hb2]; set (H' := N.log2_up r) in *; pose proof (pow2_pos H') as HW.
    - rewrite Nat.add_0_r. cbn [pitems]. rewrite N2Nat.id. change (N.of_nat 0) with 0 in Hs. rewrite N.add_0_r in Hs.
      assert (Ea : I / 2 ^ H' = a).
      { symmetry. apply (N.div_unique I (2 ^ H') a (I - s)); lia. }
      assert (Es : s / 2 ^ H' = a) by (rewrite Hs; apply N.div_mul; lia).
      rewrite Ea, Es. apply ppi_emit. apply key_le_rm; [exact Hc|]. rewrite p2S.
      destruct Hd as [Hd|[_ [Hd1 Hd2]]]; lia.
    - destruct Hd as [Hd|[Hd _]]; [|discriminate].
      rewrite Nat.add_succ_r. cbn [pitems].
      set (hN := N.of_nat (S (N.to_nat H' + d))).
      assert (EhN : hN = H' + N.of_nat d + 1) by (unfold hN; lia).
      assert (Ehs : H' + N.of_nat (S d) = hN) by lia. rewrite Ehs in Hs.
      assert (E2 : 2 ^ hN = 2 * 2 ^ N.of_nat d * 2 ^ H').
      { rewrite EhN, p2S, N.pow_add_r. lia. }
      pose proof (pow2_pos (N.of_nat d)) as HQ. pose proof (pow2_pos hN) as HN.
      assert (Ea : I / 2 ^ hN = a).
      { symmetry. apply (N.div_unique I (2 ^ hN) a (I - s)); [|lia]. rewrite E2. nia. }
      rewrite Ea. rewrite ppi_skip.
      + apply (IH s r I sd (2 * a)); try assumption; [|left; exact Hd].
        rewrite Hs, EhN, p2S. fold H'. lia.
      + apply N.lt_nge. intros Hx. apply (key_le_rm a hN c Hc) in Hx. rewrite p2S in Hx.
        rewrite E2 in Hx, Hs. nia.
  Qed.

  Lemma chain' (d : nat) s r I sd a H' : H' = N.log2_up r ->
    1 <= r -> s <= I -> I < s + r -> s = a * 2 ^ (H' + N.of_nat d) ->
    (c = s + r \/ (d = 0%nat /\ r = 2 ^ H' /\ s + r <= c)) ->
    ppi (pitems (S (N.to_nat H' + d)) I) rm (Some sd) =
      (do s' <- descend_left 70 sd rm;
       do rest <- ppi (pitems (N.to_nat H') I) rm None;
       Some ((key (s / 2 ^ H') H', s') :: rest)).
  Proof. intros ->. apply chain. Qed.

  Lemma descend_spec' h a : h <= 63 -> (a + 1) * 2 ^ h <= 2 ^ 63 -> a * 2 ^ h < c ->
    descend_left 70 (key a h) rm = Some (rkey (a * 2 ^ h) (N.min (c - a * 2 ^ h) (2 ^ h))).
  Proof. intros. rewrite <- (N2Nat.id h). apply descend_spec; rewrite ?N2Nat.id; assumption. Qed.

  Lemma block_bound A h : A * 2 ^ h < 2 ^ 63 -> h <= 63 -> (A + 1) * 2 ^ h <= 2 ^ 63.
  Proof.
    intros H1 H2. assert (E : 2 ^ 63 = 2 ^ (63 - h) * 2 ^ h) by (rewrite <- N.pow_add_r; f_equal; lia).
    rewrite E in *. pose proof (pow2_pos h). apply N.mul_le_mono_r.
    assert (A < 2 ^ (63 - h)) by (apply (N.mul_lt_mono_pos_r (2 ^ h)); assumption). lia.
  Qed.

  (* below the node of a valid RFC range the iterator yields the sibling positions of the RFC
     recursion, root side first *)
  Lemma below : forall (fuel : nat) off i n,
    i < n -> N.log2_up n < N.of_nat fuel -> valid c off n ->
    exists L, ppi (pitems (N.to_nat (N.log2_up n)) (off + i)) rm None = Some L /\
              map snd L = rev (spec_sides_f fuel off i n).
  Proof.
    induction fuel as [|f IH]; intros off i n Hi Hf Hv; [lia|].
    cbn [spec_sides_f]. pose proof (valid_le _ _ _ Hv) as Hle.
    destruct (N.leb_spec n 1) as [Hn1|Hn2].
    { assert (n = 1) by lia. subst n. exists []. split; reflexivity. }
    assert (H2 : 2 <= n) by lia. pose proof (splitN_spec n H2) as Hk.
    pose proof (valid_left _ _ _ Hv H2) as Hvl. pose proof (valid_right _ _ _ Hv H2) as Hvr.
    destruct Hv as [[A HA] Hd]. rewrite log2_up_split in * by exact H2.
    set (m := N.log2 (n - 1)) in *. set (k := 2 ^ m) in *. pose proof (pow2_pos m) as Hk0. fold k in Hk0.
    assert (Hm63 : m + 1 <= 63).
    { assert (m < 63); [|lia]. apply (N.pow_lt_mono_r_iff 2); [reflexivity|]. fold k. lia. }
    assert (E1 : 2 ^ (m + 1) = 2 * k) by apply p2S. rewrite E1 in HA, Hd.
    assert (HbA : (A + 1) * (2 * k) <= 2 ^ 63).
    { rewrite <- E1. apply block_bound; [rewrite E1; lia | exact Hm63]. }
    assert (Elk : N.log2_up k = m) by (unfold k; apply N.log2_up_pow2; lia).
    set (I := off + i) in *.
    replace (N.to_nat (m + 1)) with (S (N.to_nat m)) by lia.
    assert (Elist : pitems (S (N.to_nat m)) I =
                    (key (I / k) m, key (sibx (I / k)) m) :: pitems (N.to_nat m) I).
    { cbn [pitems]. rewrite N2Nat.id. reflexivity. }
    cbn zeta. destruct (N.ltb_spec i k) as [Hik|Hik].
    - (* left: the sibling is the right range *)
      assert (Ex : I / k = 2 * A).
      { symmetry. apply (N.div_unique I k (2 * A) i); [exact Hik | unfold I; lia]. }
      assert (Esx : sibx (2 * A) = 2 * A + 1) by (unfold sibx; rewrite N.even_mul; reflexivity).
      rewrite Elist, ppi_none, <- Elist, Ex, Esx.
      replace (S (N.to_nat m)) with (S (N.to_nat m + 0)) by lia.
      rewrite (chain' 0 off k I (key (2 * A + 1) m) (2 * A) m);
        [ | symmetry; exact Elk | lia | unfold I; lia | unfold I; lia
          | change (N.of_nat 0) with 0; rewrite N.add_0_r; fold k; lia
          | right; split; [reflexivity|]; split; [reflexivity|]; destruct Hd as [Hd|[_ Hd]]; lia ].
      rewrite (descend_spec' m (2 * A + 1)) by (fold k; lia). fold k. cbn [opt_bind].
      destruct (IH off i k Hik ltac:(lia) Hvl) as [L' [HL' HM']]. rewrite Elk in HL'. fold I in HL'.
      rewrite HL'. cbn [opt_bind]. eexists. split; [reflexivity|].
      cbn [map snd]. rewrite rev_unit, HM'. f_equal.
      replace ((2 * A + 1) * k) with (off + k) by lia. f_equal.
      destruct Hd as [Hd|[Hn Hd]]; lia.
    - (* right: the sibling is the complete left block; half-empty nodes are skipped *)
      assert (Ex : I / k = 2 * A + 1).
      { symmetry. apply (N.div_unique I k (2 * A + 1) (i - k)); [lia | unfold I; lia]. }
      assert (Esx : sibx (2 * A + 1) = 2 * A).
      { unfold sibx. rewrite N.even_add, N.even_mul. cbn. lia. }
      rewrite Elist, ppi_none, <- Elist, Ex, Esx.
      set (r := n - k) in *. set (H' := N.log2_up r).
      assert (HH : H' <= m).
      { unfold H'. rewrite <- Elk. apply N.log2_up_le_mono. lia. }
      replace (S (N.to_nat m)) with (S (N.to_nat H' + N.to_nat (m - H'))) by lia.
      rewrite (chain' (N.to_nat (m - H')) (off + k) r I (key (2 * A) m) (2 * A + 1) H');
        [ | reflexivity | lia | unfold I; lia | unfold I; lia
          | rewrite N2Nat.id; replace (H' + (m - H')) with m by lia; fold k; lia | ].
      2:{ destruct Hd as [Hd|[Hn Hd]]; [left; lia|]. right.
          assert (Er : r = k) by lia.
          assert (EH : H' = m) by (unfold H'; rewrite Er; exact Elk).
          rewrite EH, Er. split; [rewrite N.sub_diag; reflexivity|]. split; [reflexivity | lia]. }
      rewrite (descend_spec' m (2 * A)) by (fold k; lia). fold k. cbn [opt_bind].
      destruct (IH (off + k) (i - k) r ltac:(lia) ltac:(fold H'; lia) Hvr) as [L' [HL' HM']].
      replace (off + k + (i - k)) with I in HL' by (unfold I; lia). fold H' in HL'.
      rewrite HL'. cbn [opt_bind]. eexists. split; [reflexivity|].
      cbn [map snd]. rewrite rev_unit, HM'. f_equal.
      replace (2 * A * k) with off by lia. f_equal. lia.
  Qed.

  (* position_path from a root of height Hr >= log2_up c: a first item (its side is dropped by the
     callers) followed by the RFC sibling positions, root side first *)
  Lemma position_path_spec Hr i (fuel : nat) :
    i < c -> c <= 2 ^ Hr -> Hr <= 63 -> N.log2_up c < N.of_nat fuel ->
    exists items r0, position_path (2 ^ Hr - 1) (2 * i) c = Some items /\
                     map snd items = r0 :: rev (spec_sides_f fuel 0 i c).
  Proof.
    intros Hi HcH H63 Hf. pose proof (pow2_pos Hr) as HR.
    assert (Eroot : 2 ^ Hr - 1 = key 0 Hr) by (unfold key; lia).
    unfold position_path, checked_sub. destruct (N.leb_spec 1 c) as [_|]; [|lia]. cbn [opt_bind].
    unfold from_leaf_index, checked_mul. change U64 with (2 * 2 ^ 63).
    destruct (N.ltb_spec ((c - 1) * 2) (2 * 2 ^ 63)) as [_|]; [|lia]. cbn [opt_bind].
    replace ((c - 1) * 2) with rm by lia.
    unfold as_path_iter. rewrite Eroot, key_height. unfold checked_sub.
    destruct (N.leb_spec Hr 64) as [_|]; [|lia]. cbn [opt_bind].
    replace (2 * i / 2) with i by (rewrite N.mul_comm, N.div_mul; lia).
    assert (Ediv : i / 2 ^ Hr = 0) by (apply N.div_small; lia).
    assert (Hb : (0 + 1) * 2 ^ Hr <= 2 ^ 63) by (rewrite N.add_0_l, N.mul_1_l; apply N.pow_le_mono_r; lia).
    pose proof (path_iter_spec (N.to_nat Hr) 66 (key 0 Hr) i) as Hpi.
    rewrite N2Nat.id, Ediv in Hpi. rewrite Hpi by (try exact Hb; lia). cbn [opt_bind].
    assert (Elist : pitems (S (N.to_nat Hr)) i = (key 0 Hr, key (sibx 0) Hr) :: pitems (N.to_nat Hr) i).
    { cbn [pitems]. rewrite N2Nat.id, Ediv. reflexivity. }
    rewrite ppi_none, (ppi_side_irrel _ _ (key (sibx 0) Hr)), <- Elist.
    set (H' := N.log2_up c).
    assert (HH : H' <= Hr).
    { unfold H'. rewrite <- (N.log2_up_pow2 Hr) by lia. apply N.log2_up_le_mono. exact HcH. }
    replace (S (N.to_nat Hr)) with (S (N.to_nat H' + N.to_nat (Hr - H'))) by lia.
    rewrite (chain' (N.to_nat (Hr - H')) 0 c i (key 0 Hr) 0 H');
      [ | reflexivity | exact Hc | lia | lia | lia | left; lia ].
    rewrite (descend_spec' Hr 0) by (try exact Hb; lia). cbn [opt_bind].
    destruct (below fuel 0 i c Hi Hf) as [L [HL HM]].
    { split; [exists 0; reflexivity | left; reflexivity]. }
    rewrite N.add_0_l in HL. fold H' in HL. rewrite HL. cbn [opt_bind].
    eexists _, _. split; [reflexivity|]. cbn [map snd]. rewrite HM. reflexivity.
  Qed.
End Count.

Lemma nlist_eqb_refl l : nlist_eqb l l = true.
Proof. induction l as [|x l IH]; [reflexivity|]. cbn [nlist_eqb]. rewrite N.eqb_refl, IH. reflexivity. Qed.

Lemma next_pow2_eq x : 1 <= x -> next_pow2 x = 2 ^ N.log2_up x.
Proof.
  intros H. unfold next_pow2. destruct (N.leb_spec x 1) as [Hx|]; [|reflexivity].
  assert (x = 1) by lia. subst x. reflexivity.
Qed.

Lemma root_position_eq c : c < 2 ^ 63 -> root_position c = Some (2 ^ N.log2_up (c + 1) - 1).
Proof.
  intros H. unfold root_position, checked_add. change U64 with (2 * 2 ^ 63).
  destruct (N.ltb_spec (c + 1) (2 * 2 ^ 63)) as [_|]; [|lia]. cbn [opt_bind].
  change 9223372036854775808 with (2 ^ 63).
  destruct (N.leb_spec (c + 1) (2 ^ 63)) as [_|]; [|lia]. rewrite next_pow2_eq by lia. reflexivity.
Qed.

Lemma log2_up_le63 x : x <= 2 ^ 63 -> N.log2_up x <= 63.
Proof. intros H. rewrite <- (N.log2_up_pow2 63) by lia. apply N.log2_up_le_mono. exact H. Qed.

(* ------------------------------------------------------------------ (2) the sides of prove, all sizes *)
Lemma model_sides_gen (fuel : nat) c i : c < 2 ^ 63 -> i < c -> N.log2_up c < N.of_nat fuel ->
  model_sides i c = Some (spec_sides_f fuel 0 i c).
Proof.
  intros Hc Hi Hf. unfold model_sides. rewrite root_position_eq by exact Hc.
  unfold from_leaf_index, checked_mul. change U64 with (2 * 2 ^ 63).
  destruct (N.ltb_spec (i * 2) (2 * 2 ^ 63)) as [_|]; [|lia]. rewrite (N.mul_comm i 2).
  pose proof (log2_up_bounds (c + 1) ltac:(lia)) as [Hb1 _].
  destruct (position_path_spec c ltac:(lia) ltac:(lia) (N.log2_up (c + 1)) i fuel Hi ltac:(lia)) as [items [r0 [Hp Hm]]].
  - apply log2_up_le63. lia.
  - exact Hf.
  - rewrite Hp, Hm. cbn [rev]. rewrite rev_involutive, removelast_last. reflexivity.
Qed.

Theorem sides_ok_all : forall c i, c < 2 ^ 63 -> i < c -> sides_ok i c = true.
Proof.
  intros c i Hc Hi. unfold sides_ok, spec_sides. rewrite (model_sides_gen 65 c i Hc Hi).
  - apply nlist_eqb_refl.
  - change (N.of_nat 65) with 65. pose proof (log2_up_le63 c ltac:(lia)). lia.
Qed.

(* ------------------------------------------------------------------ (1) the peaks of load, all sizes *)
Lemma testbit_shift A h K : K < 2 * 2 ^ h -> N.testbit (A * (2 * 2 ^ h) + K) h = (2 ^ h <=? K).
Proof.
  intros HK. pose proof (pow2_pos h) as HB. rewrite N.testbit_eqb.
  replace (A * (2 * 2 ^ h) + K) with (K + 2 * A * 2 ^ h) by lia. rewrite N.div_add by lia.
  replace (K / 2 ^ h + 2 * A) with (K / 2 ^ h + A * 2) by lia. rewrite N.mod_add by lia.
  destruct (N.leb_spec (2 ^ h) K) as [Hle|Hlt].
  - rewrite <- (N.div_unique K (2 ^ h) 1 (K - 2 ^ h)) by lia. reflexivity.
  - rewrite N.div_small by exact Hlt. reflexivity.
Qed.

Lemma speaks_sides : forall (h : nat) (fuel : nat) off K,
  (exists A, off = A * 2 ^ N.of_nat h) -> K < 2 ^ N.of_nat h -> N.log2_up (K + 1) < N.of_nat fuel ->
  rev (spec_sides_f fuel off K (K + 1)) = map (fun p => key (fst p) (snd p)) (speaks h (off + K) off).
Proof.
  induction h as [|h IH]; intros fuel off K [A HA] HK Hf.
  - change (2 ^ N.of_nat 0) with 1 in HK. assert (K = 0) by lia. subst K.
    destruct fuel; reflexivity.
  - rewrite Nat2N.inj_succ, <- N.add_1_r, p2S in *. cbn [speaks]. set (hh := N.of_nat h) in *.
    pose proof (pow2_pos hh) as HB.
    replace (N.testbit (off + K) hh) with (2 ^ hh <=? K) by (rewrite HA; symmetry; apply testbit_shift; exact HK).
    destruct (N.leb_spec (2 ^ hh) K) as [Hset|Hclr].
    + destruct fuel as [|f]; [lia|]. cbn [spec_sides_f].
      destruct (N.leb_spec (K + 1) 1) as [|_]; [lia|].
      replace (K + 1 - 1) with K by lia.
      assert (El : N.log2 K = hh) by (apply N.log2_unique; [lia|]; rewrite <- N.add_1_r, p2S; lia).
      rewrite El. cbn zeta. destruct (N.ltb_spec K (2 ^ hh)) as [|_]; [lia|].
      rewrite rev_unit. cbn [map fst snd]. f_equal.
      * unfold rkey. rewrite N.log2_up_pow2 by lia. reflexivity.
      * replace (K + 1 - 2 ^ hh) with (K - 2 ^ hh + 1) by lia.
        replace (off + K) with (off + 2 ^ hh + (K - 2 ^ hh)) by lia.
        apply IH; [exists (2 * A + 1); lia | lia |].
        assert (Hup : N.log2_up (K + 1) = hh + 1) by (apply log2_up_char; rewrite ?p2S; lia).
        assert (N.log2_up (K - 2 ^ hh + 1) <= hh).
        { rewrite <- (N.log2_up_pow2 hh) at 2 by lia. apply N.log2_up_le_mono. lia. }
        lia.
    + apply IH; [exists (2 * A); lia | exact Hclr | exact Hf].
Qed.

Lemma peak_positions_gen (fuel : nat) k : k < 2 ^ 63 -> N.log2_up (k + 1) < N.of_nat fuel ->
  peak_positions k = Some (rev (spec_sides_f fuel 0 k (k + 1))).
Proof.
  intros Hk Hf. unfold peak_positions, from_leaf_index, checked_mul. change U64 with (2 * 2 ^ 63).
  destruct (N.ltb_spec (k * 2) (2 * 2 ^ 63)) as [_|]; [|lia]. cbn [opt_bind].
  rewrite root_position_eq by exact Hk. cbn [opt_bind]. rewrite (N.mul_comm k 2).
  pose proof (log2_up_bounds (k + 1) ltac:(lia)) as [Hb1 _].
  pose proof (log2_up_le63 (k + 1) ltac:(lia)) as H63.
  destruct (position_path_spec (k + 1) ltac:(lia) ltac:(lia) (N.log2_up (k + 1)) k fuel ltac:(lia) Hb1 H63 Hf) as [items [r0 [Hp Hm]]].
  rewrite Hp. cbn [opt_bind]. f_equal.
  destruct items as [|it items]; [discriminate Hm|]. cbn [tl]. cbn [map] in Hm.
  revert Hm. generalize (spec_sides_f fuel 0 k (k + 1)). intros l Hm. congruence.
Qed.

Theorem peak_positions_all k : k < 2 ^ 63 -> peak_positions k = Some (spec_peaks k).
Proof.
  intros Hk. rewrite (peak_positions_gen 65 k Hk).
  - f_equal. unfold spec_peaks.
    apply (speaks_sides 64 65 0 k); [exists 0; reflexivity | change (N.of_nat 64) with 64 | ].
    + apply N.lt_trans with (2 ^ 63); [exact Hk | reflexivity].
    + change (N.of_nat 65) with 65. pose proof (log2_up_le63 (k + 1) ltac:(lia)). lia.
  - change (N.of_nat 65) with 65. pose proof (log2_up_le63 (k + 1) ltac:(lia)). lia.
Qed.

Theorem peaks_ok_all k : k < 2 ^ 63 -> peaks_ok k = true.
Proof. intros Hk. unfold peaks_ok. rewrite peak_positions_all by exact Hk. apply nlist_eqb_refl. Qed.

(* ------------------------------------------------------------------ consequences (C10 / C11 in full) *)
Section Full.
  Context {D : Type}.
  Variables (leaf_sum : bytes -> D) (node_sum : D -> D -> D) (empty_sum : D).
  Notation MTH := (MTH leaf_sum node_sum empty_sum).
  Notation PATH := (PATH leaf_sum node_sum empty_sum).
  Notation tinv := (tinv leaf_sum node_sum empty_sum).
  Notation spec_step := (spec_step leaf_sum node_sum empty_sum).
  Notation spec_run := (spec_run leaf_sum node_sum empty_sum).

  Theorem prove_is_PATH t ls i : tinv t ls -> lenN ls < 2 ^ 63 -> i < lenN ls ->
    tree_prove node_sum t i = ProveOk (MTH ls) (PATH (N.to_nat i) ls).
  Proof.
    intros Hinv Hb Hi. apply prove_is_PATH_given_sides; try assumption. apply sides_ok_all; assumption.
  Qed.

  Theorem prove_is_PATH_pushed_all ls i : lenN ls < 2 ^ 63 -> i < lenN ls ->
    exists t, push_all leaf_sum node_sum ls (Some tree_new) = Some t /\
              tree_prove node_sum t i = ProveOk (MTH ls) (PATH (N.to_nat i) ls).
  Proof. intros Hb Hi. apply prove_is_PATH_pushed; try assumption. apply sides_ok_all; assumption. Qed.

  (* every history: pushes below 2^63 leaves, resets, reloads at a recorded count, roots, proofs at
     any index *)
  Fixpoint hist_full (ls : list bytes) (ops : list hop) : Prop :=
    match ops with
    | [] => True
    | o :: r =>
        match o with
        | HPush _ => lenN ls + 1 < 2 ^ 63
        | HLoad k => k <= lenN ls
        | _ => True
        end /\ hist_full (fst (spec_step ls o)) r
    end.

  Lemma hist_full_okp : forall ops ls, lenN ls < 2 ^ 63 -> hist_full ls ops ->
    hist_okp leaf_sum node_sum empty_sum ls ops.
  Proof.
    induction ops as [|o ops IH]; intros ls Hb H; [exact I|].
    destruct H as [Ho H]. cbn [hist_okp].
    destruct o as [d| |k|i|]; cbn [BinaryHistory.spec_step fst] in *.
    - split; [exact Ho|]. apply IH; [rewrite lenN_app; exact Ho | exact H].
    - split; [exact I|]. apply IH; [reflexivity | exact H].
    - split; [split; [exact Ho | apply peaks_ok_all; lia]|]. apply IH; [|exact H].
      unfold lenN in *. rewrite firstn_length. lia.
    - split; [|apply IH; assumption].
      destruct (N.le_gt_cases (lenN ls) i) as [Hge|Hlt]; [left; exact Hge | right; apply sides_ok_all; assumption].
    - split; [exact I|]. apply IH; assumption.
  Qed.

  Theorem history_refines_full : forall ops t ls,
    tinv t ls -> lenN ls < 2 ^ 63 -> hist_full ls ops ->
    m_run leaf_sum node_sum empty_sum t ops = Some (spec_run ls ops).
  Proof.
    intros ops t ls Hinv Hb H. apply history_refines_proofs; try assumption. apply hist_full_okp; assumption.
  Qed.
End Full.
