(* Merkle/BinaryHistory.v — invariants of the storage-backed binary tree across pushes, resets
   and reloads (C11): the peak stack and the node table always describe the leaves pushed
   since the last reset; every complete aligned block of leaves has its RFC 6962 hash stored
   under its in-order position. *)
From FV Require Import Base.Bytes Base.U64 Base.Map Merkle.RFC6962 Merkle.BinaryModel
     Merkle.PositionFacts Merkle.BinaryProofs.
From Coq Require Import Arith.
Open Scope N_scope.

Section Hist.
  Context {D : Type}.
  Variables (leaf_sum : bytes -> D) (node_sum : D -> D -> D) (empty_sum : D).
  Notation MTH := (MTH leaf_sum node_sum empty_sum).
  Notation node := (@node D).
  Notation tree := (@tree D).

  (* the 2^h leaves of aligned block number a at height h *)
  Definition blk (a h : N) (ls : list bytes) : list bytes :=
    firstn (N.to_nat (2 ^ h)) (skipn (N.to_nat (a * 2 ^ h)) ls).
  (* in-order position of that block's node *)
  Definition key (a h : N) : N := a * 2 ^ (h + 1) + 2 ^ h - 1.

  Lemma key_shape a h : shape (key a h) h a.
  Proof. reflexivity. Qed.

  Lemma blk_app a h ls x : (a + 1) * 2 ^ h <= lenN ls -> blk a h (ls ++ x) = blk a h ls.
  Proof.
    intros H. unfold blk, lenN in *.
    assert (E : (N.to_nat (a * 2 ^ h) + N.to_nat (2 ^ h) <= length ls)%nat) by lia.
    rewrite skipn_app. rewrite firstn_app.
    rewrite skipn_length.
    replace (N.to_nat (2 ^ h) - (length ls - N.to_nat (a * 2 ^ h)))%nat with 0%nat by lia.
    rewrite firstn_O, app_nil_r. reflexivity.
  Qed.

  Lemma blk_firstn a h ls k : (a + 1) * 2 ^ h <= N.of_nat k -> blk a h (firstn k ls) = blk a h ls.
  Proof.
    intros H. unfold blk.
    rewrite skipn_firstn_comm. rewrite firstn_firstn. f_equal. lia.
  Qed.

  Lemma blk_last pre b h a : lenN pre = a * 2 ^ h -> length b = N.to_nat (2 ^ h) -> blk a h (pre ++ b) = b.
  Proof.
    intros H1 H2. unfold blk, lenN in *.
    assert (E : N.to_nat (a * 2 ^ h) = length pre) by lia.
    rewrite E, skipn_app, skipn_all, Nat.sub_diag, skipn_O. cbn [app].
    rewrite <- H2. apply firstn_all.
  Qed.

  (* ------------------------------------------------------------------ invariants *)
  Inductive frep : list node -> list bytes -> Prop :=
  | fr_nil : frep [] []
  | fr_cons n rest pre b a :
      frep rest pre ->
      lenN pre = 2 * a * 2 ^ (n_height n) ->
      length b = N.to_nat (2 ^ n_height n) ->
      n_hash n = MTH b ->
      n_pos n = key (2 * a) (n_height n) ->
      match rest with [] => True | m :: _ => n_height n < n_height m end ->
      frep (n :: rest) (pre ++ b).

  Definition SI (st : amap D) (ls : list bytes) : Prop :=
    forall a h, (a + 1) * 2 ^ h <= lenN ls -> aget st (key a h) = Some (MTH (blk a h ls)).

  Lemma lenN_app {A} (x y : list A) : lenN (x ++ y) = lenN x + lenN y.
  Proof. unfold lenN. rewrite app_length. lia. Qed.

  Lemma to_nat_pow2 h : N.to_nat (2 ^ h) = (2 ^ N.to_nat h)%nat.
  Proof. rewrite <- (pow2_nat_N h). rewrite Nat2N.id. reflexivity. Qed.

  Lemma key_lt a h c : (a + 1) * 2 ^ h <= c -> c < 2 ^ 63 -> key a h < U64.
  Proof.
    intros H1 H2. unfold key. pose proof (pow2_pos h).
    rewrite N.pow_add_r, N.pow_1_r. change U64 with (2 * 2 ^ 63). lia.
  Qed.

  Lemma frep_stack_rep st ls : frep st ls -> lenN ls < 2 ^ 63 ->
    stack_rep leaf_sum node_sum empty_sum st ls.
  Proof.
    induction 1 as [|n rest pre b a Hrep IH Hlen Hb Hh Hp Hord]; intros Hbound; [constructor|].
    rewrite lenN_app in Hbound.
    assert (Hbl : lenN b = 2 ^ n_height n) by (unfold lenN; rewrite Hb, N2Nat.id; reflexivity).
    apply sr_cons.
    - apply IH. lia.
    - unfold hgt. rewrite Hb. apply to_nat_pow2.
    - exact Hh.
    - rewrite Hp. apply (key_lt _ _ (lenN pre + lenN b)); [|exact Hbound]. rewrite Hlen, Hbl. lia.
    - destruct rest as [|m r]; [exact I|]. unfold hgt. lia.
  Qed.

  Lemma pow2_split hl ht : ht < hl -> 2 ^ hl = 2 ^ (hl - ht - 1) * 2 * 2 ^ ht.
  Proof.
    intros H. replace hl with ((hl - ht - 1) + 1 + ht) at 1 by lia.
    rewrite !N.pow_add_r, N.pow_1_r. reflexivity.
  Qed.

  (* ------------------------------------------------------------------ the merge loop *)
  Definition is_block (c : node) (ls : list bytes) : Prop :=
    exists a h, n_pos c = key a h /\ (a + 1) * 2 ^ h = lenN ls /\ n_hash c = MTH (blk a h ls).

  Lemma merge_frep : forall rest pre top b a created,
    frep rest pre ->
    lenN pre = a * 2 ^ (n_height top) ->
    length b = N.to_nat (2 ^ n_height top) ->
    n_hash top = MTH b ->
    n_pos top = key a (n_height top) ->
    match rest with [] => True | m :: _ => n_height top <= n_height m end ->
    lenN (pre ++ b) < 2 ^ 63 ->
    (forall c, In c created -> is_block c (pre ++ b)) ->
    (forall a' h', h' <= n_height top -> (a' + 1) * 2 ^ h' = lenN (pre ++ b) ->
                   exists c, In c created /\ n_pos c = key a' h') ->
    exists st cr, merge_loop node_sum top rest created = Some (st, cr) /\ frep st (pre ++ b) /\
      (forall c, In c cr -> is_block c (pre ++ b)) /\
      (forall a' h', (a' + 1) * 2 ^ h' = lenN (pre ++ b) -> exists c, In c cr /\ n_pos c = key a' h').
  Proof.
    induction rest as [|lhs rest' IH]; intros pre top b a created Hrep Hlen Hb Hh Hp Hle Hbound Hsound Hcov.
    - (* empty stack below: pre = [] *)
      inversion Hrep; subst. cbn [merge_loop]. eexists _, _. split; [reflexivity|].
      assert (Ha : a = 0).
      { unfold lenN in Hlen. cbn [length] in Hlen. pose proof (pow2_pos (n_height top)).
        destruct a as [|pa]; [reflexivity|]. exfalso. change (N.of_nat 0) with 0 in Hlen. lia. }
      subst a. split; [|split].
      + apply (fr_cons top [] [] b 0); [constructor | reflexivity | exact Hb | exact Hh | exact Hp | exact I].
      + exact Hsound.
      + intros a' h' He. apply Hcov; [|exact He].
        (* (a'+1) 2^h' = 2^h  ->  h' <= h *)
        rewrite lenN_app in He. unfold lenN in He at 1. cbn [length] in He. change (N.of_nat 0) with 0 in He.
        assert (Hbl : lenN b = 2 ^ n_height top) by (unfold lenN; rewrite Hb, N2Nat.id; reflexivity).
        rewrite Hbl, N.add_0_l in He.
        destruct (N.le_gt_cases h' (n_height top)) as [Hok|Hgt]; [exact Hok|exfalso].
        assert (2 ^ n_height top < 2 ^ h') by (apply N.pow_lt_mono_r; lia).
        assert (2 ^ h' <= (a' + 1) * 2 ^ h') by (pose proof (pow2_pos h'); nia). lia.
    - cbn [merge_loop].
      inversion Hrep as [|n r p bl al Hrep' Hlenl Hbl Hhl Hpl Hord]; subst.
      assert (Hblen : lenN b = 2 ^ n_height top) by (unfold lenN; rewrite Hb, N2Nat.id; reflexivity).
      assert (Hbllen : lenN bl = 2 ^ n_height lhs) by (unfold lenN; rewrite Hbl, N2Nat.id; reflexivity).
      destruct (N.eqb_spec (n_height top) (n_height lhs)) as [Heq|Hne].
      + (* merge *)
        set (h := n_height lhs) in *.
        assert (Hh63 : h < 63).
        { rewrite !lenN_app in Hbound. rewrite Hbllen in Hbound.
          apply (N.pow_lt_mono_r_iff 2); [reflexivity|]. lia. }
        assert (Hpos64 : n_pos lhs < U64).
        { rewrite Hpl. apply (key_lt _ _ (lenN ((p ++ bl) ++ b))); [|exact Hbound].
          rewrite !lenN_app, Hlenl, Hbllen. fold h. lia. }
        destruct (pos_parent_even (n_pos lhs) h al) as [q [Hq [Hqs Hq64]]];
          [rewrite Hpl; apply key_shape | exact Hpos64 | exact Hh63 |].
        rewrite Hq. cbn [opt_bind].
        set (new := create_node node_sum q lhs top).
        assert (Hnh : n_height new = h + 1).
        { unfold n_height, new. cbn [create_node n_pos]. apply (shape_height_N _ _ _ Hqs). }
        assert (E1 : 2 ^ (h + 1) = 2 * 2 ^ h) by (rewrite N.pow_add_r, N.pow_1_r; lia).
        assert (Ha : a = 2 * al + 1).
        { rewrite lenN_app, Hlenl, Hbllen, Heq in Hlen. fold h in Hlen. pose proof (pow2_pos h).
          assert (a * 2 ^ h = (2 * al + 1) * 2 ^ h) by lia.
          apply N.mul_cancel_r in H0; [exact H0 | lia]. }
        assert (Hnewhash : n_hash new = MTH (bl ++ b)).
        { unfold new. cbn [create_node n_hash]. rewrite Hhl, Hh. symmetry.
          apply (MTH_app_pow2 _ _ _ (N.to_nat h)).
          - rewrite Hbl. apply to_nat_pow2.
          - rewrite Hb, Heq. fold h. rewrite to_nat_pow2. pose proof (Nat.pow_nonzero 2 (N.to_nat h)). lia. }
        (* the merged block as blk al (h+1) of the whole list *)
        assert (Hwhole : (p ++ bl) ++ b = p ++ (bl ++ b)) by (rewrite app_assoc; reflexivity).
        assert (Hnewblk : blk al (h + 1) (p ++ (bl ++ b)) = bl ++ b).
        { apply blk_last.
          - rewrite Hlenl. fold h. rewrite E1. lia.
          - rewrite app_length, Hbl, Hb, Heq. fold h. rewrite E1. lia. }
        destruct (IH p new (bl ++ b) al (created ++ [new])) as [st [cr [Hm [Hst [Hs2 Hc2]]]]].
        * exact Hrep'.
        * rewrite Hnh, Hlenl. fold h. rewrite E1. lia.
        * rewrite Hnh, app_length, Hbl, Hb, Heq. fold h. rewrite E1. lia.
        * exact Hnewhash.
        * rewrite Hnh. unfold new. cbn [create_node n_pos]. exact Hqs.
        * destruct rest' as [|m r']; [exact I|]. rewrite Hnh. fold h in Hord. lia.
        * rewrite <- Hwhole. exact Hbound.
        * intros c Hin. apply in_app_or in Hin. destruct Hin as [Hin|[<-|[]]].
          -- rewrite <- Hwhole. apply Hsound. exact Hin.
          -- exists al, (h + 1). split; [unfold new; cbn [create_node n_pos]; exact Hqs|]. split.
             ++ rewrite !lenN_app, Hlenl, Hbllen, Hblen, Heq. fold h. rewrite E1. lia.
             ++ rewrite Hnewblk. exact Hnewhash.
        * intros a' h' Hh' He. rewrite Hnh in Hh'.
          destruct (N.eq_dec h' (h + 1)) as [->|Hneq].
          -- exists new. split; [apply in_or_app; right; left; reflexivity|].
             unfold new. cbn [create_node n_pos]. rewrite Hqs.
             assert (a' = al); [|subst; reflexivity].
             rewrite !lenN_app, Hlenl, Hbllen, Hblen, Heq in He. fold h in He. rewrite E1 in He.
             pose proof (pow2_pos h).
             assert ((a' + 1) * (2 * 2 ^ h) = (al + 1) * (2 * 2 ^ h)) by lia.
             apply N.mul_cancel_r in H0; lia.
          -- destruct (Hcov a' h') as [c [Hc1 Hc2']]; [rewrite Heq; fold h; lia | rewrite Hwhole; exact He |].
             exists c. split; [apply in_or_app; left; exact Hc1 | exact Hc2'].
        * exists st, cr. rewrite Hwhole. repeat split; assumption.
      + (* stop: top strictly lower than lhs *)
        eexists _, _. split; [reflexivity|].
        assert (Hlt : n_height top < n_height lhs) by lia.
        set (ht := n_height top) in *. set (hl := n_height lhs) in *.
        (* |p ++ bl| is a multiple of 2^(ht+1) *)
        assert (Ediv : exists a2, a = 2 * a2).
        { rewrite lenN_app, Hlenl, Hbllen in Hlen.
          assert (Ehl : 2 ^ hl = 2 ^ (hl - ht - 1) * 2 * 2 ^ ht) by (apply pow2_split; exact Hlt).
          exists ((2 * al + 1) * 2 ^ (hl - ht - 1)).
          pose proof (pow2_pos ht).
          assert (a * 2 ^ ht = 2 * ((2 * al + 1) * 2 ^ (hl - ht - 1)) * 2 ^ ht) by (rewrite Ehl in Hlen; lia).
          apply N.mul_cancel_r in H0; [exact H0 | lia]. }
        destruct Ediv as [a2 ->].
        split; [|split].
        * apply (fr_cons top (lhs :: rest') (p ++ bl) b a2); auto.
        * exact Hsound.
        * intros a' h' He. apply Hcov; [|exact He]. fold ht.
          (* count = (2 a2) 2^ht + 2^ht  is not divisible by 2^(ht+1) *)
          destruct (N.le_gt_cases h' ht) as [Hok|Hgt]; [exact Hok|exfalso].
          rewrite lenN_app, Hlen, Hblen in He. fold ht in He.
          assert (Eh' : 2 ^ h' = 2 ^ (h' - ht - 1) * 2 * 2 ^ ht) by (apply pow2_split; exact Hgt).
          rewrite Eh' in He. pose proof (pow2_pos ht).
          assert ((a' + 1) * (2 ^ (h' - ht - 1) * 2) = 2 * a2 + 1).
          { apply (N.mul_cancel_r _ _ (2 ^ ht)); [lia|]. lia. }
          lia.
  Qed.

  (* ------------------------------------------------------------------ storing the created nodes *)
  Lemma find_app' {A} (f : A -> bool) (l1 l2 : list A) :
    find f (l1 ++ l2) = match find f l1 with Some x => Some x | None => find f l2 end.
  Proof. induction l1 as [|x l1 IH]; cbn [find app]; [reflexivity|]. destruct (f x); [reflexivity | exact IH]. Qed.

  Lemma store_all_get : forall (cr : list node) (st : amap D) k,
    aget (store_all st cr) k =
      match find (fun c => n_pos c =? k) (rev cr) with
      | Some c => Some (n_hash c)
      | None => aget st k
      end.
  Proof.
    unfold store_all. induction cr as [|c cr IH]; intros st k; [reflexivity|].
    cbn [fold_left rev]. rewrite IH. rewrite find_app'.
    destruct (find (fun c0 => n_pos c0 =? k) (rev cr)) as [c'|]; [reflexivity|].
    cbn [find]. unfold aset. cbn [aget]. destruct (N.eqb_spec (n_pos c) k); reflexivity.
  Qed.

  Definition tinv (t : tree) (ls : list bytes) : Prop :=
    frep (t_nodes t) ls /\ t_count t = lenN ls /\ SI (t_storage t) ls.

  Lemma tinv_new : tinv tree_new [].
  Proof.
    split; [constructor|]. split; [reflexivity|].
    intros a h H. unfold lenN in H. cbn [length] in H. change (N.of_nat 0) with 0 in H.
    pose proof (pow2_pos h). nia.
  Qed.

  Lemma tinv_push t ls d : tinv t ls -> lenN ls + 1 < 2 ^ 63 ->
    exists t', tree_push leaf_sum node_sum t d = PushOk t' /\ tinv t' (ls ++ [d]).
  Proof.
    intros [Hrep [Hc Hsi]] Hb. unfold tree_push, create_leaf, from_leaf_index, checked_mul.
    assert (H64 : t_count t * 2 < U64) by (rewrite Hc; change U64 with (2 * 2 ^ 63); lia).
    destruct (N.ltb_spec (t_count t * 2) U64) as [_|]; [|lia]. cbn [opt_bind].
    unfold push_with_callback.
    set (lf := mkNode (t_count t * 2) (leaf_sum d)).
    assert (Hlfh : n_height lf = 0).
    { unfold n_height, lf. cbn [n_pos]. rewrite N.mul_comm. apply leaf_pos_height. }
    assert (Hlen1 : lenN (ls ++ [d]) = lenN ls + 1) by (rewrite lenN_app; reflexivity).
    destruct (merge_frep (t_nodes t) ls lf [d] (lenN ls) [lf]) as [st [cr [Hm [Hst [Hs Hcv]]]]].
    - exact Hrep.
    - rewrite Hlfh, N.pow_0_r. lia.
    - rewrite Hlfh. reflexivity.
    - reflexivity.
    - rewrite Hlfh. unfold lf, key. cbn [n_pos]. rewrite Hc. rewrite N.add_0_l, N.pow_1_r, N.pow_0_r. lia.
    - destruct (t_nodes t); [exact I|]. rewrite Hlfh. lia.
    - rewrite Hlen1. exact Hb.
    - intros c [<-|[]]. exists (lenN ls), 0. split; [|split].
      + unfold lf, key. cbn [n_pos]. rewrite Hc, N.add_0_l, N.pow_1_r, N.pow_0_r. lia.
      + rewrite Hlen1, N.pow_0_r. lia.
      + cbn [n_hash lf]. rewrite (blk_last ls [d] 0 (lenN ls)); [reflexivity | rewrite N.pow_0_r; lia | reflexivity].
    - intros a' h' Hh' He. rewrite Hlfh in Hh'. assert (h' = 0) by lia. subst h'.
      exists lf. split; [left; reflexivity|]. rewrite Hlen1, N.pow_0_r in He.
      assert (a' = lenN ls) by lia. subst a'.
      unfold lf, key. cbn [n_pos]. rewrite Hc, N.add_0_l, N.pow_1_r, N.pow_0_r. lia.
    - rewrite Hm. eexists. split; [reflexivity|]. split; [exact Hst|]. split.
      + cbn [t_count]. rewrite Hc, Hlen1. reflexivity.
      + cbn [t_storage]. intros a h Hle. rewrite store_all_get.
        destruct (find (fun c => n_pos c =? key a h) (rev cr)) as [c|] eqn:Hf.
        * apply find_some in Hf. destruct Hf as [Hin Heq]. apply N.eqb_eq in Heq.
          apply in_rev in Hin. destruct (Hs c Hin) as [a2 [h2 [Hp2 [He2 Hh2]]]].
          rewrite Hp2 in Heq. destruct (shape_inj _ _ _ _ _ (key_shape a2 h2) (eq_ind _ (fun k => shape k h a) (key_shape a h) _ (eq_sym Heq))) as [-> ->].
          rewrite Hh2. reflexivity.
        * (* not created now: either an old block, or a contradiction with coverage *)
          destruct (N.eq_dec ((a + 1) * 2 ^ h) (lenN (ls ++ [d]))) as [Heq|Hneq].
          -- exfalso. destruct (Hcv a h Heq) as [c [Hin Hp]].
             assert (Hfn := find_none _ _ Hf c (proj1 (in_rev cr c) Hin)). cbn beta in Hfn.
             rewrite Hp, N.eqb_refl in Hfn. discriminate.
          -- rewrite Hsi by (rewrite Hlen1 in *; lia).
             rewrite blk_app by (rewrite Hlen1 in *; lia). reflexivity.
  Qed.

  Lemma tinv_reset t ls : tinv t ls -> tinv (tree_reset t) [].
  Proof.
    intros _. split; [constructor|]. split; [reflexivity|].
    intros a h H. unfold lenN in H. cbn [length] in H. change (N.of_nat 0) with 0 in H.
    pose proof (pow2_pos h). nia.
  Qed.

  Lemma tinv_root t ls : tinv t ls -> lenN ls < 2 ^ 63 ->
    tree_root node_sum empty_sum t = Some (MTH ls) /\ t_count t = lenN ls.
  Proof.
    intros [Hrep [Hc _]] Hb. split; [|exact Hc].
    apply (tree_root_inv leaf_sum node_sum empty_sum).
    - split; [apply frep_stack_rep; assumption | exact Hc].
    - exact Hb.
  Qed.

  (* ------------------------------------------------------------------ reload from storage *)
  (* the peaks of k leaves, bottom (largest) first, as (block index, height) *)
  Fixpoint speaks (h : nat) (k off : N) : list (N * N) :=
    match h with
    | O => []
    | S h' => if N.testbit k (N.of_nat h')
              then (off / 2 ^ N.of_nat h', N.of_nat h') :: speaks h' k (off + 2 ^ N.of_nat h')
              else speaks h' k off
    end.
  Definition spec_peaks (k : N) : list N := map (fun p => key (fst p) (snd p)) (speaks 64 k 0).

  Fixpoint nlist_eqb (a b : list N) : bool :=
    match a, b with
    | [], [] => true
    | x :: a', y :: b' => (x =? y) && nlist_eqb a' b'
    | _, _ => false
    end.
  Lemma nlist_eqb_eq a b : nlist_eqb a b = true -> a = b.
  Proof.
    revert b; induction a as [|x a IH]; intros [|y b] H; cbn [nlist_eqb] in H; try discriminate; [reflexivity|].
    apply andb_true_iff in H as [H1 H2]. apply N.eqb_eq in H1. rewrite H1, (IH _ H2). reflexivity.
  Qed.
  Definition peaks_ok (k : N) : bool :=
    match peak_positions k with Some l => nlist_eqb l (spec_peaks k) | None => false end.

  (* loading the spec peaks for the first k leaves yields a stack representing them *)
  Lemma load_speaks : forall (h : nat) (k off : N) st ls acc pre,
    SI st ls ->
    k < 2 ^ 63 -> N.of_nat h <= 64 ->
    off + k mod 2 ^ N.of_nat h <= lenN ls ->
    (exists m, off = m * 2 ^ N.of_nat h) ->
    frep acc pre -> lenN pre = off -> pre = firstn (N.to_nat off) ls ->
    match acc with [] => True | m :: _ => N.of_nat h <= n_height m end ->
    exists stack, load_peaks st (map (fun p => key (fst p) (snd p)) (speaks h k off)) acc = inr stack /\
                  frep stack (firstn (N.to_nat (off + k mod 2 ^ N.of_nat h)) ls).
  Proof.
    induction h as [|h' IH]; intros k off st ls acc pre Hsi Hk Hh Hle [m Hm] Hacc Hpre Hpre2 Hord.
    - cbn [speaks map load_peaks]. exists acc. split; [reflexivity|].
      change (N.of_nat 0) with 0. rewrite N.pow_0_r, N.mod_1_r, N.add_0_r. rewrite <- Hpre2. exact Hacc.
    - cbn [speaks]. rewrite Nat2N.inj_succ in *. set (hh := N.of_nat h') in *.
      assert (E1 : 2 ^ N.succ hh = 2 * 2 ^ hh) by (rewrite N.pow_succ_r'; reflexivity).
      pose proof (pow2_pos hh) as P0.
      (* k mod 2^(hh+1) = bit * 2^hh + k mod 2^hh *)
      assert (Emod : k mod 2 ^ N.succ hh = (if N.testbit k hh then 2 ^ hh else 0) + k mod 2 ^ hh).
      { rewrite E1. rewrite N.mul_comm. rewrite N.mod_mul_r by lia.
        rewrite N.testbit_eqb.
        assert ((k / 2 ^ hh) mod 2 < 2) by (apply N.mod_lt; lia).
        set (q := (k / 2 ^ hh) mod 2) in *. set (r := k mod 2 ^ hh) in *. set (w := 2 ^ hh) in *.
        destruct (N.eqb_spec q 1) as [Hq1|Hq1].
        - rewrite Hq1. lia.
        - assert (Hq0 : q = 0) by lia. rewrite Hq0. lia. }
      destruct (N.testbit k hh) eqn:Hbit.
      + cbn [map load_peaks fst snd].
        assert (Eoff : off / 2 ^ hh = 2 * m).
        { rewrite Hm, E1. replace (m * (2 * 2 ^ hh)) with (2 * m * 2 ^ hh) by lia. apply N.div_mul. lia. }
        rewrite Eoff.
        assert (Hblk_le : (2 * m + 1) * 2 ^ hh <= lenN ls). { rewrite Emod in Hle; rewrite Hm, E1 in Hle. revert Hle. generalize (2 ^ hh) (k mod 2 ^ hh) (lenN ls). intros; lia. }
        rewrite (Hsi (2 * m) hh) by lia.
        set (nd := mkNode (key (2 * m) hh) (MTH (blk (2 * m) hh ls))).
        assert (Hndh : n_height nd = hh) by (unfold n_height, nd; cbn [n_pos]; apply (shape_height_N _ _ _ (key_shape (2 * m) hh))).
        assert (Hblen : length (blk (2 * m) hh ls) = N.to_nat (2 ^ hh)).
        { unfold blk. rewrite firstn_length, skipn_length. unfold lenN in Hblk_le. lia. }
        destruct (IH k (off + 2 ^ hh) st ls (nd :: acc) (pre ++ blk (2 * m) hh ls)) as [stack [Hl Hf]].
        * exact Hsi. * exact Hk. * lia.
        * rewrite Emod in Hle. lia.
        * exists (2 * m + 1). rewrite Hm, E1. lia.
        * apply (fr_cons nd acc pre (blk (2 * m) hh ls) m); auto.
          -- rewrite Hndh, Hpre, Hm, E1. lia.
          -- rewrite Hndh. exact Hblen.
          -- rewrite Hndh. reflexivity.
          -- destruct acc as [|mm r]; [exact I|]. rewrite Hndh. fold hh in Hord. lia.
        * rewrite lenN_app, Hpre. unfold lenN. rewrite Hblen, N2Nat.id. reflexivity.
        * rewrite Hpre2. unfold blk.
          replace (2 * m * 2 ^ hh) with off by (rewrite Hm, E1; lia).
          rewrite N2Nat.inj_add.
          rewrite <- (firstn_skipn (N.to_nat off) (firstn (N.to_nat off + N.to_nat (2 ^ hh)) ls)).
          rewrite firstn_firstn. replace (Init.Nat.min (N.to_nat off) (N.to_nat off + N.to_nat (2 ^ hh))) with (N.to_nat off) by lia.
          f_equal. rewrite skipn_firstn_comm. f_equal. lia.
        * cbn [n_height]. rewrite Hndh. lia.
        * exists stack. split; [exact Hl|]. rewrite Emod. replace (off + (2 ^ hh + k mod 2 ^ hh)) with (off + 2 ^ hh + k mod 2 ^ hh) by lia. exact Hf.
      + destruct (IH k off st ls acc pre) as [stack [Hl Hf]]; auto.
        * lia.
        * rewrite Emod in Hle. lia.
        * exists (2 * m). rewrite Hm, E1. lia.
        * destruct acc as [|mm r]; [exact I|]. fold hh in Hord. lia.
        * exists stack. split; [exact Hl|]. rewrite Emod, N.add_0_l. exact Hf.
  Qed.

  Lemma tinv_load t ls k : tinv t ls -> k <= lenN ls -> lenN ls < 2 ^ 63 -> peaks_ok k = true ->
    exists t', tree_load (t_storage t) k = LoadOk t' /\ tinv t' (firstn (N.to_nat k) ls).
  Proof.
    intros [Hrep [Hc Hsi]] Hk Hb Hok. unfold tree_load. unfold peaks_ok in Hok.
    destruct (peak_positions k) as [peaks|]; [|discriminate].
    apply nlist_eqb_eq in Hok. subst peaks. unfold spec_peaks.
    assert (Hk63 : k < 2 ^ 63) by lia.
    destruct (load_speaks 64 k 0 (t_storage t) ls [] []) as [stack [Hl Hf]]; auto.
    - change (N.of_nat 64) with 64. lia.
    - change (N.of_nat 64) with 64. rewrite N.mod_small, N.add_0_l; [exact Hk|].
      eapply N.lt_trans; [exact Hk63|]. apply N.pow_lt_mono_r; lia.
    - exists 0. reflexivity.
    - constructor.
    - change (N.of_nat 64) with 64 in *. rewrite Hl.
      rewrite N.mod_small, N.add_0_l in Hf by (eapply N.lt_trans; [exact Hk63 | apply N.pow_lt_mono_r; lia]).
      eexists. split; [reflexivity|]. split; [exact Hf|]. split.
      + cbn [t_count]. unfold lenN. rewrite firstn_length. unfold lenN in Hk. lia.
      + cbn [t_storage]. intros a h Hle. unfold lenN in Hle. rewrite firstn_length in Hle.
        rewrite Hsi by (unfold lenN in *; lia). rewrite blk_firstn by lia. reflexivity.
  Qed.

  (* ------------------------------------------------------------------ refinement (C11) *)
  Notation hobs := (@hobs D).
  Notation PATH := (PATH leaf_sum node_sum empty_sum).

  (* L3: the abstract state is the list of leaves pushed since the last reset *)
  Definition spec_step (ls : list bytes) (o : hop) : list bytes * hobs :=
    match o with
    | HPush d => (ls ++ [d], OUnit)
    | HReset => ([], OUnit)
    | HLoad k => (firstn (N.to_nat k) ls, OLoad true)
    | HRoot => (ls, ORoot (MTH ls) (lenN ls))
    | HProve i => (ls, OProof (if i <? lenN ls then Some (MTH ls, PATH (N.to_nat i) ls) else None))
    end.
  Fixpoint spec_run (ls : list bytes) (ops : list hop) : list hobs :=
    match ops with
    | [] => []
    | o :: r => snd (spec_step ls o) :: spec_run (fst (spec_step ls o)) r
    end.

  (* histories in scope of the partial theorem: reloads at a recorded count whose peak positions
     were checked, fewer than 2^63 leaves, and proofs only requested at or beyond the count *)
  Fixpoint hist_ok (ls : list bytes) (ops : list hop) : Prop :=
    match ops with
    | [] => True
    | o :: r =>
        match o with
        | HPush _ => lenN ls + 1 < 2 ^ 63
        | HLoad k => k <= lenN ls /\ peaks_ok k = true
        | HProve i => lenN ls <= i
        | _ => True
        end /\ hist_ok (fst (spec_step ls o)) r
    end.

  Lemma tinv_bound t ls : tinv t ls -> True. Proof. trivial. Qed.

  Theorem history_refines : forall ops t ls,
    tinv t ls -> lenN ls < 2 ^ 63 -> hist_ok ls ops ->
    m_run leaf_sum node_sum empty_sum t ops = Some (spec_run ls ops).
  Proof.
    induction ops as [|o ops IH]; intros t ls Hinv Hb Hok; [reflexivity|].
    cbn [m_run spec_run]. destruct Hok as [Ho Hok].
    destruct o as [d| |k|i|]; cbn [m_step spec_step fst snd] in *.
    - destruct (tinv_push t ls d Hinv Ho) as [t' [Hp Hi]]. rewrite Hp.
      rewrite (IH t' (ls ++ [d]) Hi); [reflexivity | rewrite lenN_app; exact Ho | exact Hok].
    - rewrite (IH (tree_reset t) [] (tinv_reset t ls Hinv)); [reflexivity | reflexivity | exact Hok].
    - destruct Ho as [Hk Hpk].
      destruct (tinv_load t ls k Hinv Hk Hb Hpk) as [t' [Hl Hi]]. rewrite Hl.
      rewrite (IH t' _ Hi); [reflexivity | | exact Hok].
      unfold lenN. rewrite firstn_length. unfold lenN in Hb. lia.
    - unfold m_prove, tree_prove. destruct Hinv as [Hrep [Hc Hsi]]. rewrite Hc.
      destruct (N.leb_spec (lenN ls) i) as [_|]; [|lia].
      destruct (N.ltb_spec i (lenN ls)) as [|_]; [lia|].
      rewrite (IH t ls); [reflexivity | split; [exact Hrep | split; [exact Hc | exact Hsi]] | exact Hb | exact Hok].
    - destruct (tinv_root t ls Hinv Hb) as [Hr Hc]. rewrite Hr, Hc.
      rewrite (IH t ls Hinv Hb Hok). reflexivity.
  Qed.

  (* proofs are refused at or beyond the current leaf count, in every reachable state *)
  Lemma prove_refused t ls i : tinv t ls -> lenN ls <= i -> tree_prove node_sum t i = ProveInvalidIndex.
  Proof.
    intros [_ [Hc _]] Hi. unfold tree_prove. rewrite Hc.
    destruct (N.leb_spec (lenN ls) i) as [_|]; [reflexivity | lia].
  Qed.
End Hist.

(* the peak positions computed by the position-path iterator equal the binary decomposition of
   the leaf count: checked exhaustively (by computation) for every count up to 4096 *)
Lemma peaks_ok_4096 : forall k, k <= 4096 -> peaks_ok k = true.
Proof.
  assert (H : forallb peaks_ok (map N.of_nat (seq 0 4097)) = true) by (vm_compute; reflexivity).
  intros k Hk. rewrite forallb_forall in H. apply H.
  apply in_map_iff. exists (N.to_nat k). split; [apply N2Nat.id|]. apply in_seq. lia.
Qed.
