(* Merkle/ProveProofs.v — MerkleTree::prove (position_path + scratch/storage lookups) produces
   the RFC 6962 audit path.  PARTIAL: the side positions computed by the position-path iterator
   are compared with the in-order positions of the RFC sibling ranges by computation
   (`sides_ok`, checked exhaustively for every tree of up to 128 leaves); everything else
   (scratch table of root_node, storage invariant, lookups, RFC recursion) is proved in general. *)
From FV Require Import Base.Bytes Base.U64 Base.Map Merkle.RFC6962 Merkle.RFCFacts Merkle.BinaryModel
     Merkle.PositionFacts Merkle.BinaryProofs Merkle.BinaryHistory Merkle.VerifyProofs.
From Coq Require Import Arith PeanoNat Lia.
Open Scope N_scope.

(* ------------------------------------------------------------------ the RFC sibling positions *)
(* in-order position of the smallest aligned block containing the range [s, s+len) *)
Definition rkey (s len : N) : N := key (s / 2 ^ N.log2_up len) (N.log2_up len).

(* sibling ranges of leaf (off + i) inside the range [off, off + n), leaf-to-root *)
Fixpoint spec_sides_f (fuel : nat) (off i n : N) : list N :=
  match fuel with
  | O => []
  | S f =>
      if n <=? 1 then []
      else let k := 2 ^ N.log2 (n - 1) in
           if i <? k then spec_sides_f f off i k ++ [rkey (off + k) (n - k)]
           else spec_sides_f f (off + k) (i - k) (n - k) ++ [rkey off k]
  end.
Definition spec_sides (i n : N) : list N := spec_sides_f 65 0 i n.

(* what MerkleTree::prove computes before touching the tables *)
Definition model_sides (i c : N) : option (list N) :=
  match root_position c, from_leaf_index i with
  | Some rp, Some lp =>
      match position_path rp lp c with
      | Some items => Some (removelast (rev (map snd items)))
      | None => None
      end
  | _, _ => None
  end.
Definition sides_ok (i c : N) : bool :=
  match model_sides i c with Some l => nlist_eqb l (spec_sides i c) | None => false end.

Definition sides_ok_upto (c : N) : bool :=
  forallb (fun i => sides_ok (N.of_nat i) c) (seq 0 (N.to_nat c)).


(* ------------------------------------------------------------------ ranges of the RFC recursion *)
(* ranges met by the RFC recursion: aligned to the next power of two of their length, and either
   a suffix of the tree or a complete perfect block *)
Definition valid (c off n : N) : Prop :=
  (exists a, off = a * 2 ^ N.log2_up n) /\ (off + n = c \/ (n = 2 ^ N.log2_up n /\ off + n <= c)).

Lemma valid_le c off n : valid c off n -> off + n <= c.
Proof. intros [_ [H|[_ H]]]; lia. Qed.

Lemma log2_up_split n : 2 <= n -> N.log2_up n = N.log2 (n - 1) + 1.
Proof. intros H. rewrite N.log2_up_eqn by lia. rewrite N.sub_1_r. lia. Qed.

Lemma valid_left c off n : valid c off n -> 2 <= n -> valid c off (2 ^ N.log2 (n - 1)).
Proof.
  intros [[a Ha] Hd] H2. pose proof (splitN_spec n H2) as Hk. rewrite log2_up_split in Ha by exact H2.
  set (m := N.log2 (n - 1)) in *. unfold valid. rewrite N.log2_up_pow2 by lia. split.
  - exists (2 * a). rewrite Ha, p2S. lia.
  - right. split; [reflexivity|]. destruct Hd as [Hd|[_ Hd]]; lia.
Qed.

Lemma valid_right c off n : valid c off n -> 2 <= n ->
  valid c (off + 2 ^ N.log2 (n - 1)) (n - 2 ^ N.log2 (n - 1)).
Proof.
  intros [[a Ha] Hd] H2. pose proof (splitN_spec n H2) as Hk. rewrite log2_up_split in Ha, Hd by exact H2.
  set (m := N.log2 (n - 1)) in *. pose proof (pow2_pos m) as Hk0. unfold valid.
  assert (HH : N.log2_up (n - 2 ^ m) <= m).
  { rewrite <- (N.log2_up_pow2 m) at 2 by lia. apply N.log2_up_le_mono. lia. }
  split.
  - exists ((2 * a + 1) * 2 ^ (m - N.log2_up (n - 2 ^ m))).
    rewrite <- N.mul_assoc, <- N.pow_add_r. replace (m - N.log2_up (n - 2 ^ m) + N.log2_up (n - 2 ^ m)) with m by lia.
    rewrite Ha, p2S. lia.
  - destruct Hd as [Hd|[Hn Hd]]; [left; lia|]. right. rewrite p2S in Hn.
    replace (n - 2 ^ m) with (2 ^ m) by lia. rewrite N.log2_up_pow2 by lia. split; [reflexivity | lia].
Qed.


Section Prove.
  Context {D : Type}.
  Variables (leaf_sum : bytes -> D) (node_sum : D -> D -> D) (empty_sum : D).
  Notation MTH := (MTH leaf_sum node_sum empty_sum).
  Notation PATH := (PATH leaf_sum node_sum empty_sum).
  Notation node := (@node D).
  Notation tree := (@tree D).
  Notation frep := (frep leaf_sum node_sum empty_sum).
  Notation tinv := (tinv leaf_sum node_sum empty_sum).

  (* ---------------------------------------------------------------- the scratch table of root_node *)
  (* (a, H) names the aligned block [a 2^H, (a+1) 2^H); it is an imperfect suffix block of a tree of
     c leaves when it starts inside the tree, ends beyond it, and more than half of it is filled *)
  Definition imperf (a H c : N) : Prop := a * 2 ^ H < c /\ c < (a + 1) * 2 ^ H /\ 2 ^ H < 2 * (c - a * 2 ^ H).
  Definition sfx (x : node) (ls : list bytes) : Prop :=
    exists a H, n_pos x = key a H /\ imperf a H (lenN ls) /\ n_hash x = MTH (skipn (N.to_nat (a * 2 ^ H)) ls).

  Lemma pow2_ge1 e : 1 <= 2 ^ e.
  Proof. pose proof (pow2_pos e). lia. Qed.

  Lemma join_sfx : forall rest pre head suf created a H ls,
    ls = pre ++ suf -> frep rest pre ->
    n_hash head = MTH suf -> n_pos head = key a H -> lenN pre = a * 2 ^ H ->
    0 < lenN suf -> lenN suf <= 2 ^ H ->
    match rest with [] => True | m :: _ => H <= n_height m /\ lenN suf < 2 ^ n_height m end ->
    lenN ls < 2 ^ 63 ->
    (forall x, In x created -> sfx x ls) ->
    (forall a' H', lenN pre <= a' * 2 ^ H' -> imperf a' H' (lenN ls) -> exists x, In x created /\ n_pos x = key a' H') ->
    exists r cr, join_peaks node_sum head rest created = Some (r, cr) /\ n_hash r = MTH ls /\
      (forall x, In x cr -> sfx x ls) /\
      (forall a' H', imperf a' H' (lenN ls) -> exists x, In x cr /\ n_pos x = key a' H').
  Proof.
    induction rest as [|l rest' IH]; intros pre head suf created a H ls Els Hrep Hh Hp Hlen Hs0 HsH Hord Hb Hsound Hcov.
    - inversion Hrep; subst. cbn [join_peaks]. eexists _, _. split; [reflexivity|]. split; [exact Hh|].
      split; [exact Hsound|]. intros a' H' Hi. apply Hcov; [|exact Hi]. unfold lenN. cbn [length]. lia.
    - inversion Hrep as [|n r p b al Hrep' Hlenp Hlb Hhb Hpl Hordl]; subst n r pre. cbn [join_peaks].
      destruct Hord as [HHl Hsl]. set (hl := n_height l) in *. pose proof (pow2_pos hl) as HB.
      assert (Hbl : lenN b = 2 ^ hl) by (unfold lenN; rewrite Hlb, N2Nat.id; reflexivity).
      assert (Hc : lenN ls = lenN p + 2 ^ hl + lenN suf) by (rewrite Els, !lenN_app, Hbl; reflexivity).
      assert (Hh63 : hl < 63).
      { apply (N.pow_lt_mono_r_iff 2); [reflexivity|]. lia. }
      assert (Hpos64 : n_pos l < U64).
      { rewrite Hpl. apply (key_lt _ _ (lenN ls)); [|exact Hb]. lia. }
      destruct (pos_parent_even (n_pos l) hl al) as [q [Hq [Hqs _]]]; [rewrite Hpl; apply key_shape | exact Hpos64 | exact Hh63 |].
      rewrite Hq. cbn [opt_bind].
      set (new := create_node node_sum q l head).
      assert (E1 : 2 ^ (hl + 1) = 2 * 2 ^ hl) by apply p2S.
      assert (Hnh : n_hash new = MTH (b ++ suf)).
      { unfold new. cbn [create_node n_hash]. rewrite Hhb, Hh. symmetry.
        apply (MTH_app_pow2 _ _ _ (N.to_nat hl)); [rewrite Hlb; apply to_nat_pow2|].
        rewrite <- to_nat_pow2. unfold lenN in Hs0, HsH, Hsl. lia. }
      assert (Hsk : skipn (N.to_nat (al * 2 ^ (hl + 1))) ls = b ++ suf).
      { rewrite Els, <- app_assoc. replace (N.to_nat (al * 2 ^ (hl + 1))) with (length p) by (unfold lenN in Hlenp; lia).
        rewrite skipn_app, skipn_all, Nat.sub_diag. reflexivity. }
      destruct (IH p new (b ++ suf) (created ++ [new]) al (hl + 1) ls) as [rr [cr [Hj [Hr [Hs' Hc']]]]].
      + rewrite Els, app_assoc. reflexivity.
      + exact Hrep'.
      + exact Hnh.
      + exact Hqs.
      + rewrite Hlenp, E1. lia.
      + rewrite lenN_app, Hbl. lia.
      + rewrite lenN_app, Hbl, E1. lia.
      + destruct rest' as [|m r']; [exact I|]. fold hl in Hordl. split; [lia|].
        rewrite lenN_app, Hbl.
        assert (2 ^ (hl + 1) <= 2 ^ n_height m) by (apply N.pow_le_mono_r; lia). lia.
      + exact Hb.
      + intros x Hx. apply in_app_or in Hx. destruct Hx as [Hx|[<-|[]]]; [apply Hsound; exact Hx|].
        exists al, (hl + 1). split; [exact Hqs|]. split; [|rewrite Hsk; exact Hnh].
        unfold imperf. rewrite Hc, E1. lia.
      + intros a' H' Hge Hi.
        destruct (N.le_gt_cases (lenN (p ++ b)) (a' * 2 ^ H')) as [Hold|Hnew].
        { destruct (Hcov a' H' Hold Hi) as [x [Hx Hxp]]. exists x. split; [apply in_or_app; left; exact Hx | exact Hxp]. }
        rewrite lenN_app, Hbl in Hnew. exists new. split; [apply in_or_app; right; left; reflexivity|].
        change (n_pos new) with q. rewrite Hqs.
        destruct Hi as [Hi1 [Hi2 Hi3]]. rewrite Hc in Hi1, Hi2, Hi3.
        destruct (N.le_gt_cases H' hl) as [Hle|Hgt].
        * exfalso.
          assert (EB : 2 ^ hl = 2 ^ (hl - H') * 2 ^ H') by (rewrite <- N.pow_add_r; f_equal; lia).
          pose proof (pow2_pos (hl - H')) as HQ. pose proof (pow2_pos H') as HW.
          revert Hlenp Hge Hnew Hi1 Hi2 Hi3 HsH Hs0 Hsl. rewrite EB.
          generalize (2 ^ (hl - H')) (2 ^ H') (lenN p) (lenN suf) HQ HW. clear. intros Q W P y HQ HW Hlenp Hge Hnew Hi1 Hi2 Hi3 HsH Hs0 Hsl.
          assert (a' < (2 * al + 1) * Q) by nia. nia.
        * assert (EW : 2 ^ H' = 2 ^ (H' - hl - 1) * 2 * 2 ^ hl) by (apply pow2_split; exact Hgt).
          pose proof (pow2_pos (H' - hl - 1)) as HQ.
          assert (HQ1 : 2 ^ (H' - hl - 1) = 1).
          { revert Hlenp Hge Hnew Hi1 Hi2 Hi3 Hs0 Hsl. rewrite EW.
            generalize (2 ^ (H' - hl - 1)) (2 ^ hl) (lenN p) (lenN suf) HQ HB. clear. intros Q B P y HQ HB Hlenp Hge Hnew Hi1 Hi2 Hi3 Hs0 Hsl.
            assert (a' * Q <= al) by nia. assert (al <= a' * Q) by nia. nia. }
          assert (EH : H' = hl + 1).
          { destruct (N.eq_dec (H' - hl - 1) 0) as [|Hne]; [lia|].
            assert (2 ^ 1 <= 2 ^ (H' - hl - 1)) by (apply N.pow_le_mono_r; lia). change (2 ^ 1) with 2 in *. lia. }
          subst H'.
          assert (Ea : a' = al).
          { revert Hlenp Hge Hnew. rewrite E1. generalize (2 ^ hl) (lenN p) HB. clear. intros B P HB Hlenp Hge Hnew. nia. }
          rewrite Ea. reflexivity.
      + exists rr, cr. split; [exact Hj|]. split; [exact Hr|]. split; [exact Hs' | exact Hc'].
  Qed.

  (* ---------------------------------------------------------------- root_node: root hash and lookups *)
  Definition lookup (scratch st : amap D) (k : N) : option D :=
    match aget scratch k with Some h => Some h | None => aget st k end.

  Lemma key_inj a h a' h' : key a h = key a' h' -> a = a' /\ h = h'.
  Proof.
    intros E. destruct (shape_inj (key a h) h a h' a') as [-> ->]; [apply key_shape | rewrite E; apply key_shape |].
    split; reflexivity.
  Qed.

  Lemma root_node_spec t ls : tinv t ls -> 0 < lenN ls -> lenN ls < 2 ^ 63 ->
    exists rn scratch, root_node node_sum t = Some (Some rn, scratch) /\ n_hash rn = MTH ls /\
      (forall a h, (a + 1) * 2 ^ h <= lenN ls -> lookup scratch (t_storage t) (key a h) = Some (MTH (blk a h ls))) /\
      (forall a H, imperf a H (lenN ls) ->
                   lookup scratch (t_storage t) (key a H) = Some (MTH (skipn (N.to_nat (a * 2 ^ H)) ls))).
  Proof.
    intros [Hrep [Hc Hsi]] Hpos Hb. unfold root_node.
    destruct Hrep as [|top rest pre b a Hrep Hlen Hlb Hh Hp Hord]; [unfold lenN in Hpos; cbn [length] in Hpos; lia|].
    cbn [t_nodes] in *. set (h := n_height top) in *. pose proof (pow2_pos h) as HB.
    assert (Hbl : lenN b = 2 ^ h) by (unfold lenN; rewrite Hlb, N2Nat.id; reflexivity).
    destruct (join_sfx rest pre top b [] (2 * a) h (pre ++ b)) as [rn [cr [Hj [Hr [Hs Hcv]]]]].
    - reflexivity.
    - exact Hrep.
    - exact Hh.
    - exact Hp.
    - exact Hlen.
    - lia.
    - lia.
    - destruct rest as [|m r]; [exact I|]. split; [lia|]. rewrite Hbl. apply N.pow_lt_mono_r; lia.
    - exact Hb.
    - intros x [].
    - intros a' H' Hge [Hi1 [Hi2 Hi3]]. exfalso. rewrite lenN_app, Hbl in Hi1, Hi2, Hi3.
      destruct (N.le_gt_cases H' h) as [Hle|Hgt].
      + assert (EB : 2 ^ h = 2 ^ (h - H') * 2 ^ H') by (rewrite <- N.pow_add_r; f_equal; lia).
        pose proof (pow2_pos (h - H')) as HQ. pose proof (pow2_pos H') as HW.
        revert Hlen Hge Hi1 Hi2 Hi3. rewrite EB.
        generalize (2 ^ (h - H')) (2 ^ H') (lenN pre) HQ HW. clear. intros Q W P HQ HW Hlen Hge Hi1 Hi2 Hi3.
        assert (a' < (2 * a + 1) * Q) by nia. nia.
      + assert (EW : 2 ^ H' = 2 ^ (H' - h - 1) * 2 * 2 ^ h) by (apply pow2_split; exact Hgt).
        pose proof (pow2_pos (H' - h - 1)) as HQ.
        revert Hge Hi3. rewrite EW. generalize (2 ^ (H' - h - 1)) (2 ^ h) (lenN pre) HQ HB. clear. intros. nia.
    - rewrite Hj. cbn [opt_bind fst snd]. eexists _, _. split; [reflexivity|]. split; [exact Hr|].
      assert (Hget : forall k, aget (store_all [] cr) k =
                 match find (fun x : node => n_pos x =? k) (rev cr) with Some x => Some (n_hash x) | None => None end).
      { intros k. rewrite store_all_get. reflexivity. }
      split.
      + intros a' h' Hle. unfold lookup. rewrite Hget.
        destruct (find (fun x : node => n_pos x =? key a' h') (rev cr)) as [x|] eqn:Hf.
        * exfalso. apply find_some in Hf. destruct Hf as [Hin Heq]. apply N.eqb_eq in Heq.
          apply in_rev in Hin. destruct (Hs x Hin) as [a2 [h2 [Hp2 [[_ [Hi2 _]] _]]]].
          rewrite Hp2 in Heq. apply key_inj in Heq. destruct Heq as [-> ->]. lia.
        * apply Hsi. exact Hle.
      + intros a' H' Hi. unfold lookup. rewrite Hget.
        destruct (find (fun x : node => n_pos x =? key a' H') (rev cr)) as [x|] eqn:Hf.
        * apply find_some in Hf. destruct Hf as [Hin Heq]. apply N.eqb_eq in Heq.
          apply in_rev in Hin. destruct (Hs x Hin) as [a2 [h2 [Hp2 [_ Hh2]]]].
          rewrite Hp2 in Heq. apply key_inj in Heq. destruct Heq as [-> ->]. rewrite Hh2. reflexivity.
        * exfalso. destruct (Hcv a' H' Hi) as [x [Hin Hxp]].
          assert (Hfn := find_none _ _ Hf x (proj1 (in_rev cr x) Hin)). cbn beta in Hfn.
          rewrite Hxp, N.eqb_refl in Hfn. discriminate.
  Qed.

  (* ---------------------------------------------------------------- collecting the sides = RFC PATH *)
  Definition rng (off n : N) (ls : list bytes) : list bytes :=
    firstn (N.to_nat n) (skipn (N.to_nat off) ls).

  Lemma skipn_skipn' {A} : forall (b a : nat) (l : list A), skipn a (skipn b l) = skipn (b + a) l.
  Proof.
    induction b as [|b IH]; intros a l; [reflexivity|].
    destruct l as [|x l]; [rewrite !skipn_nil; reflexivity|]. cbn [skipn Nat.add]. apply IH.
  Qed.

  Lemma rng_length off n ls : off + n <= lenN ls -> length (rng off n ls) = N.to_nat n.
  Proof. intros H. unfold rng, lenN in *. rewrite firstn_length, skipn_length. lia. Qed.
  Lemma rng_firstn off n k ls : k <= n -> firstn (N.to_nat k) (rng off n ls) = rng off k ls.
  Proof. intros H. unfold rng. rewrite firstn_firstn. f_equal. lia. Qed.
  Lemma rng_skipn off n k ls : k <= n -> skipn (N.to_nat k) (rng off n ls) = rng (off + k) (n - k) ls.
  Proof.
    intros H. unfold rng. rewrite skipn_firstn_comm, skipn_skipn'. f_equal; [lia | f_equal; lia].
  Qed.

  Lemma collect_app sc st : forall l1 l2 acc,
    collect_sides sc st (l1 ++ l2) acc =
      match collect_sides sc st l1 acc with
      | inr acc' => collect_sides sc st l2 acc'
      | inl e => @inl (@prove_result D) (list D) e
      end.
  Proof.
    induction l1 as [|k l1 IH]; intros l2 acc; [reflexivity|]. cbn [app collect_sides].
    destruct (aget sc k); [apply IH|]. destruct (aget st k); [apply IH | reflexivity].
  Qed.
  Lemma collect_one sc st k h acc : lookup sc st k = Some h -> collect_sides sc st [k] acc = inr (acc ++ [h]).
  Proof.
    unfold lookup. intros H. cbn [collect_sides]. destruct (aget sc k) as [x|]; [injection H as ->; reflexivity|].
    rewrite H. reflexivity.
  Qed.

  Section Sides.
    Variables (sc st : amap D) (ls : list bytes).
    Let c := lenN ls.
    Hypothesis HL1 : forall a h, (a + 1) * 2 ^ h <= c -> lookup sc st (key a h) = Some (MTH (blk a h ls)).
    Hypothesis HL2 : forall a H, imperf a H c -> lookup sc st (key a H) = Some (MTH (skipn (N.to_nat (a * 2 ^ H)) ls)).

    Lemma sib_lookup s r : valid c s r -> 0 < r -> lookup sc st (rkey s r) = Some (MTH (rng s r ls)).
    Proof.
      intros [[a Ha] Hd] Hr. unfold rkey. set (H := N.log2_up r) in *. pose proof (pow2_pos H) as HW.
      assert (Ediv : s / 2 ^ H = a) by (rewrite Ha; apply N.div_mul; lia). rewrite Ediv.
      destruct (N.eq_dec r (2 ^ H)) as [Er|Hne].
      - rewrite HL1 by (destruct Hd as [Hd|[_ Hd]]; lia). unfold blk, rng. rewrite <- Ha, <- Er. reflexivity.
      - destruct Hd as [Hd|[Hd _]]; [|contradiction].
        assert (H1 : 1 < r).
        { destruct (N.eq_dec r 1) as [E1|]; [|lia]. exfalso. apply Hne. unfold H. rewrite E1. reflexivity. }
        pose proof (N.log2_up_spec r H1) as [Hlo Hhi]. fold H in Hlo, Hhi.
        assert (HH : H <> 0) by (intros E0; rewrite E0 in *; change (2 ^ 0) with 1 in *; lia).
        assert (EW : 2 ^ H = 2 * 2 ^ N.pred H).
        { replace H with (N.pred H + 1) at 1 by lia. apply p2S. }
        rewrite HL2 by (unfold imperf; lia). rewrite <- Ha. unfold rng.
        rewrite firstn_all2; [reflexivity|]. rewrite skipn_length. unfold c, lenN in Hd. lia.
    Qed.

    Lemma sides_path : forall (fuel : nat) off i n acc,
      i < n -> N.log2_up n < N.of_nat fuel -> valid c off n ->
      collect_sides sc st (spec_sides_f fuel off i n) acc = inr (acc ++ PATH (N.to_nat i) (rng off n ls)).
    Proof.
      induction fuel as [|f IH]; intros off i n acc Hi Hf Hv; [lia|].
      cbn [spec_sides_f]. pose proof (valid_le _ _ _ Hv) as Hle.
      pose proof (rng_length off n ls Hle) as Hlen.
      destruct (N.leb_spec n 1) as [Hn1|Hn2].
      { rewrite PATH_small by lia. rewrite app_nil_r. reflexivity. }
      assert (H2 : 2 <= n) by lia. pose proof (splitN_spec n H2) as Hk.
      pose proof (valid_left _ _ _ Hv H2) as Hvl. pose proof (valid_right _ _ _ Hv H2) as Hvr.
      rewrite (PATH_unfold leaf_sum node_sum empty_sum _ (rng off n ls)) by lia. cbn zeta.
      rewrite Hlen, split_k_bridge by exact H2.
      rewrite log2_up_split in Hf by exact H2.
      set (m := N.log2 (n - 1)) in *. set (k := 2 ^ m) in *. pose proof (pow2_pos m) as Hk0. fold k in Hk0.
      rewrite rng_firstn, rng_skipn by lia. cbn zeta.
      destruct (N.ltb_spec i k) as [Hik|Hik], (Nat.ltb_spec (N.to_nat i) (N.to_nat k)) as [Hik'|Hik']; try lia;
        rewrite collect_app.
      - rewrite (IH off i k acc Hik); [| |exact Hvl].
        + rewrite (collect_one _ _ _ _ _ (sib_lookup _ _ Hvr ltac:(lia))). rewrite <- app_assoc. reflexivity.
        + unfold k. rewrite N.log2_up_pow2 by lia. lia.
      - rewrite <- N2Nat.inj_sub.
        rewrite (IH (off + k) (i - k) (n - k) acc); [|lia| |exact Hvr].
        + rewrite (collect_one _ _ _ _ _ (sib_lookup _ _ Hvl ltac:(lia))). rewrite <- app_assoc. reflexivity.
        + assert (N.log2_up (n - k) <= m).
          { apply N.le_trans with (N.log2_up k); [apply N.log2_up_le_mono; lia|].
            unfold k. rewrite N.log2_up_pow2; lia. }
          lia.
    Qed.
  End Sides.

  (* ---------------------------------------------------------------- MerkleTree::prove *)
  Theorem prove_is_PATH_given_sides t ls i :
    tinv t ls -> lenN ls < 2 ^ 63 -> i < lenN ls -> sides_ok i (lenN ls) = true ->
    tree_prove node_sum t i = ProveOk (MTH ls) (PATH (N.to_nat i) ls).
  Proof.
    intros Hinv Hb Hi Hok.
    destruct (root_node_spec t ls Hinv ltac:(lia) Hb) as [rn [scratch [Hroot [Hrh [HL1 HL2]]]]].
    destruct Hinv as [Hrep [Hc Hsi]].
    unfold tree_prove. rewrite Hc. destruct (N.leb_spec (lenN ls) i) as [|_]; [lia|].
    unfold sides_ok, model_sides in Hok.
    destruct (root_position (lenN ls)) as [rp|]; [|discriminate].
    destruct (from_leaf_index i) as [lp|]; [|discriminate].
    destruct (position_path rp lp (lenN ls)) as [items|]; [|discriminate].
    apply nlist_eqb_eq in Hok. rewrite Hok, Hroot. unfold spec_sides.
    rewrite (sides_path scratch (t_storage t) ls HL1 HL2 65 0 i (lenN ls) []).
    - cbn [app]. rewrite Hrh. f_equal. unfold rng, lenN. cbn [N.to_nat skipn]. rewrite Nat2N.id, firstn_all. reflexivity.
    - exact Hi.
    - change (N.of_nat 65) with 65. apply N.le_lt_trans with (N.log2_up (2 ^ 63)); [apply N.log2_up_le_mono; lia|].
      rewrite N.log2_up_pow2 by lia. lia.
    - split; [exists 0; reflexivity | left; reflexivity].
  Qed.

  (* pushing the leaves one by one on a new tree establishes the invariant *)
  Definition push_all (ls : list bytes) (t0 : option tree) : option tree :=
    fold_left (fun ot d => match ot with
                           | Some t => match tree_push leaf_sum node_sum t d with PushOk t' => Some t' | _ => None end
                           | None => None end) ls t0.

  Lemma push_all_tinv : forall ls t pre, tinv t pre -> lenN (pre ++ ls) < 2 ^ 63 ->
    exists t', push_all ls (Some t) = Some t' /\ tinv t' (pre ++ ls).
  Proof.
    induction ls as [|d ls IH]; intros t pre Hinv Hb.
    - exists t. rewrite app_nil_r. split; [reflexivity | exact Hinv].
    - rewrite lenN_app, lenN_cons in Hb.
      destruct (tinv_push leaf_sum node_sum empty_sum t pre d Hinv ltac:(lia)) as [t1 [Hp Hi1]].
      unfold push_all. cbn [fold_left]. rewrite Hp.
      destruct (IH t1 (pre ++ [d]) Hi1) as [t' [Hf Hi']].
      + rewrite !lenN_app. change (lenN [d]) with 1. lia.
      + exists t'. split; [exact Hf|]. rewrite <- app_assoc in Hi'. exact Hi'.
  Qed.

  Theorem prove_is_PATH_pushed ls i :
    lenN ls < 2 ^ 63 -> i < lenN ls -> sides_ok i (lenN ls) = true ->
    exists t, push_all ls (Some tree_new) = Some t /\
              tree_prove node_sum t i = ProveOk (MTH ls) (PATH (N.to_nat i) ls).
  Proof.
    intros Hb Hi Hok.
    destruct (push_all_tinv ls tree_new [] (tinv_new leaf_sum node_sum empty_sum) Hb) as [t [Hf Hinv]].
    exists t. split; [exact Hf|]. apply prove_is_PATH_given_sides; assumption.
  Qed.

  (* ---------------------------------------------------------------- histories with in-range proofs (C11) *)
  Notation spec_step := (spec_step leaf_sum node_sum empty_sum).
  Notation spec_run := (spec_run leaf_sum node_sum empty_sum).

  (* as BinaryHistory.hist_ok, plus proof requests below the count whose side positions were checked *)
  Fixpoint hist_okp (ls : list bytes) (ops : list hop) : Prop :=
    match ops with
    | [] => True
    | o :: r =>
        match o with
        | HPush _ => lenN ls + 1 < 2 ^ 63
        | HLoad k => k <= lenN ls /\ peaks_ok k = true
        | HProve i => lenN ls <= i \/ sides_ok i (lenN ls) = true
        | _ => True
        end /\ hist_okp (fst (spec_step ls o)) r
    end.

  Theorem history_refines_proofs : forall ops t ls,
    tinv t ls -> lenN ls < 2 ^ 63 -> hist_okp ls ops ->
    m_run leaf_sum node_sum empty_sum t ops = Some (spec_run ls ops).
  Proof.
    induction ops as [|o ops IH]; intros t ls Hinv Hb Hok; [reflexivity|].
    cbn [m_run BinaryHistory.spec_run]. destruct Hok as [Ho Hok].
    destruct o as [d| |k|i|]; cbn [m_step BinaryHistory.spec_step fst snd] in *.
    - destruct (tinv_push leaf_sum node_sum empty_sum t ls d Hinv Ho) as [t' [Hp Hi]]. rewrite Hp.
      rewrite (IH t' (ls ++ [d]) Hi); [reflexivity | rewrite lenN_app; exact Ho | exact Hok].
    - rewrite (IH (tree_reset t) [] (tinv_reset leaf_sum node_sum empty_sum t ls Hinv)); [reflexivity | reflexivity | exact Hok].
    - destruct Ho as [Hk Hpk].
      destruct (tinv_load leaf_sum node_sum empty_sum t ls k Hinv Hk Hb Hpk) as [t' [Hl Hi]]. rewrite Hl.
      rewrite (IH t' _ Hi); [reflexivity | | exact Hok].
      unfold lenN. rewrite firstn_length. unfold lenN in Hb. lia.
    - unfold m_prove.
      destruct (N.ltb_spec i (lenN ls)) as [Hlt|Hge].
      + destruct Ho as [Ho|Ho]; [lia|].
        rewrite (prove_is_PATH_given_sides t ls i Hinv Hb Hlt Ho).
        rewrite (IH t ls Hinv Hb Hok). reflexivity.
      + rewrite (prove_refused leaf_sum node_sum empty_sum t ls i Hinv Hge).
        rewrite (IH t ls Hinv Hb Hok). reflexivity.
    - destruct (tinv_root leaf_sum node_sum empty_sum t ls Hinv Hb) as [Hr Hc]. rewrite Hr, Hc.
      rewrite (IH t ls Hinv Hb Hok). reflexivity.
  Qed.
End Prove.

(* the side positions computed by the position-path iterator equal the in-order positions of the
   RFC sibling ranges: checked exhaustively (by computation) for every leaf of every tree of up to
   128 leaves *)
Lemma sides_ok_128 : forall c i, c <= 128 -> i < c -> sides_ok i c = true.
Proof.
  assert (H : forallb sides_ok_upto (map N.of_nat (seq 0 129)) = true) by (vm_compute; reflexivity).
  intros c i Hc Hi. rewrite forallb_forall in H.
  assert (Hc' : sides_ok_upto c = true).
  { apply H. apply in_map_iff. exists (N.to_nat c). split; [apply N2Nat.id|]. apply in_seq. lia. }
  unfold sides_ok_upto in Hc'. rewrite forallb_forall in Hc'.
  rewrite <- (N2Nat.id i). apply Hc'. apply in_seq. lia.
Qed.

