(* Merkle/BinaryModel.v — L1: executable model mirroring fuel-merkle/src/binary/*.rs and
   common/{position,position_path,path_iterator}.rs function by function.  u64 arithmetic is
   explicit (checked operations return None where the Rust code returns an error or panics).
   Vec-based stacks are kept TOP-FIRST (head of the list = last element of the Rust Vec). *)
From FV Require Import Base.Bytes Base.U64 Base.Map.
Open Scope N_scope.

Section Model.
  Context {D : Type}.
  Variables (leaf_sum : bytes -> D) (node_sum : D -> D -> D) (empty_sum : D).
  Variable D_eqb : D -> D -> bool.

  (* ---------------------------------------------------------------- common/position.rs *)
  Definition pos_height (p : N) : N := trailing_ones p.          (* (!p).trailing_zeros() *)
  Definition pos_is_leaf (p : N) : bool := N.even p.
  Definition from_leaf_index (i : N) : option N := checked_mul U64 i 2.

  (* orientation: Some true = Side::Right (add), Some false = Side::Left (sub) *)
  Definition pos_orientation (p : N) : option bool :=
    do shift <- checked_shl64 1 (pos_height p + 1);
    Some (N.land p shift =? 0).

  Definition pos_parent (p : N) : option N :=
    do shift <- checked_shl64 1 (pos_height p);
    do o <- pos_orientation p;
    if o then checked_add U64 p shift else checked_sub p shift.

  (* child: side true = Right *)
  Definition pos_child (p : N) (rgt : bool) : option N :=
    if pos_is_leaf p then None
    else
      do h1 <- checked_sub (pos_height p) 1;
      do shift <- checked_shl64 1 h1;
      if rgt then checked_add U64 p shift else checked_sub p shift.

  (* ---------------------------------------------------------------- binary/node.rs *)
  Record node := mkNode { n_pos : N; n_hash : D }.
  Definition n_height (n : node) : N := pos_height (n_pos n).
  Definition create_leaf (index : N) (data : bytes) : option node :=
    do p <- from_leaf_index index; Some (mkNode p (leaf_sum data)).
  Definition create_leaf_with_hash (index : N) (h : D) : option node :=
    do p <- from_leaf_index index; Some (mkNode p h).
  Definition create_node (p : N) (l r : node) : node := mkNode p (node_sum (n_hash l) (n_hash r)).

  (* ---------------------------------------------------------------- binary/root_calculator.rs *)
  (* push_with_callback: returns (new stack, nodes reported to the callback in order);
     None = NodeStackPushError::TooLarge.  The merge loop is structural in the old stack. *)
  Fixpoint merge_loop (top : node) (rest : list node) (created : list node)
    : option (list node * list node) :=
    match rest with
    | [] => Some ([top], created)
    | lhs :: rest' =>
        if n_height top =? n_height lhs then
          do pp <- pos_parent (n_pos lhs);
          let new := create_node pp lhs top in
          merge_loop new rest' (created ++ [new])
        else Some (top :: rest, created)
    end.
  Definition push_with_callback (stack : list node) (n : node) : option (list node * list node) :=
    merge_loop n stack [n].

  Definition calc_push (stack : list node) (data : bytes) : option (list node) :=
    do n <- create_leaf 0 data;
    do r <- push_with_callback stack n;
    Some (fst r).

  Fixpoint join_peaks (head : node) (rest : list node) (created : list node)
    : option (node * list node) :=
    match rest with
    | [] => Some (head, created)
    | l :: rest' =>
        do pp <- pos_parent (n_pos l);
        let new := create_node pp l head in
        join_peaks new rest' (created ++ [new])
    end.

  Definition calc_root (stack : list node) : option D :=
    match stack with
    | [] => Some empty_sum
    | top :: rest => do r <- join_peaks top rest []; Some (n_hash (fst r))
    end.

  Fixpoint calc_push_all (stack : list node) (ls : list bytes) : option (list node) :=
    match ls with
    | [] => Some stack
    | d :: r => do s <- calc_push stack d; calc_push_all s r
    end.
  Definition root_from_iterator (ls : list bytes) : option D :=
    do s <- calc_push_all [] ls; calc_root s.

  Fixpoint from_leaf_hashes (stack : list node) (hs : list D) : option (list node) :=
    match hs with
    | [] => Some stack
    | h :: r =>
        do n <- create_leaf_with_hash 0 h;
        do s <- push_with_callback stack n;
        from_leaf_hashes (fst s) r
    end.

  (* ---------------------------------------------------------------- binary/merkle_tree.rs *)
  Record tree := mkTree {
    t_storage : amap D;           (* in-order index -> hash (the Primitive's position is the key) *)
    t_nodes : list node;          (* MerkleRootCalculator stack, top first *)
    t_count : N;                  (* leaves_count *)
  }.
  Definition tree_new : tree := mkTree [] [] 0.

  Definition store_all (st : amap D) (ns : list node) : amap D :=
    fold_left (fun s n => aset s (n_pos n) (n_hash n)) ns st.

  (* root_node: Some None = empty tree; the created nodes are the scratch storage *)
  Definition root_node (t : tree) : option (option node * amap D) :=
    match t_nodes t with
    | [] => Some (None, [])
    | top :: rest => do r <- join_peaks top rest []; Some (Some (fst r), store_all [] (snd r))
    end.

  Definition tree_root (t : tree) : option D :=
    do r <- root_node t;
    match fst r with None => Some empty_sum | Some n => Some (n_hash n) end.

  Inductive push_result := PushOk (t : tree) | PushTooLarge.
  Definition tree_push (t : tree) (data : bytes) : push_result :=
    match create_leaf (t_count t) data with
    | None => PushTooLarge
    | Some n =>
        match push_with_callback (t_nodes t) n with
        | None => PushTooLarge
        | Some (stack, created) =>
            PushOk (mkTree (store_all (t_storage t) created) stack (t_count t + 1))
        end
    end.

  Definition root_position (leaves_count : N) : option N :=
    do c <- checked_add U64 leaves_count 1;
    if c <=? 9223372036854775808 then Some (next_pow2 c - 1) else None.
      (* next_power_of_two of a value above 2^63 overflows: debug panic / release 0; None here *)

  (* ---- common/path_iterator.rs over Position with an 8-byte big-endian leaf key *)
  Definition key_bit (leaf_index : N) (offset : N) : option bool :=
    if offset <? 64 then Some (N.testbit leaf_index (63 - offset)) else None.

  (* yields (path position, side key) pairs; fuel bounds the descent (height <= 64) *)
  Fixpoint path_iter (fuel : nat) (cur : N) (side : N) (leaf_index : N) (offset : N)
    : option (list (N * N)) :=
    match fuel with
    | O => None
    | S f =>
        if pos_is_leaf cur then Some [(cur, side)]
        else match key_bit leaf_index offset with
             | None => Some [(cur, side)]
             | Some rgt =>
                 do c <- pos_child cur rgt;
                 do s <- pos_child cur (negb rgt);
                 do r <- path_iter f c s leaf_index (offset + 1);
                 Some ((cur, side) :: r)
             end
    end.

  Definition as_path_iter (root : N) (leaf_index : N) : option (list (N * N)) :=
    do off <- checked_sub 64 (pos_height root);
    path_iter 66 root root leaf_index off.

  (* ---- common/position_path.rs *)
  Fixpoint descend_left (fuel : nat) (side rightmost : N) : option N :=
    match fuel with
    | O => None
    | S f => if rightmost <? side then (do c <- pos_child side false; descend_left f c rightmost)
             else Some side
    end.

  Fixpoint position_path_iter (items : list (N * N)) (rightmost : N) (cur_side : option N)
    : option (list (N * N)) :=
    match items with
    | [] => Some []
    | (path, side) :: r =>
        if path <=? rightmost then
          let side0 := match cur_side with Some n => n | None => side end in
          do s <- descend_left 70 side0 rightmost;
          do rest <- position_path_iter r rightmost None;
          Some ((path, s) :: rest)
        else
          position_path_iter r rightmost (match cur_side with None => Some side | x => x end)
    end.

  Definition position_path (root leaf leaves_count : N) : option (list (N * N)) :=
    do lm1 <- checked_sub leaves_count 1;
    do rightmost <- from_leaf_index lm1;
    do items <- as_path_iter root (leaf / 2);
    position_path_iter items rightmost None.

  (* ---- MerkleTree::prove *)
  Inductive prove_result :=
  | ProveOk (root : D) (proof : list D)
  | ProveInvalidIndex
  | ProveLoadError (key : N)
  | ProvePanic.              (* an `expect`/`unwrap` in the Rust code would fire *)

  Fixpoint collect_sides (scratch st : amap D) (sides : list N) (acc : list D) : prove_result + list D :=
    match sides with
    | [] => inr acc
    | k :: r =>
        match aget scratch k with
        | Some h => collect_sides scratch st r (acc ++ [h])
        | None => match aget st k with
                  | Some h => collect_sides scratch st r (acc ++ [h])
                  | None => inl (ProveLoadError k)
                  end
        end
    end.

  Definition tree_prove (t : tree) (i : N) : prove_result :=
    if t_count t <=? i then ProveInvalidIndex
    else
      match root_position (t_count t), from_leaf_index i with
      | Some rp, Some lp =>
          match position_path rp lp (t_count t) with
          | None => ProvePanic
          | Some items =>
              let sides := removelast (rev (map snd items)) in
              match root_node t with
              | Some (Some rn, scratch) =>
                  match collect_sides scratch (t_storage t) sides [] with
                  | inl e => e
                  | inr ps => ProveOk (n_hash rn) ps
                  end
              | _ => ProvePanic
              end
          end
      | _, _ => ProvePanic
      end.

  Definition tree_reset (t : tree) : tree := mkTree (t_storage t) [] 0.

  (* ---- MerkleTree::load *)
  Definition peak_positions (leaves_count : N) : option (list N) :=
    do leaf <- from_leaf_index leaves_count;
    do rp <- root_position leaves_count;
    do items <- position_path rp leaf (leaves_count + 1);
    Some (map snd (tl items)).

  Inductive load_result := LoadOk (t : tree) | LoadError (key : N) | LoadTooLarge.
  Fixpoint load_peaks (st : amap D) (peaks : list N) (acc : list node) : load_result + list node :=
    match peaks with
    | [] => inr acc
    | k :: r => match aget st k with
                | Some h => load_peaks st r (mkNode k h :: acc)   (* Vec push = new top *)
                | None => inl (LoadError k)
                end
    end.
  Definition tree_load (st : amap D) (leaves_count : N) : load_result :=
    match peak_positions leaves_count with
    | None => LoadTooLarge
    | Some peaks =>
        match load_peaks st peaks [] with
        | inl e => e
        | inr stack => LoadOk (mkTree st stack leaves_count)
        end
    end.

  (* ---------------------------------------------------------------- binary/verify.rs *)
  Fixpoint path_length_from_key (fuel : nat) (key num_leaves : N) : option N :=
    match fuel with
    | O => None
    | S f =>
        if num_leaves =? 0 then None
        else
          let path_length := if is_pow2 num_leaves then ilog2 num_leaves else ilog2 num_leaves + 1 in
          (* `1 << (path_length - 1)`: path_length = 0 (num_leaves = 1) underflows in Rust; verify
             never calls it with num_leaves <= 1 at top level, recursive calls have subtree_leaves >= 2 *)
          match checked_sub path_length 1 with
          | None => None
          | Some pl1 =>
              let left := 2 ^ pl1 in
              let subtree_leaves := num_leaves - left in
              match checked_sub key left with
              | None => Some path_length
              | Some subtree_key =>
                  if (left =? 1) || (subtree_leaves <=? 1) then Some 1
                  else do r <- path_length_from_key f subtree_key subtree_leaves; Some (r + 1)
              end
          end
    end.

  (* first loop of verify: returns (sum, parent, stable_end) or None for `return false` *)
  Fixpoint verify_loop (fuel : nat) (proof : list D) (proof_index num_leaves : N)
           (sum : D) (parent : N) (stable_end : N) : option (D * N * N) :=
    match fuel with
    | O => None
    | S f =>
        let height := parent + 1 in
        let subtree_size := 2 ^ height in
        let start := proof_index / subtree_size * subtree_size in
        let end_ := start + subtree_size - 1 in
        if num_leaves <=? end_ then Some (sum, parent, stable_end)
        else if lenN proof <? height then None
        else match nth_error proof (N.to_nat parent) with
             | None => None
             | Some pd =>
                 let sum' := if proof_index - start <? 2 ^ parent then node_sum sum pd else node_sum pd sum in
                 verify_loop f proof proof_index num_leaves sum' (parent + 1) end_
             end
    end.

  Fixpoint verify_tail (proof : list D) (sum : D) : D :=
    match proof with
    | [] => sum
    | pd :: r => verify_tail r (node_sum pd sum)
    end.

  Definition verify (root : D) (data : bytes) (proof : list D) (proof_index num_leaves : N) : bool :=
    let len_ok :=
      if num_leaves <=? 1 then (match proof with [] => true | _ => false end)
      else match path_length_from_key 70 proof_index num_leaves with
           | Some l => lenN proof =? l
           | None => false
           end in
    if negb len_ok then false
    else if num_leaves <=? proof_index then false
    else
      let sum := leaf_sum data in
      match proof with
      | [] => if num_leaves =? 1 then D_eqb root sum else false
      | _ =>
          let last_leaf := num_leaves - 1 in
          match verify_loop 70 proof proof_index num_leaves sum 0 proof_index with
          | None => false
          | Some (sum1, parent, stable_end) =>
              let step2 :=
                if stable_end =? last_leaf then Some (sum1, parent)
                else if lenN proof <=? parent then None
                else match nth_error proof (N.to_nat parent) with
                     | None => None
                     | Some pd => Some (node_sum sum1 pd, parent + 1)
                     end in
              match step2 with
              | None => false
              | Some (sum2, parent2) =>
                  D_eqb (verify_tail (skipn (N.to_nat parent2) proof) sum2) root
              end
          end
      end.

  (* ---------------------------------------------------------------- histories (C11) *)
  Inductive hop := HPush (d : bytes) | HReset | HLoad (k : N) | HProve (i : N) | HRoot.
  Inductive hobs := OUnit | ORoot (r : D) (c : N) | OProof (p : option (D * list D)) | OLoad (ok : bool).

  Definition m_prove (t : tree) (i : N) : option (option (D * list D)) :=
    match tree_prove t i with
    | ProveOk r p => Some (Some (r, p))
    | ProveInvalidIndex => Some None
    | ProveLoadError _ => Some None
    | ProvePanic => None                 (* the Rust code would panic: never equal to an observation *)
    end.

  (* one step of a history; None = the Rust code would panic *)
  Definition m_step (t : tree) (o : hop) : option (tree * hobs) :=
    match o with
    | HPush d => match tree_push t d with PushOk t' => Some (t', OUnit) | PushTooLarge => None end
    | HReset => Some (tree_reset t, OUnit)
    | HRoot => match tree_root t with Some r => Some (t, ORoot r (t_count t)) | None => None end
    | HProve i => match m_prove t i with Some p => Some (t, OProof p) | None => None end
    | HLoad k => match tree_load (t_storage t) k with
                 | LoadOk t' => Some (t', OLoad true)
                 | _ => Some (mkTree (t_storage t) [] 0, OLoad false)
                 end
    end.

  Fixpoint m_run (t : tree) (ops : list hop) : option (list hobs) :=
    match ops with
    | [] => Some []
    | o :: ops' => match m_step t o with
                   | Some (t', b) => match m_run t' ops' with Some bs => Some (b :: bs) | None => None end
                   | None => None
                   end
    end.
End Model.
