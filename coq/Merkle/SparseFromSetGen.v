(* Merkle/SparseFromSetGen.v — from_set is generic in the storage (StorageMap, EmptyStorage,
   VectorStorage): two runs over related storages return the same root node and related
   storages.  Hence root_from_set and nodes_from_set return the root of from_set, and the node
   list of nodes_from_set, inserted into an empty store, is the store from_set builds. *)
From Coq Require Import Arith.
From FV Require Import Base.Bytes Merkle.SparseSpec Merkle.SparseFun Merkle.SparseModel
  Merkle.SparseProofs Merkle.SparseRefine Merkle.SparseTree Merkle.SparseExt Merkle.SparseInsert
  Merkle.SparseDelete Merkle.SparseHistory Merkle.SparseSorted Merkle.SparseFromSet.
Open Scope N_scope.

Section Rel.
  Context {Dg S1 S2 : Type}.
  Variable zero : Dg.
  Variables hleaf hnode : Dg -> Dg -> Dg.
  Variable sum : bytes -> Dg.
  Variable kbit : Dg -> N -> option bool.
  Variable kcpl : Dg -> Dg -> N.
  Variable kcmp : Dg -> Dg -> comparison.
  Variable i1 : S1 -> Dg -> @primitive Dg -> S1.
  Variable i2 : S2 -> Dg -> @primitive Dg -> S2.
  Variable R : S1 -> S2 -> Prop.
  Hypothesis Hins : forall a b k p, R a b -> R (i1 a k p) (i2 b k p).

  Definition rel_res {A} (x : res (A * S1)) (y : res (A * S2)) : Prop :=
    match x, y with
    | Ok (a, s), Ok (b, t) => a = b /\ R s t
    | Err e, Err e' => e = e'
    | _, _ => False
    end.

  Notation bp1 := (branch_pad zero hnode kbit kcpl i1).
  Notation bp2 := (branch_pad zero hnode kbit kcpl i2).

  Lemma store_rel s t n : R s t -> R (s_store_node zero i1 s n) (s_store_node zero i2 t n).
  Proof. intros H. apply Hins. exact H. Qed.

  Lemma branch_pad_rel : forall n path cur s t, R s t -> rel_res (bp1 n path cur s) (bp2 n path cur t).
  Proof.
    induction n as [|n IH]; intros path cur s t H; cbn [SparseModel.branch_pad].
    - cbn. auto.
    - destruct (create_node_on_path zero hnode kbit kcpl path cur Placeholder) as [c|e]; cbn [rbind]; [|reflexivity].
      apply IH. apply store_rel. exact H.
  Qed.

  Lemma pad_branch_rel ah b s t : R s t ->
    rel_res (pad_branch zero hnode kbit kcpl i1 ah b s) (pad_branch zero hnode kbit kcpl i2 ah b t).
  Proof.
    intros H. unfold SparseModel.pad_branch. destruct (is_node (b_node b)); [|cbn; auto].
    destruct (ah <? SparseModel.node_height (b_node b) + 1); [reflexivity|].
    pose proof (branch_pad_rel (N.to_nat (ah - (SparseModel.node_height (b_node b) + 1))) (b_bits b) (b_node b) s t H) as Hr.
    destruct (bp1 _ _ _ s) as [[n1 s1]|e1], (bp2 _ _ _ t) as [[n2 t1]|e2]; cbn in Hr |- *; try contradiction; auto.
    destruct Hr as [-> Hr]. auto.
  Qed.

  Lemma merge_branches_rel s t l r : R s t ->
    rel_res (merge_branches zero hnode kbit kcpl i1 s l r) (merge_branches zero hnode kbit kcpl i2 t l r).
  Proof.
    intros H. unfold SparseModel.merge_branches.
    destruct (is_leaf (b_node l) && is_leaf (b_node r)).
    - cbn. split; [reflexivity|]. apply store_rel. exact H.
    - pose proof (pad_branch_rel (max_height - kcpl (b_bits l) (b_bits r)) r s t H) as H1.
      destruct (pad_branch zero hnode kbit kcpl i1 _ r s) as [[r1 s1]|e1], (pad_branch zero hnode kbit kcpl i2 _ r t) as [[r2 t1]|e2];
        cbn in H1 |- *; try contradiction; auto.
      destruct H1 as [-> H1].
      pose proof (pad_branch_rel (max_height - kcpl (b_bits l) (b_bits r)) l s1 t1 H1) as H2.
      destruct (pad_branch zero hnode kbit kcpl i1 _ l s1) as [[l1 s2]|e1], (pad_branch zero hnode kbit kcpl i2 _ l t1) as [[l2 t2]|e2];
        cbn in H2 |- *; try contradiction; auto.
      destruct H2 as [-> H2]. split; [reflexivity|]. apply store_rel. exact H2.
  Qed.

  Lemma merge_while_rel : forall fuel lp nodes prox s t, R s t ->
    rel_res (merge_while zero hnode kbit kcpl i1 fuel lp nodes prox s) (merge_while zero hnode kbit kcpl i2 fuel lp nodes prox t).
  Proof.
    induction fuel as [|f IH]; intros lp nodes prox s t H; cbn [SparseModel.merge_while].
    - destruct prox as [|rp prox']; [cbn; auto|]. destruct (lp <? rp); cbn; auto.
    - destruct prox as [|rp prox']; [cbn; auto|]. destruct (lp <? rp); [|cbn; auto].
      destruct nodes as [|cur [|rb nodes']]; try reflexivity.
      pose proof (merge_branches_rel s t cur rb H) as H1.
      destruct (merge_branches zero hnode kbit kcpl i1 s cur rb) as [[m1 s1]|e1], (merge_branches zero hnode kbit kcpl i2 t cur rb) as [[m2 t1]|e2];
        cbn in H1 |- *; try contradiction; auto.
      destruct H1 as [-> H1]. apply IH. exact H1.
  Qed.

  Lemma window_loop_rel : forall lefts nodes prox s t, R s t ->
    rel_res (window_loop zero hnode kbit kcpl i1 lefts nodes prox s) (window_loop zero hnode kbit kcpl i2 lefts nodes prox t).
  Proof.
    induction lefts as [|lb lefts IH]; intros nodes prox s t H; cbn [SparseModel.window_loop].
    - cbn. auto.
    - destruct nodes as [|cur nodes'].
      + apply IH. exact H.
      + pose proof (merge_while_rel (length (cur :: nodes')) (common_path_length zero kcpl (b_node cur) (b_node lb)) (cur :: nodes') prox s t H) as H1.
        destruct (merge_while zero hnode kbit kcpl i1 _ _ (cur :: nodes') prox s) as [[[n1 p1] s1]|e1],
                 (merge_while zero hnode kbit kcpl i2 _ _ (cur :: nodes') prox t) as [[[n2 p2] t1]|e2];
          cbn in H1 |- *; try contradiction; auto.
        destruct H1 as [E H1]. injection E as -> ->. apply IH. exact H1.
  Qed.

  Lemma merge_stack_rel : forall rest nd s t, R s t ->
    rel_res (merge_stack zero hnode kbit kcpl i1 nd rest s) (merge_stack zero hnode kbit kcpl i2 nd rest t).
  Proof.
    induction rest as [|next rest IH]; intros nd s t H; cbn [SparseModel.merge_stack].
    - cbn. auto.
    - pose proof (merge_branches_rel s t nd next H) as H1.
      destruct (merge_branches zero hnode kbit kcpl i1 s nd next) as [[m1 s1]|e1], (merge_branches zero hnode kbit kcpl i2 t nd next) as [[m2 t1]|e2];
        cbn in H1 |- *; try contradiction; auto.
      destruct H1 as [-> H1]. apply IH. exact H1.
  Qed.

  Lemma fold_store_rel : forall (bs : list (@branch Dg)) s t, R s t ->
    R (fold_left (fun s b => s_store_node zero i1 s (b_node b)) bs s) (fold_left (fun s b => s_store_node zero i2 s (b_node b)) bs t).
  Proof. induction bs as [|b bs IH]; intros s t H; [exact H|]. cbn [fold_left]. apply IH. apply store_rel. exact H. Qed.

  Theorem from_set_gen_rel set s t : R s t ->
    rel_res (from_set_gen zero hleaf hnode sum kbit kcpl kcmp i1 s set) (from_set_gen zero hleaf hnode sum kbit kcpl kcmp i2 t set).
  Proof.
    intros H. unfold SparseModel.from_set_gen. cbv zeta.
    set (branches := map _ (bt_collect kcmp set)).
    pose proof (fold_store_rel branches s t H) as H1.
    set (s1 := fold_left _ branches s) in *. set (t1 := fold_left _ branches t) in *.
    destruct branches as [|b1 [|b2 bs]]; [cbn; auto | cbn; auto |].
    pose proof (window_loop_rel (rev (b1 :: b2 :: bs)) [] [] s1 t1 H1) as H2.
    destruct (window_loop zero hnode kbit kcpl i1 _ [] [] s1) as [[n1 s2]|e1], (window_loop zero hnode kbit kcpl i2 _ [] [] t1) as [[n2 t2]|e2];
      cbn in H2 |- *; try contradiction; auto.
    destruct H2 as [-> H2]. destruct n2 as [|n0 rest]; [reflexivity|].
    pose proof (merge_stack_rel rest n0 s2 t2 H2) as H3.
    destruct (merge_stack zero hnode kbit kcpl i1 n0 rest s2) as [[top1 s3]|e1], (merge_stack zero hnode kbit kcpl i2 n0 rest t2) as [[top2 t3]|e2];
      cbn in H3 |- *; try contradiction; auto.
    destruct H3 as [-> H3]. destruct (max_height <? SparseModel.node_height (b_node top2)); [reflexivity|].
    apply branch_pad_rel. exact H3.
  Qed.
End Rel.

Section Final.
  Context {Dg : Type} (IF : smt_iface Dg) (kcmp : Dg -> Dg -> comparison).
  Hypothesis kcmp_spec : forall a b, kcmp a b = bits_compare (i_bits IF a) (i_bits IF b).
  Notation dg_eqb := (i_eqb IF).
  Notation zero := (i_zero IF).
  Notation hleaf := (i_hleaf IF).
  Notation hnode := (i_hnode IF).
  Notation sum := (i_sum IF).
  Notation kbit := (i_kbit IF).
  Notation kcpl := (i_kcpl IF).
  Notation bits := (i_bits IF).
  Notation of_bits := (i_of_bits IF).
  Notation shleaf := (shleaf hleaf of_bits).
  Notation sset := (sset dg_eqb).
  Notation store := (@store Dg).
  Notation ent := (ent IF).
  Notation smt_root := (smt_root zero shleaf hnode 256).

  (* the map a set denotes: later duplicates win *)
  Definition set_map (set : list (Dg * bytes)) : @smap Dg := map_of_list (map ent set).

  Lemma wf_map_of_list (l : list (key * Dg)) : Forall (fun e => length (fst e) = 256%nat) l -> wf_map 256 (map_of_list l).
  Proof.
    unfold map_of_list. assert (wf_map 256 (@nil (key * Dg))) as H by apply swf_nil. revert H. generalize (@nil (key * Dg)).
    induction l as [|e l IH]; intros acc H Hl; [exact H|]. inversion Hl; subst. cbn [fold_left]. apply IH; [|assumption].
    apply swf_m_set; assumption.
  Qed.

  Lemma set_wf set : Forall (fun e => length (bits (fst e)) = 256%nat) set -> wf_map 256 (set_map set).
  Proof. intros H. apply wf_map_of_list. apply Forall_map. exact H. Qed.

  Lemma build_sorted_eq set : Forall (fun e => length (bits (fst e)) = 256%nat) set ->
    wf_map 256 (map ent (bt_collect kcmp set)) ->
    build 256 (map ent (bt_collect kcmp set)) = build 256 (set_map set).
  Proof.
    intros Hs Hwf. apply build_perm. apply (same_get_perm zero shleaf hnode); [apply Hwf | apply (set_wf set Hs) |].
    intros k. apply (m_get_bt_collect IF kcmp kcmp_spec).
  Qed.

  Theorem from_set_family_correct (set : list (Dg * bytes)) :
    Forall (fun e => length (bits (fst e)) = 256%nat) set ->
    (exists T, from_set dg_eqb zero hleaf hnode sum kbit kcpl kcmp [] set = Ok T /\
               tree_root zero T = smt_root (set_map set) /\ persisted IF T (set_map set)) /\
    root_from_set zero hleaf hnode sum kbit kcpl kcmp set = Ok (smt_root (set_map set)) /\
    (exists nodes, nodes_from_set zero hleaf hnode sum kbit kcpl kcmp set = Ok (smt_root (set_map set), nodes) /\
                   exists T, tree_load dg_eqb zero hleaf hnode (fold_left (fun st e => sset st (fst e) (snd e)) nodes []) (smt_root (set_map set)) = Ok T /\
                             persisted IF T (set_map set)).
  Proof.
    intros Hs. destruct (from_set_store IF kcmp kcmp_spec set Hs) as [st [E [Hst Hwf]]].
    rewrite (build_sorted_eq set Hs Hwf) in E, Hst.
    set (B := build 256 (set_map set)) in *.
    assert (persisted IF (tree_of IF st B) (set_map set)) as Hp by (apply persisted_tree_of; [apply set_wf; exact Hs | exact Hst]).
    assert (c_root zero shleaf hnode [] B = smt_root (set_map set)) as Er by apply c_root_build.
    clearbody B.
    split; [|split].
    - exists (tree_of IF st B). unfold SparseModel.from_set. rewrite E. cbn [rbind]. split; [reflexivity|].
      split; [apply persisted_root; exact Hp | exact Hp].
    - unfold SparseModel.root_from_set.
      pose proof (from_set_gen_rel zero hleaf hnode sum kbit kcpl kcmp (fun (u : unit) _ _ => u) sset (fun _ _ => True)
                    (fun _ _ _ _ _ => I) set tt [] I) as Hr.
      rewrite E in Hr. destruct (from_set_gen zero hleaf hnode sum kbit kcpl kcmp (fun (u : unit) _ _ => u) tt set) as [[n u]|e];
        unfold rel_res in Hr; [|contradiction]. destruct Hr as [-> _]. cbn [rbind]. rewrite (node_hash_node_of IF). f_equal. exact Er.
    - unfold SparseModel.nodes_from_set.
      pose proof (from_set_gen_rel zero hleaf hnode sum kbit kcpl kcmp (fun (v : list (Dg * @primitive Dg)) k p => (k, p) :: v) sset
                    (fun v s => s = fold_right (fun e acc => sset acc (fst e) (snd e)) [] v)) as Hrel.
      specialize (Hrel (fun a b k p H => f_equal (fun s => sset s k p) H) set [] [] eq_refl).
      rewrite E in Hrel.
      destruct (from_set_gen zero hleaf hnode sum kbit kcpl kcmp (fun (v : list (Dg * @primitive Dg)) k p => (k, p) :: v) [] set) as [[n v]|e];
        unfold rel_res in Hrel; [|contradiction]. destruct Hrel as [-> Hv]. cbn [rbind]. rewrite (node_hash_node_of IF), Er.
      exists (rev v). split; [reflexivity|]. exists (tree_of IF st B).
      assert (fold_left (fun st0 e => sset st0 (fst e) (snd e)) (rev v) [] = st) as ->.
      { rewrite Hv. rewrite <- (rev_involutive v) at 2. rewrite fold_left_rev_right. reflexivity. }
      rewrite <- Er. split; [apply (load_tree_of IF); exact Hst | exact Hp].
  Qed.

  (* C13: whatever node list nodes_from_set returns, loading from it gives a persisted tree *)
  Theorem nodes_from_set_loadable (set : list (Dg * bytes)) r nodes :
    Forall (fun e => length (bits (fst e)) = 256%nat) set ->
    nodes_from_set zero hleaf hnode sum kbit kcpl kcmp set = Ok (r, nodes) ->
    exists T, tree_load dg_eqb zero hleaf hnode (fold_left (fun st e => sset st (fst e) (snd e)) nodes []) r = Ok T /\
              persisted IF T (set_map set).
  Proof.
    intros Hs E. destruct (from_set_family_correct set Hs) as [_ [_ [nodes' [E' [T [El Hp]]]]]].
    rewrite E' in E. injection E as <- <-. exists T. auto.
  Qed.
End Final.
