(* Merkle/SparseProofs.v — proofs about the L3 spec (SparseSpec.v) and the L2 functional
   tree (SparseFun.v):
     (a) C12: the root of the functional tree after any history of inserts/deletes is the
         spec root of the map the history leaves behind; the spec root depends only on the
         lookup function of the map (order independence);
     (b) C14 at spec level: generated paths verify (completeness) and, when the hash
         functions are collision-free, an accepted path proves membership / non-membership
         in ANY map with that root (soundness), for arbitrary side-node lists. *)
From Coq Require Import List Bool Arith Lia Permutation.
From FV Require Import Merkle.SparseSpec Merkle.SparseFun.
Import ListNotations.

Lemma key_eqb_eq a b : key_eqb a b = true <-> a = b.
Proof.
  revert b; induction a as [|x a IH]; intros [|y b]; simpl; split; intros H; try easy.
  - apply andb_true_iff in H as [H1 H2]. apply eqb_prop in H1. apply IH in H2. congruence.
  - injection H as -> ->. rewrite eqb_reflx. simpl. apply IH. reflexivity.
Qed.
Lemma key_eqb_refl a : key_eqb a a = true.
Proof. apply key_eqb_eq. reflexivity. Qed.
Lemma key_eqb_neq a b : key_eqb a b = false <-> a <> b.
Proof.
  split; intros H.
  - intros E. apply key_eqb_eq in E. congruence.
  - destruct (key_eqb a b) eqn:E; [apply key_eqb_eq in E; contradiction | reflexivity].
Qed.
Lemma key_eqb_sym a b : key_eqb a b = key_eqb b a.
Proof.
  destruct (key_eqb a b) eqn:E; symmetry.
  - apply key_eqb_eq in E. subst. apply key_eqb_refl.
  - apply key_eqb_neq. apply key_eqb_neq in E. congruence.
Qed.

Section Maps.
  Context {V : Type}.

  Notation smap := (@smap V).
  Notation sub := (@sub V).
  Notation build := (@build V).

  (* ================================================================ suffix maps *)
  Lemma sub_cons b x k' v (m : smap) :
    sub b ((x :: k', v) :: m) = if Bool.eqb x b then (k', v) :: sub b m else sub b m.
  Proof. unfold SparseSpec.sub. simpl. destruct (Bool.eqb x b); reflexivity. Qed.
  Lemma sub_cons_nil b v (m : smap) : sub b (([], v) :: m) = sub b m.
  Proof. reflexivity. Qed.

  Lemma In_sub b k' v (m : smap) : In (k', v) (sub b m) <-> In (b :: k', v) m.
  Proof.
    induction m as [|[[|x k] w] m IH].
    - simpl. tauto.
    - rewrite sub_cons_nil. simpl. rewrite IH. split; [tauto|]. intros [H|H]; [discriminate|exact H].
    - rewrite sub_cons. destruct (Bool.eqb x b) eqn:E.
      + apply eqb_prop in E. subst x. simpl. rewrite IH. split; intros [H|H]; auto; inversion H; subst; auto.
      + simpl. rewrite IH. split; [tauto|]. intros [H|H]; [|exact H].
        injection H as -> _ _. rewrite eqb_reflx in E. discriminate.
  Qed.

  Lemma In_sub_fst b k' (m : smap) : In k' (map fst (sub b m)) <-> In (b :: k') (map fst m).
  Proof.
    rewrite !in_map_iff. split.
    - intros [[k v] [E H]]. simpl in E. subst k. apply In_sub in H. exists (b :: k', v). auto.
    - intros [[k v] [E H]]. simpl in E. subst k. apply In_sub in H. exists (k', v). auto.
  Qed.

  Definition swf (d : nat) (m : smap) : Prop :=
    NoDup (map fst m) /\ Forall (fun e => length (fst e) = d) m.

  Lemma swf_wf d m : swf d m <-> wf_map d m.
  Proof. reflexivity. Qed.

  Lemma swf_nil d : swf d [].
  Proof. split; constructor. Qed.

  Lemma swf_sub d b (m : smap) : swf (S d) m -> swf d (sub b m).
  Proof.
    intros [Hnd Hlen]. split.
    - induction m as [|[[|x k] w] m IH].
      + constructor.
      + rewrite sub_cons_nil. apply IH; [inversion Hnd; assumption | inversion Hlen; assumption].
      + rewrite sub_cons. inversion Hnd as [|? ? Hni Hnd']; subst. inversion Hlen; subst.
        destruct (Bool.eqb x b) eqn:E; [|apply IH; assumption].
        apply eqb_prop in E. subst x. simpl. constructor; [|apply IH; assumption].
        intros Hin. apply In_sub_fst in Hin. apply Hni. exact Hin.
    - apply Forall_forall. intros [k v] Hin. apply In_sub in Hin.
      rewrite Forall_forall in Hlen. specialize (Hlen _ Hin). simpl in *. lia.
  Qed.

  Lemma sub_length_sum d (m : smap) :
    Forall (fun e => length (fst e) = S d) m -> length (sub false m) + length (sub true m) = length m.
  Proof.
    induction m as [|[[|x k] w] m IH]; intros H.
    - reflexivity.
    - inversion H; subst. simpl in *. discriminate.
    - inversion H; subst. rewrite !sub_cons. specialize (IH H3). destruct x; simpl; lia.
  Qed.

  (* keys of length 0: at most one entry *)
  Lemma swf_zero_small (m : smap) : swf 0 m -> length m <= 1.
  Proof.
    intros [Hnd Hlen]. destruct m as [|[k v] [|[k' v'] m]]; simpl; try lia.
    exfalso. inversion Hlen as [|? ? Hk Hl']; subst. inversion Hl' as [|? ? Hk' _]; subst.
    simpl in *. destruct k; [|discriminate]. destruct k'; [|discriminate].
    inversion Hnd as [|? ? Hni _]; subst. apply Hni. left. reflexivity.
  Qed.

  (* ================================================================ map operations *)
  Lemma m_del_cons k k' v (m : smap) :
    m_del k ((k', v) :: m) = if key_eqb k' k then m_del k m else (k', v) :: m_del k m.
  Proof. unfold m_del. simpl. destruct (key_eqb k' k); reflexivity. Qed.

  Lemma In_m_del k e (m : smap) : In e (m_del k m) <-> In e m /\ fst e <> k.
  Proof.
    unfold m_del. rewrite filter_In. rewrite negb_true_iff, key_eqb_neq. tauto.
  Qed.

  Lemma swf_m_del d k (m : smap) : swf d m -> swf d (m_del k m).
  Proof.
    intros [Hnd Hlen]. split.
    - induction m as [|[k' v] m IH]; [constructor|].
      rewrite m_del_cons. inversion Hnd as [|? ? Hni Hnd']; subst. inversion Hlen; subst.
      destruct (key_eqb k' k); [apply IH; assumption|].
      simpl. constructor; [|apply IH; assumption].
      intros Hin. apply Hni. apply in_map_iff in Hin as [e [E Hin]]. apply In_m_del in Hin as [Hin _].
      apply in_map_iff. exists e. auto.
    - apply Forall_forall. intros e Hin. apply In_m_del in Hin as [Hin _].
      rewrite Forall_forall in Hlen. auto.
  Qed.

  Lemma m_del_notin_fst k (m : smap) : ~ In k (map fst (m_del k m)).
  Proof.
    intros Hin. apply in_map_iff in Hin as [e [E Hin]]. apply In_m_del in Hin as [_ Hne]. congruence.
  Qed.

  Lemma swf_m_set d k v (m : smap) : length k = d -> swf d m -> swf d (m_set k v m).
  Proof.
    intros Hk Hwf. pose proof (swf_m_del d k m Hwf) as [Hnd Hlen]. split.
    - unfold m_set. simpl. constructor; [apply m_del_notin_fst | exact Hnd].
    - unfold m_set. constructor; [exact Hk | exact Hlen].
  Qed.

  Lemma sub_m_del_same b k' (m : smap) : sub b (m_del (b :: k') m) = m_del k' (sub b m).
  Proof.
    induction m as [|[[|x k] w] m IH].
    - reflexivity.
    - rewrite m_del_cons. simpl key_eqb. cbv iota. rewrite !sub_cons_nil. exact IH.
    - rewrite m_del_cons. simpl key_eqb. destruct (Bool.eqb x b) eqn:E.
      + apply eqb_prop in E. subst x. simpl andb. rewrite sub_cons, eqb_reflx.
        rewrite m_del_cons. destruct (key_eqb k k'); [exact IH|].
        rewrite sub_cons, eqb_reflx. f_equal. exact IH.
      + simpl andb. cbv iota. rewrite !sub_cons, E. exact IH.
  Qed.

  Lemma sub_m_del_other b k' (m : smap) : sub (negb b) (m_del (b :: k') m) = sub (negb b) m.
  Proof.
    induction m as [|[[|x k] w] m IH].
    - reflexivity.
    - rewrite m_del_cons. simpl key_eqb. cbv iota. rewrite !sub_cons_nil. exact IH.
    - rewrite m_del_cons. simpl key_eqb. destruct (Bool.eqb x b) eqn:E.
      + apply eqb_prop in E. subst x. simpl andb. rewrite sub_cons.
        assert (Bool.eqb b (negb b) = false) as -> by (destruct b; reflexivity).
        destruct (key_eqb k k'); [exact IH|]. rewrite sub_cons.
        assert (Bool.eqb b (negb b) = false) as -> by (destruct b; reflexivity). exact IH.
      + simpl andb. cbv iota. rewrite !sub_cons. rewrite IH. reflexivity.
  Qed.

  Lemma sub_m_set_same b k' v (m : smap) : sub b (m_set (b :: k') v m) = m_set k' v (sub b m).
  Proof. unfold m_set. rewrite sub_cons, eqb_reflx, sub_m_del_same. reflexivity. Qed.
  Lemma sub_m_set_other b k' v (m : smap) : sub (negb b) (m_set (b :: k') v m) = sub (negb b) m.
  Proof.
    unfold m_set. rewrite sub_cons.
    assert (Bool.eqb b (negb b) = false) as -> by (destruct b; reflexivity).
    apply sub_m_del_other.
  Qed.

  Lemma m_del_length_ge (m : smap) k : NoDup (map fst m) -> length m <= S (length (m_del k m)).
  Proof.
    induction m as [|[k' v] m IH]; intros Hnd; [simpl; lia|].
    inversion Hnd as [|? ? Hni Hnd']; subst. rewrite m_del_cons.
    destruct (key_eqb k' k) eqn:E.
    - apply key_eqb_eq in E. subst k'.
      assert (m_del k m = m) as ->; [|simpl; lia].
      unfold m_del. clear IH Hnd Hnd'. induction m as [|[k2 v2] m IH]; [reflexivity|].
      simpl in *. destruct (key_eqb k2 k) eqn:E2.
      + apply key_eqb_eq in E2. subst. exfalso. apply Hni. left. reflexivity.
      + simpl. f_equal. apply IH. intros H. apply Hni. right. exact H.
    - simpl. specialize (IH Hnd'). lia.
  Qed.

  Lemma m_get_In (m : smap) k v : NoDup (map fst m) -> (m_get m k = Some v <-> In (k, v) m).
  Proof.
    induction m as [|[k' v'] m IH]; intros Hnd; simpl.
    - split; [discriminate | tauto].
    - inversion Hnd as [|? ? Hni Hnd']; subst. destruct (key_eqb k' k) eqn:E.
      + apply key_eqb_eq in E. subst k'. split.
        * intros H. injection H as ->. left. reflexivity.
        * intros [H|H]; [congruence|]. exfalso. apply Hni. apply in_map_iff. exists (k, v). auto.
      + rewrite (IH Hnd'). apply key_eqb_neq in E. split; [tauto|]. intros [H|H]; [congruence | exact H].
  Qed.

  Lemma m_get_None (m : smap) k : m_get m k = None <-> ~ In k (map fst m).
  Proof.
    induction m as [|[k' v'] m IH]; simpl.
    - tauto.
    - destruct (key_eqb k' k) eqn:E.
      + apply key_eqb_eq in E. subst. split; [discriminate|]. intros H. exfalso. apply H. left. reflexivity.
      + rewrite IH. apply key_eqb_neq in E. tauto.
  Qed.

  Lemma m_get_m_del k k' (m : smap) : m_get (m_del k m) k' = if key_eqb k k' then None else m_get m k'.
  Proof.
    induction m as [|[k2 v2] m IH]; simpl.
    - destruct (key_eqb k k'); reflexivity.
    - fold (m_del k m). destruct (key_eqb k2 k) eqn:E2; simpl.
      + apply key_eqb_eq in E2. subst k2. rewrite IH. destruct (key_eqb k k'); reflexivity.
      + destruct (key_eqb k2 k') eqn:E3.
        * apply key_eqb_eq in E3. subst k2. rewrite key_eqb_sym, E2. reflexivity.
        * exact IH.
  Qed.
  Lemma m_get_m_set k v k' (m : smap) : m_get (m_set k v m) k' = if key_eqb k k' then Some v else m_get m k'.
  Proof.
    unfold m_set. simpl. destruct (key_eqb k k') eqn:E; [reflexivity|]. rewrite m_get_m_del, E. reflexivity.
  Qed.

  (* ================================================================ build / sroot *)
  Lemma build_small d (m : smap) :
    length m <= 1 -> build d m = match m with [] => CE | (k, v) :: _ => CL k v end.
  Proof.
    destruct m as [|[k v] [|e2 m]]; simpl; intros H; try lia; destruct d; reflexivity.
  Qed.

  Lemma build_nil d : build d [] = CE.
  Proof. destruct d; reflexivity. Qed.
  Lemma build_single d k v : build d [(k, v)] = CL k v.
  Proof. destruct d; reflexivity. Qed.

  Lemma build_big d (m : smap) :
    2 <= length m -> build (S d) m = CN (build d (sub false m)) (build d (sub true m)).
  Proof. destruct m as [|[k v] [|e2 m]]; simpl; intros H; try lia. reflexivity. Qed.

  Lemma build_shape d (m : smap) : swf d m ->
    (build d m = CE <-> m = []) /\ (forall k v, build d m = CL k v <-> m = [(k, v)]).
  Proof.
    intros Hwf. destruct m as [|[k v] [|e2 m]].
    - destruct d; simpl; (split; [tauto | intros; split; discriminate]).
    - destruct d; simpl; (split; [split; discriminate|]); intros k' v'; split; intros H; congruence.
    - destruct d.
      + apply swf_zero_small in Hwf. simpl in Hwf. lia.
      + simpl. split; [split; discriminate|]. intros; split; discriminate.
  Qed.

  (* ================================================================ insert *)
  Lemma c_split_build d : forall k1 (v1 : V) k2 v2, length k1 = d -> length k2 = d -> k1 <> k2 ->
    c_split k1 v1 k2 v2 = build d [(k1, v1); (k2, v2)].
  Proof.
    induction d as [|d IH]; intros k1 v1 k2 v2 H1 H2 Hne.
    - destruct k1; [|discriminate]. destruct k2; [|discriminate]. congruence.
    - destruct k1 as [|b1 r1]; [discriminate|]. destruct k2 as [|b2 r2]; [discriminate|].
      injection H1 as H1. injection H2 as H2.
      rewrite build_big by (simpl; lia). cbn [c_split]. rewrite !sub_cons.
      destruct b1, b2; cbn [Bool.eqb SparseSpec.sub flat_map app];
        rewrite ?build_nil, ?build_single; try reflexivity.
      + rewrite IH; auto. congruence.
      + rewrite IH; auto. congruence.
  Qed.

  Lemma c_insert_build d : forall k (v : V) (m : smap), swf d m -> length k = d ->
    c_insert k v (build d m) = build d (m_set k v m).
  Proof.
    induction d as [|d IH]; intros k v m Hwf Hk.
    - pose proof (swf_zero_small m Hwf) as Hs. destruct k; [|discriminate].
      destruct m as [|[k' v'] [|e2 m]]; simpl in Hs; try lia.
      + reflexivity.
      + destruct Hwf as [_ Hl]. inversion Hl; subst. simpl in *. destruct k'; [|discriminate]. reflexivity.
    - destruct m as [|[k' v'] [|e2 m]].
      + unfold m_set. cbn. reflexivity.
      + cbn [SparseFun.build c_insert]. unfold m_set. rewrite m_del_cons. cbn [m_del filter].
        rewrite (key_eqb_sym k' k). destruct (key_eqb k k') eqn:E; [reflexivity|].
        apply key_eqb_neq in E. destruct Hwf as [_ Hl]. inversion Hl as [|? ? Hk' _]; subst. simpl in Hk'.
        change (c_split k v k' v' = build (S d) [(k, v); (k', v')]). apply c_split_build; auto.
      + assert (2 <= length ((k', v') :: e2 :: m)) as Hbig by (simpl; lia).
        rewrite build_big by exact Hbig.
        assert (2 <= length (m_set k v ((k', v') :: e2 :: m))) as Hbig'.
        { unfold m_set. pose proof (m_del_length_ge ((k', v') :: e2 :: m) k (proj1 Hwf)). simpl in *. lia. }
        rewrite build_big by exact Hbig'.
        destruct k as [|b kr]; [discriminate|]. injection Hk as Hk.
        destruct b; cbn [c_insert].
        * rewrite (IH kr v (sub true _)) by (auto using swf_sub).
          rewrite sub_m_set_same. rewrite (sub_m_set_other true). reflexivity.
        * rewrite (IH kr v (sub false _)) by (auto using swf_sub).
          rewrite sub_m_set_same. rewrite (sub_m_set_other false). reflexivity.
  Qed.

  (* ================================================================ delete *)
  Lemma mk_node_build d (m : smap) : swf (S d) m ->
    mk_node (build d (sub false m)) (build d (sub true m)) = build (S d) m.
  Proof.
    intros Hwf. pose proof (sub_length_sum d m (proj2 Hwf)) as Hsum.
    pose proof (swf_sub d false m Hwf) as Hwl. pose proof (swf_sub d true m Hwf) as Hwr.
    destruct (build_shape d _ Hwl) as [HlE HlL]. destruct (build_shape d _ Hwr) as [HrE HrL].
    destruct (le_lt_dec 2 (length m)) as [Hbig|Hsmall].
    - rewrite build_big by exact Hbig.
      destruct (build d (sub false m)) as [|kl vl|] eqn:El; destruct (build d (sub true m)) as [|kr vr|] eqn:Er;
        try reflexivity; exfalso.
      + rewrite (proj1 HlE eq_refl), (proj1 HrE eq_refl) in Hsum. simpl in Hsum. lia.
      + rewrite (proj1 HlE eq_refl), (proj1 (HrL _ _) eq_refl) in Hsum. simpl in Hsum. lia.
      + rewrite (proj1 (HlL _ _) eq_refl), (proj1 HrE eq_refl) in Hsum. simpl in Hsum. lia.
    - destruct m as [|[k v] [|e2 m]]; simpl in Hsmall; try lia.
      + simpl. destruct d; reflexivity.
      + destruct Hwf as [_ Hl]. inversion Hl; subst. simpl in *. destruct k as [|b kr]; [discriminate|].
        destruct b, d; reflexivity.
  Qed.

  Lemma c_delete_build d : forall k (m : smap), swf d m -> length k = d ->
    c_delete k (build d m) = build d (m_del k m).
  Proof.
    induction d as [|d IH]; intros k m Hwf Hk.
    - pose proof (swf_zero_small m Hwf) as Hs. destruct k; [|discriminate].
      destruct m as [|[k' v'] [|e2 m]]; simpl in Hs; try lia.
      + reflexivity.
      + destruct Hwf as [_ Hl]. inversion Hl; subst. simpl in *. destruct k'; [|discriminate]. reflexivity.
    - destruct m as [|[k' v'] [|e2 m]].
      + reflexivity.
      + cbn [SparseFun.build c_delete]. rewrite m_del_cons. cbn [m_del filter].
        rewrite (key_eqb_sym k' k). destruct (key_eqb k k'); reflexivity.
      + rewrite build_big by (simpl; lia).
        destruct k as [|b kr]; [discriminate|]. injection Hk as Hk.
        pose proof (swf_m_del (S d) (b :: kr) _ Hwf) as Hwf'.
        rewrite <- (mk_node_build d _ Hwf').
        destruct b; cbn [c_delete].
        * rewrite (IH kr (sub true _)) by (auto using swf_sub).
          rewrite sub_m_del_same. rewrite (sub_m_del_other true). reflexivity.
        * rewrite (IH kr (sub false _)) by (auto using swf_sub).
          rewrite sub_m_del_same. rewrite (sub_m_del_other false). reflexivity.
  Qed.

  (* ================================================================ lookup *)
  Lemma m_get_sub b k' (m : smap) : m_get (sub b m) k' = m_get m (b :: k').
  Proof.
    induction m as [|[[|x k] w] m IH].
    - reflexivity.
    - rewrite sub_cons_nil. simpl. exact IH.
    - rewrite sub_cons. simpl. destruct (Bool.eqb x b) eqn:E; simpl; rewrite IH; reflexivity.
  Qed.

  Lemma c_get_build d : forall k (m : smap), swf d m -> length k = d -> c_get k (build d m) = m_get m k.
  Proof.
    induction d as [|d IH]; intros k m Hwf Hk.
    - pose proof (swf_zero_small m Hwf) as Hs.
      destruct m as [|[k' v'] [|e2 m]]; simpl in Hs; try lia; simpl; [reflexivity|].
      rewrite (key_eqb_sym k' k). destruct (key_eqb k k'); reflexivity.
    - destruct m as [|[k' v'] [|e2 m]].
      + reflexivity.
      + simpl. rewrite (key_eqb_sym k' k). destruct (key_eqb k k'); reflexivity.
      + rewrite build_big by (simpl; lia). destruct k as [|b kr]; [discriminate|]. injection Hk as Hk.
        destruct b; cbn [c_get]; rewrite IH by (auto using swf_sub); apply m_get_sub.
  Qed.

  (* ================================================================ histories: C12 (a) *)
  Definition ops_wf (D : nat) (ops : list (@mop V)) : Prop := Forall (fun o => length (mop_key o) = D) ops.

  Lemma fold_build D (ops : list (@mop V)) : ops_wf D ops ->
    forall m, swf D m ->
      fold_left c_step ops (build D m) = build D (fold_left m_step ops m) /\ swf D (fold_left m_step ops m).
  Proof.
    induction 1 as [|o ops Ho _ IH]; intros m Hm.
    - simpl. auto.
    - simpl. destruct o as [k v|k]; simpl in Ho.
      + cbn [c_step m_step]. rewrite c_insert_build by assumption. apply IH. apply swf_m_set; assumption.
      + cbn [c_step m_step]. rewrite c_delete_build by assumption. apply IH. apply swf_m_del; assumption.
  Qed.

End Maps.

Section Proofs.
  Context {V Dg : Type}.
  Variable zero : Dg.
  Variable hleaf : key -> V -> Dg.
  Variable hnode : Dg -> Dg -> Dg.

  Notation smap := (@smap V).
  Notation sub := (@sub V).
  Notation sroot := (sroot zero hleaf hnode).
  Notation c_root := (c_root zero hleaf hnode).
  Notation build := (@build V).

  Lemma c_root_build d : forall pre (m : smap), c_root pre (build d m) = sroot d pre m.
  Proof.
    induction d as [|d IH]; intros pre m.
    - destruct m as [|[k v] [|e2 m]]; reflexivity.
    - destruct m as [|[k v] [|e2 m]]; try reflexivity.
      cbn [SparseFun.build SparseSpec.sroot SparseFun.c_root]. rewrite !IH. reflexivity.
  Qed.


  Theorem fun_root_is_spec_root D (ops : list (@mop V)) : ops_wf D ops ->
    c_root [] (fold_left c_step ops CE) = smt_root zero hleaf hnode D (map_after ops)
    /\ wf_map D (map_after ops).
  Proof.
    intros Hops. destruct (fold_build D ops Hops [] (swf_nil D)) as [E Hwf].
    rewrite build_nil in E. rewrite E. split; [apply c_root_build | exact Hwf].
  Qed.

  Theorem fun_get_is_map_get D (ops : list (@mop V)) k : ops_wf D ops -> length k = D ->
    c_get k (fold_left c_step ops CE) = m_get (map_after ops) k.
  Proof.
    intros Hops Hk. destruct (fold_build D ops Hops [] (swf_nil D)) as [E Hwf].
    rewrite build_nil in E. rewrite E. apply c_get_build; assumption.
  Qed.

  (* ================================================================ the root depends only on the map *)
  Lemma sub_perm b (m m' : smap) : Permutation m m' -> Permutation (sub b m) (sub b m').
  Proof. intros H. unfold SparseSpec.sub. apply Permutation_flat_map. exact H. Qed.

  Lemma sroot_perm d : forall pre (m m' : smap), Permutation m m' -> sroot d pre m = sroot d pre m'.
  Proof.
    induction d as [|d IH]; intros pre m m' HP.
    - pose proof (Permutation_length HP) as HL.
      destruct m as [|[k v] [|e2 m]].
      + apply Permutation_nil in HP. subst. reflexivity.
      + apply Permutation_length_1_inv in HP. subst. reflexivity.
      + destruct m' as [|[k' v'] [|e2' m']]; simpl in HL; try lia. reflexivity.
    - pose proof (Permutation_length HP) as HL.
      destruct m as [|[k v] [|e2 m]].
      + apply Permutation_nil in HP. subst. reflexivity.
      + apply Permutation_length_1_inv in HP. subst. reflexivity.
      + destruct m' as [|[k' v'] [|e2' m']]; simpl in HL; try lia.
        cbn [SparseSpec.sroot].
        rewrite (IH _ _ _ (sub_perm false _ _ HP)), (IH _ _ _ (sub_perm true _ _ HP)). reflexivity.
  Qed.

  Lemma same_get_perm (m m' : smap) :
    NoDup (map fst m) -> NoDup (map fst m') -> (forall k, m_get m k = m_get m' k) -> Permutation m m'.
  Proof.
    intros H1 H2 Hg. apply NoDup_Permutation.
    - apply NoDup_map_inv with (f := fst). exact H1.
    - apply NoDup_map_inv with (f := fst). exact H2.
    - intros [k v]. rewrite <- (m_get_In m k v H1), <- (m_get_In m' k v H2), Hg. tauto.
  Qed.

  Theorem smt_root_extensional D (m m' : smap) :
    wf_map D m -> wf_map D m' -> (forall k, m_get m k = m_get m' k) ->
    smt_root zero hleaf hnode D m = smt_root zero hleaf hnode D m'.
  Proof.
    intros [H1 _] [H2 _] Hg. apply sroot_perm. apply same_get_perm; assumption.
  Qed.

  Theorem history_order_independent D (ops1 ops2 : list (@mop V)) :
    ops_wf D ops1 -> ops_wf D ops2 ->
    (forall k, m_get (map_after ops1) k = m_get (map_after ops2) k) ->
    c_root [] (fold_left c_step ops1 CE) = c_root [] (fold_left c_step ops2 CE).
  Proof.
    intros H1 H2 Hg.
    destruct (fun_root_is_spec_root D ops1 H1) as [-> W1].
    destruct (fun_root_is_spec_root D ops2 H2) as [-> W2].
    apply smt_root_extensional; assumption.
  Qed.

  Lemma c_sides_build d : forall pre ks (m : smap), swf d m -> length ks = d ->
    c_sides zero hleaf hnode pre ks (build d m) = SparseSpec.spec_sides zero hleaf hnode d pre ks m.
  Proof.
    induction d as [|d IH]; intros pre ks m Hwf Hk.
    - pose proof (swf_zero_small m Hwf) as Hs.
      destruct m as [|[k v] [|e2 m]]; simpl in Hs; try lia; destruct ks; reflexivity.
    - destruct m as [|[k v] [|e2 m]].
      + destruct ks; reflexivity.
      + destruct ks; reflexivity.
      + rewrite build_big by (simpl; lia). destruct ks as [|b ks]; [discriminate|]. injection Hk as Hk.
        cbn [SparseSpec.spec_sides]. destruct b; cbn [c_sides negb]; rewrite c_root_build;
          rewrite IH by (auto using swf_sub); reflexivity.
  Qed.

  Lemma c_terminal_build d : forall pre ks (m : smap), swf d m -> length ks = d ->
    c_terminal pre ks (build d m) = spec_terminal d pre ks m.
  Proof.
    induction d as [|d IH]; intros pre ks m Hwf Hk.
    - pose proof (swf_zero_small m Hwf) as Hs.
      destruct m as [|[k v] [|e2 m]]; simpl in Hs; try lia; destruct ks; reflexivity.
    - destruct m as [|[k v] [|e2 m]].
      + destruct ks; reflexivity.
      + destruct ks; reflexivity.
      + rewrite build_big by (simpl; lia). destruct ks as [|b ks]; [discriminate|]. injection Hk as Hk.
        cbn [SparseSpec.spec_terminal]. destruct b; cbn [c_terminal]; rewrite IH by (auto using swf_sub); reflexivity.
  Qed.

  (* ================================================================ C14 at spec level *)
  Notation path_root := (path_root hnode).
  Notation xleaf_hash := (xleaf_hash zero hleaf).
  Notation spec_sides := (spec_sides zero hleaf hnode).

  Lemma app_snoc_assoc (pre : key) b ks : (pre ++ [b]) ++ ks = pre ++ b :: ks.
  Proof. rewrite <- app_assoc. reflexivity. Qed.

  (* ---- completeness: the siblings along the key recompute the root *)
  Lemma spec_path_complete d : forall pre ks (m : smap), swf d m -> length ks = d ->
    path_root ks (spec_sides d pre ks m) (xleaf_hash (spec_terminal d pre ks m)) = Some (sroot d pre m).
  Proof.
    induction d as [|d IH]; intros pre ks m Hwf Hk.
    - pose proof (swf_zero_small m Hwf) as Hs.
      destruct m as [|[k v] [|e2 m]]; simpl in Hs; try lia; reflexivity.
    - destruct m as [|[k v] [|e2 m]]; try reflexivity.
      destruct ks as [|b ks]; [discriminate|]. injection Hk as Hk.
      cbn [SparseSpec.spec_sides SparseSpec.spec_terminal SparseSpec.path_root SparseSpec.sroot].
      rewrite (IH (pre ++ [b]) ks (sub b _)) by (auto using swf_sub).
      destruct b; reflexivity.
  Qed.

  Lemma spec_terminal_present d : forall pre ks (m : smap) v, swf d m -> length ks = d ->
    m_get m ks = Some v -> spec_terminal d pre ks m = XLeaf (pre ++ ks) v.
  Proof.
    induction d as [|d IH]; intros pre ks m v Hwf Hk Hg.
    - pose proof (swf_zero_small m Hwf) as Hs.
      destruct m as [|[k w] [|e2 m]]; simpl in Hs; try lia; simpl in Hg; [discriminate|].
      destruct (key_eqb k ks) eqn:E; [|discriminate]. apply key_eqb_eq in E. subst. injection Hg as ->. reflexivity.
    - destruct m as [|[k w] [|e2 m]].
      + discriminate.
      + simpl in Hg. destruct (key_eqb k ks) eqn:E; [|discriminate]. apply key_eqb_eq in E. subst.
        injection Hg as ->. reflexivity.
      + destruct ks as [|b ks]; [discriminate|]. injection Hk as Hk.
        cbn [SparseSpec.spec_terminal]. rewrite (IH (pre ++ [b]) ks (sub b _) v); auto using swf_sub.
        * rewrite app_snoc_assoc. reflexivity.
        * rewrite m_get_sub. exact Hg.
  Qed.

  Lemma spec_terminal_absent d : forall pre ks (m : smap), swf d m -> length ks = d ->
    m_get m ks = None ->
    match spec_terminal d pre ks m with
    | XPlaceholder => True
    | XLeaf k' _ => k' <> pre ++ ks
    end.
  Proof.
    induction d as [|d IH]; intros pre ks m Hwf Hk Hg.
    - pose proof (swf_zero_small m Hwf) as Hs.
      destruct m as [|[k w] [|e2 m]]; simpl in Hs; try lia; simpl in *; [exact I|].
      destruct (key_eqb k ks) eqn:E; [discriminate|]. apply key_eqb_neq in E.
      intros H. apply app_inv_head in H. contradiction.
    - destruct m as [|[k w] [|e2 m]].
      + exact I.
      + simpl in *. destruct (key_eqb k ks) eqn:E; [discriminate|]. apply key_eqb_neq in E.
        intros H. apply app_inv_head in H. contradiction.
      + destruct ks as [|b ks]; [discriminate|]. injection Hk as Hk.
        cbn [SparseSpec.spec_terminal].
        specialize (IH (pre ++ [b]) ks (sub b ((k, w) :: e2 :: m)) (swf_sub d b _ Hwf) Hk).
        rewrite m_get_sub in IH. specialize (IH Hg). rewrite app_snoc_assoc in IH. exact IH.
  Qed.

  Lemma spec_terminal_length d : forall pre ks (m : smap), swf d m -> length ks = d ->
    match spec_terminal d pre ks m with
    | XLeaf k' _ => length k' = (length pre + d)%nat
    | XPlaceholder => True
    end.
  Proof.
    induction d as [|d IH]; intros pre ks m Hwf Hk.
    - pose proof (swf_zero_small m Hwf) as Hs.
      destruct m as [|[k w] [|e2 m]]; simpl in Hs; try lia; simpl; [exact I|].
      destruct Hwf as [_ Hl]. inversion Hl; subst. simpl in *. rewrite app_length. lia.
    - destruct m as [|[k w] [|e2 m]].
      + exact I.
      + simpl. destruct Hwf as [_ Hl]. inversion Hl; subst. simpl in *. rewrite app_length. lia.
      + destruct ks as [|b ks]; [discriminate|]. injection Hk as Hk.
        cbn [SparseSpec.spec_terminal].
        specialize (IH (pre ++ [b]) ks (sub b ((k, w) :: e2 :: m)) (swf_sub d b _ Hwf) Hk).
        destruct (spec_terminal d (pre ++ [b]) ks (sub b ((k, w) :: e2 :: m))); [|exact I].
        rewrite IH, app_length. simpl. lia.
  Qed.

  Theorem spec_incl_complete D (m : smap) k v : wf_map D m -> length k = D -> m_get m k = Some v ->
    spec_verify_incl hleaf hnode (smt_root zero hleaf hnode D m) k v (rev (spec_sides D [] k m)).
  Proof.
    intros Hwf Hk Hg. unfold spec_verify_incl. rewrite rev_involutive.
    pose proof (spec_path_complete D [] k m Hwf Hk) as H.
    rewrite (spec_terminal_present D [] k m v Hwf Hk Hg) in H. exact H.
  Qed.

  Theorem spec_excl_complete D (m : smap) k : wf_map D m -> length k = D -> m_get m k = None ->
    spec_verify_excl zero hleaf hnode (smt_root zero hleaf hnode D m) k (rev (spec_sides D [] k m))
                     (spec_terminal D [] k m).
  Proof.
    intros Hwf Hk Hg. unfold spec_verify_excl. rewrite rev_involutive. split.
    - pose proof (spec_terminal_absent D [] k m Hwf Hk Hg) as H.
      destruct (spec_terminal D [] k m); [exact H | exact I].
    - apply (spec_path_complete D [] k m Hwf Hk).
  Qed.

  (* ---- soundness under collision-freeness, for ARBITRARY side-node lists *)
  Hypothesis Hok : hash_ok zero hleaf hnode.

  Lemma path_sound : forall sides d pre ks (m : smap) cur, swf d m -> length ks = d ->
    path_root ks sides cur = Some (sroot d pre m) ->
    (forall v, cur = hleaf (pre ++ ks) v -> m_get m ks = Some v) /\
    (cur = zero \/ (exists k' v', cur = hleaf k' v' /\ k' <> pre ++ ks) -> m_get m ks = None).
  Proof.
    destruct Hok as [Hli [Hni [Hln [Hlz Hnz]]]].
    induction sides as [|s sides IH]; intros d pre ks m cur Hwf Hk Hp.
    - simpl in Hp. injection Hp as Hp.
      destruct m as [|[k1 v1] [|e2 m]].
      + (* empty *) split.
        * intros v E. rewrite E in Hp. destruct d; simpl in Hp; exfalso; eapply Hlz; eauto.
        * intros _. reflexivity.
      + (* singleton *) assert (sroot d pre [(k1, v1)] = hleaf (pre ++ k1) v1) as Es by (destruct d; reflexivity).
        rewrite Es in Hp. split.
        * intros v E. rewrite E in Hp. apply Hli in Hp as [E1 E2]. apply app_inv_head in E1. subst.
          simpl. rewrite key_eqb_refl. reflexivity.
        * intros [E|[k' [v' [E Hne]]]]; rewrite E in Hp.
          -- exfalso. symmetry in Hp. eapply Hlz; eauto.
          -- apply Hli in Hp as [E1 E2]. subst k'. simpl.
             destruct (key_eqb k1 ks) eqn:E3; [|reflexivity]. apply key_eqb_eq in E3. subst. contradiction.
      + (* two or more *) destruct d.
        * apply swf_zero_small in Hwf. simpl in Hwf. lia.
        * cbn [SparseSpec.sroot] in Hp. split.
          -- intros v E. rewrite E in Hp. exfalso. eapply Hln; eauto.
          -- intros [E|[k' [v' [E Hne]]]]; rewrite E in Hp; exfalso.
             ++ symmetry in Hp. eapply Hnz; eauto.
             ++ eapply Hln; eauto.
    - destruct ks as [|b ks]; [discriminate|]. simpl in Hp.
      destruct (SparseSpec.path_root hnode ks sides cur) as [x|] eqn:Ex; [|discriminate].
      injection Hp as Hp. destruct d; [discriminate|]. injection Hk as Hk.
      destruct m as [|[k1 v1] [|e2 m]].
      + exfalso. simpl in Hp. destruct b; eapply Hnz; eauto.
      + exfalso. simpl in Hp. destruct b; symmetry in Hp; eapply Hln; eauto.
      + cbn [SparseSpec.sroot] in Hp.
        assert (x = sroot d (pre ++ [b]) (sub b ((k1, v1) :: e2 :: m))) as Ex'.
        { destruct b; apply Hni in Hp as [E1 E2]; assumption. }
        subst x.
        destruct (IH d (pre ++ [b]) ks (sub b ((k1, v1) :: e2 :: m)) cur (swf_sub d b _ Hwf) Hk Ex) as [I1 I2].
        rewrite app_snoc_assoc in I1, I2. rewrite m_get_sub in I1, I2. split; assumption.
  Qed.

  Theorem spec_incl_sound D (m : smap) k v ps : wf_map D m -> length k = D ->
    spec_verify_incl hleaf hnode (smt_root zero hleaf hnode D m) k v ps -> m_get m k = Some v.
  Proof.
    intros Hwf Hk Hv. destruct (path_sound (rev ps) D [] k m _ Hwf Hk Hv) as [H _]. apply H. reflexivity.
  Qed.

  Theorem spec_excl_sound D (m : smap) k ps l : wf_map D m -> length k = D ->
    spec_verify_excl zero hleaf hnode (smt_root zero hleaf hnode D m) k ps l -> m_get m k = None.
  Proof.
    intros Hwf Hk [Hl Hv]. destruct (path_sound (rev ps) D [] k m _ Hwf Hk Hv) as [_ H]. apply H.
    destruct l as [k' v'|]; [right; exists k', v'; auto | left; reflexivity].
  Qed.
End Proofs.
