(* Merkle/SparseHistory.v — histories of insert / delete / reload on the L1 model:
   the storage invariant ("every node of the tree is in the store under its digest") is
   preserved, the root is the spec root of the map the history leaves behind, a reload
   returns the very same tree, and generate_proof returns the specification-level proof. *)
From Coq Require Import Arith.
From FV Require Import Base.Bytes Merkle.SparseSpec Merkle.SparseFun Merkle.SparseModel
  Merkle.SparseProofs Merkle.SparseRefine Merkle.SparseTree Merkle.SparseExt Merkle.SparseInsert
  Merkle.SparseDelete.
Open Scope N_scope.

(* Ord on keys as bit lists (false < true), the order BTreeMap uses on Bytes32 *)
Fixpoint bits_compare (a b : key) : comparison :=
  match a, b with
  | [], [] => Eq
  | [], _ :: _ => Lt
  | _ :: _, [] => Gt
  | x :: a', y :: b' => match x, y with
                        | false, true => Lt
                        | true, false => Gt
                        | _, _ => bits_compare a' b'
                        end
  end.

Section History.
  Context {Dg : Type} (IF : smt_iface Dg).
  Notation dg_eqb := (i_eqb IF).
  Notation zero := (i_zero IF).
  Notation hleaf := (i_hleaf IF).
  Notation hnode := (i_hnode IF).
  Notation sum := (i_sum IF).
  Notation kbit := (i_kbit IF).
  Notation kcpl := (i_kcpl IF).
  Notation bits := (i_bits IF).
  Notation of_bits := (i_of_bits IF).
  Notation shleaf := (shleaf hleaf of_bits).
  Notation root := (c_root zero shleaf hnode).
  Notation ctree := (@ctree Dg).
  Notation store := (@store Dg).
  Notation node_of := (node_of IF).
  Notation stored := (stored IF).
  Notation tree_of := (tree_of IF).
  Notation tree_insert := (tree_insert dg_eqb zero hleaf hnode sum kbit kcpl).
  Notation tree_delete := (tree_delete dg_eqb zero hleaf hnode kbit).
  Notation tree_load := (tree_load dg_eqb zero hleaf hnode).
  Notation tree_root := (tree_root zero).
  Notation generate_proof := (generate_proof dg_eqb zero hleaf hnode kbit).
  Notation smt_root := (smt_root zero shleaf hnode 256).

  (* ---------------------------------------------------------------- operations *)
  Inductive l1op :=
  | LIns (k : Dg) (data : bytes)        (* MerkleTree::insert *)
  | LDel (k : Dg)                       (* MerkleTree::delete *)
  | LLoad.                              (* into_storage(); MerkleTree::load(storage, &root) *)

  Definition l1_step (t : @tree Dg) (o : l1op) : @tree Dg * res unit :=
    match o with
    | LIns k d => tree_insert t k d
    | LDel k => tree_delete t k
    | LLoad => match tree_load (t_store t) (tree_root t) with
               | Ok t' => (t', Ok tt)
               | Err e => (t, Err e)
               end
    end.

  (* None: some operation returned an error *)
  Fixpoint l1_run (t : @tree Dg) (ops : list l1op) : option (@tree Dg) :=
    match ops with
    | [] => Some t
    | o :: r => match l1_step t o with
                | (t', Ok _) => l1_run t' r
                | (_, Err _) => None
                end
    end.

  Definition l1op_wf (o : l1op) : Prop :=
    match o with LIns k _ => length (bits k) = 256%nat | LDel k => length (bits k) = 256%nat | LLoad => True end.

  Definition mop_of (o : l1op) : list (@mop Dg) :=
    match o with
    | LIns k d => [MSet (bits k) (sum d)]
    | LDel k => [MDel (bits k)]
    | LLoad => []
    end.
  Definition mops (ops : list l1op) : list (@mop Dg) := flat_map mop_of ops.

  Definition is_load (o : l1op) : bool := match o with LLoad => true | _ => false end.

  (* ---------------------------------------------------------------- the storage invariant *)
  (* the L1 tree object [T] holds the map [m]: its root node is the node of the canonical compact
     tree of [m] and every node of that tree is in T's store under its digest *)
  Definition persisted (T : @tree Dg) (m : @smap Dg) : Prop :=
    wf_map 256 m /\ t_root T = node_of [] (build 256 m) /\ stored (t_store T) [] (build 256 m).

  Lemma persisted_tree T m : persisted T m -> T = tree_of (t_store T) (build 256 m).
  Proof. destruct T as [rt st]. unfold persisted. cbn [t_root t_store]. intros [_ [-> _]]. reflexivity. Qed.

  Lemma persisted_tree_of st m : wf_map 256 m -> stored st [] (build 256 m) -> persisted (tree_of st (build 256 m)) m.
  Proof. intros Hwf Hs. split; [exact Hwf|]. split; [reflexivity | exact Hs]. Qed.

  Lemma persisted_empty : persisted (tree_new []) [].
  Proof. split; [apply swf_nil|]. split; [reflexivity | exact I]. Qed.

  Lemma persisted_root T m : persisted T m -> tree_root T = smt_root m.
  Proof.
    intros [Hwf [E _]]. unfold SparseModel.tree_root. rewrite E.
    rewrite (node_hash_node_of IF). apply c_root_build.
  Qed.

  Lemma load_tree_of st (t : ctree) : stored st [] t -> tree_load st (root [] t) = Ok (tree_of st t).
  Proof.
    intros Hs. unfold SparseModel.tree_load. destruct t as [|k0 v0|l r] eqn:Et.
    - cbn [c_root]. rewrite (dg_refl IF). reflexivity.
    - rewrite <- Et in *. assert (t <> CE) as Hn by (rewrite Et; discriminate).
      rewrite (dg_neq IF) by (apply (root_nonzero IF); exact Hn).
      rewrite (stored_get IF _ _ _ Hs Hn), (node_of_prim_node_of IF) by exact Hn. reflexivity.
    - rewrite <- Et in *. assert (t <> CE) as Hn by (rewrite Et; discriminate).
      rewrite (dg_neq IF) by (apply (root_nonzero IF); exact Hn).
      rewrite (stored_get IF _ _ _ Hs Hn), (node_of_prim_node_of IF) by exact Hn. reflexivity.
  Qed.

  (* ---------------------------------------------------------------- C13: a reload returns the same tree *)
  Theorem reload_same T m : persisted T m -> tree_load (t_store T) (tree_root T) = Ok T.
  Proof.
    intros Hp. pose proof (persisted_tree T m Hp) as E. destruct Hp as [Hwf [Er Hs]].
    unfold SparseModel.tree_root. rewrite Er, (node_hash_node_of IF), (load_tree_of _ _ Hs). f_equal. symmetry. exact E.
  Qed.

  Lemma step_persisted T m o : persisted T m -> l1op_wf o ->
    exists T', l1_step T o = (T', Ok tt) /\ persisted T' (fold_left m_step (mop_of o) m).
  Proof.
    intros Hp Ho. pose proof (persisted_tree T m Hp) as E. pose proof Hp as [Hwf [Er Hs]].
    pose proof (cwf_build 256 m Hwf) as Hc.
    destruct o as [k d|k|]; cbn [l1_step mop_of fold_left m_step l1op_wf] in *.
    - rewrite E. destruct (tree_insert_refines IF (t_store T) (build 256 m) k d Hs Hc Ho) as [st' [E1 Hs1]].
      rewrite E1. eexists. split; [reflexivity|].
      rewrite (c_insert_build 256 (bits k) (sum d) m Hwf Ho) in *.
      apply persisted_tree_of; [apply swf_m_set; assumption | exact Hs1].
    - rewrite E. destruct (tree_delete_refines IF (t_store T) (build 256 m) k Hs Hc Ho) as [st' [E1 Hs1]].
      rewrite E1. eexists. split; [reflexivity|].
      rewrite (c_delete_build 256 (bits k) m Hwf Ho) in *.
      apply persisted_tree_of; [apply swf_m_del; assumption | exact Hs1].
    - exists T. rewrite (reload_same T m Hp). split; [reflexivity | exact Hp].
  Qed.

  Theorem run_persisted : forall ops T m, persisted T m -> Forall l1op_wf ops ->
    exists T', l1_run T ops = Some T' /\ persisted T' (fold_left m_step (mops ops) m).
  Proof.
    induction ops as [|o ops IH]; intros T m Hp Hw.
    - exists T. split; [reflexivity | exact Hp].
    - inversion Hw; subst. destruct (step_persisted T m o Hp H1) as [T1 [E1 Hp1]].
      cbn [l1_run]. rewrite E1. destruct (IH T1 _ Hp1 H2) as [T' [E' Hp']].
      exists T'. split; [exact E'|]. unfold mops. cbn [flat_map]. rewrite fold_left_app. exact Hp'.
  Qed.

  (* C12 for the L1 model: after any history the root is the spec root of the resulting map *)
  Theorem run_root ops : Forall l1op_wf ops ->
    exists T, l1_run (tree_new []) ops = Some T /\
              tree_root T = smt_root (map_after (mops ops)) /\
              persisted T (map_after (mops ops)).
  Proof.
    intros Hw. destruct (run_persisted ops (tree_new []) [] persisted_empty Hw) as [T [E Hp]].
    exists T. split; [exact E|]. split; [apply persisted_root; exact Hp | exact Hp].
  Qed.

  (* C13: reloads placed anywhere in a history change nothing *)
  Lemma step_load_id T m : persisted T m -> l1_step T LLoad = (T, Ok tt).
  Proof. intros Hp. cbn [l1_step]. rewrite (reload_same T m Hp). reflexivity. Qed.

  Theorem reload_transparent : forall ops T m, persisted T m -> Forall l1op_wf ops ->
    l1_run T ops = l1_run T (filter (fun o => negb (is_load o)) ops).
  Proof.
    induction ops as [|o ops IH]; intros T m Hp Hw; [reflexivity|].
    inversion Hw; subst. destruct (step_persisted T m o Hp H1) as [T1 [E1 Hp1]].
    destruct o as [k d|k|]; cbn [filter is_load negb l1_run].
    - rewrite E1. eapply IH; eauto.
    - rewrite E1. eapply IH; eauto.
    - rewrite (step_load_id T m Hp). eapply IH; eauto.
  Qed.

  (* ---------------------------------------------------------------- C14: generate_proof *)
  Notation inclusion_verify := (inclusion_verify dg_eqb hleaf hnode sum kbit).
  Notation exclusion_verify := (exclusion_verify dg_eqb zero hleaf hnode kbit).
  Notation spec_sides := (spec_sides zero shleaf hnode 256 []).

  Theorem generate_proof_correct T m key :
    persisted T m -> length (bits key) = 256%nat ->
    match m_get m (bits key) with
    | Some v =>
        generate_proof T key = Ok (Inclusion (rev (spec_sides (bits key) m))) /\
        (forall value, sum value = v ->
           inclusion_verify (rev (spec_sides (bits key) m)) (tree_root T) key value = Some true)
    | None =>
        generate_proof T key = Ok (Exclusion (rev (spec_sides (bits key) m)) (exl IF (spec_terminal 256 [] (bits key) m))) /\
        exclusion_verify (rev (spec_sides (bits key) m)) (exl IF (spec_terminal 256 [] (bits key) m)) (tree_root T) key = Some true
    end.
  Proof.
    intros Hp Hk. pose proof (persisted_tree T m Hp) as E. pose proof (persisted_root T m Hp) as Er.
    destruct Hp as [Hwf [_ Hs]]. pose proof (cwf_build 256 m Hwf) as Hc.
    assert (generate_proof T key = generate_proof (tree_of (t_store T) (build 256 m)) key) as Eg by (rewrite <- E; reflexivity).
    rewrite Eg, (generate_proof_td IF (t_store T) (build 256 m) key Hs Hc Hk).
    rewrite (c_get_build 256 (bits key) m Hwf Hk), (c_sides_build zero shleaf hnode 256 [] (bits key) m Hwf Hk),
      (c_terminal_build 256 [] (bits key) m Hwf Hk), Er.
    destruct (m_get m (bits key)) as [v|] eqn:Eget.
    - split; [reflexivity|]. intros value Hv.
      destruct (inclusion_verify_spec dg_eqb hleaf hnode sum kbit bits of_bits (i_eqb_spec IF) (i_kbit_spec IF) (i_of_bits_bits IF)
                  (rev (spec_sides (bits key) m)) (smt_root m) key value Hk) as [b [Eb Hb]].
      rewrite Eb. f_equal. apply Hb. rewrite Hv. apply spec_incl_complete; assumption.
    - split; [reflexivity|].
      destruct (exclusion_verify_spec dg_eqb zero hleaf hnode kbit bits of_bits (i_eqb_spec IF) (i_kbit_spec IF) (i_of_bits_bits IF)
                  (rev (spec_sides (bits key) m)) (exl IF (spec_terminal 256 [] (bits key) m)) (smt_root m) key Hk) as [b [Eb Hb]].
      rewrite Eb. f_equal. apply Hb.
      assert (xl bits (exl IF (spec_terminal 256 [] (bits key) m)) = spec_terminal 256 [] (bits key) m) as ->.
      { pose proof (spec_terminal_length 256 [] (bits key) m Hwf Hk) as Hl.
        destruct (spec_terminal 256 [] (bits key) m) as [k' v'|]; [|reflexivity].
        cbn [exl xl]. rewrite (i_bits_of_bits IF) by exact Hl. reflexivity. }
      apply spec_excl_complete; assumption.
  Qed.
End History.
